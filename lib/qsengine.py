"""Run histories on the real queue manager and have TLC judge them (spec/QSendTrace.tla)."""
import os, json, re, time
import histories
from vlib import *


def run_histories(ck, tree, hists, label="hist"):
    runs = []
    hangs = []
    ck._qs_tree = tree
    t0 = time.time()
    for h in hists:
        work = ck.scratch.sub("qs")
        import shutil
        shutil.rmtree(work, ignore_errors=True)
        r = histories.Runner(tree, work, h, ck.rng)
        try:
            res = r.run()
        except Infra as e:
            msg = str(e)
            if "no quiescence" in msg:
                # the daemon never blocks: busy loop (C16) - reported through the trace verdict below
                res = {"ev": [dict_blank("busyloop")], "left": -1, "addr": {}, "nraw": 0, "fs": []}
            elif "did not reach a gate point" in msg:
                # a process stopped making system calls for 20 s (spinning or stuck): a liveness failure that only the
                # checks whose property is about progress (C15, C16) report; elsewhere the history is set aside
                hangs.append(h.get("id"))
                log("history %s: %s" % (h.get("id"), msg))
                res = {"ev": [dict_blank("hang")], "left": -1, "addr": {}, "nraw": 0, "fs": []}
                if len(hangs) > 5:
                    raise Infra("%d histories hung: %s" % (len(hangs), hangs))
            else:
                raise Infra("history %s: %s" % (h.get("id"), msg))
        res["h"] = h
        runs.append(res)
    return runs


def dict_blank(op):
    import qsproj
    return dict(qsproj.BLANK, op=op)


def judge(ck, runs, nmax=12):
    recfile = ck.scratch.path("qs.ndjson")
    write_ndjson(recfile, [{"ev": r["ev"], "strict": 1 if r["h"].get("strict") else 0, "log": 1 if any(e["op"] == "log" for e in r["ev"]) else 0,
                            "skip": r.get("skip", [])} for r in runs])
    cfg = ck.scratch.path("QSendTrace.cfg")
    # the monitor keeps 1..NMAX messages (numbered by first appearance): never fewer than the histories use
    nmax = max([nmax] + [max(e.get("n", 0) or 0, e.get("m", 0) or 0) for r in runs for e in r["ev"]])
    with open(cfg, "w") as f:
        f.write("SPECIFICATION Spec\nCONSTANT NMAX = %d\nINVARIANT Inv\n" % nmax)
    bad, vres = tlc_validate_records("QSendTrace", cfg, recfile, len(runs), workers=NCPU, timeout=1500, heap="10g")
    out = []
    for idx, why in bad:
        m = re.match(r'"([^"]*)", (\d+)', why)
        name = m.group(1) if m else why
        detail = ""
        runs[idx - 1]["raw_verdict"] = name              # exact text (used to pass over it in a second judgement, see own_after_others)
        if "|" in name:
            name, detail = name.split("|", 1)
        out.append((idx, name, int(m.group(2)) if m else 0, detail))
    return out, vres


def describe(run, pos, width=8):
    ev = run["ev"]
    lo = max(0, pos - width)
    lines = []
    for e in ev[lo:pos]:
        lines.append({k: v for k, v in e.items() if v not in (0, "", []) or k == "op"})
    return lines


def model_configs(prop, thorough):
    """(name, cfg text) for the design-level model runs that belong to a property"""
    base = "SPECIFICATION Spec\nCONSTANTS\n NMAX = %d\n MaxMsgs = %d\n MaxRcpt = %d\n MaxCrash = %d\n MaxTime = %d\n Lossy = %s\nINVARIANT MonitorNeverObjects\nCONSTRAINT Bound\n"
    if prop in ("C03", "C04"):
        out = [("QSend-1msg-2rcpt-crash", base % (2, 1, 2, 1, 2, "FALSE")), ("QSend-1msg-2rcpt-lossy", base % (2, 1, 2, 1, 1, "TRUE"))]
        if thorough:
            out.append(("QSend-2msg", base % (3, 2, 1, 1, 1, "FALSE")))
        return out
    return [("QSend-1msg-2rcpt", base % (2, 1, 2, 0, 3, "FALSE"))]


# clauses that are a violation of more than one property
ALSO = {"C03:MarkAtUnknownRecord": ("C04",),              # a misplaced mark does not protect the finished recipient from a retry
        "C02:MessageNumberSharedByTwoMessages": ("C03",),
        "C14:BounceRecordRemovedBeforeNoticeQueued": ("C03",),
        "C03:MessageRemovedWithRecipientNeitherDeliveredNorBounced": ("C14",),
        "C15:DaemonStopsMakingProgress": ("C16",),
        "C03:FailureMarkedBeforeBounceRecordWritten": ("C14",),   # the order that keeps "names every failed recipient" true across a crash
        "C16:SleepsPastEarliestDueEvent": ("C15",),       # "retried promptly once that time has passed" when the event slept past is a retry time
        # "named, with the failure reason, in a bounce that was itself successfully queued" is part of C03's statement too
        "C14:FailedRecipientHasNoParagraph": ("C03",), "C14:FailedRecipientNotNamed": ("C03",), "C14:FailedRecipientNotNamedInBounce": ("C03",)}


def history_from_replay(hj):
    h = dict(hj)
    h["messages"] = [{"body": m["body"].encode("latin1"), "sender": m["sender"].encode("latin1"), "rcpts": [x.encode("latin1") for x in m["rcpts"]]} for m in hj["messages"]]
    h["script"] = [tuple(x) for x in hj["script"]]
    for k in ("conc", "announce"):
        if h.get(k):
            h[k] = tuple(h[k])
    return {k: v for k, v in h.items() if v is not None}


def confirmed(ck, h, why):
    """run history h once more and have it judged again: does the monitor raise the same clause?"""
    tree = getattr(ck, "_qs_tree", None)
    if tree is None or os.environ.get("VERIF_NO_RERUN"):
        return True
    try:
        if str(h.get("id", "")).startswith("wake-"):
            # a wake-up interleaving (lib/wakeup.py) is not a script of histories.Runner: run the same placement again
            import wakeup
            again = [wakeup.run_case(tree, ck.scratch.sub("wk"), list(h["script"][0][1]), h["id"].split("-")[1], seed=h.get("seed", 0))]
        else:
            again = run_histories(ck, tree, [h])
        bad2, _ = judge(ck, again)
    except Infra as e:
        log("re-run of history %s failed (%s); the objection stands" % (h.get("id"), str(e)[:200]))
        return True
    clause = ":".join(why.split(":")[:2])
    return any(":".join(w.split(":")[:2]) == clause for _, w, _, _ in bad2)


def own_after_others(ck, prop, run, accept=None):
    """a history whose first objection belongs to another property and is not a recorded finding (the tree is broken in some way):
    judge it again with that objection passed over - up to six times - and return the first objection that is this property's"""
    r = dict(run)
    skip = []
    for _ in range(6):
        if not r.get("raw_verdict"):
            return None
        skip.append(r["raw_verdict"])
        r = dict(run, skip=list(skip))
        r.pop("raw_verdict", None)
        try:
            bad2, _ = judge(ck, [r])
        except Infra:
            return None
        if not bad2:
            return None
        _, why, pos, detail = bad2[0]
        p = why.split(":")[0]
        if p == prop or prop in ALSO.get(":".join(why.split(":")[:2]), ()) or (accept is not None and (p in accept or ":".join(why.split(":")[:2]) in accept)):
            return why, pos, detail
    return None


def report(ck, prop, runs, bad, accept=None):
    """turn monitor verdicts into VIOLATION / KNOWN-FINDING, only for clauses of this property (or, for histories whose only
    unusual input belongs to this property, for the clause prefixes in `accept`)"""
    seen = set()
    other = {}
    later = []            # histories cut short by an unexplained objection of another property
    for idx, why, pos, detail in bad:
        p = why.split(":")[0]
        if accept is not None and (p in accept or ":".join(why.split(":")[:2]) in accept):
            pass
        elif p != prop and prop not in ALSO.get(":".join(why.split(":")[:2]), ()):
            other[why] = other.get(why, 0) + 1
            if not ck.kf.match(p, why + ":hist=x") and len(later) < 4:
                later.append(idx)
            if os.environ.get("VERIF_DEBUG_VERDICTS"):
                log("OTHER %s hist=%s pos=%d %s %s" % (why, runs[idx - 1]["h"].get("id"), pos, detail, [dict((k, v) for k, v in e.items() if v not in (0, "", []) and k not in ("b", "atab")) for e in runs[idx - 1]["ev"][max(0, pos - 8):pos]]))
            continue
        r = runs[idx - 1]
        h = r["h"]
        key = "%s:hist=%s" % (why, h.get("id"))
        gen = why
        if gen in seen and len(seen) > 6:
            continue
        if ck.kf.match(ck.prop, key) is None and not confirmed(ck, h, why):
            # an objection is reported only if running the same history again (same seed, hence same schedule and answers)
            # repeats it: the histories are deterministic, so what does not repeat came from the machine (load, time-outs)
            ck.cov["objections_not_repeated_when_the_history_was_run_again"] = ck.cov.get("objections_not_repeated_when_the_history_was_run_again", 0) + 1
            log("NOTE %s: history %s: %s was not repeated when the history was run again; not reported" % (prop, h.get("id"), why))
            continue
        seen.add(gen)
        hj = {"id": h.get("id"), "seed": h.get("seed"), "conc": list(h.get("conc", ())), "announce": list(h.get("announce", ())), "strict": h.get("strict", 0),
              "script": [list(x) for x in h["script"]], "outcomes": h.get("outcomes"), "kill": h.get("kill"), "fault": h.get("fault"), "lifetime": h.get("lifetime"),
              "messages": [{"body": m["body"].decode("latin1"), "sender": m["sender"].decode("latin1"), "rcpts": [x.decode("latin1") for x in m["rcpts"]]} for m in h["messages"]]}
        ck.violation(key, "history %s: event %d %s %s; last events: %s" % (h.get("id"), pos, why, detail, describe(r, pos, 6)), {"history": hj, "events": r["ev"][max(0, pos - 30):pos]})
    # the tree is broken in a way another property's check reports; does this property's statement fail in the same history further on?
    for idx in later:
        r = runs[idx - 1]
        got = own_after_others(ck, prop, r, accept)
        if got:
            why, pos, detail = got
            h = r["h"]
            if why in seen:
                continue
            seen.add(why)
            ck.violation("%s:hist=%s" % (why, h.get("id")), "history %s: event %d %s %s (after an objection of another property, %s, was passed over); last events: %s"
                         % (h.get("id"), pos, why, detail, r.get("raw_verdict"), describe(r, pos, 6)), {"history": {"id": h.get("id"), "seed": h.get("seed")}, "events": r["ev"][max(0, pos - 30):pos]})
    ck.cov["verdicts_of_other_properties_seen"] = other
    # a history is judged up to its first objection: objections that belong to another property end it early.  On the unchanged tree
    # the only ones expected are the recorded known findings; anything else is shown so that it gets looked at (it is either a
    # violation the owning check should report too, or a flaw of a monitor clause)
    unexplained = {}
    for why, cnt in other.items():
        p = why.split(":")[0]
        if not ck.kf.match(p, why + ":hist=x"):
            unexplained[why] = cnt
    ck.cov["unexplained_verdicts_of_other_properties"] = unexplained
    if unexplained:
        log("NOTE %s: histories ended early on objections of other properties that are not known findings: %s" % (prop, unexplained))
