"""C19 helpers: interactive POP3 sessions against the real qmail-pop3d / qmail-popup binaries,
maildir set-up and listing, the input domain (populations, commands, argument classes).

A session is driven command by command (write one line, read one reply) so that the harness can
remove files behind the server's back between two commands.  How much to read is decided by the
protocol only (RFC 1939): a reply is one line; after +OK to RETR/TOP and to LIST/UIDL without
argument a multi-line payload follows up to the line consisting of a lone dot; after QUIT
everything up to end of file belongs to the reply.
"""
import os, select, shutil, subprocess, time, threading

import vlib
ASUSER = os.path.join(vlib.BUILD, "standin_asuser")
UID = 54321            # unprivileged user the server runs as (the sandbox itself is root)
VERBS = ["QUIT", "STAT", "LIST", "UIDL", "DELE", "RETR", "RSET", "LAST", "TOP", "NOOP"]
POPUP_VERBS = ["USER", "PASS", "APOP", "NOOP", "QUIT"]
TWO64 = 1 << 64


class Breaker:
    """Stops a run that keeps hanging (a broken server must not cost 5 s x thousands of sessions)."""
    def __init__(self, limit=16):
        self.n = 0
        self.limit = limit
        self.lock = threading.Lock()

    def hit(self):
        with self.lock:
            self.n += 1

    @property
    def open(self):
        return self.n >= self.limit


class Conn:
    def __init__(self, proc, timeout):
        self.p = proc
        self.rfd = proc.stdout.fileno()
        self.wfd = proc.stdin.fileno()
        self.buf = b""
        self.eof = False
        self.timedout = False
        self.timeout = timeout

    def send(self, data):
        try:
            os.write(self.wfd, data)
            return True
        except OSError:
            return False

    def _fill(self, deadline):
        if self.eof or self.timedout:
            return False
        r, _, _ = select.select([self.rfd], [], [], max(deadline - time.time(), 0))
        if not r:
            self.timedout = True
            return False
        d = os.read(self.rfd, 65536)
        if not d:
            self.eof = True
            return False
        self.buf += d
        return True

    def line(self):
        """One LF-terminated line (with its line end); a partial last line at EOF; None when nothing came."""
        deadline = time.time() + self.timeout
        while True:
            i = self.buf.find(b"\n")
            if i >= 0:
                l, self.buf = self.buf[:i + 1], self.buf[i + 1:]
                return l
            if not self._fill(deadline):
                l, self.buf = self.buf, b""
                return l or None

    def rest(self):
        deadline = time.time() + self.timeout
        while self._fill(deadline):
            pass
        r, self.buf = self.buf, b""
        return r


def status(line):
    """(class, text) of a status line."""
    if line is None:
        return "none", b""
    body = line[:-2] if line.endswith(b"\r\n") else line.rstrip(b"\n")
    if body.startswith(b"+OK"):
        return "ok", body[4:] if body[3:4] == b" " else body[3:]
    if body.startswith(b"-ERR"):
        return "err", body[5:] if body[4:5] == b" " else body[4:]
    return "bad", body


def read_reply(conn, verb, arg):
    """-> dict(c, t, b).  verb: canonical verb or OTHER."""
    first = conn.line()
    c, t = status(first)
    b = b""
    if verb == "QUIT":
        cls = [] if first is None else [c]
        while True:
            l = conn.line()
            if l is None:
                break
            cls.append(status(l)[0])
        c = "none" if not cls else cls[0] if len(cls) == 1 else "mix"
    elif c == "ok" and (verb in ("RETR", "TOP") or (verb in ("LIST", "UIDL") and arg.strip(b" ") == b"")):
        while True:
            l = conn.line()
            if l is None:
                break
            b += l
            if l == b".\r\n":
                break
    return {"c": c, "t": list(t), "b": list(b)}


NONE = {"c": "none", "t": [], "b": []}


_tls = threading.local()


def thread_maildir(workdir, own):
    """One maildir per worker thread, reused between sessions (directory creation / removal is the
    expensive part on this file system); emptied before every session."""
    key = "md_own" if own else "md_root"
    md = getattr(_tls, key, None)
    if md is None:
        md = os.path.join(workdir, "%s-%d-%d" % (key, os.getpid(), threading.get_ident()))
        # the ident of a finished thread may be reused: the directory may exist already
        for d in ("", "new", "cur", "tmp"):
            os.makedirs(os.path.join(md, d), exist_ok=True)
        if own:
            for d in ("", "new", "cur", "tmp"):
                os.chown(os.path.join(md, d), UID, UID)
        setattr(_tls, key, md)
    for d in ("new", "cur", "tmp"):
        dp = os.path.join(os.fsencode(md), d.encode())
        for n in os.listdir(dp):
            os.unlink(os.path.join(dp, n))
    return md


def make_maildir(path, files, own=True):
    """files: list of dict(d, n: bytes, x: bytes, mt: int) into the (empty) maildir path."""
    for f in files:
        fp = os.path.join(os.fsencode(path), f["d"].encode(), f["n"])
        with open(fp, "wb") as fh:
            fh.write(f["x"])
        os.utime(fp, (f["mt"], f["mt"]))
        if own:
            os.chown(fp, UID, UID)


def list_maildir(path):
    out = []
    for d in ("new", "cur"):
        dp = os.path.join(os.fsencode(path), d.encode())
        for n in sorted(os.listdir(dp)):
            with open(os.path.join(dp, n), "rb") as fh:
                out.append({"d": d, "n": list(n), "x": list(fh.read())})
    return out


def canon(verb_text, table):
    v = verb_text.decode("latin-1").upper()
    return v if v in table else "OTHER"


def run_pop3d(binary, workdir, idx, job, breaker, timeout=5.0):
    """job: dict(files=[...], cmds=[(verb_text: bytes | 'XRM', arg: bytes | file index)], root=0|1).
    Returns the record (k = "d") or None when the breaker is open."""
    if breaker.open:
        return None
    cred = job.get("cred", "")          # "" plain; "e" / "r": invoked by uid 0 with only the effective (and saved) uid lowered
    md = thread_maildir(workdir, own=not job.get("root") or bool(cred))
    files = sorted(job["files"], key=lambda f: f["mt"])
    make_maildir(md, files, own=not job.get("root") or bool(cred))
    argv = [ASUSER, cred + str(UID), binary, md] if (cred or not job.get("root")) else [binary, md]
    p = subprocess.Popen(argv, stdin=subprocess.PIPE, stdout=subprocess.PIPE, stderr=subprocess.DEVNULL,
                         cwd=workdir, close_fds=True)
    conn = Conn(p, timeout)
    greet = status(conn.line())[0]
    cmds, reps = [], []
    for verb, arg in job["cmds"]:
        if verb == "XRM":
            f = files[arg - 1]
            try:
                os.unlink(os.path.join(os.fsencode(md), f["d"].encode(), f["n"]))
            except OSError:
                continue          # not there any more (already removed, or the session is over and QUIT took / renamed it)
            cmds.append({"v": "XRM", "a": [arg]})
            reps.append(NONE)
            continue
        v = canon(verb, VERBS)
        cmds.append({"v": v, "a": list(arg)})
        line = verb + (b" " + arg if arg else b"") + b"\r\n"
        if conn.eof or conn.timedout or not conn.send(line):
            reps.append(NONE)
            continue
        reps.append(read_reply(conn, v, arg))
    try:
        p.stdin.close()
    except OSError:
        pass
    tail = conn.rest()
    if conn.timedout:
        breaker.hit()
        p.kill()
    rc = p.wait()
    p.stdout.close()
    after = list_maildir(md)
    if rc in (120, 121) and not job.get("root"):
        raise RuntimeError("launcher %s failed (%d)" % (ASUSER, rc))
    mts = sorted(set(f["mt"] for f in files))
    return {"k": "d", "files": [{"d": f["d"], "n": list(f["n"]), "x": list(f["x"])} for f in files],
            "mt": [mts.index(f["mt"]) + 1 for f in files],
            "cmds": cmds, "reps": reps, "after": after, "root": 1 if job.get("root") else 0, "greet": greet,
            "rc": rc if rc >= 0 else 1000 - rc, "tail": len(tail), "hung": 1 if conn.timedout else 0}


def read_invocations(path, seen):
    """Records of the stand-in checker appended since `seen' bytes: -> (list of bytes, new offset)."""
    try:
        with open(path, "rb") as fh:
            fh.seek(seen)
            data = fh.read()
    except OSError:
        return [], seen
    out, pos = [], 0
    while pos < len(data):
        nl = data.find(b"\n", pos)
        if nl < 0:
            break
        parts = data[pos:nl].split()
        ln = int(parts[1])
        out.append(data[nl + 1:nl + 1 + ln])
        pos = nl + 1 + ln
    return out, seen + pos


def run_popup(binary, checker, workdir, idx, job, breaker, timeout=5.0):
    """job: dict(host: bytes, ex: int (-1 = crash), cmds=[(verb_text, arg)]).  Record k = "p"."""
    if breaker.open:
        return None
    rec = os.path.join(workdir, "cpw%d" % idx)
    env = dict(os.environ)
    env["VERIF_CPW_OUT"] = rec
    env["VERIF_CPW_EXIT"] = "crash" if job["ex"] == -1 else str(job["ex"])
    p = subprocess.Popen([binary, job["host"], checker, "x"], stdin=subprocess.PIPE, stdout=subprocess.PIPE,
                         stderr=subprocess.DEVNULL, cwd=workdir, env=env, close_fds=True)
    conn = Conn(p, timeout)
    gc, gt = status(conn.line())
    cmds, reps, invs, seen = [], [], [], 0
    for verb, arg in job["cmds"]:
        v = canon(verb, POPUP_VERBS + VERBS)
        cmds.append({"v": v, "a": list(arg)})
        line = verb + (b" " + arg if arg else b"") + b"\r\n"
        if conn.eof or conn.timedout or not conn.send(line):
            reps.append(NONE)
        else:
            c, t = status(conn.line())
            reps.append({"c": c, "t": list(t), "b": []})
        got, seen = read_invocations(rec, seen)
        invs.append([list(g) for g in got])
    try:
        p.stdin.close()
    except OSError:
        pass
    tail = conn.rest()
    if conn.timedout:
        breaker.hit()
        p.kill()
    rc = p.wait()
    p.stdout.close()
    got, seen = read_invocations(rec, seen)       # an invocation nobody asked for
    if got:
        invs.append([list(g) for g in got])
        cmds.append({"v": "OTHER", "a": []})
        reps.append(NONE)
    try:
        os.unlink(rec)
    except OSError:
        pass
    return {"k": "p", "host": list(job["host"]), "greetc": gc, "greet": list(gt), "cmds": cmds, "reps": reps,
            "invs": invs, "ex": job["ex"], "rc": rc if rc >= 0 else 1000 - rc, "tail": len(tail),
            "hung": 1 if conn.timedout else 0}


# --------------------------------------------------------------------------------------------
# the input domain
# --------------------------------------------------------------------------------------------
MESSAGES = [
    b"",
    b"Subject: one\n\nbody line\n",
    b"h: 1\n\n.dot\n..\n.\nlast",
    b"\n\nx\n",
    b"no separator\n.x",
    b"h\r\n\r\nb\r\n",
    b"\n",
    b".",
    b"a: b\n\n1\n2\n3\n\n5\n6\n",
    b".h: leading dot in header\n\n\n\n.\n",
    b"x" * 1500 + b"\n\n" + b"." * 1100 + b"\n.\n" + b"y" * 700,
]


def base_mtime():
    return int(time.time()) - 100000


def population(spec, t0):
    """spec: list of (dir, name, message) in delivery order -> files with distinct mtimes."""
    return [{"d": d, "n": n, "x": x, "mt": t0 + 10 * i} for i, (d, n, x) in enumerate(spec)]


def designed_populations(t0):
    M = MESSAGES
    return [
        population([], t0),
        population([("new", b"1700000001.101.host", M[2])], t0),
        population([("cur", b"1700000001.101.host:2,S", M[0]), ("new", b"1700000002.102.host", M[8])], t0),
        population([("new", b"1700000003.9.h", M[1]), ("cur", b"1700000001.7.h:2,", M[9]), ("new", b"1700000002.8.h", M[4])], t0),
        population([("cur", b"b", M[3]), ("cur", b"a:2,RS", M[7]), ("new", b"d", M[5]), ("new", b"c", M[6])], t0),
    ]


def arg_table(n):
    """Argument texts for a maildir of n messages: (class, text)."""
    s = lambda v: str(v).encode()
    t = [("none", b""), ("zero", b"0"), ("one", b"1"), ("n", s(n)), ("n+1", s(n + 1)),
         ("huge", b"4294967296"), ("huge", b"4294967297"), ("huge", b"9999999999"), ("huge", s(TWO64 - 1)),
         ("huge", s((1 << 63) + 1)), ("zeros", b"00"), ("lead0", b"01"),
         ("junk", b"x"), ("junk", b"-1"), ("junk", b"+1"), ("junk", b"one"), ("junk", b"#1"), ("junk", b".5"),
         ("loose", b"1x"), ("loose", b"1.0"), ("loose", s(n + 1) + b"x"),
         ("pair", b"1 0"), ("pair", b"1 1"), ("pair", b"1 2"), ("pair", s(n) + b" 1"), ("pair", b"1 x"), ("pair", b"1 1 1"),
         ("pair", b"1 4294967296"), ("pair", b"0 1"), ("pair", s(n + 1) + b" 0"), ("pair", b"x 1"), ("pair", b"1  3"),
         ("pair", b"2 5"), ("pair", b"1 01")]
    return t


def wrap_table(n):
    s = lambda v: str(v).encode()
    return [("wrap", s(TWO64)), ("wrap", s(TWO64 + 1)), ("wrap", s(TWO64 + max(n, 1))), ("wrap", s(TWO64 + n + 1)),
            ("wrap", b"1 " + s(TWO64)), ("wrap", b"1 " + s(TWO64 + 1)), ("wrap", s(10 * TWO64 + 1))]


OTHER_VERBS = [b"XYZZY", b"CAPA", b"USER", b"PASS", b"APOP", b"", b"DELE1", b"RETR\t1", b"STATS", b"LISTT"]


def has_wrap(arg):
    for tok in arg.split(b" "):
        d = b""
        for ch in tok:
            if 48 <= ch <= 57:
                d += bytes([ch])
            else:
                break
        if d and int(d) >= TWO64:
            return True
    return False


def show(b):
    return "".join(chr(c) if 33 <= c < 127 and chr(c) not in "\\:" else "_" if c == 32 else "\\x%02x" % c for c in b)


# --------------------------------------------------------------------------------------------
# a pool of forked worker processes (the sessions are bound by the interpreter lock when run in threads)
# --------------------------------------------------------------------------------------------
_POOL_FN = None


def _pool_call(item):
    return _POOL_FN(item)


def _pool_init():
    # the workers inherit the parent's handlers (vlib.Scratch removes the scratch directory on SIGTERM):
    # a worker must never clean up
    import signal
    for s in (signal.SIGTERM, signal.SIGINT, signal.SIGHUP):
        signal.signal(s, signal.SIG_DFL)


class ForkPool:
    """Create before any thread is started; fn is inherited by the workers through fork."""
    def __init__(self, fn, nproc):
        import multiprocessing
        global _POOL_FN
        _POOL_FN = fn
        self.pool = multiprocessing.get_context("fork").Pool(nproc, initializer=_pool_init)

    def map(self, items):
        return self.pool.map(_pool_call, items, chunksize=8)

    def close(self):
        self.pool.close()
        self.pool.join()

    def abort(self):
        self.pool.terminate()
        self.pool.join()
