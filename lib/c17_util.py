"""C17 helpers: the abstract address-list generator, its (trusted, small) renderer to header bytes,
and the runners that take records from the real qmail-inject / qmail-remote / qmail-smtpd.

Abstract syntax (mirrors spec/Addr.tla section E.3):
  mailbox  {"lp": [word bytes...], "dom": [{"t": "a"|"l", "s": bytes}...]}      + rendering directives:
           "f": "b" bare | "n" angle form, "q": [0/1 per word: written as quoted-string],
           "ph": [phrase words], "rt": [route domains], "cs": [comment slots used]   (filled by the renderer)
  item     {"k": "m", "m": mailbox, "sep": "c"|"n"|"cc"} | {"k": "g", "name": [words], "ms": [mailbox...], "sep": ...}
  field    {"name": "to"|"cc"|"bcc"|"ato"|"rto"|"rcc"|"rbcc", "items": [item...]}
Bytes are lists of integers in everything that goes to TLC.
"""
import os, re, subprocess, threading, queue
import sessions, smtpsrv
from vlib import Infra, log

ATOMCH = b"abcdefghijklmnopqrstuvwxyzABCDEFGHIJKLMNOPQRSTUVWXYZ0123456789!#$%&'*+-/=?^_`{|}~"
SPECIALS = b"()<>@,;:\\\".[]"
HOST = b"h17.test"                     # fixed host name of the quoting half: has a dot, no trailing plus

# byte classes the quoting / parsing code distinguishes (see the checks' docstring)
CLASSES_FULL = [120, 43, 46, 64, 32, 34, 92, 13, 9, 40, 41, 60, 62, 44, 58, 59, 91, 93, 233, 127, 1]
CLASSES_CORE = [120, 46, 64, 32, 34, 92, 13, 9, 40, 60, 62, 44, 233]
CLASSES_CORE12 = [120, 46, 64, 32, 34, 92, 13, 40, 60, 62, 44, 233]       # length 5 (thorough): without TAB


def enum_locals(alpha, maxlen, minlen=0):
    out, level = ([[]] if minlen == 0 else []), [[]]
    for n in range(1, maxlen + 1):
        level = [m + [a] for m in level for a in alpha]
        if n >= minlen:
            out += level
    return out


def random_locals(rng, n, maxlen=120):
    out = []
    for _ in range(n):
        ln = rng.choice([rng.randint(5, 12), rng.randint(13, 40), rng.randint(41, maxlen)])
        w = rng.choice([0.2, 0.5, 0.9])
        lp = []
        for _ in range(ln):
            r = rng.random()
            if r < w:
                lp.append(rng.choice(CLASSES_FULL))
            elif r < w + 0.1:
                lp.append(rng.choice([c for c in range(1, 256) if c != 10]))
            else:
                lp.append(rng.choice(ATOMCH))
        out.append(lp)
    return out


# --------------------------------------------------------------------------------------------
# renderer (trusted): abstract list -> RFC 822 text with random legal white space / comments / folding
# --------------------------------------------------------------------------------------------
COMMENTS = [b"c", b"a comment", b"nested (deep (er)) one", b"quo\"te", b"esc\\) paren \\( too", b"comma, here",
            b"angle <x@y.z>", b"semi; colon: at@", b"", b"back\\\\slash", b"dot.ted [lit]"]
WS = [b" ", b" ", b"  ", b"\t", b"\n ", b"\n\t", b" \n  "]


class Renderer:
    def __init__(self, rng, pcomment=0.08, pedge=0.04, pws=0.35, fold=True, force=()):
        self.rng, self.pc, self.pe, self.pws, self.fold = rng, pcomment, pedge, pws, fold
        self.force = set(force)          # comment slots that must be used (first opportunity), enumeration mode

    def ws(self):
        w = self.rng.choice(WS)
        if not self.fold:
            w = w.replace(b"\n", b"")
            w = w or b" "
        return w

    def gap(self, req=False, slots=None, slot=None, p=None):
        """Text between two lexical tokens: nothing / white space / comment(s)."""
        r = self.rng
        p = self.pc if p is None else p
        out = b""
        if slot and slot in self.force and slots is not None:
            self.force.discard(slot)
            p = 2
        if r.random() < p:
            out = (self.ws() if r.random() < 0.5 else b"") + b"(" + r.choice(COMMENTS) + b")" + (self.ws() if r.random() < 0.5 else b"")
            if slots is not None and slot:
                slots.add(slot)
            if req and not (out.startswith((b" ", b"\t", b"\n")) or out.endswith((b" ", b"\t"))):
                out += b" "
        elif req or r.random() < self.pws:
            out = self.ws()
        return out

    def qstring(self, w):
        r = self.rng
        out = b'"'
        for c in w:
            if c in (34, 92, 13) or r.random() < 0.05:
                out += b"\\"
            out += bytes([c])
        return out + b'"'

    def word(self, w, q):
        return self.qstring(w) if q else bytes(w)

    def dom(self, d, slots, slot="in"):
        out = b""
        for i, x in enumerate(d):
            if i:
                out += self.gap(slots=slots, slot=slot) + b"." + self.gap(slots=slots, slot=slot)
            out += (b"[" + bytes(x["s"]) + b"]") if x["t"] == "l" else bytes(x["s"])
        return out

    def addrspec(self, m, slots):
        out = b""
        for i, w in enumerate(m["lp"]):
            if i:
                out += self.gap(slots=slots, slot="in") + b"." + self.gap(slots=slots, slot="in")
            out += self.word(w, m["q"][i])
        if m["dom"]:
            out += self.gap(slots=slots, slot="in") + b"@" + self.gap(slots=slots, slot="in") + self.dom(m["dom"], slots)
        return out

    def phrase(self, words):
        out = b""
        for i, w in enumerate(words):
            if i:
                out += self.gap(req=True)
            q = any(c not in ATOMCH for c in w) or not w or self.rng.random() < 0.2
            out += self.word(w, q)
        return out

    def mailbox(self, m):
        slots = set()
        if m["f"] == "b":
            out = self.gap(slots=slots, slot="pre", p=self.pe) + self.addrspec(m, slots) + self.gap(slots=slots, slot="post", p=self.pe)
        else:
            out = self.phrase(m["ph"])
            out += self.gap(req=bool(m["ph"]) and self.rng.random() < 0.8, slots=slots, slot="phr")
            out += b"<" + self.gap(slots=slots, slot="open", p=self.pe)
            if m["rt"]:
                for i, d in enumerate(m["rt"]):
                    if i:
                        out += self.gap(slots=slots, slot="in") + b"," + self.gap(slots=slots, slot="in")
                    out += b"@" + self.gap(slots=slots, slot="in") + self.dom(d, slots)
                out += self.gap(slots=slots, slot="in") + b":" + self.gap(slots=slots, slot="in")
            out += self.addrspec(m, slots)
            out += self.gap(slots=slots, slot="close", p=self.pe) + b">"
        m["cs"] = sorted(slots)
        m["txt"] = out.decode("latin1")
        return out

    def items(self, items):
        out = b""
        for i, it in enumerate(items):
            if i:
                if it["sep"] == "n":
                    out += self.gap(req=True, p=0) if self.rng.random() < 0.8 else (self.ws() + b"(" + self.rng.choice(COMMENTS) + b")" + self.ws())
                elif it["sep"] == "cc":
                    out += self.gap() + b"," + self.gap() + b"," + self.gap()
                else:
                    out += self.gap() + b"," + self.gap()
            if it["k"] == "m":
                out += self.mailbox(it["m"])
            else:
                out += self.phrase(it["name"]) + self.gap() + b":" + self.gap()
                out += self.items([{"k": "m", "m": x, "sep": "c"} for x in it["ms"]])
                out += self.gap() + b";"
        return out

    FIELDNAMES = {"to": [b"To", b"TO", b"to"], "cc": [b"Cc", b"CC", b"cc"], "bcc": [b"Bcc", b"BCC", b"bcc"],
                  "ato": [b"Apparently-To", b"apparently-to"], "rto": [b"Resent-To", b"resent-to", b"RESENT-TO"],
                  "rcc": [b"Resent-Cc", b"resent-cc"], "rbcc": [b"Resent-Bcc", b"resent-bcc", b"RESENT-BCC"]}

    def field(self, f):
        name = self.rng.choice(self.FIELDNAMES[f["name"]])
        lead = self.rng.choice([b" ", b" ", b"", b"\t", b"\n ", b"  "]) if self.fold else b" "
        body = self.items(f["items"])
        if self.rng.random() < 0.1 and body:
            body += self.rng.choice([b" ", b",", b" ,"])
        # RFC 822: white space (SPACE, TAB) may stand between the field name and the colon
        gap = self.rng.choice([b"", b"", b"", b"", b" ", b"\t", b" \t ", b"\t\t"]) if self.fold else b""
        return name + gap + b":" + lead + body + b"\n"


def mailbox_shape(m):
    """Canonical description of the shape of one mailbox as written (used in witness keys)."""
    d = m["dom"]
    if not d:
        host = "none"
    elif d[-1]["t"] == "l":
        host = "literal"
    elif d[-1]["s"] and d[-1]["s"][-1] == 43:
        host = "plus"
    elif len(d) == 1:
        host = "nodot"
    else:
        host = "dotted"
    return "form=%s;route=%d;host=%s;comments=%s;words=%s" % (
        {"b": "bare", "n": "angle"}[m["f"]], 1 if m.get("rt") else 0, host, "+".join(m.get("cs", [])) or "-",
        "".join("q" if q else "a" for q in m["q"]))


# --------------------------------------------------------------------------------------------
# generator of abstract lists
# --------------------------------------------------------------------------------------------
def A(s):
    return {"t": "a", "s": list(s)}


def gen_atom(rng, maxlen=6):
    return [rng.choice(ATOMCH) for _ in range(rng.randint(1, maxlen))]


def gen_domain(rng, kind=None):
    kind = kind or rng.choice(["none", "nodot", "dotted", "dotted", "plus", "plusdot", "literal"])
    if kind == "none":
        return []
    if kind == "nodot":
        return [A(rng.choice([b"host", b"h", b"MX1", b"a-b"]))]
    if kind == "dotted":
        return [A(rng.choice([b"host", b"h", b"x1"]))] + [A(rng.choice([b"example", b"t", b"org", b"co"])) for _ in range(rng.randint(1, 3))]
    if kind == "plus":
        return [A(rng.choice([b"host+", b"h+", b"a+b+"]))]
    if kind == "plusdot":
        return [A(b"host"), A(rng.choice([b"cs+", b"x+"]))]
    return [{"t": "l", "s": list(rng.choice([b"1.2.3.4", b"127.0.0.1", b"10.20.30.40"]))}]


QWORDS = [b"a b", b"", b"x@y", b"a,b", b"semi;colon:", b"<angle>", b"(paren)", b"quo\"te", b"back\\slash", b"tab\there",
          b"dot.", b".dot", b"do..ts", b"br[ack]et", b"cr\rhere", b"eight\xe9bit", b" ", b"@", b"plus+"]


def gen_word(rng):
    """(bytes, must-or-may be quoted)"""
    r = rng.random()
    if r < 0.55:
        w = gen_atom(rng)
        return w, (1 if rng.random() < 0.1 else 0)
    if r < 0.65:
        return list(rng.choice([b"p+", b"x+", b"+"])), 0
    return list(rng.choice(QWORDS)), 1


def gen_mailbox(rng, domkind=None, form=None):
    n = rng.choice([1, 1, 1, 2, 3])
    ws = [gen_word(rng) for _ in range(n)]
    m = {"lp": [w for w, _ in ws], "q": [q for _, q in ws], "dom": gen_domain(rng, domkind),
         "f": form or rng.choice(["b", "b", "n"]), "ph": [], "rt": []}
    if m["f"] == "n":
        m["ph"] = [rng.choice([list(gen_atom(rng)), list(b"Fred"), list(b"J. Q"), list(b"the \"boss\""), list(b"O'Neil")])
                   for _ in range(rng.choice([0, 1, 2, 3]))]
        m["rt"] = [gen_domain(rng, rng.choice(["nodot", "dotted", "literal"])) for _ in range(rng.choice([0, 0, 0, 1, 2]))]
    return m


def gen_items(rng, maxitems=4):
    items = []
    for _ in range(rng.randint(0, maxitems)):
        if rng.random() < 0.2:
            it = {"k": "g", "name": [list(gen_atom(rng)) for _ in range(rng.randint(1, 2))],
                  "ms": [gen_mailbox(rng) for _ in range(rng.choice([0, 1, 2, 3]))], "sep": "c"}
        else:
            it = {"k": "m", "m": gen_mailbox(rng), "sep": "c"}
            prev = items[-1] if items else None
            # qmail-header(5) OTHER FEATURES: a missing comma between two addresses ("djb fred"); generated only
            # between two bare addr-specs (a phrase, "<" or a group name after a blank IS a longer phrase)
            if prev and prev["k"] == "m" and prev["m"]["f"] == "b" and it["m"]["f"] == "b" and rng.random() < 0.3:
                it["sep"] = "n"
        if items and it["sep"] == "c" and rng.random() < 0.05:
            it["sep"] = "cc"          # RFC 822 #-rule: null elements are allowed
        items.append(it)
    return items


def abstract_of(fields):
    """The part of the case TLC needs (no rendering directives)."""
    def mb(m):
        return {"lp": m["lp"], "dom": m["dom"]}
    out = []
    for f in fields:
        its = []
        for it in f["items"]:
            its.append({"k": "m", "m": mb(it["m"])} if it["k"] == "m" else {"k": "g", "ms": [mb(x) for x in it["ms"]]})
        out.append({"name": f["name"], "items": its})
    return out


def dom_text(d):
    return b".".join((b"[" + bytes(x["s"]) + b"]") if x["t"] == "l" else bytes(x["s"]) for x in d)


def arg_text(a):
    return bytes(a["lp"]) + ((b"@" + dom_text(a["dom"])) if a["dom"] else b"")


CFGS = [
    {"dh": [A(b"dh"), A(b"example")], "dd": [A(b"dd"), A(b"org")], "pd": [A(b"pd"), A(b"net")]},
    {"dh": [A(b"dh")], "dd": [A(b"dd"), A(b"org")], "pd": [A(b"pd"), A(b"net")]},
    {"dh": [A(b"dh+")], "dd": [A(b"lan")], "pd": [A(b"plus"), A(b"example"), A(b"com")]},
    {"dh": [A(b"mail"), A(b"cs+")], "dd": [A(b"dd"), A(b"org")], "pd": [A(b"pd")]},
]
ME = [A(b"test"), A(b"example")]        # control/me written by build_tree


def header_field_names(msg):
    """Names (lower case) of the header fields of a message: lines up to the first empty line that do not
    start with white space, text before the first ':' (trailing blanks removed)."""
    names = []
    for line in msg.split(b"\n"):
        if line == b"":
            break
        if line[:1] in (b" ", b"\t"):
            continue
        i = line.find(b":")
        if i <= 0:
            break
        names.append(line[:i].rstrip(b" \t").lower())
    return names


def header_value(msg, name):
    """Unfolded value of the first field `name` (lower case), or None."""
    lines = msg.split(b"\n")
    for k, line in enumerate(lines):
        if line == b"":
            break
        i = line.find(b":")
        if line[:1] not in (b" ", b"\t") and i > 0 and line[:i].rstrip(b" \t").lower() == name:
            v = line[i + 1:]
            j = k + 1
            while j < len(lines) and lines[j][:1] in (b" ", b"\t"):
                v += b"\n" + lines[j]
                j += 1
            return v
    return None


# --------------------------------------------------------------------------------------------
# runners
# --------------------------------------------------------------------------------------------
def base_env():
    e = {"PATH": os.environ.get("PATH", "/usr/bin:/bin"), "USER": "tester"}
    return e


def run_inject(tree, qq, tag, argv, msg, env_extra=None, timeout=60):
    """One run of the real qmail-inject with the recording queue stand-in.  Returns (rc, stdout)."""
    env = base_env()
    env.update(qq.env(tag))
    if env_extra:
        env.update(env_extra)
    p = subprocess.Popen([tree.bin("qmail-inject")] + argv, stdin=subprocess.PIPE, stdout=subprocess.PIPE,
                         stderr=subprocess.PIPE, env=env, cwd=tree.root)
    try:
        out, err = p.communicate(msg, timeout=timeout)
    except subprocess.TimeoutExpired:
        p.kill()
        p.communicate()
        raise Infra("qmail-inject %r did not finish within %ss (overloaded machine?)" % (argv[:3], timeout))
    return p.returncode, out


def run_inject_print(tree, argv, msg, env_extra=None, timeout=60):
    env = base_env()
    if env_extra:
        env.update(env_extra)
    try:
        p = subprocess.run([tree.bin("qmail-inject")] + argv, input=msg, stdout=subprocess.PIPE, stderr=subprocess.PIPE,
                           env=env, cwd=tree.root, timeout=timeout)
    except subprocess.TimeoutExpired:
        raise Infra("qmail-inject -n did not finish within %ss (overloaded machine?)" % timeout)
    return p.returncode, p.stdout


def smtp_wire_forms(tree, eps_queue, batches):
    """Real qmail-remote: sender batch[0], recipients batch -> the MAIL/RCPT command lines the scripted server saw."""
    res = [None] * len(batches)

    def work():
        while True:
            try:
                i = jobs.get_nowait()
            except queue.Empty:
                return
            ep = eps_queue.get()
            try:
                b = batches[i]
                obs, out, rc = smtpsrv.run_remote(tree, ep, b"Subject: t\n\nbody\n", bytes(b[0]), [bytes(a) for a in b], {})
                res[i] = (obs, out, rc)
            finally:
                eps_queue.put(ep)

    jobs = queue.Queue()
    for i in range(len(batches)):
        jobs.put(i)
    ths = [threading.Thread(target=work) for _ in range(eps_queue.qsize())]
    for t in ths:
        t.start()
    for t in ths:
        t.join()
    return res


def strip_cmd(line, verb):
    """`verb`<...>CRLF -> bytes between the brackets, or None (verb compared without regard to case)."""
    if not line.endswith(b">\r\n"):
        return None
    if line[:len(verb)].upper() != verb or line[len(verb):len(verb) + 1] != b"<":
        return None
    return line[len(verb) + 1:-3]
