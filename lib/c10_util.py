"""C10 machinery: the real qmail-send run without qmail-start.

  clone_tree   a second build of the same sources with its own qmail home (conf-qmail is compiled in, so
               one sandbox per parallel worker; only auto_qmail.o is recompiled and the three programs relinked)
  Rig          plays the part of qmail-start for one sandbox: real qmail-clean on descriptors 5/6, this
               process at the far end of the lspawn / rspawn pipes (1/2, 3/4), log (descriptor 0) to a file;
               messages go in through the real qmail-queue
  worker main  `python3 c10_util.py <job file>`: runs cases, writes one ndjson record per message

A case is {"id": n, "phases": [{"k": "start"|"edit"|"hup", "cfg": CFG, "msgs": [{"snd": s, "rc": [r, ...]}]}]}
with CFG = {"me": s, "lo": [s..]|None, "vd": [[key, tag]..]|None, "ph": [s..]|None, "env": s|None, "noise": n};
all text latin-1.  Phase 0 is the start of qmail-send; a later phase rewrites the control files, sends HUP if
k = "hup", and injects its messages.
"""
import vlib
import fcntl, json, os, re, select, shutil, signal, subprocess, sys, time

LIB = os.path.dirname(os.path.abspath(__file__))
if LIB not in sys.path:
    sys.path.insert(0, LIB)

PROGRAMS = ("qmail-send", "qmail-queue", "qmail-clean")


# --------------------------------------------------------------------------
# one more sandbox from the same sources
# --------------------------------------------------------------------------
def clone_tree(tree, name, scratch):
    from vlib import Tree, Infra, run
    src = scratch.path(name)
    root = scratch.path(name + "-root")
    r = run(["cp", "-a", tree.src, src])
    if r.returncode != 0:
        raise Infra("cp failed: " + r.stdout.decode(errors="replace"))
    r = run(["cp", "-a", tree.root, root])
    if r.returncode != 0:
        raise Infra("cp failed: " + r.stdout.decode(errors="replace"))
    with open(os.path.join(src, "conf-qmail")) as f:
        lines = f.read().split("\n")
    lines[0] = root
    with open(os.path.join(src, "conf-qmail"), "w") as f:
        f.write("\n".join(lines))
    r = run(["make"] + list(PROGRAMS), cwd=src)
    if r.returncode != 0:
        raise Infra("rebuild for %s failed:\n%s" % (name, r.stdout.decode(errors="replace")[-2000:]))
    return Tree(src, root)


# --------------------------------------------------------------------------
# control files
# --------------------------------------------------------------------------
def render_lines(lines, noise):
    """The documented freedoms of a control file (qmail-control(5)): comments, trailing spaces and tabs, empty lines, a last
    line without its line feed."""
    out = []
    for n, l in enumerate(lines):
        if noise and (n + noise) % 3 == 0:
            out.append("# comment " + l)
        if noise and (n + noise) % 4 == 1:
            out.append("#" + l)
        out.append(l + ("" if not noise else ["", " ", "\t", " \t "][(n + noise) % 4]))
    if noise and noise % 2:
        out.append("#")
    if noise and noise % 4 == 2:
        out.insert(len(out) // 2, "")          # an empty line
    text = "".join(l + "\n" for l in out)
    if noise in (2, 4) and text:
        text = text[:-1]                       # the last line is not terminated (it still counts)
    return text


def control_texts(cfg):
    noise = cfg.get("noise", 0)
    return {"me": cfg["me"] + ("\n" if not noise else " \n"),
            "locals": None if cfg["lo"] is None else render_lines(cfg["lo"], noise),
            "virtualdomains": None if cfg["vd"] is None else render_lines([k + ":" + t for k, t in cfg["vd"]], noise),
            "percenthack": None if cfg["ph"] is None else render_lines(cfg["ph"], noise),
            "envnoathost": None if cfg["env"] is None else cfg["env"] + ("\n" if not noise else "\t\n")}


def write_controls(root, cfg):
    d = os.path.join(root, "control")
    for name, text in control_texts(cfg).items():
        p = os.path.join(d, name)
        if text is None:
            if os.path.exists(p):
                os.unlink(p)
            continue
        with open(p + ".new", "w", encoding="latin-1") as f:
            f.write(text)
        os.rename(p + ".new", p)


def codes(s):
    return list(s.encode("latin-1")) if isinstance(s, str) else list(s)


def cfg_record(cfg):
    """The configuration as the specification sees it (Rewrite.tla)."""
    return {"me": codes(cfg["me"]),
            "lo": [codes(x) for x in (cfg["lo"] or [])], "loabs": 1 if cfg["lo"] is None else 0,
            "vd": [{"k": codes(k), "t": codes(t)} for k, t in (cfg["vd"] or [])],
            "ph": [codes(x) for x in (cfg["ph"] or [])],
            "env": codes(cfg["env"] or ""), "envabs": 1 if cfg["env"] is None else 0}


# --------------------------------------------------------------------------
# qmail-start, played by hand
# --------------------------------------------------------------------------
class Rig:
    def __init__(self, src, root, ids, split=3):
        self.src, self.root, self.split = src, root, split
        self.q = os.path.join(root, "queue")
        self.qenv = dict(os.environ)
        self.qenv.update({"LD_PRELOAD": os.path.join(vlib.BUILD, "shim.so"), "VERIF_IDS": ids, "VERIF_ROOT": root})
        self.send = self.clean = None
        self.known = set()
        self.nmsg = 0

    def bin(self, n):
        return os.path.join(self.src, n)

    def reset(self):
        import sandbox
        sandbox.clear_queue(self.root)
        self.known = set()

    # ---- injection through the real qmail-queue (message on 0, envelope on 1)
    def _mess_ids(self):
        out = set()
        m = os.path.join(self.q, "mess")
        for s in os.listdir(m):
            out.update(os.listdir(os.path.join(m, s)))
        return out

    def inject(self, sender, rcpts):
        self.nmsg += 1
        env = b"F" + sender + b"\0" + b"".join(b"T" + r + b"\0" for r in rcpts) + b"\0"
        msg = b"Subject: c10 %d\n\nbody\n" % self.nmsg
        if len(env) > 60000:
            raise RuntimeError("envelope too large for one pipe buffer")
        mr, mw = os.pipe()
        er, ew = os.pipe()
        os.write(mw, msg)
        os.close(mw)
        os.write(ew, env)
        os.close(ew)
        p = subprocess.Popen([self.bin("qmail-queue")], stdin=mr, stdout=er, env=self.qenv, close_fds=True)
        os.close(mr)
        os.close(er)
        rc = p.wait()
        if rc != 0:
            raise RuntimeError("qmail-queue exit %d" % rc)
        now = self._mess_ids()
        new = now - self.known
        self.known = now
        if len(new) != 1:
            raise RuntimeError("cannot identify the injected message: %r" % (new,))
        return int(new.pop())

    # ---- daemon
    def start(self, conc=20):
        lo, li, ro, ri, co, ci = os.pipe(), os.pipe(), os.pipe(), os.pipe(), os.pipe(), os.pipe()
        self.logf = os.open(os.path.join(self.root, "send.log"), os.O_WRONLY | os.O_CREAT | os.O_TRUNC, 0o600)
        self.clean = subprocess.Popen([self.bin("qmail-clean")], stdin=co[0], stdout=ci[1], close_fds=True)
        m = {0: self.logf, 1: lo[1], 2: li[0], 3: ro[1], 4: ri[0], 5: co[1], 6: ci[0]}

        def pre():
            hi = {k: fcntl.fcntl(v, fcntl.F_DUPFD, 64) for k, v in m.items()}
            for k, v in hi.items():
                os.dup2(v, k)
            os.closerange(7, 256)
        os.write(li[1], bytes([conc]))         # the spawners announce their concurrency limit first
        os.write(ri[1], bytes([conc]))
        self.send = subprocess.Popen([self.bin("qmail-send")], preexec_fn=pre, close_fds=False)
        for fd in (lo[1], li[0], ro[1], ri[0], co[1], ci[0], co[0], ci[1], self.logf):
            os.close(fd)
        self.out = {lo[0]: 0, ro[0]: 1}         # our end of descriptor 1 / 3
        self.back = {lo[0]: li[1], ro[0]: ri[1]}
        self.buf = {lo[0]: b"", ro[0]: b""}
        self.dl = {}                            # id -> [(chan, sender, recip)]

    def _pump(self, timeout):
        r, _, _ = select.select(list(self.out), [], [], timeout)
        for fd in r:
            d = os.read(fd, 1 << 16)
            if not d:
                raise RuntimeError("qmail-send closed a spawner pipe")
            b = self.buf[fd] + d
            ans = b""
            while len(b) >= 2:
                parts = b[1:].split(b"\0", 3)
                if len(parts) < 4:
                    break
                mid = int(parts[0].split(b"/")[-1])
                self.dl.setdefault(mid, []).append((self.out[fd], parts[1], parts[2]))
                ans += bytes([b[0]]) + b"Zdeferred by the test rig\n\0"
                b = parts[3]
            self.buf[fd] = b
            if ans:
                os.write(self.back[fd], ans)

    def _chan(self, d, mid):
        p = os.path.join(self.q, d, str(mid % self.split), str(mid))
        try:
            with open(p, "rb") as f:
                data = f.read()
        except FileNotFoundError:
            return []
        recs = data.split(b"\0")
        if recs and recs[-1] == b"":
            recs.pop()
        return [(r[:1], r[1:]) for r in recs]

    timeout = 20.0

    def collect(self, ids, timeout=None):
        """Wait until the messages are preprocessed and every T record has been offered for delivery once."""
        todo = set(ids)
        files = {}
        deadline = time.time() + (timeout or self.timeout)
        ok = True
        while True:
            self._pump(0.002)
            for mid in list(todo):
                if not os.path.exists(os.path.join(self.q, "todo", str(mid))):
                    files[mid] = (self._chan("local", mid), self._chan("remote", mid))
                    todo.discard(mid)
            if not todo and all(len(self.dl.get(mid, [])) >= len(files[mid][0]) + len(files[mid][1]) for mid in ids):
                break
            if self.send.poll() is not None:
                ok = False
                break
            if time.time() > deadline:
                ok = False
                break
        out = {}
        for mid in ids:
            lo, re_ = files.get(mid, ([], []))
            out[mid] = {"lo": lo, "re": re_, "dl": self.dl.get(mid, []), "ok": ok and mid in files}
        return out

    def hup(self, timeout=10.0):
        """SIGHUP, then wait until the handler has run and qmail-send sleeps in select() again (it rereads at the
        top of its loop, before the next select)."""
        pid = self.send.pid
        os.kill(pid, signal.SIGHUP)
        bit = 1 << (signal.SIGHUP - 1)
        deadline = time.time() + timeout
        while time.time() < deadline:
            with open("/proc/%d/status" % pid) as f:
                st = f.read()
            pnd = int(re.search(r"SigPnd:\s*(\w+)", st).group(1), 16) | int(re.search(r"ShdPnd:\s*(\w+)", st).group(1), 16)
            state = re.search(r"State:\s*(\S)", st).group(1)
            if not (pnd & bit) and state == "S":
                self._pump(0.001)
                return True
            self._pump(0.0005)
        return False

    def stop(self):
        if self.send is None:
            return
        if self.send.poll() is None:
            self.send.send_signal(signal.SIGTERM)
            t = time.time() + 10
            while self.send.poll() is None and time.time() < t:
                try:
                    self._pump(0.005)
                except RuntimeError:
                    break
            if self.send.poll() is None:
                self.send.kill()
        self.send.wait()
        for fd in list(self.out) + list(self.back.values()):
            os.close(fd)
        try:
            self.clean.wait(timeout=5)
        except subprocess.TimeoutExpired:
            self.clean.kill()
            self.clean.wait()
        self.send = self.clean = None


def run_case(rig, case):
    """-> list of records (one per message; all text latin-1 strings; see tlc_record)."""
    recs = []
    rig.reset()
    try:
        for pi, ph in enumerate(case["phases"]):
            write_controls(rig.root, ph["cfg"])
            if pi > 0 and ph["k"] == "hup":
                if not rig.hup():
                    raise RuntimeError("HUP not seen to be handled")
            ids = []
            for m in ph["msgs"]:
                ids.append(rig.inject(m["snd"].encode("latin-1"), [r.encode("latin-1") for r in m["rc"]]))
            if pi == 0:
                rig.start()
            res = rig.collect(ids)
            for mi, (mid, m) in enumerate(zip(ids, ph["msgs"])):
                o = res[mid]
                odd = [t for t, _ in o["lo"] + o["re"] if t != b"T"]
                recs.append({"case": case["id"], "ph": pi, "mi": mi, "snd": m["snd"], "rc": list(m["rc"]),
                             "lo": [a.decode("latin-1") for _, a in o["lo"]], "re": [a.decode("latin-1") for _, a in o["re"]],
                             "dl": [[c, s.decode("latin-1"), r.decode("latin-1")] for c, s, r in o["dl"]],
                             "ok": 1 if o["ok"] and not odd else 0})
    finally:
        rig.stop()
    return recs


# --------------------------------------------------------------------------
# function-level seam (optional accelerator): harness/rewrite_seam.c
# --------------------------------------------------------------------------
SEAM_LIBS = ("qmail-send-nomain.o qsutil.o control.o constmap.o newfield.o prioq.o trigger.o fmtqfn.o quote.o readsubdir.o "
             "qmail.o date822fmt.o datetime.a case.a ndelay.a getln.a wait.a fd.a sig.a open.a lock.a stralloc.a substdio.a "
             "error.a str.a fs.a auto_qmail.o auto_split.o env.a")


def build_seam(tree):
    """The repository's own recipe (tests/Makefile: unittest_qmail-send); raises Infra when it no longer applies."""
    from vlib import without_main, run, cc, Infra, HARNESS
    without_main(tree, "qmail-send.c")
    r = run(["./compile", "qmail-send-nomain.c"], cwd=tree.src)
    if r.returncode != 0:
        raise Infra(r.stdout.decode(errors="replace")[-600:])
    return cc(os.path.join(tree.src, "rewrite_seam"), [os.path.join(HARNESS, "rewrite_seam.c")],
              cflags=["-I" + tree.src], libs=[os.path.join(tree.src, l) for l in SEAM_LIBS.split()])


def hx(s):
    b = s.encode("latin-1") if isinstance(s, str) else s
    return b.hex() or "-"


def unhx(h):
    return b"" if h == "-" else bytes.fromhex(h)


def seam_case(exe, workdir, case):
    """Same case format and same records as run_case, through getcontrols()/regetcontrols()/rewrite()/senderadd()."""
    os.makedirs(workdir, exist_ok=True)
    script = []
    for pi, ph in enumerate(case["phases"]):
        for name, text in control_texts(ph["cfg"]).items():
            script.append("X " + name if text is None else "W %s %s" % (name, hx(text)))
        if pi == 0:
            script.append("G")
        elif ph["k"] == "hup":
            script.append("H")
        for m in ph["msgs"]:
            for r in m["rc"]:
                script.append("A %s %s" % (hx(r), hx(m["snd"])))
    p = subprocess.run([exe, workdir], input=("\n".join(script) + "\n").encode(), stdout=subprocess.PIPE, stderr=subprocess.PIPE, timeout=300)
    if p.returncode != 0:
        raise RuntimeError("seam harness exit %s: %s" % (p.returncode, p.stderr.decode(errors="replace")[-300:]))
    out = iter(p.stdout.decode().split("\n"))
    recs = []
    for pi, ph in enumerate(case["phases"]):
        if pi == 0:
            if next(out) != "g 1":
                raise RuntimeError("getcontrols() failed")
        elif ph["k"] == "hup":
            if next(out) != "h":
                raise RuntimeError("seam protocol")
        for mi, m in enumerate(ph["msgs"]):
            lo, re_, dl = [], [], []
            for r in m["rc"]:
                f = next(out).split(" ")
                if f[0] != "a" or len(f) != 4:
                    raise RuntimeError("seam protocol: %r" % (f,))
                if f[1] == "0":
                    continue            # out of memory: the record is missing, TLC will say so
                rw = unhx(f[2]).decode("latin-1")
                (lo if f[1] == "1" else re_).append(rw)
                dl.append([0 if f[1] == "1" else 1, unhx(f[3]).decode("latin-1"), rw])
            recs.append({"case": case["id"], "ph": pi, "mi": mi, "snd": m["snd"], "rc": list(m["rc"]),
                         "lo": lo, "re": re_, "dl": dl, "ok": 1, "seam": 1})
    return recs


def tlc_record(r, case):
    """What spec/RewriteRec.tla reads: text as arrays of character codes."""
    return {"hist": [{"k": ph["k"], "c": cfg_record(ph["cfg"])} for ph in case["phases"][:r["ph"] + 1]],
            "snd": codes(r["snd"]), "rc": [codes(x) for x in r["rc"]], "lo": [codes(x) for x in r["lo"]],
            "re": [codes(x) for x in r["re"]], "dl": [{"s": codes(s), "r": codes(x)} for _, s, x in r["dl"]]}


def main():
    job = json.load(open(sys.argv[1]))
    for s in (signal.SIGTERM, signal.SIGINT, signal.SIGHUP):
        signal.signal(s, signal.SIG_DFL)
    rig = Rig(job["src"], job["root"], job["ids"], job.get("split", 3))
    slow = 0          # cases that were not completely preprocessed in time (a damaged qmail-send may hang)
    with open(job["out"], "w") as f:
        for case in job["cases"]:
            if slow >= 8:
                f.write(json.dumps({"case": case["id"], "skipped": 1}) + "\n")
                continue
            rig.timeout = 20.0 if slow < 2 else 4.0
            attempts = 2 if slow < 2 else 1
            err, recs = None, []
            for attempt in range(attempts):
                try:
                    recs = run_case(rig, case)
                    err = None
                    if all(r["ok"] for r in recs):
                        break
                except (RuntimeError, OSError) as e:       # machinery trouble: once more, then report
                    err = "%s: %s" % (type(e).__name__, e)
                    recs = []
                    rig.stop()
            if err or not all(r["ok"] for r in recs):
                slow += 1
            if err and slow < 3:
                f.write(json.dumps({"case": case["id"], "error": err}) + "\n")
            elif err:
                f.write(json.dumps({"case": case["id"], "skipped": 1}) + "\n")
            for r in recs:
                f.write(json.dumps(r, separators=(",", ":")) + "\n")
            f.flush()


if __name__ == "__main__":
    main()
