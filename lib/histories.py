"""Histories of the queue manager: generation (seeded) and execution on the real programs
through lib/daemon.py.  A history is a list of environment actions taken at quiescent
points; what the daemon does in between is recorded, projected (qsproj) and judged by TLC."""
import os, time, signal, random, json
import daemon, sandbox, qsproj
from vlib import Infra

MUTATING = ("write", "unlink", "link", "rename", "fsync", "utimes", "ftruncate")


def is_mutating(want):
    c = want.get("c")
    if c == "open":
        return bool(want.get("fl", 0) & (0o100 | 0o1000))      # O_CREAT | O_TRUNC
    if c == "write":
        return bool(want.get("reg"))
    return c in MUTATING


class Runner:
    def __init__(self, tree, workdir, hist, rng):
        self.tree, self.work, self.h = tree, workdir, hist
        self.rng = random.Random(hist.get("seed", 0))        # every history replays on its own
        self.ctl = None
        self.outcomes = hist.get("outcomes", {})
        self.attempts = {}
        self.killplan = hist.get("kill")         # dict(role suffix, k): kill before its k-th mutating call
        self.faultplan = hist.get("fault")       # dict(role suffix, k, what)
        self.mcount = {}
        self.ccount = {}
        self.killed = False
        self.faulted = False
        self.injected_ok = True

    # policy at every grant
    def policy(self, pr, want):
        role = pr.role.split(":")[-1]
        if self.killplan and not self.killed and role == self.killplan["role"] and is_mutating(want):
            self.mcount[role] = self.mcount.get(role, 0) + 1
            if self.mcount[role] == self.killplan["k"]:
                self.killed = True
                return "kill"
        fp = self.faultplan
        if fp and not self.faulted and (role == fp["role"] or pr.role == fp["role"]) and want.get("c") == fp["call"] \
                and (not fp.get("obj") or ("/" + fp["obj"] + "/") in (want.get("path") or want.get("obj") or "")
                     or (want.get("path") or want.get("obj") or "").endswith("/" + fp["obj"])):
            key = (role, want.get("c"))
            self.ccount[key] = self.ccount.get(key, 0) + 1
            if self.ccount[key] == self.faultplan["k"]:
                self.faulted = True
                return self.faultplan["what"]
        return "go"

    def outcome(self, cmd):
        key = cmd["rcpt"].decode("latin1")
        n = self.attempts.get(key, 0)
        self.attempts[key] = n + 1
        seq = self.outcomes.get(key, "K")
        return seq[n] if n < len(seq) else seq[-1]

    def answer_all(self, order="fifo", final=False):
        cmds = list(self.ctl.delcmds)
        if order == "random":
            self.rng.shuffle(cmds)
        elif order == "lifo":
            cmds.reverse()
        for cmd in cmds:
            if cmd not in self.ctl.delcmds:
                continue
            o = "K" if final else self.outcome(cmd)
            text = {"K": b"K", "Z": b"Z", "D": b"D", "G": self.rng.choice([b"?", b"k", b"z", b"d", b"\x80", b"KK"[:1].lower(), b" K"]), "g": b""}.get(o, b"Z")
            if o in "KZDG":
                # the human-readable part of a report is arbitrary: vary its length (up to beyond REPORTMAX) and shape
                ln = self.rng.choice([0, 1, 12, 12, 40, 41, 100, 300, 3000, 12000 if self.rng.random() < 0.1 else 7])
                body = bytes(self.rng.choice(b"abcdefghij klmnop.:<>@-_/\n") for _ in range(ln))
                if o == "D" and self.h.get("hostile"):
                    body = hostile_text(self.rng)
                text = text + body + (b"\n" if self.rng.random() < 0.7 else b"")
            if o == "g":
                # a report consisting of the delivery number and NUL only is ignored entirely by design of the
                # channel (too short to be a report); follow it with a garbled one
                text = b"\x01\x02"
            self.ctl.report(cmd["chan"], cmd["delnum"], text)
            self.after_step()

    def hostile_bytes(self, kind):
        """-> [(channel, bytes)]: what a compromised or buggy spawner might write"""
        rng, ctl = self.rng, self.ctl
        conc = self.h.get("conc", (10, 20))
        used = {c: sorted(x["delnum"] for x in ctl.delcmds if x["chan"] == c) for c in (0, 1)}
        chan = rng.choice([c for c in (0, 1) if used[c]] or [0, 1])
        other = 1 - chan
        free = [d for d in range(conc[chan]) if d not in used[chan]]
        text = rng.choice([b"Kok\n", b"Dno such user\n", b"Zlater\n", b"K", b"D", b"D<evil@forged.test>:\nforged\n\n<x@y>:\n"])
        if kind == "range":          # delivery numbers the channel does not have
            ds = [conc[chan], conc[chan] + 1, 127, 128, 200, 255]
            return [(chan, b"".join(bytes([d]) + text + b"\0" for d in rng.sample(ds, 3)))]
        if kind == "unused":         # numbers in range with nothing in flight
            if not free:
                return []
            return [(chan, b"".join(bytes([d]) + text + b"\0" for d in rng.sample(free, min(3, len(free)))))]
        if kind == "wrongchan":      # the number of a delivery in flight on the OTHER channel
            ds = [d for d in used[other] if d not in used[chan]]
            if not ds:
                return []
            return [(chan, bytes([ds[0]]) + text + b"\0")]
        if kind == "mangled":        # a delivery in flight answered with something that is not K / Z / D
            if not used[chan]:
                return []
            d = rng.choice(used[chan])
            body = rng.choice([b"", b"k", b"\x00"[:0], b"Xok", b" K", b"\xffK", b"\nK", b"0"])
            return [(chan, bytes([d]) + body + b"\0")]
        if kind == "oversized":      # far beyond the report size limit, for a delivery in flight
            if not used[chan]:
                return []
            d = rng.choice(used[chan])
            n = rng.choice([9990, 9998, 9999, 10000, 10001, 10010, 25000, 70000])
            body = bytes(rng.choice(b"abc \n") for _ in range(n))
            return [(chan, bytes([d]) + rng.choice([b"D", b"Z", b"K", b"q"]) + body + b"\0")]
        if kind == "oversizedjunk":  # a long run without any NUL, then a NUL, for numbers not in flight
            n = rng.choice([10000, 10001, 40000])
            d = rng.choice(free or [255])
            return [(chan, bytes([d]) + bytes(rng.choice(b"KDZ\n<>:@") for _ in range(n)) + b"\0")]
        if kind == "split":          # a report cut in two writes (the second part comes with the next hostile/answer step)
            if not used[chan]:
                return []
            d = rng.choice(used[chan])
            whole = bytes([d]) + text + b"\0"
            cut = rng.randint(1, len(whole) - 1)
            return [(chan, whole[:cut]), (other, bytes([255]) + b"K\0"), (chan, whole[cut:])]
        if kind == "nuls":           # NUL bytes only: <0><NUL> frames, i.e. mangled reports for delivery number 0
            return [(chan, b"\0" * rng.choice([1, 2, 3, 4, 7]))]
        if kind == "burst":          # several frames in one write: good, bad, good
            fr = []
            for d in used[chan][:2]:
                fr.append(bytes([255]) + b"K\0")
                fr.append(bytes([d]) + text + b"\0")
                fr.append(bytes([d]) + b"Kagain\0")          # the same number once more: now unused
            return [(chan, b"".join(fr))] if fr else []
        # random bytes
        n = rng.choice([1, 2, 5, 17, 300, 2047, 2048, 2049, 5000])
        alpha = bytes(range(256)) if rng.random() < 0.5 else b"\0\0KDZ\x01\x02\x03\xff\n"
        return [(chan, bytes(rng.choice(alpha) for _ in range(n)))]

    def drain_inflight(self):
        """strict histories: the clock moves only when nothing is in flight (timing clauses decidable from outside)"""
        for _ in range(200):
            if not self.ctl.delcmds:
                return
            self.answer_all()

    def after_step(self):
        if self.killed and self.ctl.procs:
            # the process was killed at its planned call: this is a crash of the daemon (and cleaner)
            self.crash_restart(self.killplan.get("lossy", False))

    def lossy(self, ctl):
        """un-synced data of queue files is lost: revert each such file to its last synced image (per file: random choice)"""
        syncimg, data, marks = {}, {}, {}
        path_of = {}
        for e in ctl.trace:
            c = e.get("c")
            if c == "open" and e.get("res", -1) >= 0 and (e.get("creat") or e.get("trunc")):
                d, n = qsproj.qpath(e["path"], ctl.qdir)
                if d in ("info", "local", "remote", "bounce"):
                    data[e["ino"]] = bytearray()
                    syncimg[e["ino"]] = None
                    path_of[e["ino"]] = (e["path"], d, n)
                    marks[e["ino"]] = []
            elif c == "write" and e.get("reg") and e.get("res", 0) > 0 and e.get("ino") in data:
                b = bytes.fromhex(e["hex"])[: e["res"]]
                buf = data[e["ino"]]
                off = e["off"]
                if len(b) == 1 and b == b"D" and off < len(buf):
                    marks[e["ino"]].append(off)
                if off > len(buf):
                    buf.extend(b"\0" * (off - len(buf)))
                buf[off:off + len(b)] = b
            elif c == "fsync" and e.get("res") == 0 and e.get("ino") in data:
                syncimg[e["ino"]] = bytes(data[e["ino"]])
                marks[e["ino"]] = []
        for ino, (path, d, n) in path_of.items():
            try:
                st = os.stat(path)
            except OSError:
                continue
            if st.st_ino != ino:
                continue
            cur = bytes(data[ino])
            img = syncimg[ino]
            if img is None:
                img = b""
            if img == cur:
                continue
            if d in ("local", "remote") and len(img) == len(cur):
                # only marks differ: each un-synced single-byte mark survives or not independently
                new = bytearray(cur)
                for off in marks[ino]:
                    if self.rng.random() < 0.5:
                        new[off:off + 1] = img[off:off + 1]
                        ctl.emit({"c": "ctl", "op": "lost", "n": n, "chan": 0 if d == "local" else 1, "pos": off})
                with open(path, "r+b") as f:
                    f.write(bytes(new))
            elif self.rng.random() < 0.7:
                keep = img if d != "bounce" else cur[: self.rng.randint(0, len(cur))]
                with open(path, "wb") as f:
                    f.write(keep)
                if d == "bounce":
                    ctl.emit({"c": "ctl", "op": "lostnote", "n": n})

    def crash_restart(self, lossy):
        self.ctl.crash(self.lossy if lossy else None)
        self.ctl.start()
        self.ctl.run()

    def run(self):
        h = self.h
        chooser = None
        if h.get("random_sched"):
            crng = random.Random(h.get("seed", 0) + 17)
            chooser = lambda wanting: crng.choice(wanting)
        ctl = daemon.Controller(self.tree, self.work, conc=tuple(h.get("conc", (10, 20))), announce=tuple(h.get("announce", (120, 120))), policy=self.policy, chooser=chooser)
        self.ctl = ctl
        ctl.lifetime = h.get("lifetime", 604800)
        sandbox.clear_queue(self.tree.root)
        ctrl = {"locals": "local.test\n", "queuelifetime": str(h.get("lifetime", 604800)), "bouncefrom": None, "bouncehost": None, "doublebounceto": None,
                "doublebouncehost": None, "virtualdomains": None, "percenthack": None}
        ctrl.update(h.get("controls", {}))
        ctl.set_controls(**ctrl)
        ctl.start()
        ctl.run()
        try:
            for act in h["script"]:
                op = act[0]
                if self.killed and not ctl.procs:
                    pass
                if op == "inject":
                    m = h["messages"][act[1]]
                    po = ctl.inject(m["body"], m["sender"], m["rcpts"])
                    ctl.run()
                    self.after_step()
                elif op == "inject_many":
                    # several injectors at once: their system calls interleave with the daemon's under the (random) chooser
                    for mi in act[1]:
                        m = h["messages"][mi]
                        ctl.inject(m["body"], m["sender"], m["rcpts"])
                    ctl.run()
                    self.after_step()
                elif op == "inject_kill":
                    # an injector that dies before its k-th intercepted call: leaves a stale entry behind
                    m = h["messages"][act[1]]
                    ctl.expect_noticed = 0
                    xe = {"VERIF_KILL": str(act[2])}
                    if len(act) > 3:
                        xe["VERIF_KILL_SIG"] = str(act[3])      # not killed: sent this signal (14 = its own 24-hour timer) at that instant
                    ctl.inject(m["body"], m["sender"], m["rcpts"], env_extra=xe)
                    ctl.run()
                elif op == "inject_hold":
                    # an injector that stalls before its k-th intercepted call (a client that stops sending) - until ("release",);
                    # act[3]: started by a program that had SIGALRM blocked (the signal mask is inherited)
                    m = h["messages"][act[1]]
                    ctl.expect_noticed = 0
                    ctl.inject(m["body"], m["sender"], m["rcpts"], hold_after=act[2], blocksig=[signal.SIGALRM] if len(act) > 3 and act[3] else None)
                    ctl.run()
                elif op == "signal_held":
                    # the stalled injectors' own 24-hour timer goes off
                    for pid in list(ctl.held):
                        try:
                            os.kill(pid, {"ALRM": signal.SIGALRM, "TERM": signal.SIGTERM}[act[1]])
                        except OSError:
                            pass
                    time.sleep(0.05)
                    ctl.run()
                elif op == "release":
                    ctl.held.clear()
                    ctl.hold_after.clear()
                    ctl.run()
                    self.after_step()
                elif op == "inject_fault":
                    # an injector whose envelope stream ends early (it cleans up after itself) and whose k-th call fails on top
                    m = h["messages"][act[1]]
                    ctl.expect_noticed = 0
                    ctl.inject(m["body"], m["sender"], m["rcpts"], env_extra={"VERIF_FAULT": "%d:%s" % (act[2], act[3])}, envcut=act[4])
                    ctl.run()
                elif op == "second_daemon":
                    import subprocess
                    tr = os.path.join(self.work, "second.trace")
                    if os.path.exists(tr):
                        os.unlink(tr)
                    e2 = sandbox.shim_env(self.tree, ids=ctl.ids, trace=tr, role="second", clock=ctl.clockfile)
                    r, w = os.pipe()
                    os.write(w, bytes([120, 120]))
                    dn = os.open("/dev/null", os.O_RDWR)
                    cr, cw = os.pipe()          # whatever it writes to "its spawners" (descriptors 1 and 3): delivery commands
                    os.set_blocking(cr, False)

                    def pre():
                        for fd in (0, 5, 6):
                            os.dup2(dn, fd)
                        os.dup2(cw, 1)
                        os.dup2(cw, 3)
                        os.dup2(r, 2)
                        os.dup2(r, 4)
                    pp = subprocess.Popen([self.tree.bin("qmail-send")], env=e2, preexec_fn=pre, close_fds=False)
                    try:
                        rc2 = pp.wait(timeout=4)
                    except subprocess.TimeoutExpired:
                        pp.kill()
                        pp.wait()
                        rc2 = -1           # it did not refuse: it was still running against the same queue

                    class _P:
                        returncode = rc2
                    p2 = _P()
                    os.close(r); os.close(w); os.close(dn); os.close(cw)
                    cmdbytes = b""
                    try:
                        while True:
                            d = os.read(cr, 65536)
                            if not d:
                                break
                            cmdbytes += d
                    except BlockingIOError:
                        pass
                    os.close(cr)
                    muts = [x for x in sandbox.read_trace(tr) if x["c"] in ("unlink", "link", "rename", "write") and x.get("res", -1) >= 0 and "/queue/" in (x.get("path") or x.get("obj") or "")]
                    ctl.emit({"c": "ctl", "op": "second", "status": p2.returncode, "mutations": len(muts), "delcmd_bytes": len(cmdbytes), "delcmd": cmdbytes[:120].hex()})
                elif op == "answer":
                    self.answer_all(order=act[1] if len(act) > 1 else "fifo")
                elif op == "advance":
                    if h.get("strict"):
                        self.drain_inflight()
                    ctl.advance(dt=act[1])
                    self.after_step()
                elif op == "nextdue":
                    if h.get("strict"):
                        self.drain_inflight()
                    pr = ctl.send_proc()
                    if pr and pr.deadline is not None:
                        ctl.advance(to=pr.deadline + (act[1] if len(act) > 1 else 0))
                    else:
                        ctl.advance(dt=1)
                    self.after_step()
                elif op == "signal":
                    sig = {"TERM": signal.SIGTERM, "ALRM": signal.SIGALRM, "HUP": signal.SIGHUP}[act[1]]
                    ctl.signal(sig)
                    self.after_step()
                elif op == "termrestart":
                    ctl.signal(signal.SIGTERM)
                    self.after_step()
                    self._clean_restart()
                elif op == "stop":
                    # clean stop: TERM, wait for the exit, the pipes go away; the queue stays
                    ctl.signal(signal.SIGTERM)
                    for _ in range(20):
                        pr = ctl.send_proc()
                        if pr is None or pr.state == "dead":
                            break
                        if ctl.delcmds:
                            self.answer_all()
                        else:
                            ctl.run()
                    ctl.crash(None)
                    ctl.trace[-1]["op"] = "stopped"
                elif op == "start":
                    ctl.start()
                    ctl.run()
                elif op == "crash":
                    self.crash_restart(act[1] if len(act) > 1 else False)
                elif op == "spawnerdied":
                    ctl.close_spawner(act[1])
                elif op == "rawreport":
                    ctl.report(act[1], 0, act[2], raw=True)
                    self.after_step()
                elif op == "qread":
                    # the queue as qmail-qread shows it, at a quiescent moment
                    import subprocess
                    e2 = sandbox.shim_env(self.tree, ids=ctl.ids, role="qread", clock=ctl.clockfile)
                    p = subprocess.run([self.tree.bin("qmail-qread")], env=e2, stdout=subprocess.PIPE, stderr=subprocess.PIPE, timeout=30)
                    ctl.emit({"c": "ctl", "op": "qread", "status": p.returncode, "hex": p.stdout.hex()})
                elif op == "hostile":
                    # arbitrary bytes on a report channel, built with knowledge of what is in flight (C18 part 3)
                    for chan, data in self.hostile_bytes(act[1]):
                        for i in range(0, len(data), 30000):        # stay below the pipe capacity; the daemon drains in between
                            ctl.report(chan, 0, data[i:i + 30000], raw=True)
                            self.after_step()
            # drain: everything still pending is answered with success; the clock is moved to each deadline
            rounds = 0
            while rounds < h.get("drain_rounds", 40):
                rounds += 1
                self.answer_all(final=rounds > 12)
                if h.get("strict"):
                    self.drain_inflight()        # the clock moves only when nothing is in flight
                q = sandbox.list_queue(self.tree.root)
                if not any(d in ("info", "todo") for d, _ in q):
                    break
                pr = ctl.send_proc()
                if pr is None or pr.state == "dead":
                    ctl.start()
                    ctl.run()
                    continue
                if pr.deadline is not None:
                    ctl.advance(to=pr.deadline)
                else:
                    ctl.advance(dt=1)
                self.after_step()
            left = [k for k in sandbox.list_queue(self.tree.root) if k[0] in ("info", "todo")]
            ctl.emit({"c": "ctl", "op": "end", "left": len(left)})
        finally:
            trace = ctl.trace
            ctl.stop()
        ev, T = qsproj.project(trace, ctl.qdir, dbto=h.get("dbto", b"postmaster@test.example"), pfx=h.get("pfx", b""))
        out = {"ev": ev, "left": len(left), "addr": {v: k.decode("latin1") for k, v in T.addr.items()}, "nraw": len(trace)}
        if h.get("keep_fs"):
            import qqrun
            out["fs"] = qqrun.fs_events(trace, ctl.qdir)
        out["second"] = [e for e in trace if e.get("c") == "ctl" and e.get("op") == "second"]
        return out

    def _clean_restart(self):
        ctl = self.ctl
        # qmail-send exits after TERM once nothing is in flight: answer what is outstanding
        for _ in range(20):
            pr = ctl.send_proc()
            if pr is None or pr.state == "dead":
                break
            if ctl.delcmds:
                self.answer_all()
            else:
                ctl.run()
        pr = ctl.send_proc()
        if pr is not None and pr.state != "dead":
            ctl.emit({"c": "ctl", "op": "noexit"})
        ctl.crash(None)          # closes the pipes; qmail-clean is gone with them
        ctl.trace[-1]["op"] = "stopped"
        ctl.start()
        ctl.run()


def hostile_text(rng):
    """failure text chosen by an attacker who controls the remote server or a delivery program: tries to forge
    further recipient paragraphs, blank lines, long text, 8-bit bytes (never a NUL: it ends the report)"""
    pieces = [b"\n", b"\n\n", b"\n\n\n", b"<evil@forged.test>:", b"<evil@forged.test>:\nUser unknown", b"x", b"user unknown", b"\r\n\r\n", b">:", b"<", b"\x80\xff",
              b"550 no such user here", b" ", b"\n ", b"\t\n", b"/", b"_"]
    n = rng.choice([0, 1, 2, 3, 4, 6, 9])
    t = b"".join(rng.choice(pieces) for _ in range(n))
    if rng.random() < 0.1:
        t += b"y" * rng.choice([500, 3000, 11000])
    if rng.random() < 0.5 and not t.endswith(b"\n"):
        t += b"\n"
    return t


# ---------------------------------------------------------------------------- generation
def gen_history(rng, idx, thorough=False, many=False):
    """A seeded small history: 1-3 messages, local and remote recipients, outcome sequences, events.
    many: more recipients per message and tighter concurrency (C04)."""
    nmsg = rng.choice([1, 1, 2, 2, 3])
    messages, outcomes = [], {}
    rid = 0
    for m in range(nmsg):
        nr = rng.choice([1, 2, 2, 3]) if not many else rng.choice([2, 3, 5, 8])
        rcpts = []
        for _ in range(nr):
            rid += 1
            dom = rng.choice(["local.test", "remote.test"])
            # (some addresses longer than the daemon's 128-byte read buffers and its line buffers' first sizes)
            pad = "x" * rng.choice([120, 127, 128, 129, 260, 900]) if rng.random() < 0.12 else ""
            a = "h%dr%d%s@%s" % (idx, rid, pad, dom)
            rcpts.append(a.encode())
            outcomes[a] = rng.choice(["K", "K", "D", "ZK", "ZZK", "ZD", "GK", "GZK", "ZGD", "KK", "gK"])
        sender = rng.choice([b"sender%d@origin.test" % idx, b"sender%d@origin.test" % idx, b"", b"owner-@list.test-@[]"])
        body = b"Subject: t%d\n\nbody %d\n" % (idx, m)
        if rng.random() < 0.15:
            body += b"".join(b"line %04d of a longer body\n" % i for i in range(rng.choice([40, 320, 700])))
        messages.append({"body": body, "sender": sender, "rcpts": rcpts})
    # the bounce goes back to the sender: its delivery may itself fail
    for s in ("sender%d@origin.test" % idx, "owner-@list.test", "postmaster@test.example", "owner-h%dr1=local.test@list.test" % idx):
        outcomes[s] = rng.choice(["K", "K", "K", "D", "ZK"])
    script = []
    for m in range(nmsg):
        script.append(("inject", m))
        if rng.random() < 0.5:
            script.append(("answer", rng.choice(["fifo", "lifo", "random"])))
    for _ in range(rng.randint(2, 6)):
        r = rng.random()
        if r < 0.45:
            script.append(("answer", rng.choice(["fifo", "lifo", "random"])))
        elif r < 0.7:
            script.append(("nextdue", rng.choice([0, 0, 1, -1])))
        elif r < 0.8:
            script.append(("signal", rng.choice(["ALRM", "HUP"])))
        elif r < 0.9:
            script.append(("termrestart",))
        else:
            script.append(("advance", rng.choice([1, 99, 100, 101, 399, 400, 401, 3000])))
    for _ in range(rng.choice([0, 1, 2])):
        script.insert(rng.randint(1, len(script)), ("qread",))
    h = {"id": idx, "seed": rng.randrange(1 << 30), "messages": messages, "outcomes": outcomes, "script": script, "strict": 1,
         "conc": rng.choice([(10, 20), (10, 20), (1, 1), (2, 1), (0, 2), (1, 0)] if not many else [(1, 1), (2, 1), (1, 2), (2, 2), (3, 2), (0, 2), (2, 0), (5, 5)]),
         "announce": rng.choice([(120, 120), (120, 120), (1, 2), (2, 1)] if not many else [(120, 120), (1, 1), (1, 2), (2, 1), (3, 120)])}
    return h
