"""Projection of a controller trace (shim events + controller actions) onto the abstract,
observable events the queue-manager monitors (spec/QSendMon.tla) talk about.

Abstract events (all carry t = virtual time):
  start(conc, announce)            daemon (re)started
  accept(n, s, rc)                 a qmail-queue run linked todo/n: message n, sender s, recipients rc (address indices)
  prep(n, recs)                    the daemon wrote info/local/remote for n: recs = [[chan, pos, addr]...]
  delcmd(c, d, n, a)               delivery command on channel c with delivery number d for message n, recipient a
  report(c, d, k)                  report fed to the daemon: k in K Z D G (garbled)
  mark(n, c, pos)                  one byte 'D' written at offset pos of the channel file
  note(n, a)                       failure paragraph for recipient a appended to bounce/n
  bounceq(n, ok, m, s, to, names)  the daemon ran qmail-queue for the bounce of n: ok = exit 0, m = new message,
                                   envelope sender s / recipient to, names = recipients named in the notice
  rmbounce(n) rminfo(n) rmchan(n, c) rmmess(n) rmtodo(n) rmintd(n)
  crash(lossy) lost(n, c, pos) lostnote(n) sig(s) clock quiet(tmo) sendexit(status) fault(call) discard(n)
"""
import os, re
import repframe


class Tables:
    def __init__(self):
        self.num, self.addr = {}, {}

    def n(self, v):
        v = int(v)
        if v not in self.num:
            self.num[v] = len(self.num) + 1
        return self.num[v]

    def a(self, b):
        if b not in self.addr:
            self.addr[b] = len(self.addr) + 1
        return self.addr[b]


def qpath(path, qdir):
    if not path.startswith(qdir + "/"):
        return None, None
    rel = path[len(qdir) + 1:]
    if rel.endswith(" (deleted)"):
        rel = rel[:-10]
    m = re.fullmatch(r"(mess|info|local|remote)/\d+/(\d+)", rel)
    if m:
        return m.group(1), int(m.group(2))
    m = re.fullmatch(r"(intd|todo|bounce)/(\d+)", rel)
    if m:
        return m.group(1), int(m.group(2))
    if rel.startswith("pid/"):
        return "pid", 0
    return None, None


BLANK = {"b": [], "atab": [], "pfx": [], "op": "", "t": 0, "n": 0, "c": 0, "d": 0, "a": 0, "k": "", "pos": 0, "s": 0, "to": 0, "m": 0, "ok": 0, "rc": [], "recs": [],
         "names": [], "tmo": 0, "lossy": 0, "conc": [], "announce": [], "status": 0, "extra": 0}


def logsafe(b):
    """qsutil.c logsafe(): LF -> '/', every byte outside 33..126 and '%' -> '_'"""
    return bytes(47 if c == 10 else (c if 33 <= c <= 126 and c != 37 else 95) for c in b)


def parse_log_line(line, T):
    """one line of qmail-send's activity record -> fields of a `log` event (k = kind of line)"""
    def addr_index(text):
        hits = [v for k, v in T.addr.items() if logsafe(k) == text]
        return hits[0] if len(hits) == 1 else (0 if not hits else -1)
    m = re.fullmatch(rb"status: local (\d+)/(\d+) remote (\d+)/(\d+)( exitasap)?", line)
    if m:
        return {"k": "status", "rc": [int(m.group(i)) for i in range(1, 5)], "extra": 1 if m.group(5) else 0}
    if line == b"status: exiting":
        return {"k": "exiting"}
    m = re.fullmatch(rb"new msg (\d+)", line)
    if m:
        return {"k": "new", "n": T.n(int(m.group(1)))}
    m = re.fullmatch(rb"info msg (\d+): bytes (\d+) from <(.*)> qp (\d+) uid (\d+)", line)
    if m:
        return {"k": "info", "n": T.n(int(m.group(1))), "pos": int(m.group(2)) % (1 << 30), "s": addr_index(m.group(3)), "extra": int(m.group(5)) % (1 << 30)}
    m = re.fullmatch(rb"starting delivery (\d+): msg (\d+) to (local|remote) (.*)", line)
    if m:
        return {"k": "start", "m": int(m.group(1)) % (1 << 30), "n": T.n(int(m.group(2))), "c": 0 if m.group(3) == b"local" else 1, "a": addr_index(m.group(4))}
    m = re.fullmatch(rb"delivery (\d+): (success|failure|deferral): (.*)", line)
    if m:
        return {"k": {b"success": "K", b"failure": "D", b"deferral": "Z"}[m.group(2)], "m": int(m.group(1)) % (1 << 30)}
    m = re.fullmatch(rb"delivery (\d+): report mangled, will defer", line)
    if m:
        return {"k": "G", "m": int(m.group(1)) % (1 << 30)}
    m = re.fullmatch(rb"bounce msg (\d+) qp (\d+)", line)
    if m:
        return {"k": "bounce", "n": T.n(int(m.group(1)))}
    m = re.fullmatch(rb"triple bounce: discarding bounce/(\d+)", line)
    if m:
        return {"k": "triple", "n": T.n(int(m.group(1)))}
    m = re.fullmatch(rb"end msg (\d+)", line)
    if m:
        return {"k": "end", "n": T.n(int(m.group(1)))}
    if line.startswith(b"warning: ") or line.startswith(b"alert: "):
        return {"k": "warn"}
    return {"k": "other"}


def parse_bounce_names(body):
    """recipients named in a failure notice: paragraphs '<addr>:' between the preamble (ends with a blank line)
    and the '--- Below this line' separator.  Returns (names, paragraphs)"""
    sep = body.find(b"--- Below this line is ")
    head = body[:sep] if sep >= 0 else body
    # header, blank line, preamble paragraph, blank line, then recipient paragraphs
    parts = head.split(b"\n\n")
    names, paras = [], []
    for p in parts[2:]:
        p = p.strip(b"\n")
        if not p:
            continue
        paras.append(p)
        m = re.match(rb"<(.*)>:$", p.split(b"\n")[0], re.S)
        if m:
            names.append(m.group(1))
    return names, paras


def sender_form(sender):
    """(form, base): plain | empty | dbl (#@[]) | verp (x-@host-@[] -> base x-@host)"""
    if sender == b"":
        return "empty", sender
    if sender == b"#@[]":
        return "dbl", sender
    if len(sender) >= 4 and sender.endswith(b"-@[]"):
        return "verp", sender[:-4]
    return "plain", sender


def project(trace, qdir, tables=None, dbto=b"postmaster@test.example", pfx=b""):
    T = tables or Tables()
    out = []
    filedata = {}     # ino -> bytearray (content written by the processes we follow)
    inode_of = {}     # (dir, n) -> ino of the current file with that name
    inj = {}          # pid -> dict(sender, rcpts, n)
    sendpids = set()
    child_of_send = {}  # pid -> info about a bounce qmail-queue run
    notes_done = {}       # inode of a bounce record -> paragraphs completed so far
    bounce_app = {}       # inode of a bounce record -> bytes appended so far
    last_bounce_open = None
    pidrole = {}
    framer = repframe.Framer()
    pipebuf = {0: bytearray(), 1: bytearray()}       # written to a report channel, not yet read by the daemon
    logbuf = {}

    def ev(op, e, **kw):
        x = dict(BLANK, op=op, t=e.get("t", 0))
        x.update(kw)
        out.append(x)

    for e in trace:
        c = e["c"]
        pid = e.get("pid", e.get("p"))
        role = e.get("r", "")
        if role:
            pidrole[pid] = role
        is_send = role.endswith("qmail-send")
        is_clean = role.endswith("qmail-clean")
        is_qq = role.endswith("qmail-queue")
        if c == "ctl":
            op = e["op"]
            if op == "start":
                ev("start", e, conc=e["conc"], announce=e["announce"], s=T.a(b""), d=T.a(b"#@[]"), a=T.a(dbto), pos=e.get("life", 604800))
            elif op == "inject":
                inj[e["pid"]] = {"sender": bytes.fromhex(e["sender"]), "rcpts": [bytes.fromhex(r) for r in e["rcpts"]]}
            elif op == "delcmd":
                n = int(e["mid"].split("/")[-1]) if re.fullmatch(r"\d+/\d+", e["mid"]) else 0
                ev("delcmd", e, c=e["chan"], d=e["delnum"], n=T.n(n), a=T.a(bytes.fromhex(e["rcpt"])), s=T.a(bytes.fromhex(e["sender"])))
            elif op == "report":
                data = bytes.fromhex(e["hex"])
                # the bytes take effect when the daemon READS them (2048 at a time, with its other work in between - it may start
                # deliveries and reuse delivery numbers between two reads of one long write): they wait here until then
                pipebuf[e["chan"]].extend(data)
            elif op == "crash":
                framer.reset()
                pipebuf[0].clear(); pipebuf[1].clear()
                ev("crash", e, lossy=e["lossy"])
            elif op == "lost":
                ev("lost", e, n=T.n(e["n"]), c=e["chan"], pos=e["pos"])
            elif op == "lostnote":
                ev("lostnote", e, n=T.n(e["n"]))
            elif op == "signal":
                ev("sig", e, k=e["sig"])
            elif op == "clock":
                ev("clock", e)
            elif op == "quiet":
                ev("quiet", e, tmo=e.get("rem", e["tmo"]), k=e["send"], extra=e.get("noticed", 1))
            elif op == "spawnerdied":
                ev("spawnerdied", e, c=e["chan"])
            elif op == "reaped" and e["pid"] in sendpids:
                ev("sendexit", e, status=e["status"])
            elif op == "qread":
                # "<date> GMT  #<id>  <size>  <sender> [ bouncing]" then "  done\t<chan>\t<addr>" / "\t<chan>\t<addr>" lines
                lst, cur, okp = [], 0, 1
                for line in bytes.fromhex(e["hex"]).split(b"\n"):
                    m_ = re.match(rb".* GMT  #(\d+)  (\d+)  <(.*)> ?( bouncing)?$", line)
                    if m_:
                        cur = T.n(int(m_.group(1)))
                        lst.append([cur, -1, T.a(m_.group(3)), 1 if m_.group(4) else 0])
                        continue
                    m_ = re.match(rb"(  done)?\t(local|remote)\t(.*)$", line)
                    if m_ and cur:
                        lst.append([cur, 0 if m_.group(2) == b"local" else 1, T.a(m_.group(3)), 1 if m_.group(1) else 0])
                    elif line.strip():
                        okp = 0
                ev("qread", e, recs=lst, ok=okp, status=e["status"])
            elif op == "end":
                ev("end", e, extra=e["left"])
            elif op == "stopped":
                framer.reset()
                pipebuf[0].clear(); pipebuf[1].clear()
                ev("stopped", e)
            elif op == "noexit":
                ev("noexit", e)
            continue
        if is_send:
            sendpids.add(pid)
        if e.get("inj"):
            ev("fault", e, k=c, extra=1 if is_send else 0)
        if c == "open" and e.get("res", -1) >= 0:
            d, n = qpath(e["path"], qdir)
            if d and (e.get("creat") or e.get("trunc")):
                filedata[e["ino"]] = bytearray()
                notes_done.pop(e["ino"], None)
                bounce_app.pop(e["ino"], None)
                inode_of[(d, n)] = e["ino"]
            if d == "bounce" and is_send and not e.get("creat") and e.get("acc") == 0:
                last_bounce_open = n
        elif c == "read" and is_send and not e.get("reg") and e.get("fd") in (2, 4) and e.get("res", 0) > 0:
            # the daemon takes bytes from a report channel: one abstract report per frame they complete (lib/repframe.py)
            ch_ = 0 if e["fd"] == 2 else 1
            take = bytes(pipebuf[ch_][: e["res"]])
            del pipebuf[ch_][: e["res"]]
            for fr in framer.feed(ch_, take):
                ev("report", e, c=ch_, d=fr[0], k=repframe.letter(fr), extra=min(len(fr), 1 << 20))
        elif c == "read" and is_send and e.get("reg") and e.get("res") == 0:
            # end of file of a recipient list: the daemon's pass over it is over
            d, n = qpath(e.get("obj") or "", qdir)
            if d in ("local", "remote"):
                ev("passeof", e, n=T.n(n), c=0 if d == "local" else 1)
        elif c == "write" and e.get("reg") and e["res"] > 0 and is_send and (e.get("obj") or "").endswith("/verif-send.log"):
            # the activity record: one `log` event per completed line (qmail-log(5))
            logbuf.setdefault(pid, bytearray()).extend(bytes.fromhex(e["hex"])[: e["res"]])
            while b"\n" in logbuf[pid]:
                line, _, rest = bytes(logbuf[pid]).partition(b"\n")
                logbuf[pid] = bytearray(rest)
                kw = parse_log_line(line, T)
                ev("log", e, **kw)
        elif c == "write" and e.get("reg") and e["res"] > 0:
            d, n = qpath(e["obj"], qdir)
            if not d:
                continue
            data = bytes.fromhex(e["hex"])[: e["res"]]
            buf = filedata.setdefault(e["ino"], bytearray())
            off = e["off"]
            if d in ("local", "remote") and is_send and len(data) == 1 and data == b"D" and off < len(buf):
                ev("mark", e, n=T.n(n), c=0 if d == "local" else 1, pos=off)
            if off > len(buf):
                buf.extend(b"\0" * (off - len(buf)))
            buf[off:off + len(data)] = data
            if d == "bounce" and is_send:
                # a paragraph may reach the file in several writes (a write that comes up short is continued): the event is the
                # write that completes a paragraph - "<recipient>:\n", text without empty lines, an empty line
                app = bounce_app.setdefault(e["ino"], bytearray())      # (the record is only ever appended to)
                app += data
                whole = bytes(app)
                ndone = whole.count(b"\n\n")
                paras = whole.split(b"\n\n")[:ndone]
                already = notes_done.get(e["ino"], 0)
                notes_done[e["ino"]] = max(already, ndone)
                if ndone <= already:
                    continue
                m = re.match(rb"<(.*?)>:\n", paras[already] + b"\n", re.S)
                na = m.group(1) if m else None
                if na is not None and pfx:
                    # the record names the recipient without its virtual-domain prefix: map it back to the recipient of THIS
                    # message as it stands in its recipient lists
                    have = set()
                    for dd in ("local", "remote"):
                        fb = bytes(filedata.get(inode_of.get((dd, n)), b""))
                        have |= {r[1:] for r in fb.split(b"\0") if r[:1] in (b"T", b"D")}
                    if na not in have and (pfx + b"-" + na) in have:
                        na = pfx + b"-" + na
                ev("note", e, n=T.n(n), a=T.a(na) if na is not None else 0)
            if d in ("local", "remote"):
                inode_of[(d, n)] = e["ino"]
        elif c == "write" and not e.get("reg") and is_send and e["res"] > 0 and e.get("fd") == 5:
            data = bytes.fromhex(e["hex"])
            m = re.match(rb"todo/(\d+)\0", data)
            if m:
                n = int(m.group(1))
                recs = []
                for ch, d in ((0, "local"), (1, "remote")):
                    ino = inode_of.get((d, n))
                    buf = bytes(filedata.get(ino, b"")) if ino is not None else b""
                    pos = 0
                    while pos < len(buf):
                        j = buf.find(b"\0", pos)
                        if j < 0:
                            break
                        if buf[pos:pos + 1] in (b"T", b"D"):
                            recs.append([ch, pos, T.a(buf[pos + 1:j])])
                        pos = j + 1
                ev("prep", e, n=T.n(n), recs=recs)
        elif c == "link" and e["res"] == 0:
            d2, n2 = qpath(e["to"], qdir)
            if d2 == "todo" and is_qq:
                # envelope from what this process wrote to its intd file
                ino = e["ino"]
                envb = bytes(filedata.get(ino, b""))
                recs = envb.split(b"\0")
                sender = next((r[1:] for r in recs if r.startswith(b"F")), b"")
                rcpts = [r[1:] for r in recs if r.startswith(b"T")]
                parent_send = role.startswith("send:")
                form, base = sender_form(sender)
                ev("accept", e, n=T.n(n2), s=T.a(sender), rc=[T.a(r) for r in rcpts], extra=1 if parent_send else 0, k=form, to=T.a(base))
                inj.setdefault(pid, {})["n"] = n2
                if parent_send:
                    child_of_send[pid] = {"n": n2, "sender": sender, "rcpts": rcpts}
        elif c == "waitpid" and is_send and e["res"] > 0:
            ch = child_of_send.pop(e["res"], None)
            orig = last_bounce_open
            ok = 1 if e["ws"] == 0 else 0
            names = []
            m = 0
            sidx = to = 0
            if ch:
                m = T.n(ch["n"])
                mino = inode_of.get(("mess", ch["n"]))
                body = bytes(filedata.get(mino, b"")) if mino is not None else b""
                nm, _ = parse_bounce_names(body)
                names = [T.a(x) for x in nm]
                sidx = T.a(ch["sender"])
                to = T.a(ch["rcpts"][0]) if ch["rcpts"] else 0
            notice = []
            if ch:
                nl = body.find(b"\n")
                msg = body[nl + 1:] if body.startswith(b"Received:") else body
                sep = msg.find(b"--- Below this line is ")
                notice = list(msg[:sep] if sep >= 0 else msg)
            ev("bounceq", e, n=T.n(orig) if orig else 0, ok=ok if ch else 0, m=m, s=sidx, to=to, names=names, extra=len(ch["rcpts"]) if ch else 0,
               b=notice, atab=[[v, list(k)] for k, v in T.addr.items()], pfx=list(pfx))
        elif c == "unlink" and e["res"] == 0:
            d, n = qpath(e["path"], qdir)
            if d == "bounce":
                ev("rmbounce", e, n=T.n(n))
            elif d == "info":
                ev("rminfo", e, n=T.n(n), extra=1 if is_send else 0)
            elif d in ("local", "remote"):
                ev("rmchan", e, n=T.n(n), c=0 if d == "local" else 1)
                inode_of.pop((d, n), None)
            elif d == "mess":
                ev("rmmess", e, n=T.n(n))
            elif d == "todo":
                ev("rmtodo", e, n=T.n(n), extra=1 if is_clean else 0)
            elif d == "intd":
                ev("rmintd", e, n=T.n(n))
        elif c == "link" and e["res"] == 0:
            pass
        elif c == "exit" and is_send and e.get("status", -1) >= 0:
            ev("sendexit", e, status=e["status"])
        # message file of a qmail-queue child: remember name -> inode
        if c == "link" and e["res"] == 0:
            d2, n2 = qpath(e["to"], qdir)
            if d2 == "mess":
                inode_of[("mess", n2)] = e["ino"]
    return out, T
