"""Scripted SMTP server (B3 stand-in at a documented interface) for qmail-remote.

One Endpoint = one listening socket on 127.0.0.1 reached through
control/smtproutes (`wK.test:127.0.0.1:PORT`).  A worker thread owns an endpoint and
runs its cases one after the other: start the real qmail-remote, accept, play the
script, record every command seen and the DATA payload byte-exactly.

A script is a dict phase -> action, phases: greet, helo, mail, rcpt0.., data, dot.
action = {"code": 250, "multi": False} | {"drop": True} (close without replying)
Missing phases default to the normal positive reply.
"""
import socket, subprocess, os, select, time

DEFAULT = {"greet": 220, "helo": 250, "mail": 250, "data": 354, "dot": 250, "quit": 221}


class Endpoint:
    def __init__(self, idx):
        self.idx = idx
        self.sock = socket.socket(socket.AF_INET, socket.SOCK_STREAM)
        self.sock.setsockopt(socket.SOL_SOCKET, socket.SO_REUSEADDR, 1)
        self.sock.bind(("127.0.0.1", 0))
        self.sock.listen(4)
        self.port = self.sock.getsockname()[1]
        self.host = "w%d.test" % idx

    def route(self):
        return "%s:127.0.0.1:%d" % (self.host, self.port)

    def close(self):
        self.sock.close()


def _reply(code, multi, text="ok"):
    if multi:
        return ("%d-first line\r\n%d-second %d line\r\n%d %s\r\n" % (code, code, (code + 100) % 600, code, text)).encode()
    return ("%d %s\r\n" % (code, text)).encode()


def _readline(conn, buf, timeout):
    """Read one CRLF/LF terminated line; returns (line or None on EOF/timeout, rest)."""
    while b"\n" not in buf:
        r, _, _ = select.select([conn], [], [], timeout)
        if not r:
            return None, buf
        d = conn.recv(65536)
        if not d:
            return None, buf
        buf += d
    i = buf.index(b"\n")
    return buf[:i + 1], buf[i + 1:]


def serve(ep, script, timeout=10.0):
    """Accept one connection on ep and play script. Returns observation dict."""
    obs = {"cmds": [], "payload": None, "after": b"", "phase_end": "none"}
    ep.sock.settimeout(timeout)
    try:
        conn, _ = ep.sock.accept()
    except socket.timeout:
        obs["phase_end"] = "noconnect"
        return obs
    conn.setsockopt(socket.IPPROTO_TCP, socket.TCP_NODELAY, 1)

    def act(phase):
        a = script.get(phase)
        if a is None:
            base = phase if not phase.startswith("rcpt") else "mail"
            return {"code": DEFAULT.get(base, 250), "multi": False}
        return a

    def respond(phase):
        a = act(phase)
        if a.get("stall"):
            time.sleep(a["stall"])
            obs["phase_end"] = "stall:" + phase
            return False
        if a.get("drop"):
            obs["phase_end"] = "drop:" + phase
            return False
        if "raw" in a:
            conn.sendall(a["raw"].encode("latin1") + b"\r\n")     # verbatim reply line (C09: replies that are not three digits)
            return True
        if "text" in a:
            conn.sendall(("%d " % a["code"]).encode() + a["text"].encode("latin1") + b"\r\n")       # a reply text chosen by the caller (NUL bytes ...)
            return True
        conn.sendall(_reply(a["code"], a.get("multi", False)))
        return True

    buf = b""
    try:
        if not respond("greet"):
            conn.close()
            return obs
        nrcpt = 0
        while True:
            line, buf = _readline(conn, buf, timeout)
            if line is None:
                obs["phase_end"] = obs["phase_end"] if obs["phase_end"] != "none" else "clienteof"
                break
            obs["cmds"].append(line.decode("latin1"))
            verb = line[:4].upper()
            if verb == b"HELO" or verb == b"EHLO":
                ok = respond("helo")
            elif verb == b"MAIL":
                ok = respond("mail")
            elif verb == b"RCPT":
                ok = respond("rcpt%d" % nrcpt)
                nrcpt += 1
            elif verb == b"DATA":
                ok = respond("data")
                if ok and script.get("rawdata"):
                    # C06 mode: keep every byte the client sends from here to the end of the
                    # connection; answer the first end-of-data sequence once, as a real server would
                    data = b"\r\n" + buf
                    replied = False
                    while True:
                        if not replied and b"\r\n.\r\n" in data:
                            respond("dot")
                            replied = True
                        r, _, _ = select.select([conn], [], [], timeout)
                        if not r:
                            break
                        d = conn.recv(65536)
                        if not d:
                            break
                        data += d
                    obs["raw"] = data[2:]
                    obs["phase_end"] = "raw"
                    break
                if ok and act("data")["code"] < 400:
                    # payload: up to and including the first CRLF.CRLF (with the virtual CRLF of the DATA line)
                    data = b"\r\n" + buf
                    while b"\r\n.\r\n" not in data:
                        r, _, _ = select.select([conn], [], [], timeout)
                        if not r:
                            break
                        d = conn.recv(65536)
                        if not d:
                            break
                        data += d
                    j = data.find(b"\r\n.\r\n")
                    if j < 0:
                        obs["payload"] = data[2:]
                        obs["phase_end"] = "nodot"
                        break
                    obs["payload"] = data[2:j + 5]
                    buf = data[j + 5:]
                    ok = respond("dot")
            elif verb == b"QUIT":
                respond("quit")
                obs["phase_end"] = "quit"
                break
            else:
                conn.sendall(b"502 unimplemented\r\n")
                ok = True
            if not ok:
                break
        # anything the client still sends belongs to "after"
        conn.settimeout(0.2)
        obs["after"] = buf
    except (ConnectionError, socket.timeout, OSError) as e:
        obs["phase_end"] = "error:" + type(e).__name__
    finally:
        try:
            conn.close()
        except Exception:
            pass
    return obs


def run_remote(tree, ep, message, sender, rcpts, script, env=None, timeout=20.0):
    """Run the real qmail-remote against ep with `message` on fd 0. Returns (obs, stdout, exitcode)."""
    import threading
    res = {}

    def srv():
        res["obs"] = serve(ep, script, timeout=timeout)

    th = threading.Thread(target=srv)
    th.start()
    e = dict(os.environ)
    if env:
        e.update(env)
    p = subprocess.Popen([tree.bin("qmail-remote"), ep.host, sender] + list(rcpts), stdin=subprocess.PIPE,
                         stdout=subprocess.PIPE, stderr=subprocess.PIPE, env=e)
    try:
        out, err = p.communicate(message, timeout=timeout + 5)
    except subprocess.TimeoutExpired:
        p.kill()
        out, err = p.communicate()
    th.join()
    return res["obs"], out, p.returncode
