"""Shared machinery for the notqmail TLA+ conformance checks.

Everything a check needs that is not property specific lives here:
  * Scratch        - per-run scratch directory under /var/tmp, removed on exit
  * build_tree     - copy /repo's working tree, point conf-qmail at a sandbox
                     root, build, create the queue hierarchy
  * tlc / sany     - run TLC (model checking, simulation, record validation)
  * Evidence       - evidence/<id>.json writer (EVIDENCE.schema.json)
  * KnownFindings  - known_findings.txt reader and matcher
  * Verdict        - VIOLATION / KNOWN-FINDING lines and exit status

Exit status convention (DESIGN.md section 3): 0 held, 1 violation, 2 infrastructure.
"""
import atexit, json, os, re, shutil, signal, subprocess, sys, time, hashlib, random

VERIF = os.path.dirname(os.path.dirname(os.path.abspath(__file__)))
REPO = os.environ.get("VERIF_REPO", "/repo")
SPEC = os.path.join(VERIF, "spec")
HARNESS = os.path.join(VERIF, "harness")
BUILD = os.path.join(VERIF, "build")          # products of setup_cmd (shim etc.)


def _world_reachable(path):
    p = os.path.abspath(path)
    while True:
        try:
            if os.stat(p).st_mode & 0o005 != 0o005:
                return False
        except OSError:
            return False
        if p == "/":
            return True
        p = os.path.dirname(p)


def _runtime_build():
    """Programs under test drop to unprivileged uids and must still be able to load the shim and run the stand-ins: if this
    copy of /verif lives below a directory other users cannot enter (a snapshot under /root), use a private world-readable
    copy of build/ for the duration of the check."""
    global BUILD
    if not os.path.isdir(BUILD) or _world_reachable(BUILD):
        return
    dst = os.path.join(os.environ.get("VERIF_SCRATCH_BASE", "/var/tmp"), "notqmail-verif.build.%d" % os.getpid())
    shutil.rmtree(dst, ignore_errors=True)
    shutil.copytree(BUILD, dst)
    os.chmod(dst, 0o755)
    for n in os.listdir(dst):
        os.chmod(os.path.join(dst, n), 0o755)
    atexit.register(shutil.rmtree, dst, True)
    BUILD = dst


_runtime_build()
JAVA_CP = "/opt/veriftools/tla/tla2tools.jar:/opt/veriftools/tla/CommunityModules-deps.jar"
NCPU = os.cpu_count() or 4


class Infra(Exception):
    """Something in the machinery (not the property) failed: exit 2."""


def log(*a):
    print(*a, file=sys.stderr, flush=True)


# --------------------------------------------------------------------------
# scratch space
# --------------------------------------------------------------------------
class Scratch:
    def __init__(self, tag="run"):
        base = os.environ.get("VERIF_SCRATCH_BASE", "/var/tmp")
        self.dir = os.path.join(base, "notqmail-verif.%s.%d" % (tag, os.getpid()))
        shutil.rmtree(self.dir, ignore_errors=True)
        os.makedirs(self.dir)
        atexit.register(self.cleanup)
        for s in (signal.SIGTERM, signal.SIGINT, signal.SIGHUP):
            try:
                signal.signal(s, self._sig)
            except Exception:
                pass

    def _sig(self, signo, frame):
        self.cleanup()
        os._exit(2)

    def cleanup(self):
        if os.environ.get("VERIF_KEEP"):
            return
        # files may have been chowned / made unreadable by the runs
        subprocess.call(["chmod", "-R", "u+rwx", self.dir], stderr=subprocess.DEVNULL)
        shutil.rmtree(self.dir, ignore_errors=True)

    def path(self, *p):
        return os.path.join(self.dir, *p)

    def sub(self, name):
        d = self.path(name)
        os.makedirs(d, exist_ok=True)
        return d


# --------------------------------------------------------------------------
# building the current working tree
# --------------------------------------------------------------------------
class Tree:
    """A built scratch copy of /repo's working tree."""
    def __init__(self, src, root):
        self.src = src       # build directory
        self.root = root     # sandbox qmail home (conf-qmail)

    def bin(self, name):
        return os.path.join(self.src, name)


def run(cmd, **kw):
    kw.setdefault("stdout", subprocess.PIPE)
    kw.setdefault("stderr", subprocess.STDOUT)
    return subprocess.run(cmd, **kw)


def build_tree(scratch, name="b", split=None, cflags=None, ldflags=None, targets=("it",),
               verif_hooks=True, queue=True):
    """Copy tracked + untracked-unignored files of REPO's working tree and build them.

    conf-qmail is rewritten *in the copy* (a build-time configuration value, like
    conf-split).  Raises Infra if the tree does not build.
    """
    src = scratch.path(name)
    root = scratch.path(name + "-root")
    os.makedirs(src)
    p = subprocess.run(["git", "-C", REPO, "ls-files", "-z", "--cached", "--others", "--exclude-standard"],
                       stdout=subprocess.PIPE, check=True)
    files = [f for f in p.stdout.split(b"\0") if f and os.path.lexists(os.path.join(REPO.encode(), f))]
    # never copy build products that happen to be untracked (tests/*-without-main.c, binaries)
    files = [f for f in files if not (f.startswith(b"tests/unittest_") and b"." not in f[6:])
             and not f.endswith(b"-without-main.c")]
    r = subprocess.run(["rsync", "-a", "--from0", "--files-from=-", REPO + "/", src + "/"],
                       input=b"\0".join(files), stdout=subprocess.PIPE, stderr=subprocess.STDOUT)
    if r.returncode != 0:
        raise Infra("rsync failed: " + r.stdout.decode(errors="replace"))

    def rewrite_first_line(fn, val):
        pth = os.path.join(src, fn)
        with open(pth) as f:
            lines = f.read().split("\n")
        lines[0] = val
        with open(pth, "w") as f:
            f.write("\n".join(lines))

    rewrite_first_line("conf-qmail", root)
    if split is not None:
        rewrite_first_line("conf-split", str(split))
    if cflags or verif_hooks:
        with open(os.path.join(src, "conf-cc")) as f:
            first = f.readline().rstrip("\n")
        extra = (" -DNOTQMAIL_VERIF" if verif_hooks else "") + (" " + cflags if cflags else "")
        rewrite_first_line("conf-cc", first + extra)
    if ldflags:
        with open(os.path.join(src, "conf-ld")) as f:
            first = f.readline().rstrip("\n")
        rewrite_first_line("conf-ld", first.replace(" -s", "") + " " + ldflags)
    r = run(["make", "-j%d" % NCPU] + list(targets), cwd=src)
    if r.returncode != 0:
        raise Infra("build failed:\n" + r.stdout.decode(errors="replace")[-3000:])
    t = Tree(src, root)
    if queue:
        os.makedirs(root)
        r = run(["./instpackage", "queue-only"], cwd=src)
        if r.returncode != 0:
            raise Infra("instpackage failed: " + r.stdout.decode(errors="replace"))
        os.makedirs(os.path.join(root, "bin"), exist_ok=True)
        os.makedirs(os.path.join(root, "control"), exist_ok=True)
        os.makedirs(os.path.join(root, "users"), exist_ok=True)
        os.makedirs(os.path.join(root, "alias"), exist_ok=True)
        with open(os.path.join(root, "control", "me"), "w") as f:
            f.write("test.example\n")
        # the programs the suite runs by relative path under its home (bin/qmail-queue, bin/qmail-local, ...)
        for b in ("qmail-queue", "qmail-clean", "qmail-send", "qmail-lspawn", "qmail-rspawn", "qmail-local", "qmail-remote",
                  "qmail-getpw", "qmail-inject", "qmail-newu", "qmail-newmrh", "qmail-smtpd", "qmail-qmtpd", "qmail-qmqpd", "qmail-pop3d", "qmail-popup"):
            sp = os.path.join(src, b)
            if os.path.exists(sp):
                shutil.copy2(sp, os.path.join(root, "bin", b))
    return t


def cc(out, sources, cflags=(), libs=(), cwd=None):
    cmd = ["cc", "-O1", "-g", "-o", out] + list(cflags) + list(sources) + list(libs)
    r = run(cmd, cwd=cwd)
    if r.returncode != 0:
        raise Infra("cc failed: %s\n%s" % (" ".join(cmd), r.stdout.decode(errors="replace")[-3000:]))
    return out


def without_main(tree, cfile, out=None):
    """The repository's own test recipe: everything of X.c before `int main(`."""
    srcp = os.path.join(tree.src, cfile)
    out = out or os.path.join(tree.src, cfile[:-2] + "-nomain.c")
    with open(srcp) as f:
        lines = f.read().split("\n")
    for i, l in enumerate(lines):
        if l.startswith("int main("):
            lines = lines[:i]
            break
    else:
        raise Infra("no 'int main(' in " + cfile)
    with open(out, "w") as f:
        f.write("\n".join(lines) + "\n")
    return out


# --------------------------------------------------------------------------
# TLC
# --------------------------------------------------------------------------
class TlcResult:
    def __init__(self):
        self.rc = None
        self.out = ""
        self.generated = 0
        self.distinct = 0
        self.violated = []      # invariant / property names
        self.error = None
        self.prints = []        # lines produced by PrintT
        self.wall = 0.0
        self.coverage = {}      # action -> (taken, generated) if -coverage

    @property
    def ok(self):
        return self.rc == 0 and not self.violated and not self.error


_RE_STATES = re.compile(r"(\d+) states generated, (\d+) distinct states found")
_RE_INV = re.compile(r"Invariant (\S+) is violated")
_RE_PROP = re.compile(r"(?:Temporal properties were violated|Action property (\S+) is violated|Error: Deadlock reached)")


def _die_with_parent():
    """child side: be killed when the check dies (an outer `timeout` kills only the python process; an orphaned TLC would go
    on filling the disk and the memory and make other checks fail for lack of resources)"""
    try:
        import ctypes
        ctypes.CDLL("libc.so.6", use_errno=True).prctl(1, signal.SIGKILL)      # PR_SET_PDEATHSIG
    except Exception:
        pass


def resources_ok():
    """False if the scratch file system or the memory is nearly exhausted: observations made then (empty trace files, failed
    forks, missing identity files) are not evidence about the property"""
    try:
        st = os.statvfs(os.environ.get("VERIF_SCRATCH_BASE", "/var/tmp"))
        if st.f_bavail * st.f_frsize < (2 << 30):
            return False
        for line in open("/proc/meminfo"):
            if line.startswith("MemAvailable:") and int(line.split()[1]) < (1 << 20):     # < 1 GB
                return False
    except Exception:
        pass
    return True


def tlc(module, cfg=None, env=None, workers=None, timeout=900, simulate=None, depth=None,
        deadlock=False, metadir=None, extra=(), cwd=None, heap="4g", seed=None, coverage=False,
        dfs_queue=False):
    """Run TLC on spec/<module>.tla with spec/<cfg>; returns TlcResult.

    TLC exit codes: 0 ok, 12 invariant violated, 13 property violated, 10/11 assumption/deadlock...
    anything else (parse errors, OOM, timeout) is reported in .error and treated as
    infrastructure by the callers.
    """
    cwd = cwd or SPEC
    cfg = cfg or (module + ".cfg")
    import tempfile
    md = metadir or tempfile.mkdtemp(prefix="notqmail-verif.tlcmeta.%d." % os.getpid(), dir="/var/tmp")
    cmd = ["java", "-XX:+UseParallelGC", "-Xss64m", "-Xmx" + heap]
    if dfs_queue:
        cmd.append("-Dtlc2.tool.queue.IStateQueue=StateDeque")
    cmd += ["-cp", JAVA_CP, "tlc2.TLC", "-metadir", md, "-config", cfg]
    cmd += ["-workers", str(workers or "auto"), "-noGenerateSpecTE"]
    if not deadlock:
        cmd.append("-deadlock")
    if simulate:
        cmd += ["-simulate", "num=%d" % simulate]
        if depth:
            cmd += ["-depth", str(depth)]
    if seed is not None:
        cmd += ["-seed", str(seed)]
    if coverage:
        cmd += ["-coverage", "1"]
    cmd += list(extra)
    cmd.append(module + ".tla" if not module.endswith(".tla") else module)
    e = dict(os.environ)
    if env:
        e.update({k: str(v) for k, v in env.items()})
    res = TlcResult()
    t0 = time.time()
    try:
        p = subprocess.run(cmd, cwd=cwd, env=e, stdout=subprocess.PIPE, stderr=subprocess.STDOUT, timeout=timeout, preexec_fn=_die_with_parent)
        res.rc = p.returncode
        res.out = p.stdout.decode(errors="replace")
    except subprocess.TimeoutExpired as ex:
        res.rc = -1
        res.out = (ex.stdout or b"").decode(errors="replace")
        res.error = "TLC timeout after %ss" % timeout
    finally:
        shutil.rmtree(md, ignore_errors=True)
    res.wall = time.time() - t0
    for m in _RE_STATES.finditer(res.out):
        res.generated, res.distinct = int(m.group(1)), int(m.group(2))
    res.violated = _RE_INV.findall(res.out)
    for m in _RE_PROP.finditer(res.out):
        res.violated.append(m.group(1) or m.group(0))
    for line in res.out.split("\n"):
        if line.startswith('"') or line.startswith("<<") or line.startswith("["):
            res.prints.append(line)
    if res.rc not in (0, 12, 13) and not res.error:
        if res.rc == 11 and "Deadlock" in res.out:
            pass
        else:
            tail = "\n".join(res.out.strip().split("\n")[-25:])
            res.error = "TLC exit %s:\n%s" % (res.rc, tail)
    if coverage:
        for m in re.finditer(r"<(\w+) line \d+, col \d+ to line \d+, col \d+ of module \w+>: (\d+):(\d+)", res.out):
            res.coverage[m.group(1)] = (int(m.group(2)), int(m.group(3)))
    return res


def need_ok(res, what):
    """Model-level TLC run that must pass on the specification itself."""
    if res.error:
        raise Infra("%s: %s" % (what, res.error))
    return res


# --------------------------------------------------------------------------
# record validation by TLC: the spec's monitor evaluated on recorded behaviour
# --------------------------------------------------------------------------
def write_ndjson(path, recs):
    with open(path, "w") as f:
        for r in recs:
            f.write(json.dumps(r, separators=(",", ":")) + "\n")


PART = 120000


def tlc_validate_records(module, cfg, recfile, nrecs, chunk=500, workers=None, timeout=1200, env=None, heap="6g"):
    """Run a *Rec.tla validator over an ndjson file.

    Protocol with the validator modules (see spec/RecCheck.tla): TLC walks the
    file in chunks; for every record the module evaluates its monitor and
    PrintT's <<"BADREC", index, reason>> for a record the monitor rejects, and
    <<"CHECKED", first, last>> for each chunk.  Returns (bad, checked) where bad is
    a list of (index, reason) with 1-based indices into the file.
    """
    if nrecs > PART:
        # a very large file is validated in parts of PART records (one TLC run each): parsing and holding millions of
        # records in one JVM is what runs out of time, not the evaluation
        bad, total = [], None
        with open(recfile) as f:
            lo = 0
            while lo < nrecs:
                n = min(PART, nrecs - lo)
                part = "%s.part%d" % (recfile, lo // PART)
                with open(part, "w") as g:
                    for _ in range(n):
                        g.write(f.readline())
                b, r = tlc_validate_records(module, cfg, part, n, chunk=chunk, workers=workers, timeout=timeout, env=env, heap=heap)
                os.unlink(part)
                bad += [(i + lo, why) for i, why in b]
                if total is None:
                    total = r
                else:
                    total.generated += r.generated
                    total.distinct += r.distinct
                    total.wall += r.wall
                    total.out = total.out[-20000:] + r.out[-20000:]
                lo += n
        return bad, total
    e = {"RECORDS": recfile, "CHUNK": str(chunk)}
    if env:
        e.update(env)
    res = tlc(module, cfg, env=e, workers=workers, timeout=timeout, heap=heap)
    if res.error:
        raise Infra("record validation %s: %s" % (module, res.error))
    bad, checked = [], 0
    # TLC pretty-prints a long tuple over several lines: parse the whole output, not line by line
    for m in re.finditer(r'<<\s*"BADREC",\s*(\d+),\s*("(?:[^"\\\\]|\\\\.)*")(?:,\s*(\d+))?\s*>>', res.out, re.S):
        why = m.group(2) + (", " + m.group(3) if m.group(3) else "")
        bad.append((int(m.group(1)), why))
    for m in re.finditer(r'<<\s*"CHECKED",\s*(\d+),\s*(\d+)\s*>>', res.out, re.S):
        checked += int(m.group(2)) - int(m.group(1)) + 1
    if len(bad) != len(re.findall(r'"BADREC"', res.out)):
        raise Infra("record validation %s: could not parse every BADREC line of TLC's output" % module)
    if checked != nrecs:
        raise Infra("record validation %s: TLC looked at %d of %d records\n%s" % (module, checked, nrecs, res.out[-2000:]))
    bad.sort()
    return bad, res


# --------------------------------------------------------------------------
# known findings
# --------------------------------------------------------------------------
class KnownFindings:
    """known_findings.txt: `known: property=<id> key=<witness key> <text>` / `fixed: ...`.

    A violation is matched against `known:` entries of its property by its
    witness key (a short canonical description of the specific failing input,
    call site or history computed by the check).  `fixed:` lines suppress nothing.
    """
    def __init__(self, path=None):
        self.known = []
        path = path or os.path.join(VERIF, "known_findings.txt")
        if os.path.exists(path):
            for line in open(path):
                line = line.strip()
                m = re.match(r"known:\s+property=(\S+)\s+key=(\S+)\s*(.*)$", line)
                if m:
                    self.known.append((m.group(1), m.group(2), m.group(3)))

    def match(self, prop, key):
        for p, k, text in self.known:
            if p == prop and re.fullmatch(k, key):
                return (k, text)
        return None


# --------------------------------------------------------------------------
# evidence + verdict
# --------------------------------------------------------------------------
class Check:
    """One run of one property check: collects coverage, decides the exit status."""
    def __init__(self, prop, tier, level="model_checking"):
        self.prop = prop
        self.tier = tier
        self.level = level
        self.seed = int(os.environ.get("VERIF_SEED", "1") or 1)
        self.rng = random.Random(self.seed)
        self.t0 = time.time()
        self.cov = {"states": 0, "transitions": 0, "traces_validated_against_impl": 0, "samples": [],
                    "evaluations": 0, "distinct_nontrivial": 0, "rule": "", "tlc_runs": [], "exhaustive": False}
        self.assumptions = []
        self.violations = []      # (key, description, replay_path)
        self.known_hits = []
        self.kf = KnownFindings()
        self.resource_low = False
        import threading
        threading.Thread(target=self._watch_resources, daemon=True).start()
        self.scratch = Scratch(prop)
        self.replaydir = os.path.join(VERIF, "replay", prop)
        self._distinct = set()

    # ---- coverage accounting
    def add_tlc(self, name, res):
        self.cov["states"] += res.distinct
        self.cov["transitions"] += res.generated
        self.cov["tlc_runs"].append({"model": name, "distinct_states": res.distinct, "states_generated": res.generated,
                                     "wall_s": round(res.wall, 1), "violated": res.violated})

    def count(self, key, nontrivial=True):
        """One evaluation on the real code; key identifies the case for distinctness."""
        self.cov["evaluations"] += 1
        if nontrivial:
            h = hashlib.blake2b(repr(key).encode(), digest_size=8).digest()
            self._distinct.add(h)

    def sample(self, s, cap=6):
        if len(self.cov["samples"]) < cap:
            self.cov["samples"].append(s)

    # ---- verdicts
    def model_violation(self, name, res):
        """The specification itself fails its own invariant: the machinery is broken, not notqmail."""
        raise Infra("model %s violates %s on the specification itself:\n%s" % (name, res.violated, res.out[-3000:]))

    def violation(self, key, desc, replay_obj=None):
        """A monitor failed on behaviour of the real code."""
        hit = self.kf.match(self.prop, key)
        if hit:
            if not any(k == hit[0] for k, _ in self.known_hits):
                self.known_hits.append((hit[0], hit[1]))
            return False
        path = None
        if replay_obj is not None and len(self.violations) < 20:
            os.makedirs(self.replaydir, exist_ok=True)
            path = os.path.join(self.replaydir, "v%02d.json" % len(self.violations))
            with open(path, "w") as f:
                json.dump({"property": self.prop, "key": key, "description": desc, "case": replay_obj}, f, indent=1)
        self.violations.append((key, desc, path))
        return True

    def _watch_resources(self):
        while True:
            if not resources_ok():
                self.resource_low = True
            time.sleep(5)

    def finish(self):
        if self.violations and (getattr(self, "resource_low", False) or not resources_ok()):
            raise Infra("disk or memory was nearly exhausted during this run: the %d objection(s) raised are not reported as verdicts; free space and run again" % len(self.violations))
        self.cov["distinct_nontrivial"] = len(self._distinct)
        ev = {"property_id": self.prop, "tier": self.tier, "seed": self.seed, "level": self.level,
              "coverage": self.cov, "assumptions": self.assumptions,
              "wall_s": round(time.time() - self.t0, 1), "violations": len(self.violations),
              "known_findings_hit": [k for k, _ in self.known_hits]}
        os.makedirs(os.path.join(VERIF, "evidence"), exist_ok=True)
        with open(os.path.join(VERIF, "evidence", self.prop + ".json"), "w") as f:
            json.dump(ev, f, indent=1)
        for k, text in self.known_hits:
            print("KNOWN-FINDING: property=%s %s (%s)" % (self.prop, text, k))
        if self.violations:
            seen = set()
            for key, desc, path in self.violations[:10]:
                if key in seen:
                    continue
                seen.add(key)
                print("VIOLATION property=%s replay=%s  %s: %s" % (self.prop, path or "-", key, desc))
            self.scratch.cleanup()
            sys.exit(1)
        print("OK property=%s tier=%s evaluations=%d distinct=%d states=%d wall=%.0fs" % (
            self.prop, self.tier, self.cov["evaluations"], self.cov["distinct_nontrivial"], self.cov["states"],
            time.time() - self.t0))
        self.scratch.cleanup()
        sys.exit(0)


def main_wrapper(fn):
    """Run a check's main(); anything unexpected is infrastructure (exit 2), never a verdict."""
    try:
        fn()
    except Infra as e:
        log("INFRASTRUCTURE: %s" % e)
        sys.exit(2)
    except SystemExit:
        raise
    except Exception:
        import traceback
        traceback.print_exc()
        log("INFRASTRUCTURE: unexpected exception in the check")
        sys.exit(2)
