"""C11 helpers: users/assign rendering, passwd database for the shim, the qmail-lspawn protocol
driver (delivery commands on descriptor 0, reports on descriptor 1), collection of the stand-in
qmail-local records and of the identity events of the shim trace, and a reader of the cdb layout
used only to enumerate damage positions (the verdict never depends on it)."""
import os, json, subprocess, struct
from vlib import BUILD, Infra
import sandbox

STANDIN_LOCAL = os.path.join(BUILD, "standin_local")
MARK_FAIL = b"VERIF-STANDIN-FAILURE"


def B(x):
    return x if isinstance(x, bytes) else x.encode("latin-1")


def L(x):
    return list(B(x))


# ------------------------------------------------------------------ users/assign
def entry(w, loc, user, uid, gid, home, dash="", ext=""):
    return {"w": 1 if w else 0, "loc": B(loc), "user": B(user), "uid": uid, "gid": gid, "home": B(home), "dash": B(dash), "ext": B(ext)}


def render_line(e):
    # "uidtext": the uid field as written when it is not the decimal form of e["uid"]: a non-zero multiple of 2^32 narrows
    # to uid 0 in a 32-bit uid_t, i.e. it denotes root; the model is told uid 0 for such an entry ("never as root")
    return (b"+" if e["w"] else b"=") + e["loc"] + b":" + e["user"] + b":" + str(e.get("uidtext", e["uid"])).encode() + b":" + str(e["gid"]).encode() + \
        b":" + e["home"] + b":" + e["dash"] + b":" + e["ext"] + b":\n"


def render_assign(entries):
    return b"".join(render_line(e) for e in entries) + b".\n"


def entry_json(e):
    return {"w": e["w"], "loc": list(e["loc"]), "user": list(e["user"]), "uid": e["uid"], "gid": e["gid"], "home": list(e["home"]),
            "dash": list(e["dash"]), "ext": list(e["ext"])}


# ------------------------------------------------------------------ passwd database served by the shim
def write_ids(path, root, accounts, errors=(), alias=True, alias_uid=None, alias_home=None):
    """accounts: dicts name, uid, gid, home (bytes).  The package's own users are always present except
    (optionally) the alias user."""
    with open(path, "wb") as f:
        for n, u in sandbox.USERS.items():
            if n == "alias":
                if not alias:
                    continue
                f.write(b"u alias %d %d %s\n" % (alias_uid if alias_uid is not None else u, sandbox.GROUPS["nofiles"],
                                                 B(alias_home or os.path.join(root, "alias"))))
            else:
                f.write(b"u %s %d %d %s\n" % (n.encode(), u, sandbox.GROUPS["nofiles"], B(root)))
        for n, g in sandbox.GROUPS.items():
            f.write(b"g %s %d\n" % (n.encode(), g))
        for a in accounts:
            f.write(b"u %s %d %d %s\n" % (a["name"], a["uid"], a["gid"], a["home"]))
        for n in errors:
            f.write(b"E %s 0\n" % B(n))
    return path


# ------------------------------------------------------------------ qmail-lspawn protocol
def parse_reports(out):
    """descriptor 1 of qmail-lspawn: one byte (concurrency), then per delivery: delnum byte, text, NUL."""
    if not out:
        return None, {}
    conc = out[0]
    reps = {}
    i = 1
    while i < len(out):
        dn = out[i]
        j = out.find(b"\0", i + 1)
        if j == -1:
            raise Infra("unterminated report from qmail-lspawn: %r" % out[i:i + 200])
        reps.setdefault(dn, []).append(out[i + 1:j])
        i = j + 1
    return conc, reps


def run_lspawn(argv, cwd, env, deliveries, timeout=40):
    """One qmail-lspawn process (the binary may be wrapped): all commands are written at once, then descriptor 0 is
    closed; qmail-lspawn exits when every delivery has been reported.  Returns (reports, hung): report texts (first
    byte = class) or None where no report came; hung = the process had to be killed."""
    inp = b"".join(bytes([k + 1]) + b"0/1234\0" + s + b"\0" + r + b"\0" for k, (s, r) in enumerate(deliveries))
    p = subprocess.Popen(argv, stdin=subprocess.PIPE, stdout=subprocess.PIPE, stderr=subprocess.PIPE, env=env, cwd=cwd, start_new_session=True)
    hung = False
    try:
        out, err = p.communicate(inp, timeout=timeout)
    except subprocess.TimeoutExpired:
        hung = True
        try:
            os.killpg(p.pid, 9)
        except OSError:
            p.kill()
        out, err = p.communicate()
    if hung:
        # cut an unfinished report off
        out = out[:out.rfind(b"\0") + 1] if len(out) > 1 else out[:1]
    conc, reps = parse_reports(out)
    if conc is None and not hung:
        raise Infra("qmail-lspawn wrote nothing (exit %s): %r" % (p.returncode, err[:300]))
    res = []
    for k in range(len(deliveries)):
        r = reps.get(k + 1, [])
        if len(r) > 1:
            raise Infra("two reports for one delivery number: %r" % r)
        if r and MARK_FAIL in r[0]:
            raise Infra("the stand-in qmail-local failed: %r" % r[0])
        res.append(r[0] if r else None)
    return res, hung


def collect_standin(d):
    """{sender bytes: [record, ...]} from the stand-in's record directory; removes the files."""
    out = {}
    for fn in os.listdir(d):
        if fn.startswith(".t"):
            continue
        p = os.path.join(d, fn)
        with open(p, "rb") as f:
            try:
                r = json.loads(f.read())
            except ValueError:
                raise Infra("bad stand-in record " + p)
        os.unlink(p)
        r["pid"] = int(fn.split(".")[0])
        av = r["argv"]
        # the sender is the last but one argument of the documented qmail-local interface
        tag = bytes(av[-2]) if len(av) >= 2 else b""
        out.setdefault(tag, []).append(r)
    return out


def id_events(trace):
    """{pid: [[call, arg/list, ok], ...]} identity calls of each process up to its exec of qmail-local;
    call codes: 1 setgroups (arg = list), 2 setgid, 3 setuid.  Also {pid: exec event}."""
    per, execs = {}, {}
    for e in trace:
        c = e.get("c")
        pid = e.get("p")
        if c == "forked":
            per[pid] = []
        elif c in ("setgroups", "setgid", "setuid"):
            code = {"setgroups": 1, "setgid": 2, "setuid": 3}[c]
            arg = e.get("list", []) if code == 1 else [e.get("arg")]
            per.setdefault(pid, []).append({"c": code, "a": arg, "ok": 1 if e.get("res") == 0 else 0})
        elif c == "exec" and e.get("path", "").endswith("qmail-local"):
            execs[pid] = e
    return per, execs


# ------------------------------------------------------------------ cdb layout (damage positions only)
def cdb_hash(key):
    h = 5381
    for c in key:
        h = ((h + (h << 5)) & 0xffffffff) ^ c
    return h


def cdb_layout(data):
    """Offsets of every pointer word of a well-formed cdb: header (pos,len) pairs of non-empty tables,
    slot (hash,pos) pairs, record (klen,dlen) headers.  Returns dict of lists of (offset, kind)."""
    words = []
    if len(data) < 2048:
        return words
    tables = []
    for b in range(256):
        pos, ln = struct.unpack_from("<II", data, 8 * b)
        if ln:
            words.append((8 * b, "hpos"))
            words.append((8 * b + 4, "hlen"))
            tables.append((pos, ln))
    end_records = min([p for p, _ in tables] or [len(data)])
    o = 2048
    while o + 8 <= end_records:
        kl, dl = struct.unpack_from("<II", data, o)
        words.append((o, "klen"))
        words.append((o + 4, "dlen"))
        o += 8 + kl + dl
    for pos, ln in tables:
        for s in range(ln):
            off = pos + 8 * s
            if off + 8 <= len(data):
                h, p = struct.unpack_from("<II", data, off)
                if p:
                    words.append((off, "shash"))
                    words.append((off + 4, "spos"))
    return words
