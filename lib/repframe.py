"""Framing of a delivery-report channel (spawner -> queue manager), as documented in INTERNALS / qmail-send.c del_dochan():
a report is  <delivery number byte> <text bytes> NUL ; a NUL that would be the FIRST byte of a report is the delivery number 0,
not a terminator.  This is lexing only: what a frame MEANS (used / unused number, K / Z / D / anything else) is decided by the
monitor spec/QSendMon.tla on the abstract `report` events built from the frames."""


class Framer:
    def __init__(self):
        self.pend = {0: bytearray(), 1: bytearray()}

    def feed(self, chan, data):
        """-> list of complete frames (bytes, without the final NUL) that `data` completes on channel chan"""
        out = []
        buf = self.pend[chan]
        for b in data:
            if b == 0 and len(buf) >= 1:
                out.append(bytes(buf))
                del buf[:]
            else:
                buf.append(b)
        return out

    def reset(self):
        for c in self.pend:
            del self.pend[c][:]


def letter(frame):
    """report class of a frame: K / Z / D, or G for anything else (the daemon must treat it as a deferral)"""
    return chr(frame[1]) if len(frame) >= 2 and chr(frame[1]) in "KZD" else "G"
