"""Driving the real qmail-rspawn (spawn.c) with the QMAILREMOTE stand-in."""
import os, subprocess, shutil
import sandbox
from vlib import BUILD, Infra

STANDIN_REMOTE = os.path.join(BUILD, "standin_remote")


def mkcmd(dn, mid, sender, rcpt):
    return bytes([dn]) + mid + b"\0" + sender + b"\0" + rcpt + b"\0"


def parse_reports(out):
    """first byte = announced limit; then reports: delnum byte, text, NUL"""
    if not out:
        return None, []
    limit = out[0]
    reps = []
    i = 1
    while i < len(out):
        dn = out[i]
        j = out.find(b"\0", i + 1)
        if j < 0:
            reps.append((dn, out[i + 1:], False))
            break
        reps.append((dn, out[i + 1:j], True))
        i = j + 1
    return limit, reps


def run_rspawn(tree, workdir, cmdstream, scripts, ids, timeout=60):
    """scripts: {name: (output bytes or None, "exit N"/"signal N" or None)}"""
    qr = os.path.join(workdir, "qr")
    shutil.rmtree(qr, ignore_errors=True)
    os.makedirs(qr)
    for name, (out, ex) in scripts.items():
        if out is not None:
            with open(os.path.join(qr, name + ".out"), "wb") as f:
                f.write(out)
        if ex is not None:
            with open(os.path.join(qr, name + ".exit"), "w") as f:
                f.write(ex)
    trace = os.path.join(workdir, "rspawn.trace")
    if os.path.exists(trace):
        os.unlink(trace)
    env = sandbox.shim_env(tree, ids=ids, trace=trace, role="rspawn")
    env["QMAILREMOTE"] = STANDIN_REMOTE
    env["VERIF_QR_DIR"] = qr
    p = subprocess.Popen([tree.bin("qmail-rspawn")], stdin=subprocess.PIPE, stdout=subprocess.PIPE, stderr=subprocess.PIPE, env=env)
    try:
        out, err = p.communicate(cmdstream, timeout=timeout)
        hung = False
    except subprocess.TimeoutExpired:
        p.kill()
        out, err = p.communicate()
        hung = True
    limit, reps = parse_reports(out)
    messdir = os.path.join(tree.root, "queue", "mess")
    opens = []
    for e in sandbox.read_trace(trace):
        if e["c"] == "open" and e["r"].endswith("qmail-rspawn") and e["path"].startswith(messdir + "/"):
            rel = e["path"][len(messdir) + 1:]
            if rel == "../lock/tcpto":          # tcpto_clean() at start-up, not a message file
                continue
            opens.append(rel)
        elif e["c"] == "open" and e["r"].endswith("qmail-rspawn") and "/queue/lock/" not in e["path"]:
            opens.append("!" + e["path"])
    ran = []
    for fn in os.listdir(qr):
        if fn.startswith("log."):
            for line in open(os.path.join(qr, fn), "rb").read().split(b"\n"):
                if line:
                    f = line.split(b"\t")
                    ran.append({"rcpt": f[0], "sender": f[1], "host": f[2], "ino": int(f[3]), "mode": int(f[4], 8), "uid": int(f[5])})
    return {"limit": limit, "reports": reps, "opens": opens, "ran": ran, "rc": p.returncode, "hung": hung}
