"""Running the real qmail-queue under the shim and turning its trace into FS events for TLC."""
import os, re, subprocess, errno
import sandbox
from vlib import Infra

ADDR = 1003


def envelope(sender, rcpts, terminator=True):
    return b"F" + sender + b"\0" + b"".join(b"T" + r + b"\0" for r in rcpts) + (b"\0" if terminator else b"")


def gen_cases(rng, thorough):
    """(name, input bytes, sender, rcpts, envelope bytes, defect)"""
    cases = []
    body = lambda n: bytes((65 + (i * 7) % 26) if i % 61 else 10 for i in range(n))
    sizes = [0, 1, 255, 256, 257, 2047, 2048, 2049, 5000] if thorough else [0, 1, 256, 257, 2048, 2049]
    s, r1, r2 = b"sender@s.test", b"one@r.test", b"two@r.test"
    for n in sizes:
        cases.append(("size%d" % n, body(n), s, [r1], envelope(s, [r1]), "none"))
    for k in (0, 1, 2, 3, 40 if thorough else 9):
        rc = [("r%d@r.test" % i).encode() for i in range(k)]
        cases.append(("rcpts%d" % k, body(30), s, rc, envelope(s, rc), "none"))
    cases.append(("emptysender", body(10), b"", [r1], envelope(b"", [r1]), "none"))
    # address lengths: the limit is on the record (address + NUL) of ADDR bytes
    for ln in (1001, 1002, 1003, 1004):
        a = b"a" * (ln - 7) + b"@r.test"
        d = "none" if ln < ADDR else "longT"
        cases.append(("rcptlen%d" % ln, body(5), s, [r1, a], envelope(s, [r1, a]), d))
        d = "none" if ln < ADDR else "longF"
        cases.append(("senderlen%d" % ln, body(5), a, [r1], envelope(a, [r1]), d))
    # wrong record letters
    cases.append(("badF", body(5), s, [r1], b"X" + s + b"\0T" + r1 + b"\0\0", "badF"))
    cases.append(("badT", body(5), s, [r1, r2], b"F" + s + b"\0T" + r1 + b"\0X" + r2 + b"\0\0", "badT"))
    cases.append(("badT2", body(5), s, [r1], b"F" + s + b"\0t" + r1 + b"\0\0", "badT"))
    # missing terminator / EOF anywhere in the envelope
    full = envelope(s, [r1, r2])
    cuts = range(len(full)) if thorough else sorted(set([0, 1, 2, len(s) + 1, len(s) + 2, len(s) + 3, len(full) - 3, len(full) - 2, len(full) - 1]))
    for c in cuts:
        cases.append(("eof%d" % c, body(5), s, [r1, r2], full[:c], "eof"))
    # message with NUL / 8-bit bytes
    cases.append(("binary", bytes(range(256)) * 2, s, [r1], envelope(s, [r1]), "none"))
    return cases


class Renum:
    def __init__(self):
        self.m = {}

    def __call__(self, v):
        v = int(v)
        if v not in self.m:
            self.m[v] = len(self.m) + 1
        return self.m[v]


def parse_qpath(path, qdir, rn):
    rel = os.path.relpath(path, qdir)
    m = re.fullmatch(r"(mess|info|local|remote)/(\d+)/(\d+)", rel)
    if m:
        return m.group(1), rn(m.group(3))
    m = re.fullmatch(r"(intd|todo|bounce)/(\d+)", rel)
    if m:
        return m.group(1), rn(m.group(2))
    m = re.fullmatch(r"pid/(.+)", rel)
    if m:
        return "pid", 0
    return None, None


def fs_events(trace, qdir, rn=None):
    """Shim trace -> list of FS events (only successful mutations of queue files)."""
    rn = rn or Renum()
    out = []
    blank = {"op": "", "d": "", "n": 0, "d2": "", "n2": 0, "ino": 0, "off": 0, "b": [], "len": 0}
    for e in trace:
        c = e["c"]
        ev = None
        if c == "open" and e["res"] >= 0 and e.get("creat") and e["path"].startswith(qdir + "/"):
            d, n = parse_qpath(e["path"], qdir, rn)
            if d:
                ev = dict(blank, op="create", d=d, n=n, ino=rn(e["ino"]))
        elif c == "link" and e["res"] == 0:
            d, n = parse_qpath(e["path"], qdir, rn)
            d2, n2 = parse_qpath(e["to"], qdir, rn)
            if d and d2:
                ev = dict(blank, op="link", d=d, n=n, d2=d2, n2=n2, ino=rn(e["ino"]) if e.get("ino", -1) >= 0 else 0)
        elif c == "rename" and e["res"] == 0:
            d, n = parse_qpath(e["path"], qdir, rn)
            d2, n2 = parse_qpath(e["to"], qdir, rn)
            if d and d2:
                ev = dict(blank, op="rename", d=d, n=n, d2=d2, n2=n2, ino=rn(e["ino"]) if e.get("ino", -1) >= 0 else 0)
        elif c == "unlink" and e["res"] == 0:
            d, n = parse_qpath(e["path"], qdir, rn)
            if d:
                ev = dict(blank, op="unlink", d=d, n=n)
        elif c == "write" and e.get("reg") and e["res"] > 0 and e["obj"].startswith(qdir + "/"):
            ev = dict(blank, op="write", ino=rn(e["ino"]), off=e["off"], b=list(bytes.fromhex(e["hex"])))
        elif c == "ftruncate" and e["res"] == 0 and e["obj"].startswith(qdir + "/"):
            ev = dict(blank, op="trunc", ino=rn(e["ino"]), len=e["arg"])
        elif c == "fsync" and e["res"] == 0 and e["obj"].startswith(qdir + "/"):
            ev = dict(blank, op="fsync", ino=rn(e["ino"]))
        if ev:
            ev["k"] = e.get("k", 0)
            role = e.get("r", "")
            ev["who"] = "queue" if role.endswith("qmail-queue") else "send" if role.endswith("qmail-send") else "clean" if role.endswith("qmail-clean") else "other"
            ev["t"] = e.get("t", 0)
            out.append(ev)
    return out


FAULT_KINDS = {
    "open": [errno.ENOSPC, errno.EIO], "link": [errno.EIO, errno.EMLINK], "unlink": [errno.EIO], "write": [errno.EIO, errno.ENOSPC, "short1", "shorthalf"],
    "read": [errno.EIO], "fsync": [errno.EIO], "ftruncate": [errno.EIO], "close": [errno.EIO], "stat": [errno.EIO],
}


def run_qq(tree, ids, workdir, case, fault=None, kill=None, uid=None, sig=None):
    """One run on an empty queue. Returns dict(trace, exit, killed)."""
    name, inp, sender, rcpts, env, defect = case
    sandbox.clear_queue(tree.root)
    indir = os.path.join(tree.root, "in")
    os.makedirs(indir, exist_ok=True)
    with open(os.path.join(indir, "msg"), "wb") as f:
        f.write(inp)
    with open(os.path.join(indir, "env"), "wb") as f:
        f.write(env)
    trace = os.path.join(workdir, "qq.trace")
    if os.path.exists(trace):
        os.unlink(trace)
    extra = {"VERIF_NOALARM": "1"}
    if fault:
        extra["VERIF_FAULT"] = "%d:%s" % fault
    if kill:
        extra["VERIF_KILL"] = str(kill)
        if sig:
            extra["VERIF_KILL_SIG"] = str(sig)
    e = sandbox.shim_env(tree, ids=ids, trace=trace, role="qq", extra=extra)
    with open(os.path.join(indir, "msg"), "rb") as f0, open(os.path.join(indir, "env"), "rb") as f1:
        p = subprocess.run([tree.bin("qmail-queue")], stdin=f0, stdout=f1, stderr=subprocess.PIPE, env=e, timeout=60)
    rc = p.returncode
    return {"trace": sandbox.read_trace(trace), "exit": rc if rc >= 0 else -1, "killed": rc < 0}
