"""Sandbox helpers: passwd/group database for the shim, environment for traced runs, queue listing."""
import os, json, subprocess
from vlib import BUILD, Infra

USERS = {"alias": 7001, "qmaild": 7002, "qmaill": 7003, "root": 0, "qmailp": 7004, "qmailq": 7005, "qmailr": 7006, "qmails": 7007}
GROUPS = {"qmail": 7100, "nofiles": 7101}
SHIM = os.path.join(BUILD, "shim.so")


def write_ids(path, root, extra_users=(), errors=()):
    """extra_users: (name, uid, gid, home); errors: names whose lookup fails with a temporary error."""
    with open(path, "w") as f:
        for n, u in USERS.items():
            f.write("u %s %d %d %s\n" % (n, u, GROUPS["nofiles"] if n != "alias" else GROUPS["nofiles"], os.path.join(root, "alias") if n == "alias" else root))
        for n, g in GROUPS.items():
            f.write("g %s %d\n" % (n, g))
        for (n, u, g, h) in extra_users:
            f.write("u %s %d %d %s\n" % (n, u, g, h))
        for n in errors:
            f.write("E %s 0\n" % n)
    return path


def shim_env(tree, ids=None, trace=None, gate=None, role=None, clock=None, extra=None, root=None):
    e = dict(os.environ)
    e["LD_PRELOAD"] = SHIM
    e["VERIF_ROOT"] = root or tree.root
    if ids:
        e["VERIF_IDS"] = ids
    if trace:
        e["VERIF_TRACE"] = trace
    if gate:
        e["VERIF_GATE"] = gate
    if role:
        e["VERIF_ROLE"] = role
    if clock:
        e["VERIF_CLOCK"] = clock
    if extra:
        e.update(extra)
    return e


def read_trace(path):
    ev = []
    if not os.path.exists(path):
        return ev
    with open(path, "rb") as f:
        for line in f:
            line = line.strip()
            if not line:
                continue
            try:
                ev.append(json.loads(line))
            except ValueError:
                raise Infra("unparseable trace line: %r" % line[:200])
    return ev


def list_queue(root, with_data=False):
    """Directory projection of the queue: {(dir, name): {"ino":..,"size":..[,"data":bytes]}} for the message directories."""
    q = os.path.join(root, "queue")
    out = {}
    for d in ("pid", "intd", "todo", "bounce"):
        p = os.path.join(q, d)
        for n in sorted(os.listdir(p)):
            st = os.lstat(os.path.join(p, n))
            out[(d, n)] = {"ino": st.st_ino, "size": st.st_size}
            if with_data:
                with open(os.path.join(p, n), "rb") as f:
                    out[(d, n)]["data"] = f.read()
    for d in ("mess", "info", "local", "remote"):
        p = os.path.join(q, d)
        for s in sorted(os.listdir(p)):
            for n in sorted(os.listdir(os.path.join(p, s))):
                st = os.lstat(os.path.join(p, s, n))
                out[(d, n)] = {"ino": st.st_ino, "size": st.st_size, "split": s}
                if with_data:
                    with open(os.path.join(p, s, n), "rb") as f:
                        out[(d, n)]["data"] = f.read()
    return out


def _rm(path):
    import shutil
    if os.path.isdir(path) and not os.path.islink(path):
        shutil.rmtree(path, ignore_errors=True)      # (C18 part 1 plants directories where files are expected)
    else:
        os.unlink(path)


def clear_queue(root):
    q = os.path.join(root, "queue")
    for d in ("pid", "intd", "todo", "bounce"):
        p = os.path.join(q, d)
        for n in os.listdir(p):
            _rm(os.path.join(p, n))
    for d in ("mess", "info", "local", "remote"):
        p = os.path.join(q, d)
        for s in os.listdir(p):
            if not os.path.isdir(os.path.join(p, s)):
                os.unlink(os.path.join(p, s))
                continue
            for n in os.listdir(os.path.join(p, s)):
                _rm(os.path.join(p, s, n))
