"""C16: interleavings of qmail-queue's publish-then-signal steps with qmail-send's re-arm-then-scan steps,
executed on the real programs under the gate with the virtual clock frozen (so the 25-minute rescan cannot help)."""
import os, itertools, random
import daemon, sandbox, qsproj, qsengine
from vlib import Infra


def point(pr, want):
    """is this call a schedule point (touches the trigger, scans todo/, publishes a message, or blocks)?"""
    role = pr.role.split(":")[-1]
    c = want.get("c")
    obj = want.get("path") or want.get("obj") or ""
    if role == "qmail-send":
        if c in ("close", "open") and obj.endswith("lock/trigger"):
            return True
        if c == "opendir" and obj.endswith("/todo"):
            return True
        if c == "readdir" and obj.endswith("/todo"):
            return True
        return c == "select"
    if role == "qmail-queue" and not pr.role.startswith("send:"):
        if c == "link" and "/todo/" in (want.get("to") or ""):
            return True
        if c in ("open", "write", "close") and obj.endswith("lock/trigger"):
            return True
    return False


class Sched:
    """chooser: calls that are not schedule points are granted at once; schedule points in the order given by `order`
    (symbols 'D' = daemon, 'A', 'B' = injectors by start order)"""
    def __init__(self, order):
        self.order = list(order)
        self.names = {}
        self.taken = []
        self.eager = set()
        self.ctl = None
        self.waits = 0

    def sym(self, pr):
        role = pr.role.split(":")[-1]
        if role == "qmail-send":
            return "D"
        if role == "qmail-queue" and not pr.role.startswith("send:"):
            return self.names.get(pr.pid, "?")
        return "-"

    def __call__(self, wanting):
        for pr in wanting:
            if not point(pr, pr.want) or self.sym(pr) in self.eager:
                return pr
        while self.order:
            s = self.order[0]
            cands = [pr for pr in wanting if self.sym(pr) == s]
            if cands:
                self.order.pop(0)
                self.taken.append(s)
                self.waits = 0
                return cands[0]
            if s == "D" and self.ctl is not None and self.waits < 40:
                # the daemon cannot be granted a point right now - but it may only be waiting for something that is still on its
                # way: its own re-poll, or an answer of qmail-clean (which removes todo/ and intd/ entries on its behalf) that is
                # parked with input pending.  Let those move before deciding that the daemon's turn is skipped; otherwise every
                # placement of the injector's steps behind the first message of a scan collapses into one effective order.
                if any(p.state == "parked" and p.dirty for p in self.ctl.procs.values()):
                    self.waits += 1
                    return None
            self.order.pop(0)                 # that process cannot move now
            self.waits = 0
        pr = wanting[0]
        self.taken.append(self.sym(pr).lower())
        return pr


def run_case(tree, work, order, scenario, seed=0):
    """scenario 'startup': injector A runs against the daemon's start-up scan;
       'running': the daemon is idle, A pulls, B runs against the scan that A caused"""
    sch = Sched(order)
    ctl = daemon.Controller(tree, work, chooser=sch)
    sch.ctl = ctl
    sandbox.clear_queue(tree.root)
    ctl.set_controls(locals="local.test\n", queuelifetime="604800", virtualdomains=None, percenthack=None, bouncefrom=None, bouncehost=None,
                     doublebounceto=None, doublebouncehost=None)
    try:
        if scenario == "startup":
            ctl.start()
            ctl._settle()
            po = ctl.inject(b"Subject: a\n\nA\n", b"s@origin.test", [b"w%da@local.test" % seed])
            ctl._settle()
            sch.names[po.pid] = "A"
            ctl.run()
        else:
            ctl.start()
            # start-up runs eagerly
            sch.order, keep = [], sch.order
            ctl.run()
            sch.order = keep
            # A publishes and pulls without interference; B's four steps are interleaved with the scan that A's pull causes
            sch.eager = {"A"}
            pa = ctl.inject(b"Subject: a\n\nA\n", b"s@origin.test", [b"w%da@local.test" % seed])
            sch.names[pa.pid] = "A"
            pb = ctl.inject(b"Subject: b\n\nB\n", b"s@origin.test", [b"w%db@local.test" % seed])
            sch.names[pb.pid] = "B"
            ctl.run()
        # answer deliveries so that the history ends tidily (not part of the property)
        for _ in range(6):
            if not ctl.delcmds:
                break
            for cmd in list(ctl.delcmds):
                ctl.report(cmd["chan"], cmd["delnum"], b"Kok\n")
        trace = ctl.trace
    finally:
        trace = ctl.trace
        ctl.stop()
    ev, T = qsproj.project(trace, ctl.qdir)
    return {"ev": ev, "left": 0, "addr": {}, "nraw": len(trace), "taken": "".join(sch.taken),
            "h": {"id": "wake-%s-%s" % (scenario, "".join(order)), "seed": seed, "script": [("order", "".join(order))], "messages": [], "strict": 1}}


def orders(nD, others):
    """all interleavings of nD daemon points with the injector point sequences in `others` (dict symbol -> count)"""
    syms = ["D"] * nD
    for s, n in others.items():
        syms += [s] * n
    seen = set()
    # distinct permutations of the multiset
    def rec(rem, cur):
        if not any(rem.values()):
            yield tuple(cur)
            return
        for s in sorted(rem):
            if rem[s]:
                rem[s] -= 1
                cur.append(s)
                yield from rec(rem, cur)
                cur.pop()
                rem[s] += 1
    cnt = {"D": nD}
    cnt.update(others)
    return rec(cnt, [])
