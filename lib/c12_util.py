"""C12 helpers: a controller for the shim's gate (harness/shim.c, VERIF_GATE) and runners for the real
qmail-local with a maildir or an mbox default delivery.

Gate protocol (see shim.c): every process connects to the unix socket and sends frames
  kind (1 byte) + 8 hex digits length + json
    H hello            E event (after a call, or start/forked/exit/alarm/sleep)
    W want (blocks until we answer "go" | "fail <errno>" | "short <n>" | "kill")
    P parked (a blocking flock/read/select/waitpid would block; answer "poll" to retry)
A process that is blocked in W or P does nothing until we answer, so while *all* processes are blocked the
file system is in a stable state that we can list: "the state after the previous call", a state in which
the process or the machine may die.
"""
import os, socket, select, json, time, subprocess, errno
from vlib import Infra

UID = 7312          # unprivileged owner of the sandbox homes
GID = 7312


class Conn:
    def __init__(self, sock):
        self.sock = sock
        self.buf = b""
        self.pid = None
        self.ppid = None
        self.state = "run"        # run | want | park | dead
        self.frame = None         # pending W / P payload
        self.tag = None           # set by the user (which delivery)
        self.is_child = False

    def reply(self, text):
        self.state = "run"
        self.frame = None
        try:
            self.sock.sendall(text.encode() + b"\n")
        except OSError:
            self.state = "dead"


class Gate:
    def __init__(self, path):
        self.path = path
        if os.path.exists(path):
            os.unlink(path)
        self.srv = socket.socket(socket.AF_UNIX, socket.SOCK_STREAM)
        self.srv.bind(path)
        os.chmod(path, 0o777)
        self.srv.listen(32)
        self.conns = []
        self.by_pid = {}
        self.expected = set()
        self.seen = set()
        self.on_event = None      # callback(conn, event)

    def close(self):
        for c in self.conns:
            try:
                c.sock.close()
            except OSError:
                pass
        self.srv.close()
        try:
            os.unlink(self.path)
        except OSError:
            pass

    def expect(self, pid):
        if pid not in self.seen:
            self.expected.add(pid)

    def live(self):
        return [c for c in self.conns if c.state != "dead"]

    def _frames(self, c):
        while len(c.buf) >= 9:
            kind = chr(c.buf[0])
            try:
                ln = int(c.buf[1:9], 16)
            except ValueError:
                raise Infra("gate: bad frame header %r" % c.buf[:9])
            if len(c.buf) < 9 + ln:
                return
            payload = c.buf[9:9 + ln]
            c.buf = c.buf[9 + ln:]
            try:
                ev = json.loads(payload)
            except ValueError:
                raise Infra("gate: bad json %r" % payload[:200])
            if kind == "H":
                c.pid, c.ppid = ev["p"], ev.get("ppid")
                self.by_pid[c.pid] = c
                self.seen.add(c.pid)
                self.expected.discard(c.pid)
                par = self.by_pid.get(c.ppid)
                if par is not None:
                    c.tag, c.is_child = par.tag, True
            elif kind == "E":
                if ev.get("c") == "fork" and ev.get("res", -1) > 0:
                    self.expect(ev["res"])
                if self.on_event:
                    self.on_event(c, ev)
            elif kind == "W":
                c.state, c.frame = "want", ev
            elif kind == "P":
                c.state, c.frame = "park", ev

    def settle(self, timeout=60.0):
        """Read frames until every live process is blocked in W or P (or gone) and nobody is still to connect."""
        deadline = time.time() + timeout
        while self.expected or any(c.state == "run" for c in self.conns):
            left = deadline - time.time()
            if left <= 0:
                raise Infra("gate: processes did not settle (expected=%s, running=%s)" % (
                    self.expected, [c.pid for c in self.conns if c.state == "run"]))
            socks = [self.srv] + [c.sock for c in self.conns if c.state != "dead"]
            r, _, _ = select.select(socks, [], [], min(left, 1.0))
            if not r:
                # a process we wait for may have died before saying hello
                for pid in list(self.expected):
                    if not os.path.exists("/proc/%d" % pid) or _zombie(pid):
                        self.expected.discard(pid)
                continue
            for s in r:
                if s is self.srv:
                    cs, _ = self.srv.accept()
                    self.conns.append(Conn(cs))
                    continue
                c = next(x for x in self.conns if x.sock is s)
                try:
                    data = s.recv(1 << 16)
                except OSError:
                    data = b""
                if not data:
                    self._frames(c)
                    c.state = "dead"
                    continue
                c.buf += data
                self._frames(c)


def _zombie(pid):
    try:
        with open("/proc/%d/stat" % pid) as f:
            return f.read().split(")")[-1].split()[0] == "Z"
    except OSError:
        return True


# --------------------------------------------------------------------------
# homes, listings
# --------------------------------------------------------------------------
def make_home(base, name, maildir=True):
    home = os.path.join(base, name)
    os.makedirs(home)
    os.chown(home, UID, GID)
    os.chmod(home, 0o700)
    if maildir:
        for d in ("Maildir", "Maildir/tmp", "Maildir/new", "Maildir/cur"):
            p = os.path.join(home, d)
            os.mkdir(p)
            os.chown(p, UID, GID)
            os.chmod(p, 0o700)
    return home


def put_file(path, data):
    with open(path, "wb") as f:
        f.write(data)
    os.chown(path, UID, GID)
    os.chmod(path, 0o600)
    return os.lstat(path).st_ino


class InoMap:
    """Real inode numbers -> small integers by first appearance (TLC's integers are 32-bit)."""
    def __init__(self):
        self.m = {}

    def __call__(self, ino):
        if ino not in self.m:
            self.m[ino] = len(self.m) + 1
        return self.m[ino]


def listing(home, inos, foreign_tmp=()):
    """new/ with contents, tmp/ with sizes (contents only for the files of other deliveries)."""
    out = {"new": [], "tmp": []}
    for d in ("new", "tmp"):
        p = os.path.join(home, "Maildir", d)
        for n in sorted(os.listdir(p)):
            fp = os.path.join(p, n)
            try:
                st = os.lstat(fp)
                with open(fp, "rb") as f:
                    data = f.read()
            except OSError:
                continue
            if d == "new":
                out["new"].append({"n": n, "ino": inos(st.st_ino), "d": list(data)})
            else:
                out["tmp"].append({"n": n, "ino": inos(st.st_ino), "len": len(data), "d": list(data) if n in foreign_tmp else []})
    return out


def clear_maildir(home):
    for d in ("new", "tmp"):
        p = os.path.join(home, "Maildir", d)
        for n in os.listdir(p):
            os.unlink(os.path.join(p, n))


def local_argv(tree, home, sender, local, domain, delivery):
    return [tree.bin("qmail-local"), "--", "u", home, os.fsdecode(local), "", "", os.fsdecode(domain), os.fsdecode(sender), delivery]


def spawn(argv, msgfile, env):
    fd = os.open(msgfile, os.O_RDONLY)
    try:
        return subprocess.Popen([os.fsencode(a) if isinstance(a, str) else a for a in argv], stdin=fd, stdout=subprocess.DEVNULL,
                                stderr=subprocess.DEVNULL, env=env, user=UID, group=GID, extra_groups=[], cwd="/")
    finally:
        os.close(fd)


def plain_env():
    return {"PATH": "/usr/bin:/bin"}


# --------------------------------------------------------------------------
# one gated maildir delivery
# --------------------------------------------------------------------------
FS_CALLS = ("open", "write", "fsync", "close", "link", "unlink", "rename", "ftruncate")


def gated_maildir(tree, sockpath, shim_env, home, msgfile, sender, local, domain, plan, pre_new=(), timeout=20):
    """Run one maildir delivery with the writer (the forked child) stepped call by call.

    plan: {"kind": "clean"} | {"kind": "kill", "k": k} | {"kind": "fail", "k": k, "errno": e}
          | {"kind": "short", "k": k, "n": n} | {"kind": "coll_new"} | {"kind": "coll_tmp"}
    k counts the child's gated calls (1 = its first).  Returns the record fields observed.
    """
    inos = InoMap()
    pre, ptmp = [], []
    for (n, data) in pre_new:
        ino = put_file(os.path.join(home, "Maildir", "new", n), data)
        pre.append({"n": n, "ino": inos(ino), "d": list(data)})
    g = Gate(sockpath)
    steps, events = [], []
    state = {"child": None, "last": None, "killed": 0, "ncalls": 0, "s0": None, "inj": None}

    fdmap = {}

    def on_event(c, ev):
        if c.is_child and ev.get("c") in FS_CALLS:
            if ev["c"] == "open" and ev.get("res", -1) >= 0:
                fdmap[ev["res"]] = ev.get("ino", -1)
            if ev["c"] == "close" and "ino" not in ev:
                ev["ino"] = fdmap.pop(ev.get("fd"), -1)
            state["last"] = ev
    g.on_event = on_event
    env = dict(shim_env)
    env["VERIF_GATE"] = sockpath
    env.pop("VERIF_TRACE", None)
    p = spawn(local_argv(tree, home, sender, local, domain, "./Maildir/"), msgfile, env)
    g.expect(p.pid)
    foreign = set()

    def snap():
        return listing(home, inos, foreign)

    def flush_last():
        ev = state["last"]
        if ev is None:
            return
        state["last"] = None
        s = snap()
        s.update({"c": ev["c"], "res": ev.get("res", 0), "ino": inos(ev["ino"]) if ev.get("ino", -1) > 0 else 0,
                  "e": ev.get("e", 0)})
        steps.append(s)
        events.append({"c": ev["c"], "res": ev.get("res", 0), "e": ev.get("e", 0), "inj": ev.get("inj", 0),
                       "len": ev.get("len", 0)})
    try:
        deadline = time.time() + timeout
        while True:
            g.settle()
            live = g.live()
            if not live:
                break
            if time.time() > deadline:
                raise Infra("gated maildir run did not finish")
            child = next((c for c in live if c.is_child), None)
            parent = next((c for c in live if not c.is_child), None)
            if child is not None and child.state == "want":
                fr = child.frame
                if state["s0"] is None:
                    # before the writer's first call on the file system: collisions are staged here
                    if plan["kind"] in ("coll_new", "coll_tmp") and fr.get("c") == "open":
                        name = os.path.basename(fr["path"])
                        other = b"Return-Path: <other@else.example>\nDelivered-To: u@test.example\nanother delivery's message\n"
                        if plan["kind"] == "coll_new":
                            ino = put_file(os.path.join(home, "Maildir", "new", name), other)
                            pre.append({"n": name, "ino": inos(ino), "d": list(other)})
                        else:
                            ino = put_file(os.path.join(home, "Maildir", "tmp", name), other[:40])
                            foreign.add(name)
                            ptmp.append({"n": name, "ino": inos(ino), "len": 40, "d": list(other[:40])})
                    state["s0"] = snap()
                flush_last()
                state["ncalls"] += 1
                k = state["ncalls"]
                if plan["kind"] == "kill" and plan["k"] == k:
                    state["killed"] = 1
                    child.reply("kill")
                elif plan["kind"] == "fail" and plan["k"] == k:
                    state["inj"] = fr.get("c")
                    child.reply("fail %d" % plan["errno"])
                elif plan["kind"] == "short" and plan["k"] == k and fr.get("c") == "write":
                    state["inj"] = "short"
                    child.reply("short %d" % plan["n"])
                else:
                    child.reply("go")
                continue
            if child is not None and child.state == "park":
                child.reply("poll")
                continue
            if parent is not None and parent.state == "want":
                parent.reply("go")
                continue
            if parent is not None and parent.state == "park":
                # waitpid: answer only once the child is gone
                time.sleep(0.0005)
                parent.reply("poll")
                continue
        flush_last()
        try:
            rc = p.wait(timeout=10)
        except subprocess.TimeoutExpired:
            p.kill()
            raise Infra("qmail-local did not exit")
    finally:
        g.close()
        if p.poll() is None:
            p.kill()
            p.wait()
    if state["s0"] is None:
        state["s0"] = snap()
    fin = snap()
    return {"pre": pre, "ptmp": ptmp, "s0": state["s0"], "steps": steps, "fin": fin, "rc": rc, "killed": state["killed"],
            "events": events, "ncalls": state["ncalls"], "inj": state["inj"]}


# --------------------------------------------------------------------------
# mbox: plain / fault-injected single runs, gated concurrent runs
# --------------------------------------------------------------------------
NOT_DECIDED = ("start", "forked", "exit", "alarm", "sleep", "parked", "hello")


def decided(trace):
    """The events of a shim trace that count for VERIF_FAULT / VERIF_KILL (k = 1-based index in this list)."""
    return [e for e in trace if e.get("c") not in NOT_DECIDED]


def set_mbox(home, before):
    p = os.path.join(home, "Mailbox")
    if os.path.lexists(p):
        os.unlink(p)
    if before:
        put_file(p, before)
    return p


def read_file(p):
    try:
        with open(p, "rb") as f:
            return f.read()
    except FileNotFoundError:
        return b""


def run_local(tree, home, msgfile, sender, local, domain, delivery, env, timeout=30):
    p = spawn(local_argv(tree, home, sender, local, domain, delivery), msgfile, env)
    try:
        return p.wait(timeout=timeout)
    except subprocess.TimeoutExpired:
        p.kill()
        p.wait()
        raise Infra("qmail-local hung")


def gated_mbox(tree, sockpath, shim_env, home, dels, rng, fault=None, mode="random", timeout=30):
    """dels: [(msgfile, sender, local, domain)]; the processes are stepped one call on the Mailbox at a time.

    fault: None | {"p": index, "w": j, "what": "fail 28" | "short 1"}  - the j-th write() on the Mailbox of process p.
    Returns {"rcs", "ev", "rb", "inj"[per process], "sched"}.
    """
    g = Gate(sockpath)
    mbox = os.path.join(home, "Mailbox")
    n = len(dels)
    ev, rb, sched = [], [], []
    inj = ["none"] * n
    atlock = [None] * n
    nwrites = [0] * n
    idx_of = {}

    def relevant(fr):
        return (fr.get("path") or fr.get("obj") or "").endswith("/Mailbox")

    def on_event(c, e):
        i = idx_of.get(c.pid)
        if i is None or not relevant(e):
            return
        if e["c"] == "flock" and e.get("res") == 0:
            atlock[i] = read_file(mbox)
        if (e["c"] == "write" and e.get("res", -1) > 0) or (e["c"] == "ftruncate" and e.get("res") == 0):
            ev.append({"p": i + 1, "c": e["c"]})
        if e.get("inj"):
            if e["c"] == "write":
                inj[i] = "wfail" if e.get("res", -1) < 0 else "short"
            else:
                inj[i] = e["c"]
    g.on_event = on_event
    env = dict(shim_env)
    env["VERIF_GATE"] = sockpath
    env.pop("VERIF_TRACE", None)
    procs = []
    try:
        for i, (mf, sender, local, domain) in enumerate(dels):
            p = spawn(local_argv(tree, home, sender, local, domain, "./Mailbox"), mf, env)
            procs.append(p)
            idx_of[p.pid] = i
            g.expect(p.pid)
        deadline = time.time() + timeout
        dead_seen = set()
        rr = 0
        while True:
            g.settle()
            for c in g.conns:
                i = idx_of.get(c.pid)
                if c.state == "dead" and i is not None and i not in dead_seen:
                    dead_seen.add(i)
                    if inj[i] == "wfail" and atlock[i] is not None:
                        rb.append({"p": i + 1, "atlock": list(atlock[i]), "atend": list(read_file(mbox))})
            live = g.live()
            if not live:
                break
            if time.time() > deadline:
                raise Infra("gated mbox run did not finish")
            free = [c for c in live if c.state == "want" and not relevant(c.frame)]
            if free:
                for c in free:
                    c.reply("go")
                continue
            want = [c for c in live if c.state == "want"]
            park = [c for c in live if c.state == "park"]
            if want and (not park or rng.random() < 0.85):
                if mode == "roundrobin":
                    want.sort(key=lambda c: (idx_of.get(c.pid, 0) - rr) % n)
                    c = want[0]
                    rr = (idx_of.get(c.pid, 0) + 1) % n
                else:
                    c = rng.choice(want)
                i = idx_of.get(c.pid)
                sched.append(i)
                fr = c.frame
                if fr.get("c") == "write":
                    nwrites[i] += 1
                    if fault and fault["p"] == i and fault["w"] == nwrites[i]:
                        c.reply(fault["what"])
                        continue
                c.reply("go")
            else:
                c = rng.choice(park)
                c.reply("poll")
        rcs = []
        for p in procs:
            try:
                rcs.append(p.wait(timeout=10))
            except subprocess.TimeoutExpired:
                p.kill()
                raise Infra("qmail-local did not exit")
    finally:
        g.close()
        for p in procs:
            if p.poll() is None:
                p.kill()
                p.wait()
    return {"rcs": rcs, "ev": ev, "rb": rb, "inj": inj, "sched": sched}
