"""Running the protocol daemons (tcpserver/tcp-env style: stdin/stdout are the connection)
with the recording QMAILQUEUE stand-in, in parallel."""
import os, subprocess, re, concurrent.futures
from vlib import BUILD, Infra, NCPU

STANDIN_QQ = os.path.join(BUILD, "standin_qq")


def pmap(fn, items, workers=None):
    workers = workers or NCPU
    with concurrent.futures.ThreadPoolExecutor(max_workers=workers) as ex:
        return list(ex.map(fn, items))


class QQDir:
    """Directory that collects the records of the stand-in queue program."""
    def __init__(self, path):
        self.path = path
        os.makedirs(path, exist_ok=True)

    def env(self, tag, exitcode=0, err=None, die=None):
        e = {"QMAILQUEUE": STANDIN_QQ, "VERIF_QQ_DIR": self.path, "VERIF_QQ_TAG": tag, "VERIF_QQ_EXIT": str(exitcode)}
        if err is not None:
            e["VERIF_QQ_ERR"] = err
        if die:
            e["VERIF_QQ_DIE"] = die
        return e

    def collect(self):
        """{tag: [ {msg, env, exit} in invocation order ]}; removes the files."""
        out = {}
        for fn in sorted(os.listdir(self.path)):
            p = os.path.join(self.path, fn)
            with open(p, "rb") as f:
                hdr = f.readline().decode()
                m = re.match(r"M (\d+) E (\d+) X (-?\d+)", hdr)
                if not m:
                    raise Infra("bad stand-in record " + fn)
                ml, el = int(m.group(1)), int(m.group(2))
                msg = f.read(ml)
                env = f.read(el)
            os.unlink(p)
            tag = fn.split(".")[0]
            out.setdefault(tag, []).append({"msg": msg, "env": env, "exit": int(m.group(3))})
        return out


def parse_envelope(env):
    """qmail-queue envelope: F<sender>\\0 (T<rcpt>\\0)* \\0 -> (sender, [rcpts], complete)."""
    if not env.startswith(b"F"):
        return None, [], False
    parts = env.split(b"\0")
    # a complete envelope ends with an empty record: ... 'Tx', '', ''  (split gives two trailing '')
    complete = len(parts) >= 3 and parts[-1] == b"" and parts[-2] == b""
    sender = parts[0][1:]
    rcpts = []
    for p in parts[1:]:
        if p.startswith(b"T"):
            rcpts.append(p[1:])
        elif p == b"":
            break
        else:
            return sender, rcpts, False
    return sender, rcpts, complete


def run_daemon(argv, inp, env, cwd=None, timeout=30):
    p = subprocess.Popen(argv, stdin=subprocess.PIPE, stdout=subprocess.PIPE, stderr=subprocess.PIPE, env=env, cwd=cwd)
    try:
        out, err = p.communicate(inp, timeout=timeout)
        return out, p.returncode, False
    except subprocess.TimeoutExpired:
        p.kill()
        out, err = p.communicate()
        return out, p.returncode, True


def smtp_replies(out):
    """Split server output into replies: list of (code:int, text:bytes). Multi-line replies are merged."""
    res = []
    cur = None
    for line in out.split(b"\r\n"):
        if not line:
            continue
        m = re.match(rb"(\d\d\d)([ -])(.*)$", line, re.S)
        if not m:
            res.append((0, line))
            continue
        code, sep, text = int(m.group(1)), m.group(2), m.group(3)
        if cur is None:
            cur = [code, text]
        else:
            cur[1] += b"\n" + text
        if sep == b" ":
            res.append((cur[0], cur[1]))
            cur = None
    if cur is not None:
        res.append((cur[0], cur[1]))
    return res
