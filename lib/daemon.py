"""Controller for the queue manager: plays qmail-start and the two spawners for the REAL
qmail-send + qmail-clean (+ qmail-queue), all of them running under the shim's gate, so that

  * every intercepted call of every process is announced and performed only when granted
    (one process moves at a time: the recorded trace is a total order),
  * a blocking select/read/flock/waitpid "parks" the process, which gives an exact notion
    of quiescence (every live process parked and nothing changes on a re-poll),
  * at a grant the controller can inject a failure or kill the process (crash),
  * time is the controller's (clock file read by the shim).

The event list `self.trace` (shim events + the controller's own actions) is what the
TLA+ trace validators consume after projection (see qsproj.py).
"""
import os, socket, select, json, signal, time, subprocess, struct, errno, shutil
import sandbox, repframe
from vlib import Infra, log


class Proc:
    def __init__(self, pid, role, sock):
        self.pid, self.role, self.sock = pid, role, sock
        self.state = "run"        # run | want | parked | dead
        self.want = None
        self.park = None
        self.buf = b""
        self.popen = None
        self.name = role
        self.dirty = False        # something happened since it parked
        self.deadline = None      # absolute virtual time at which its select times out
        self.exit = None
        self.execing = False

    def __repr__(self):
        return "<%s pid=%d %s>" % (self.role, self.pid, self.state)


def _proc_stat(pid):
    try:
        with open("/proc/%d/stat" % pid) as f:
            return f.read().rsplit(")", 1)[1].split()
    except (OSError, IndexError):
        return None


def _proc_state(pid):
    f = _proc_stat(pid)
    return f[0] if f else "?"


def _cpu_seconds(pid):
    f = _proc_stat(pid)
    try:
        return (int(f[11]) + int(f[12])) / float(os.sysconf("SC_CLK_TCK")) if f else 0.0
    except (ValueError, IndexError):
        return 0.0


class Controller:
    def __init__(self, tree, workdir, clock0=100000000, conc=(10, 20), announce=(120, 120), policy=None, chooser=None):
        self.tree, self.work = tree, workdir
        os.makedirs(workdir, exist_ok=True)
        self.ids = sandbox.write_ids(os.path.join(workdir, "ids"), tree.root)
        self.clockfile = os.path.join(workdir, "clock")
        self.now = clock0
        self._write_clock()
        self.sockpath = os.path.join(workdir, "gate.sock")
        if os.path.exists(self.sockpath):
            os.unlink(self.sockpath)
        self.lsock = socket.socket(socket.AF_UNIX, socket.SOCK_STREAM)
        self.lsock.bind(self.sockpath)
        self.lsock.listen(64)
        self.procs = {}           # pid -> Proc
        self.pending = {}         # accepted sockets without hello yet -> bytes received so far
        self.trace = []
        self.policy = policy      # fn(proc, want) -> "go" | "fail N" | "short N" | "kill"
        self.chooser = chooser    # fn(list of wanting procs) -> proc
        self.conc, self.announce = conc, announce
        self.send = self.clean = None
        self.chan = {}            # pipes to/from qmail-send
        self.cmdbuf = {0: b"", 1: b""}
        self.delcmds = []         # parsed delivery commands not yet answered: dict(chan, delnum, id, sender, rcpt)
        self.framer = repframe.Framer()
        # the daemon's activity record (qmail-log(5)); below the traced root so that every line is an event in the same stream
        self.logfile = os.path.join(tree.root, "verif-send.log") if os.environ.get("VERIF_LOG_EVENTS") else os.path.join(workdir, "send.log")
        if os.path.exists(self.logfile):
            os.unlink(self.logfile)
        self.seq = 0
        self.qdir = os.path.join(tree.root, "queue")
        self.timeout = 60.0
        self.grants = 0
        self.expect = set()       # pids started by us that have not said hello yet
        self.held = set()         # pids that are not granted anything for now (a stalled client, a daemon kept at a point of its run)
        self.hold_after = {}      # pid -> number of further grants after which it joins `held`

    # ------------------------------------------------------------------ utilities
    def _write_clock(self):
        # the history (kernel time stamp of this write -> virtual time) lets the shim translate st_ctime, which nobody can set;
        # the write happens one kernel tick after everything else has stopped, so that time stamps order strictly
        time.sleep(0.005)
        tmp = self.clockfile + ".tmp"
        with open(tmp, "w") as f:
            f.write("%d\n" % self.now)
        ns = os.stat(tmp).st_mtime_ns
        with open(self.clockfile + ".hist", "a") as f:
            f.write("%d %d %d\n" % (ns // 1000000000, ns % 1000000000, self.now))
        os.rename(tmp, self.clockfile)

    def emit(self, ev):
        self.seq += 1
        ev["seq"] = self.seq
        ev["t"] = self.now
        self.trace.append(ev)

    def env(self, role):
        e = sandbox.shim_env(self.tree, ids=self.ids, gate=self.sockpath, role=role, clock=self.clockfile)
        return e

    def set_controls(self, **files):
        for k, v in files.items():
            p = os.path.join(self.tree.root, "control", k)
            if v is None:
                if os.path.exists(p):
                    os.unlink(p)
            else:
                with open(p, "w") as f:
                    f.write(v if v.endswith("\n") or v == "" else v + "\n")

    # ------------------------------------------------------------------ starting the daemon
    def start(self):
        """qmail-start's plumbing: fds of qmail-send 0=log 1->lspawn 2<-lspawn 3->rspawn 4<-rspawn 5->clean 6<-clean"""
        p1, p2, p3, p4, p5, p6 = [os.pipe() for _ in range(6)]
        logf = os.open(self.logfile, os.O_WRONLY | os.O_CREAT | os.O_APPEND, 0o644)

        def pre_send():
            os.dup2(logf, 0)
            os.dup2(p1[1], 1); os.dup2(p2[0], 2); os.dup2(p3[1], 3); os.dup2(p4[0], 4); os.dup2(p5[1], 5); os.dup2(p6[0], 6)
            for fd in set(p1 + p2 + p3 + p4 + p5 + p6 + (logf,)):
                if fd > 6:
                    os.close(fd)

        def pre_clean():
            os.dup2(p5[0], 0); os.dup2(p6[1], 1)
            for fd in set(p1 + p2 + p3 + p4 + p5 + p6 + (logf,)):
                if fd > 2:
                    os.close(fd)

        # concurrency bytes announced by the "spawners" must be readable at start-up
        os.write(p2[1], bytes([self.announce[0]]))
        os.write(p4[1], bytes([self.announce[1]]))
        self.set_controls(concurrencylocal=str(self.conc[0]), concurrencyremote=str(self.conc[1]))
        self.emit({"c": "ctl", "op": "start", "conc": list(self.conc), "announce": list(self.announce), "life": getattr(self, "lifetime", 604800)})
        cl = subprocess.Popen([self.tree.bin("qmail-clean")], preexec_fn=pre_clean, env=self.env("clean"), close_fds=False, stderr=subprocess.DEVNULL)
        sd = subprocess.Popen([self.tree.bin("qmail-send")], preexec_fn=pre_send, env=self.env("send"), close_fds=False, stderr=subprocess.DEVNULL)
        self.chan = {"lcmd": p1[0], "lrep": p2[1], "rcmd": p3[0], "rrep": p4[1]}
        for fd in (p1[1], p2[0], p3[1], p4[0], p5[0], p5[1], p6[0], p6[1], logf):
            os.close(fd)
        for fd in (self.chan["lcmd"], self.chan["rcmd"]):
            os.set_blocking(fd, False)
        self.sendpid, self.cleanpid = sd.pid, cl.pid
        self.expect |= {sd.pid, cl.pid}
        self.popen = {sd.pid: sd, cl.pid: cl}
        self.cmdbuf = {0: b"", 1: b""}

    # ------------------------------------------------------------------ gate protocol
    def _recv_frames(self, pr):
        """parse complete frames from pr.buf -> list of (kind, obj)"""
        out = []
        while len(pr.buf) >= 9:
            kind = chr(pr.buf[0])
            ln = int(pr.buf[1:9], 16)
            if len(pr.buf) < 9 + ln:
                break
            payload = pr.buf[9:9 + ln]
            pr.buf = pr.buf[9 + ln:]
            try:
                obj = json.loads(payload)
            except ValueError:
                raise Infra("bad gate frame %r" % payload[:200])
            out.append((kind, obj))
        return out

    def _reply(self, pr, text):
        try:
            pr.sock.sendall((text + "\n").encode())
        except OSError:
            pass

    def _drain_cmds(self):
        for c, key in ((0, "lcmd"), (1, "rcmd")):
            fd = self.chan.get(key)
            if fd is None:
                continue
            try:
                while True:
                    d = os.read(fd, 65536)
                    if not d:
                        break
                    self.cmdbuf[c] += d
            except BlockingIOError:
                pass
            except OSError:
                pass
            # delivery command: delnum byte, "split/id" NUL sender NUL recipient NUL
            while True:
                b = self.cmdbuf[c]
                if len(b) < 2:
                    break
                parts = b[1:].split(b"\0", 3)
                if len(parts) < 4:
                    break
                dn = b[0]
                mid, sender, rcpt, rest = parts
                self.cmdbuf[c] = rest
                cmd = {"chan": c, "delnum": dn, "mid": mid.decode("latin1"), "sender": sender, "rcpt": rcpt}
                self.delcmds.append(cmd)
                self.emit({"c": "ctl", "op": "delcmd", "chan": c, "delnum": dn, "mid": cmd["mid"], "sender": sender.hex(), "rcpt": rcpt.hex()})

    def _handle(self, pr, kind, obj):
        if kind == "E":
            obj["pid"] = pr.pid
            self.emit(obj)
            for q in self.procs.values():
                if q.state == "parked":
                    q.dirty = True
            if obj.get("c") == "exit":
                pr.exit = obj.get("status")
            if obj.get("c") == "exec":
                pr.execing = True                  # on success the connection closes and the new image says hello
            if obj.get("c") == "fork" and obj.get("res", -1) > 0 and obj["res"] not in self.procs:
                self.expect.add(obj["res"])       # the child will say hello on its own connection
        elif kind == "W":
            pr.state, pr.want = "want", obj
        elif kind == "P":
            pr.state, pr.park = "parked", obj
            pr.dirty = False
            if obj.get("in") == "select" and pr.deadline is None and obj.get("tmo", -1) >= 0:
                pr.deadline = self.now + obj["tmo"]

    def _pump(self, timeout):
        """wait for and process messages from running processes; returns False on timeout"""
        rl = [self.lsock] + list(self.pending) + [p.sock for p in self.procs.values() if p.state not in ("dead", "execwait")]
        rl += [self.chan[k] for k in ("lcmd", "rcmd") if k in self.chan]
        # (poll, not select: descriptor numbers above 1023 must not be a problem of the controller)
        po = select.poll()
        byfd = {}
        for x in rl:
            fd_ = x if isinstance(x, int) else x.fileno()
            if fd_ < 0:
                continue
            byfd[fd_] = x
            po.register(fd_, select.POLLIN)
        r = [byfd[fd_] for fd_, _ in po.poll(int(timeout * 1000))]
        if not r:
            return False
        for s in r:
            if s is self.lsock:
                c, _ = self.lsock.accept()
                self.pending[c] = b""
            elif isinstance(s, int):
                self._drain_cmds()
            elif s in self.pending:
                d = s.recv(65536)
                if not d:
                    del self.pending[s]
                    s.close()
                    continue
                tmp = Proc(0, "?", s)
                tmp.buf = self.pending[s] + d
                fr = self._recv_frames(tmp)
                if not fr:
                    self.pending[s] = tmp.buf      # incomplete hello: keep reading next time
                    continue
                kind, obj = fr[0]
                if kind != "H":
                    raise Infra("gate: expected hello, got %s" % kind)
                pid = obj["p"]
                old = self.procs.get(pid)
                pr = Proc(pid, obj["r"], s)
                pr.buf = tmp.buf
                if old is not None:
                    try:
                        old.sock.close()
                    except OSError:
                        pass
                    pr.popen = old.popen
                self.procs[pid] = pr
                self.expect.discard(pid)
                del self.pending[s]
                for kind, obj in fr[1:] + self._recv_frames(pr):
                    self._handle(pr, kind, obj)
            else:
                pr = next((p for p in self.procs.values() if p.sock is s), None)
                if pr is None:
                    continue
                try:
                    d = s.recv(1 << 20)
                except OSError:
                    d = b""
                if not d and pr.execing:
                    pr.execing = False
                    self.expect.add(pr.pid)
                    try:
                        pr.sock.close()
                    except OSError:
                        pass
                    pr.sock = socket.socket(socket.AF_UNIX, socket.SOCK_STREAM)   # placeholder, never readable
                    pr.state = "execwait"
                    continue
                if not d:
                    if pr.state != "dead":
                        pr.state = "dead"
                        self.emit({"c": "ctl", "op": "gone", "pid": pr.pid, "role": pr.role})
                        for q in self.procs.values():
                            if q.state == "parked":
                                q.dirty = True
                    continue
                pr.buf += d
                for kind, obj in self._recv_frames(pr):
                    self._handle(pr, kind, obj)
        return True

    def live(self):
        return [p for p in self.procs.values() if p.state != "dead"]

    def _settle(self):
        """wait until no process is in state run"""
        t0 = time.time()
        cpu0 = {p.pid: _cpu_seconds(p.pid) for p in self.procs.values() if p.state == "run"}
        while any(p.state == "run" for p in self.procs.values()) or self.pending or self.expect:
            if not self._pump(1.0):
                el = time.time() - t0
                if el > self.timeout:
                    # stuck or spinning - or merely starved of the processor by other work on the machine?  A process that is
                    # runnable and has had less than a third of the elapsed time on a processor gets more time (up to 8 x)
                    running = [p for p in self.procs.values() if p.state == "run"]
                    starved = [p for p in running if _proc_state(p.pid) == "R" and _cpu_seconds(p.pid) - cpu0.get(p.pid, 0.0) < el / 3]
                    overloaded = os.getloadavg()[0] > 2 * (os.cpu_count() or 1)
                    if (starved or overloaded) and el < 8 * self.timeout:
                        continue
                    raise Infra("gate: process did not reach a gate point: %s expect=%s" % ([p for p in self.procs.values() if p.state == "run"], self.expect))
            else:
                t0 = time.time()
        self._drain_cmds()

    def step(self):
        """grant one wanting process (per chooser/policy); returns the Proc or None if none wants"""
        self._settle()
        wanting = [p for p in self.procs.values() if p.state == "want" and p.pid not in self.held]
        if not wanting:
            return None
        pr = self.chooser(wanting) if self.chooser else wanting[0]
        if pr is None:
            return None
        if pr.pid in self.hold_after:
            self.hold_after[pr.pid] -= 1
            if self.hold_after[pr.pid] <= 0:
                del self.hold_after[pr.pid]
                self.held.add(pr.pid)
        decision = self.policy(pr, pr.want) if self.policy else "go"
        self.grants += 1
        pr.state = "run"
        pr.deadline = None
        if decision == "kill":
            self.emit({"c": "ctl", "op": "killed", "pid": pr.pid, "role": pr.role, "before": pr.want})
        self._reply(pr, decision)
        self._settle()
        return pr

    def poll_parked(self):
        """re-poll every parked process for which something changed; returns True if any made progress"""
        progress = False
        for pr in list(self.procs.values()):
            if pr.state == "parked" and pr.dirty:
                pr.state = "run"
                dl = pr.deadline
                self._reply(pr, "poll")
                self._settle()
                if pr.state == "parked":
                    pr.deadline = dl
                else:
                    progress = True
        return progress

    def run(self, maxsteps=200000, until=None):
        """grant until global quiescence: every live process parked (or held) and a re-poll changes nothing;
        until: fn(event) -> bool, evaluated on every event the grants produce: stop as soon as one satisfies it"""
        n = 0
        seen = len(self.trace)
        while True:
            pr = self.step()
            n += 1
            if n > maxsteps:
                raise Infra("no quiescence after %d steps" % maxsteps)
            if until is not None:
                hit = any(until(e) for e in self.trace[seen:])
                seen = len(self.trace)
                if hit:
                    return n
            if pr is None:
                if not self.poll_parked() and not any(p.state == "want" and p.pid not in self.held for p in self.procs.values()):
                    break
        self._reap()
        pr = self.send_proc()
        tmo = self.select_timeout()
        rem = (pr.deadline - self.now) if (pr and tmo is not None and pr.deadline is not None) else (tmo if tmo is not None else -1)
        self.emit({"c": "ctl", "op": "quiet", "tmo": tmo if tmo is not None else -1, "rem": rem,
                   "send": pr.state if pr else "none", "steps": n, "noticed": getattr(self, "expect_noticed", 1)})
        return n

    def _reap(self):
        for pid, po in list(self.popen.items()):
            rc = po.poll()
            if rc is not None:
                self.emit({"c": "ctl", "op": "reaped", "pid": pid, "status": rc})
                del self.popen[pid]

    # ------------------------------------------------------------------ environment actions (at quiescence)
    def send_proc(self):
        return self.procs.get(self.sendpid)

    def select_timeout(self):
        """the time-out of the select in which qmail-send is parked (None if not parked in select)"""
        pr = self.send_proc()
        if pr and pr.state == "parked" and pr.park.get("in") == "select":
            return pr.park.get("tmo")
        return None

    def advance(self, dt=None, to=None):
        """advance the virtual clock; qmail-send's select times out if its deadline is reached"""
        if to is not None:
            self.now = max(self.now, to)
        else:
            self.now += dt
        self._write_clock()
        self.emit({"c": "ctl", "op": "clock", "now": self.now})
        pr = self.send_proc()
        if pr and pr.state == "parked" and pr.park.get("in") == "select" and pr.deadline is not None and self.now >= pr.deadline:
            pr.state = "run"
            pr.deadline = None
            self._reply(pr, "timeout")
        return self.run()

    def report(self, chan, delnum, text, raw=False):
        """one delivery report on a report channel: delnum byte, text (K.../Z.../D.../garbage), NUL"""
        data = text if raw else bytes([delnum]) + text + b"\0"
        for fr in self.framer.feed(chan, data):
            # the daemon takes the first delivery with that number as answered (whatever the letter)
            self.delcmds = [c for c in self.delcmds if not (c["chan"] == chan and c["delnum"] == fr[0])]
        self.emit({"c": "ctl", "op": "report", "chan": chan, "delnum": delnum, "hex": data.hex(), "raw": 1 if raw else 0})
        try:
            os.write(self.chan["lrep" if chan == 0 else "rrep"], data)
        except BrokenPipeError:
            pass          # the daemon is gone (its exit is in the trace as `reaped`)
        for q in self.procs.values():
            if q.state == "parked":
                q.dirty = True
        return self.run()

    def signal(self, sig):
        self.emit({"c": "ctl", "op": "signal", "sig": {signal.SIGTERM: "TERM", signal.SIGALRM: "ALRM", signal.SIGHUP: "HUP"}.get(sig, str(sig))})
        pr = self.send_proc()
        os.kill(self.sendpid, sig)
        if pr and pr.state == "parked":
            pr.state = "run"          # recv() in the shim returns EINTR, the call returns to the program
            pr.deadline = None
        return self.run()

    def close_spawner(self, chan):
        """the spawner dies: its ends of the pipes close"""
        self.emit({"c": "ctl", "op": "spawnerdied", "chan": chan})
        for k in (("lrep", "lcmd") if chan == 0 else ("rrep", "rcmd")):
            fd = self.chan.pop(k, None)
            if fd is not None:
                os.close(fd)
        for q in self.procs.values():
            if q.state == "parked":
                q.dirty = True
        return self.run()

    def inject(self, msg, sender, rcpts, gated=True, env_extra=None, envcut=None, blocksig=None, hold_after=None):
        """run the real qmail-queue to completion (its calls interleave with the daemon's only through the chooser)"""
        import qqrun
        indir = os.path.join(self.tree.root, "in")
        os.makedirs(indir, exist_ok=True)
        self.injn = getattr(self, "injn", 0) + 1
        mp, ep = os.path.join(indir, "msg%d" % self.injn), os.path.join(indir, "env%d" % self.injn)
        with open(mp, "wb") as f:
            f.write(msg)
        with open(ep, "wb") as f:
            envb = qqrun.envelope(sender, rcpts)
            f.write(envb if envcut is None else envb[: max(0, len(envb) - envcut)])     # envcut: the envelope stream ends early
        e = self.env("inject%d" % self.injn)
        if env_extra:
            e.update(env_extra)
        f0, f1 = open(mp, "rb"), open(ep, "rb")
        # blocksig: the invoking program had these signals blocked (the mask is inherited across exec)
        pre = (lambda: signal.pthread_sigmask(signal.SIG_BLOCK, set(blocksig))) if blocksig else None
        po = subprocess.Popen([self.tree.bin("qmail-queue")], stdin=f0, stdout=f1, env=e, stderr=subprocess.DEVNULL, preexec_fn=pre)
        f0.close(); f1.close()
        self.popen[po.pid] = po
        if hold_after is not None:
            self.hold_after[po.pid] = hold_after      # a client that stalls: after that many calls it is granted nothing more
        self.expect.add(po.pid)
        self.emit({"c": "ctl", "op": "inject", "pid": po.pid, "sender": sender.hex(), "rcpts": [r.hex() for r in rcpts], "msglen": len(msg), "n": self.injn})
        return po

    def crash(self, lossy_choice=None):
        """machine crash: every process dies now; optionally un-synced file data is lost"""
        self.emit({"c": "ctl", "op": "crash", "lossy": 1 if lossy_choice else 0})
        for pr in self.live():
            try:
                os.kill(pr.pid, signal.SIGKILL)
            except OSError:
                pass
        for po in self.popen.values():
            try:
                po.kill()
            except OSError:
                pass
            po.wait()
        self.popen = {}
        for pr in self.procs.values():
            try:
                pr.sock.close()
            except OSError:
                pass
        self.procs = {}
        self.expect = set()
        for s in self.pending:
            s.close()
        self.pending = {}
        for k in list(self.chan):
            os.close(self.chan.pop(k))
        self.delcmds = []
        self.framer.reset()
        if lossy_choice:
            lossy_choice(self)

    def stop(self):
        """tear everything down (end of a history)"""
        try:
            self.crash()
        except Exception:
            pass
        try:
            self.lsock.close()
        except OSError:
            pass
