#!/usr/bin/env python3
"""Regenerate MANIFEST.json from the table below (keeps it valid at all times)."""
import json, os, sys
V = os.path.dirname(os.path.dirname(os.path.abspath(__file__)))

CLAIMED = {
    "C01": dict(
        technique="TLA+ program-layer model of qmail-queue with fault/kill/crash (TLC, exhaustive) + TLC trace validation of shim-recorded runs of the real qmail-queue (clean, every single injected failure, kills) with crash/data-loss closure of every prefix",
        text="TLC explores the pc-structured model of qmail-queue over envelope variants with every single fault, kill and crash (invariants Atomic, "
             "SuccessMeansQueued, Refusals, StateTable; three classic mutations of the model are required to fail). Every run of the real qmail-queue "
             "(generated messages/envelopes; one run per intercepted call x failure kind; real kills) is replayed by TLC through the file-system model and "
             "the monitors are evaluated in every state and every crash successor of every prefix; the real directory listing must equal the model state. "
             "Added since: every call also as a short write, and the program's own SIGALRM delivered before every call (its handler runs and is traced).",
        note="directory operations synchronous and fsync durable as conf-qmail stipulates; torn sectors not modelled; shim assumed to see every file-system call",
        design="5 C01"),
    "C05": dict(
        technique="TLA+ program-layer model of the qmail-smtpd DATA recogniser checked against a declarative RFC 5321 receiver on every prefix by TLC + TLC validation of records from real qmail-smtpd sessions (read splits by shim, round trip through the real qmail-remote)",
        text="TLC checks that the transcribed five-state recogniser agrees with the reference receiver RefRecv on every prefix of every stream up to a "
             "length bound and that decode(encode(m)) = m; every real SMTP session (all short streams, split reads, trailing command bytes, random "
             "long streams, payloads produced by the real client) is a record judged by TLC with the monitor DecVerdict. "
             "Added since: round trip through the real client with bare CRs, sessions under a size limit, recognised commands after the terminator with predicted replies, a preamble that fails only under a read cap is a verdict. Long streams under read caps just below, at and around the size of the daemon's input buffer (1024) and its halves; short writes by the daemon."
             " Added later: sessions with each call of the daemon around DATA failing (EMFILE, ENOMEM): once 354 has been said, everything up to CRLF.CRLF draws one reply.",
        note="alphabet {CR,LF,'.',x}; the QMAILQUEUE stand-in records what the daemon hands to the queue; lines '.' CR x are left unconstrained (DESIGN 6.3)",
        design="5 C05"),
    "C06": dict(
        technique="TLA+ program-layer model of qmail-remote blast() checked exhaustively by TLC + TLC validation of records from the real encoder (function seam and qmail-remote binary) against the RFC 5321 receiver monitor",
        text="TLC explores the transcribed encoder over every message up to a length bound (invariant EncodingSound); every transmission "
             "made by the real code (all short messages x read chunkings through blast(), real qmail-remote to a scripted server, random long "
             "messages) is a record that TLC judges with the same monitor (EodOnce/NoBareLF/lines preserved). "
             "Added since: runs of the real qmail-remote with one failing or short system call each (result class failed), a server that refuses DATA (result class nodata: nothing of the message may follow).",
        note="alphabet {CR,LF,'.',x} represents the byte classes; scripted server and seam harness are trusted to record bytes faithfully",
        design="5 C06"),
    "C02": dict(
        technique="TLA+ file-granularity model of injectors, daemon, cleaner, failure clean-up, crash/restart, stale-entry collection and inode reuse checked exhaustively by TLC + TLC trace validation of directory events of all processes in gated histories of the real qmail-queue/qmail-send/qmail-clean under random schedules, kills and crashes",
        text="QueueState.tla states the five documented states and the documented order of disappearance as a monitor over directory events; QueueFiles.tla is explored exhaustively (2-3 injectors, "
             "inode pool of 2, crashes) with the monitor judging every step. On the real programs 1-3 qmail-queue processes run at once against the daemon under seeded random schedules at "
             "system-call granularity, the daemon is crashed before its mutating calls and restarted, injectors are killed before each call (stale entries), the clock is moved past 36 h and "
             "clean-up periods, a second qmail-send is started; TLC replays every directory event and evaluates the state table after each."
             " Added later: injectors that stall before each of their calls, started by a program that had SIGALRM blocked (inherited signal mask), with their own 24-hour timer going off and the daemon's 36-hour collection passing over them before they are released; the clock set back while an injector is stalled.",
        note="directory operations synchronous; readdir as the kernel behaves; one process moves at a time (gate)",
        design="5 C02"),
    "C03": dict(
        technique="TLA+ model of the queue manager as a generator of observable events composed with a monitor state machine (TLC, exhaustive for small configurations) + TLC trace validation of histories executed on the real qmail-send/qmail-clean/qmail-queue under a system-call gate (crash before every mutating call, data kept / lost, single failing calls)",
        text="TLC explores QSend (accept, preprocess, deliveries, any report class in any order, foreign reports, bounce, crash with optional loss of un-synced marks "
             "and bounce records, TERM/restart) with the invariant that the monitor QSendMon never objects. The same monitor judges every history run on the real "
             "programs: a controller plays qmail-start and both spawners, every system call of the daemon, the cleaner and qmail-queue is granted one at a time, "
             "so crashes and failures are placed before any chosen call and quiescence is exact. "
             "Added since: each unlink of qmail-clean failing in turn, failing reads / opens in a message that follows a completely delivered one, histories with qmail-qread and with the activity record as events (X01 / X02, DESIGN 5c)."
             " Added later: messages with recipients on both channels beyond the daemon's 1024-byte list buffers (strict: the lists written at preprocessing are compared with the accepted envelope).",
        note="delivery agents are not run (the controller answers delivery commands); lossy crash = per-file revert to the last fsync image, marks individually; time is virtual",
        design="5 C03"),
    "C04": dict(
        technique="same engine as C03: TLC model of the queue manager + monitor; TLC trace validation of gated histories of the real daemon, biased to many recipients, concurrency 0..n and announced limits, with crash points",
        text="The C04 clauses of the monitor (finished recipient attempted again, two attempts in flight, concurrency limit = min(configured, announced) exceeded, "
             "delivery number in use, delivered twice without crash) are invariants of the TLC model and are evaluated on every history of the real daemon, including a "
             "crash before each of its mutating calls with marks kept or individually lost (the exemption for lost marks is computed by the crash model, not by the harness). "
             "Added since: wide histories (140-255 recipients) around the one-byte announced limit 127/128/255; clause MessagePreprocessedAgainAfterDeliveriesStarted. A second qmail-send started while attempts are outstanding must refuse and write no delivery command (histories second-daemon-*).",
        note="as C03",
        design="5 C04"),
    "C07": dict(
        technique="TLA+ monitor over transactions (acknowledgements vs. what the queue program received) + transcription of the qmail_fail/qmail_close discipline of the three daemons checked by TLC for every combination + TLC validation of real qmail-smtpd/qmail-qmtpd/qmail-qmqpd transactions with a recording QMAILQUEUE stand-in (all exit statuses, limits, bad addresses, every cut point)",
        text="Ingest.tla demands: a positive acknowledgement iff the queue program saw the envelope terminator and exited 0 having received exactly Received-field + decoded body and the acknowledged "
             "envelope; size/hop/address refusals permanent and nothing queued; queue exit codes classed as qmail-queue(8) documents; a Received field made of safe bytes only. IngestModel.tla checks "
             "the transcribed daemons for every combination. The real daemons are run over every exit status 0..255, custom texts, death by signal, bodies around databytes, 98..101 hop fields, "
             "over-long/NUL/policy-refused addresses, hostile peer strings and every cut point of small transactions; TLC judges every record. "
             "Added since: several messages on one connection (every ordered pair of message kinds), one failing or short call of the daemon per run, incomplete requests (every cut point, wrong last byte) must queue nothing."
             " Added later: the three daemons in front of the REAL qmail-queue for transactions that are given up with the flushed part of the envelope ending at / next to a record boundary of qmail.c's 1024-byte buffer; bodies with bare CRs, CR CR and stuffed dots at databytes-1 .. +3.",
        note="'queued' = the stand-in saw the terminator and exited 0; exit codes 100..255 and 115 only required to give a negative reply",
        design="5 C07"),
    "C08": dict(
        technique="TLA+ transcription of qmail-smtpd's session logic checked by TLC against a reply-driven transaction/relay-policy monitor for every command sequence up to a bound x configurations + TLC validation of tens of thousands of real interactive and pipelined qmail-smtpd sessions",
        text="SmtpSession.tla states the property over (command, reply class, envelope submitted) with abstract addresses and configurations; SmtpModel.tla checks the transcribed "
             "session logic against it exhaustively. Every real session (all sequences up to length 3 over 25 commands, seeded longer ones under 8 configurations, arguments rendered "
             "in many forms, CRLF/LF, replayed pipelined; morercpthosts.cdb built by the real qmail-newmrh; envelope captured by the QMAILQUEUE stand-in) is folded through the same monitor by TLC."
             " Added later: sessions whose message is refused after 354 (too large, 100 hops, queue program failing temporarily / permanently) followed by every continuation of two / three commands: however a DATA ends, the transaction is over.",
        note="the mailbox an argument denotes is known by construction (rendering is harness code; the inverse parse is C17); 900+ byte addresses count as over the limit",
        design="5 C08"),
    "C09": dict(
        technique="TLA+ transcription of qmail-remote smtp() and qmail-rspawn report() checked by TLC against reference verdict sets for every server script / every exit-status x output combination + TLC validation of real qmail-remote runs against a scripted SMTP server and real qmail-rspawn runs with a scripted QMAILREMOTE",
        text="Remote.tla gives, per server script over reply classes, the set of results the statement allows (odd <400 replies may be read either way); RemoteModel.tla and FoldModel.tla "
             "check the transcriptions for every script / output. The real qmail-remote is run against a scripted server for every script (boundary codes 399/400/499/500/599, multi-line "
             "replies, disconnects, stalls, no listener), the real qmail-rspawn relays every stand-in result; all records are judged by TLC. "
             "Added since: malformed reply lines as a reply class (never an acceptance), one failing or short call of the client per run (FaultVerdict), and the table of hosts that time out: Tcpto.tla / TcptoModel.tla / TcptoRec.tla bound by a function seam over every (table, call) of a bounded domain and by runs of the real qmail-remote under the virtual clock."
             " Added later: clients of qmail-rspawn that close their output and die a moment later (the relay must wait for the exit status that belongs to this client).",
        note="0xx/1xx/6xx+ codes and per-line differing codes are not generated; the possible-duplicate flag is observed as text; a connection attempt 'times out' against a listener whose accept queue is full",
        design="5 C09"),
    "C10": dict(
        technique="TLA+ declarative Route/SenderAdd from the documents vs. branch-by-branch transcription of getcontrols/rewrite/senderadd/todo_do checked by TLC + TLC validation of recipient lists and delivery commands produced by the real qmail-queue/qmail-send/qmail-clean (and a function seam) over generated configurations, with HUP histories",
        text="Rewrite.tla defines Route, MsgVerdict, SenderAdd and Effective (controls as of start / last HUP); RewriteSend.tla transcribes the code and is checked over ~30k configurations x "
             "envelopes x edits with every branch action covered. The real daemon is played in parallel sandboxes (qmail-start plumbing), messages are injected by the real qmail-queue, "
             "local/remote lists and delivery commands are read back; ~400k recipient evaluations per quick run are judged by TLC. "
             "Added since: control files with empty lines and an unterminated last line, a name with every letter of the alphabet in both cases."
             " Added later: HUP arriving while a scan of todo/ is open (gated run: two messages queued while the daemon is held, the daemon stopped between them, control files rewritten, HUP, released): the second message follows the new files; gated starts of the daemon with each read of a control file failing in turn (it must not start, or route by the files as written).",
        note="percent hack with an @ inside the would-be domain left open between three readings; duplicate control keys outside the domain (as the property says)",
        design="5 C10"),
    "C11": dict(
        technique="TLA+ declarative Assign/GetPw/identity monitors vs. step transcription of qmail-newu, nughde_get/spawn and qmail-getpw checked by TLC + TLC validation of deliveries through the real qmail-newu/qmail-lspawn/qmail-getpw under the shim (generated passwd db, setgroups/setgid/setuid/exec trace, damaged cdb files)",
        text="Users.tla is the documents' reading; UsersLspawn.tla transcribes the code one action per key tried / identity call, with branch coverage enforced and the as-found qmail-newu variant "
             "required to fail. 20k deliveries per quick run (tables, passwd databases, home ownership, hash-colliding keys, every truncation / redirected pointer of users/cdb, lookup errors) "
             "run through the real programs with a stand-in qmail-local that dumps argv and ids; every record is judged by TLC."
             " Added later: local parts and wildcard prefixes of 29..34, 45, 63..65 and 100 bytes (users/cdb compares keys in 32-byte pieces) with near misses behind the first 32 / 64 bytes.",
        note="cdb hash arithmetic bound only as a black-box map (32-bit TLC integers); arbitrary pointer overwrites only required to never run as root / never bounce",
        design="5 C11"),
    "C12": dict(
        technique="TLA+ models of the maildir writer (call order as data, Kill/Crash/Lose/fault) and of the mbox appender (1-3 deliverers, all interleavings) checked by TLC + TLC validation of gated/faulted runs of the real qmail-local; call order of the real build lifted into the model",
        text="MailStore.tla states what may be visible in new/ and what the mbox(5) reader must read back; Maildir.tla/Mbox.tla are explored exhaustively (wrong variants of "
             "the models must be rejected in every run). The real qmail-local is stepped call by call through the gate (kill before every call, every single failing call, "
             "name collisions, 2-3 concurrent mbox deliveries with failing writes); every listing/record is judged by TLC with the same monitors.",
        note="alarm paths (24 h / 30 s) not exercised; real mbox interleavings sampled; failed mbox fsync/close accepted either way (the statement names writes)",
        design="5 C12"),
    "C13": dict(
        technique="TLA+ declarative reading of dot-qmail(5)/qmail-command(8) (Search, Walk, Judge) vs. transcription of qmail-local main() checked by TLC on exhaustive slices + TLC validation of thousands of real qmail-local runs in generated homes",
        text="DotQmail.tla derives from the documents the allowed observation for a case; DotQmailP.tla transcribes qmail-local.c and is checked against it on three exhaustive "
             "slices plus hand-computed vectors (also proving the monitor rejects falsified observations). The real qmail-local runs as an unprivileged uid in materialised "
             "homes with probe programs and the recording QMAILQUEUE; every run is a record judged by TLC with the same Judge."
             " Added later: runs of qmail-local with one call failing with an errno of the temporary class (descriptor table full, no memory, I/O error, ...) for an address that has its own .qmail file: deferred or harmless, never other instructions, never a bounce (spec/DotQmailFaultRec.tla).",
        note="group-writable homes/files, sticky under -n and non-+list '+' lines are left unconstrained (documents and shipped conf-patrn differ or are silent)",
        design="5 C13"),
    "C14": dict(
        technique="TLC model check of the transcribed addbounce() sanitiser against a paragraph monitor for every failure text up to a bound + the queue-manager model/monitor (bounce chain) + TLC trace validation of bounce histories on the real qmail-send/qmail-queue with hostile report texts, all sender forms and bounce controls",
        text="Bounce.tla defines paragraphs of a notice and NoticeVerdict (exactly one '<rcpt>:' paragraph per failed recipient) and is checked for every text over a hostile alphabet; "
             "the C14 clauses of QSendMon (envelope of bounce / double bounce, record -> notice queued -> record removed, discard only of a failing double bounce, no foreign or duplicate "
             "names) are evaluated on histories of the real daemon in which the bytes of every queued notice are judged by the same operator."
             " Added later: writes to the bounce record that come up short (the projection reassembles a paragraph written in pieces).",
        note="a forged '--- Below this line' separator is outside the statement and not generated; both spellings of a virtual-domain recipient accepted",
        design="5 C14"),
    "C15": dict(
        technique="TLC model check of the transcribed square-root loop, back-off formula and array heap + TLC validation of records from the real squareroot()/nextretry()/prioq.c (seam), C sweep of the post-condition over the 2^32 domain",
        text="TLC proves on the complete domain of a scaled loop that the shift-and-subtract algorithm is the floor square root, that the back-off time is "
             "strictly in the future, and that the array heap keeps order/minimum/bag for every operation sequence up to a bound; results of the real functions "
             "(square boundaries, seeded grids, every operation sequence of the model's domain, long random ones) are records judged by TLC. Daemon level: strict histories under the virtual clock (retry times probed from both sides, across TERM/restart and ALRM, queue lifetimes, several due messages on one slot, one channel saturated while the other waits for a retry time) judged by the C15 clauses of the monitor."
             " Added later: ALRM while only one channel holds deferred messages (the other channel's retry queue never used, or used and drained).",
        note="function-level seams as in tests/; 32-bit TLC integers: ages >= 2^31 only in the C sweep; daemon-level retry histories (virtual clock) are added by the queue-manager controller",
        design="5 C15"),
    "C16": dict(
        technique="TLA+ model of the trigger FIFO with injectors and the daemon's re-arm/scan fragment checked exhaustively by TLC (safety + liveness, wrong orders required to fail) + the same interleavings executed on the real qmail-queue/qmail-send under the system-call gate with a frozen clock, traces validated by TLC",
        text="Trigger.tla models the FIFO as this kernel implements it and every interleaving of 1-3 injectors with the daemon (NoLostWakeup, EventuallyScanned, rescan disabled). The real programs "
             "are stepped through placements of the injector's {link todo, open, write, close trigger} among the daemon's schedule points (calls on lock/trigger, opendir/readdir of todo/, select) "
             "in two scenarios; at the final quiescent point every accepted message must have been preprocessed; select time-outs at every quiescent point of seeded histories are judged by the "
             "C16 clauses of the monitor."
             " Repaired later (found by a seeded change): the interleaving scheduler no longer gives up the daemon's turn while the daemon waits for qmail-clean, so the injector's steps are really placed at every daemon point of a scan; objections of wake-up interleavings are confirmed by re-running the same interleaving.",
        note="readdir behaves as the kernel does in the recorded runs (glibc reads the directory at the first readdir, so re-arming between opendir and the first readdir is not observable here)",
        design="5 C16"),
    "C17": dict(
        technique="TLA+ RFC 822/821 readers and documented rewriting vs. transcriptions of quote.c/token822.c/addrparse/rwgeneric/qmail-inject field logic checked by TLC (three models) + TLC validation of 45k real qmail-inject / qmail-remote -> qmail-smtpd round trips and generated header lists",
        text="Addr.tla holds the documents' side and the transcriptions; AddrQuote (every local part over 21 byte classes up to length 4/5), AddrList (addrlist stepped per token over an abstract "
             "list grammar with expected mailboxes known by construction) and AddrInject (fields x strategies x arguments) are checked by TLC. Real code at binary level: qmail-inject -a/-n/-h/-H/-f "
             "with QMAILINJECT flags and the recording QMAILQUEUE, qmail-remote to a scripted server to the real qmail-smtpd; every record judged by TLC."
             " Added later: SPACE / TAB between a field name and its colon.",
        note="the byte rendering of generated headers is harness code (~150 lines); NUL/LF in local parts excluded by the statement; two known findings (comments inside <...>)",
        design="5 C17"),
    "C18": dict(
        technique="TLA+ monitors for the cleaner and spawner request grammars, TLC model check of the transcribed request check, TLC validation of shim-recorded unlink/open/exec/status events of the real qmail-clean and qmail-rspawn",
        text="TLC checks the transcription of qmail-clean's request check against the monitor CleanVerdict for every request of a bounded domain; the real "
             "qmail-clean (every unlink path and status byte recorded by the shim, attributed per request by sentinel requests) and the real qmail-rspawn "
             "(every open path, every report, every started delivery agent) are driven over enumerated and random hostile streams and each record is judged by TLC. Added since: hostile bytes on qmail-send's report channels (part 3, the C18 clauses of the monitor), the local spawner relaying hostile program output, a spawner that does not finish is run again and what it did answer is judged."
             " Added later: request numbers that run through the last value before the 2^64 overflow, and multiples of 2^64 added to numbers of existing messages.",
        note="shim trace assumed complete for unlink/open/write; report frames are cut out of the bytes each read of the daemon returns",
        design="5 C18"),
    "C19": dict(
        technique="TLA+ reference model of RFC 1939 as qualified by qmail-pop3d(8)/qmail-popup(8) with three program-layer machines (blast loop, pop3d sessions, popup) checked by TLC + TLC validation of 12k real qmail-pop3d/qmail-popup sessions on generated maildirs",
        text="Pop3.tla is the reference model (stepwise monitors over command, reply class, payload bytes, descriptor-3 bytes, maildir before/after); Pop3Impl.tla transcribes scan_ulong/msgno/top/blast/"
             "prioq/getlist and drives Pop3Blast (every message over {LF,CR,'.',x} up to length 6/8 x RETR/TOP), Pop3d (every command sequence of any length over verbs x 22 argument texts x 4 maildirs "
             "x vanishing files) and Pop3Popup in lock step with the reference model, with branch witnesses required. The real qmail-pop3d runs as an unprivileged uid command by command (files removed "
             "between commands), qmail-popup with a stand-in checker; every session is a record judged by TLC. Added since: authentication sequences of three / four steps, sessions started by uid 0 with only the effective uid lowered, lines of 8192..12000 bytes.",
        note="any consistent numbering accepted (order not in the statement); STAT's count free; as-found scan_ulong transcription (ScanWraps) kept and required to fail",
        design="5 C19"),
}

NOT_YET = "check not built yet in this round (work in progress, see DESIGN.md section 11)"
NA = {
    "C20": "memory safety of the C code for unstructured inputs of extreme size is not expressible as a TLA+ state machine bound by conformance; needs sanitised fuzzing / bounded model checking of the C itself (DESIGN.md section 7)",
}

def main():
    props = [json.loads(l)["id"] for l in open(os.path.join(V, "properties.jsonl"))]
    checks = []
    for pid in props:
        if pid not in CLAIMED:
            continue
        c = CLAIMED[pid]
        checks.append({
            "property_id": pid,
            "quick_cmd": "./check %s --tier quick" % pid,
            "thorough_cmd": "./check %s --tier thorough" % pid,
            "evidence_file": "evidence/%s.json" % pid,
            "replay_cmd_template": "./check %s --replay {path}" % pid,
            "engine": "tlc+conformance",
            "level_claimed": {"category": c.get("level", "model_checking"), "text": c["text"], "design_ref": c["design"]},
            "level_note": c["note"],
            "technique": c["technique"],
        })
    na = []
    for pid in props:
        if pid in CLAIMED:
            continue
        na.append({"property_id": pid, "reason": NA.get(pid, NOT_YET)})
    m = {
        "version": 1,
        "setup_cmd": "./setup.sh",
        "hooks": {
            "guard": "NOTQMAIL_VERIF",
            "enable": "checks build a scratch copy of /repo's working tree with -DNOTQMAIL_VERIF appended to conf-cc (no source hook exists so far: observation is by LD_PRELOAD shim, link seams and stand-in programs)",
            "baseline_off_cmd": "cd /repo && make test",
            "source_commits": [],
            "add_only": True,
        },
        "engines": [{"name": "tlc+conformance", "path": "lib/vlib.py",
                     "serves_properties": sorted(CLAIMED),
                     "kind_free_text": "TLA+ specifications in spec/ model-checked by TLC; records/traces taken from the real programs built from /repo's working tree are validated by TLC against the same specifications"}],
        "checks": checks,
        "not_applicable": na,
        "notes": "exit 0 = held, exit 1 + VIOLATION line = monitor failed on behaviour of the real code, exit 2 = infrastructure (never a verdict). known_findings.txt lists repaired (fixed:) and recorded (known:) defects. Specification coverage beyond the fixed property list has checks of its own that are not registered here: ./check X01 .. X08 (DESIGN.md 5c; evidence/X0n.json).",
    }
    with open(os.path.join(V, "MANIFEST.json"), "w") as f:
        json.dump(m, f, indent=1)
    print("MANIFEST.json: %d checks, %d not applicable" % (len(checks), len(na)))

if __name__ == "__main__":
    main()
