#!/bin/sh
# usage: reconfirm.sh <seed id> <conf-qmail home relative to worktree> <demo command...>
# re-creates a scratch worktree of /repo HEAD at /tmp/seed-re, sets the scaffolding, and runs the seed's demonstration
# with the change (expects failure) and without (expects success).  Removes the worktree afterwards.
id=$1; home=$2; shift 2
wt=/tmp/seed-re
git -C /repo worktree remove --force $wt 2>/dev/null
git -C /repo worktree add -f $wt HEAD -q 2>/dev/null || exit 2
cd $wt || exit 2
cp -r /verif/seeded/$id/demo demo
sed -i "1s|.*|$wt/$home|" conf-qmail
mkdir -p $wt/$home/control; [ -f $wt/$home/control/me ] || echo demo.example > $wt/$home/control/me
git apply /verif/seeded/$id/patch.diff || { echo "$id: patch does not apply"; exit 2; }
make -j16 it >/dev/null 2>&1 || { echo "$id: build with change failed"; exit 2; }
timeout 900 "$@" >/var/tmp/re_with.out 2>&1; a=$?
git apply -R /verif/seeded/$id/patch.diff
make -j16 it >/dev/null 2>&1 || { echo "$id: build without change failed"; exit 2; }
timeout 900 "$@" >/var/tmp/re_without.out 2>&1; b=$?
echo "$id: demo with change rc=$a ($(tail -1 /var/tmp/re_with.out | cut -c1-100)); without rc=$b ($(tail -1 /var/tmp/re_without.out | cut -c1-100))"
cd /; git -C /repo worktree remove --force $wt
