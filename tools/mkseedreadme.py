#!/usr/bin/env python3
"""seeded/README.md from the meta.json files"""
import json, glob, re
rows = []
for f in sorted(glob.glob('/verif/seeded/*/meta.json')):
    m = json.load(open(f))
    own_first = "missed" if ("MISSED by ./check " + m["property"] in m["result"] or m["result"].startswith("MISSED") or m["result"].startswith("NOT REPORTED") or m["result"].startswith("SEEN but")) else "detected"
    now = "detected" if (own_first == "detected" or m.get("result_after", "").startswith("DETECTED")) else "missed"
    if m.get("detected_by") == "-":
        now = "n/a (neutralised by a fix)"
    rnd = 9 if "round 9" in m.get("origin", "") else 8 if "round 8" in m.get("origin", "") else 7 if "round 7" in m.get("origin", "") else 6 if "round 6" in m.get("origin", "") else 5 if "round 5" in m.get("origin", "") else 4 if "round 4" in m.get("origin", "") else 3 if "round 3" in m.get("origin", "") else 2 if "round 2" in m.get("origin", "") else 1
    rows.append((rnd, m["id"], m["property"], own_first, now, m))
out = ["# Seeded changes\n",
       "Each directory holds one change to notqmail that breaks one listed property while the tree still builds and the 22 repository",
       "tests still pass. All were written by fresh sub-agents that saw only the property text and a scratch worktree (nothing from",
       "/verif); from round 2 on they were also told, in one line each, what the earlier changes for that property were and asked for a",
       "different clause / function / trigger. `patch.diff` is the change, `demo/` the seeder's demonstration, `meta.json` what it needs",
       "to manifest and what the checks said, `check_<id>.txt` the output of `./check <id> --tier quick` with the patch applied to /repo.\n",
       "Confirmed by me for every seed: the patch applies to HEAD, build + `make test` pass with it (`tools/seedtest.sh`), the",
       "demonstration fails with it and passes without it (`tools/democonfirm.sh` in the seeder's worktree, or `tools/reconfirm.sh` in a",
       "fresh scratch worktree). None of them is ever committed to /repo.\n",
       "To re-run one: `tools/reseed.sh <id> <prop>` (applies the patch to /repo, runs the quick check, undoes it); all of them against a",
       "scratch worktree: `tools/allseeds.sh`.\n",
       "| round | seed | property | owning check, first run | now | clause that fires |", "|---|---|---|---|---|---|"]
for rnd, id, prop, first, now, m in sorted(rows, key=lambda r: (r[2], r[0])):
    r = m.get("result_after") or m["result"]
    cl = re.findall(r"VIOLATION ([^;(]*)", r)
    out.append("| %d | %s | %s | %s | %s | %s |" % (rnd, id, prop, first, now, (cl[0].strip()[:100] if cl else r[:100])))
out.append("")
for k in (1, 2, 3, 4, 5, 6, 7, 8, 9):
    n = [r for r in rows if r[0] == k]
    out.append("Round %d: %d seeds, %d detected by the owning check at the first run." % (k, len(n), sum(1 for r in n if r[3] == "detected")))
out.append("")
out.append("Missed at first and what was strengthened:\n")
for rnd, id, prop, first, now, m in sorted(rows, key=lambda r: (r[2], r[0])):
    if "MISSED" in m["result"] or "NOT REPORTED" in m["result"] or "SEEN but" in m["result"]:
        out.append("* **%s** (round %d) - %s" % (id, rnd, m["result"]))
        out.append("  Afterwards: %s" % m.get("result_after", ""))
out.append("")
open('/verif/seeded/README.md', 'w').write("\n".join(out))
print("\n".join(out[-0:][14:16]))
for k in (1, 2, 3, 4, 5, 6, 7, 8, 9):
    n = [r for r in rows if r[0] == k]
    print(k, len(n), sum(1 for r in n if r[3] == "detected"))
