#!/bin/sh
# usage: seedtest.sh <seed id> <worktree> <property> [more properties...]
# 1. saves the source-only patch and the demonstration under /verif/seeded/<id>/
# 2. confirms in the seeder's worktree: build + make test pass with the change; (demo runs are recorded by hand in meta.json)
# 3. applies the patch to /repo, runs the quick checks named, and undoes it straight afterwards
id=$1; wt=$2; shift 2
d=/verif/seeded/$id; mkdir -p $d
( cd $wt && git diff -- . ':(exclude)conf-qmail' ':(exclude)demo' ':(exclude)conf-split' ) > $d/patch.diff
[ -s $d/patch.diff ] || { echo "empty patch"; exit 2; }
rm -rf $d/demo; cp -r $wt/demo $d/demo 2>/dev/null; rm -rf $d/demo/home $d/demo/*.so $d/demo/sandbox $d/demo/queue 2>/dev/null
find $d/demo -size +200k -delete 2>/dev/null
echo "--- patch"; cat $d/patch.diff | head -40
# confirm build + tests with the change in a neutral worktree
git -C /var/tmp/wt-main checkout -q -- . ; git -C /var/tmp/wt-main apply $d/patch.diff || { echo "patch does not apply to current HEAD"; exit 2; }
( cd /var/tmp/wt-main && make -j16 it >/dev/null 2>&1 && make test 2>&1 | grep -E "^[0-9]+%" | tr '\n' ' ' ); echo " <- build+tests with the change (rc=$?)"
git -C /var/tmp/wt-main checkout -q -- .
git -C /repo apply $d/patch.diff || exit 2
for p in "$@"; do
  echo "=== ./check $p --tier quick (patched /repo)"
  ( cd /verif && timeout 1500 ./check $p --tier quick 2>&1 | cut -c1-330 | tail -3 ) | tee $d/check_$p.txt
done
git -C /repo checkout -- .
git -C /repo status --short | grep -v '^??' | head -3
