#!/bin/sh
# usage: reseed.sh <seed id> <property>...   re-run the quick checks against a stored seed (patch applied to /repo, then undone)
id=$1; shift
git -C /repo apply /verif/seeded/$id/patch.diff || exit 2
for p in "$@"; do
  r=$(cd /verif && timeout 1500 ./check $p --tier quick 2>&1 | grep -E "^OK|^VIOLATION|INFRA" | head -1 | cut -c1-200)
  echo "$id $p: $r"
done
git -C /repo checkout -- .
