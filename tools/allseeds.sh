#!/bin/sh
# usage: allseeds.sh [seed id ...]   regression over the stored seeds: each is applied to a scratch worktree of /repo HEAD
# (never to /repo itself) and the quick check of its property is run against that worktree (VERIF_REPO); prints one line per
# seed: DETECTED / missed.  The worktree is removed afterwards.
wt=/var/tmp/wt-seed
git -C /repo worktree remove --force $wt 2>/dev/null
git -C /repo worktree add -f $wt HEAD -q || exit 2
ids="$@"; [ -n "$ids" ] || ids=$(ls /verif/seeded | grep -v README)
for id in $ids; do
  p=$(python3 -c "import json;m=json.load(open('/verif/seeded/$id/meta.json'));print(m.get('detected_by') or m['property'])")
  [ "$p" = "-" ] && { echo "$id: skipped (neutralised)"; continue; }
  git -C $wt checkout -q -- . ; git -C $wt apply /verif/seeded/$id/patch.diff 2>/dev/null || { echo "$id $p: patch does not apply"; continue; }
  r=$(cd /verif && VERIF_REPO=$wt timeout 1500 ./check $p --tier quick 2>&1 | grep -E "^OK|^VIOLATION|INFRA" | head -1 | cut -c1-150)
  case "$r" in VIOLATION*) echo "$id $p: DETECTED  ${r#VIOLATION property=$p replay=}";; *) echo "$id $p: missed  ($r)";; esac
done
git -C /repo worktree remove --force $wt
( cd /verif && git checkout -q -- evidence 2>/dev/null )
