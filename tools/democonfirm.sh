#!/bin/sh
# usage: democonfirm.sh <worktree> <demo command...>   (run inside the seeder's worktree, which has the change applied)
# runs the demonstration with the change (expects failure) and with the change reversed (expects success); re-applies the change
wt=$1; shift
cd $wt || exit 2
git diff -- . ':(exclude)conf-qmail' ':(exclude)demo' ':(exclude)conf-split' > /var/tmp/democonfirm.diff
make -j16 it >/dev/null 2>&1 || { echo "build with change failed"; exit 2; }
timeout 600 "$@" >/var/tmp/demo_with.out 2>&1; a=$?
git apply -R /var/tmp/democonfirm.diff || exit 2
make -j16 it >/dev/null 2>&1 || { echo "build without change failed"; exit 2; }
timeout 600 "$@" >/var/tmp/demo_without.out 2>&1; b=$?
git apply /var/tmp/democonfirm.diff
echo "demo with change: rc=$a ($(tail -1 /var/tmp/demo_with.out | cut -c1-120)); without: rc=$b ($(tail -1 /var/tmp/demo_without.out | cut -c1-120))"
