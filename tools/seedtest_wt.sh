#!/bin/sh
# usage: seedtest_wt.sh <seed id> <worktree> <property> [more properties...]
# as seedtest.sh, but the checks are run against a scratch worktree of /repo HEAD with the patch applied (VERIF_REPO), not against
# /repo itself: for use while something else (a background run of the thorough tiers) builds from /repo's working tree
id=$1; wt=$2; shift 2
d=/verif/seeded/$id; mkdir -p $d
( cd $wt && git diff -- . ':(exclude)conf-qmail' ':(exclude)demo' ':(exclude)conf-split' ) > $d/patch.diff
[ -s $d/patch.diff ] || { echo "empty patch"; exit 2; }
rm -rf $d/demo; cp -r $wt/demo $d/demo 2>/dev/null; rm -rf $d/demo/home $d/demo/*.so $d/demo/sandbox $d/demo/queue 2>/dev/null
find $d/demo -size +200k -delete 2>/dev/null
echo "--- patch"; cat $d/patch.diff | head -40
git -C /var/tmp/wt-main checkout -q -- . ; git -C /var/tmp/wt-main apply $d/patch.diff || { echo "patch does not apply to current HEAD"; exit 2; }
( cd /var/tmp/wt-main && make -j16 it >/dev/null 2>&1 && make test 2>&1 | grep -E "^[0-9]+%" | tr '\n' ' ' ); echo " <- build+tests with the change (rc=$?)"
( cd /var/tmp/wt-main && git clean -fdxq . >/dev/null 2>&1; git checkout -q -- . ; git apply $d/patch.diff )
for p in "$@"; do
  echo "=== ./check $p --tier quick (VERIF_REPO = scratch worktree with the patch)"
  ( cd /verif && VERIF_REPO=/var/tmp/wt-main timeout 1500 ./check $p --tier quick 2>&1 | cut -c1-330 | tail -3 ) | tee $d/check_$p.txt
done
git -C /var/tmp/wt-main checkout -q -- .
