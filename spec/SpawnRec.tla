------------------------------ MODULE SpawnRec ------------------------------
(***************************************************************************)
(* Record validator (T) for the spawner part of C18 (kind = "cmds": one    *)
(* command stream served by the real qmail-rspawn) and for the relay part  *)
(* of C09 (kind = "fold": one qmail-remote result relayed by it).          *)
(***************************************************************************)
EXTENDS Spawn, Json, IOUtils, TLC
Recs  == ndJsonDeserialize(IOEnv.RECORDS)
Chunk == atoi(IOEnv.CHUNK)
N     == Len(Recs)
NCh   == (N + Chunk - 1) \div Chunk
G     == 16
VARIABLES g, k
Init == g = 0 /\ k = 0
Next == \/ g = 0 /\ g' \in 1..G /\ k' = 0
        \/ g > 0 /\ k = 0 /\ k' \in {c \in 1..NCh : c % G = g - 1} /\ g' = g
Spec == Init /\ [][Next]_<<g, k>>

Verdict(r) == IF r.kind = "lrun" THEN LRunVerdict(r.lcmds, [i \in 1..Len(r.lexp) |-> [ex |-> r.lexp[i][1], cr |-> r.lexp[i][2] = 1]], r.lframes)
              ELSE IF r.kind = "fold" THEN FoldVerdict(r.ex, r.cr = 1, r.out, r.relayed)
              ELSE SpawnVerdict(r.cmds, r.limit, r.reports, r.opens, [i \in 1..Len(r.ran) |-> r.ran[i] = 1])
CheckChunk(c) ==
  LET lo == (c - 1) * Chunk + 1
      hi == IF c * Chunk < N THEN c * Chunk ELSE N
  IN /\ \A i \in lo..hi : LET v == Verdict(Recs[i]) IN v = "" \/ PrintT(<<"BADREC", i, v>>)
     /\ PrintT(<<"CHECKED", lo, hi>>)
Inv == k = 0 \/ CheckChunk(k)
=============================================================================
