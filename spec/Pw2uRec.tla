------------------------------ MODULE Pw2uRec ------------------------------
(* Record validator (T) for X08: one record = one run of the real qmail-pw2u: db (accounts as in Pw2u.tla, in the order of the
   passwd file given), alias, o (options), incl / excl / mana / subs (the files of users/, hasincl / hasexcl whether they exist),
   app (bytes of users/append), rc, table (the assignment lines printed, parsed into entries), tail (what followed them),
   locals (addresses to look up when the default rules are in force), newu (exit status of the real qmail-newu on the output) *)
EXTENDS Pw2u, Json, IOUtils, TLC
Recs  == ndJsonDeserialize(IOEnv.RECORDS)
Chunk == atoi(IOEnv.CHUNK)
N     == Len(Recs)
NCh   == (N + Chunk - 1) \div Chunk
G     == 16
VARIABLES g, k
Init == g = 0 /\ k = 0
Next == \/ g = 0 /\ g' \in 1..G /\ k' = 0
        \/ g > 0 /\ k = 0 /\ k' \in {c \in 1..NCh : c % G = g - 1} /\ g' = g
Spec == Init /\ [][Next]_<<g, k>>
RunVerdict(r) ==
  LET c == [hasincl |-> r.hasincl = 1, incl |-> Range(r.incl), hasexcl |-> r.hasexcl = 1, excl |-> Range(r.excl), mana |-> r.mana, subs |-> r.subs]
      o == [hs |-> r.o.hs, noupper |-> r.o.noupper = 1, brk |-> r.o.brk, slash |-> r.o.slash = 1]
      dflt == o = Default /\ c = NoFiles
  IN IF Fails(r.db, r.alias, o, c) THEN (IF r.rc # 111 THEN "ShouldHaveStopped" ELSE "")
     ELSE IF r.rc # 0 THEN "StoppedWithoutReason"
     ELSE IF r.table # Table(r.db, r.alias, o, c) THEN "AssignmentsAreNotTheOnesTheRulesGive"
     ELSE IF r.tail # r.app \o <<46, 10>> THEN "AppendFileNotCopiedOrNoFinalDot"
     ELSE IF r.newu # 0 THEN "OutputNotAcceptedByNewu"
     ELSE IF dflt /\ \E i \in 1..Len(r.locals) :
                       LET a == Assign(r.table, r.locals[i])
                           gp == GetPw(r.db, {}, r.alias, r.locals[i], 45, 32)
                       IN ~(a.found /\ gp.kind = "id" /\ a.id = gp.id) THEN "DefaultRulesDisagreeWithGetpw"
     ELSE ""
CheckChunk(c) ==
  LET lo == (c - 1) * Chunk + 1
      hi == IF c * Chunk < N THEN c * Chunk ELSE N
  IN /\ \A i \in lo..hi : LET v == RunVerdict(Recs[i]) IN v = "" \/ PrintT(<<"BADREC", i, v>>)
     /\ PrintT(<<"CHECKED", lo, hi>>)
Inv == k = 0 \/ CheckChunk(k)
=============================================================================
