SPECIFICATION Spec
INVARIANT Inv
