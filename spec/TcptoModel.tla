----------------------------- MODULE TcptoModel -----------------------------
(***************************************************************************)
(* Several qmail-remote processes share the time-out table.  Each process  *)
(* looks an address up, and - if it is not to be skipped - tries to        *)
(* connect (the environment chooses the outcome) and reports; the clock    *)
(* advances at most MaxTicks times by steps chosen from Steps; of the      *)
(* time-outs reported for an address only the first and the last are kept  *)
(* (they are the best witnesses for SkipSound).  Atomic = TRUE: tcpto_err() holds  *)
(* the lock from reading the table to writing the slot (as the code does); *)
(* Atomic = FALSE splits it into a read and a write step: UniqueAddress    *)
(* must then fail (sanity of the model).                                   *)
(***************************************************************************)
EXTENDS Tcpto, TLC
CONSTANTS NProc, Ips, NSlots, Steps, MaxTicks, Atomic
VARIABLES tab, now, nt, pc, arg, was, snap, touts, verdict, skipped
vars == <<tab, now, nt, pc, arg, was, snap, touts, verdict, skipped>>
Procs == 1..NProc
Blank == [ip |-> 0, f |-> 0, w |-> 0]

Init == /\ tab = [i \in 1..NSlots |-> Blank] /\ now = 1000 /\ nt = 0 /\ pc = [p \in Procs |-> "idle"] /\ arg = [p \in Procs |-> 0]
        /\ was = [p \in Procs |-> 0] /\ snap = [p \in Procs |-> <<>>] /\ touts = [i \in Ips |-> <<0, 0>>] /\ verdict = "" /\ skipped = FALSE

Tick == nt < MaxTicks /\ nt' = nt + 1 /\ \E d \in Steps : now' = now + d /\ UNCHANGED <<tab, pc, arg, was, snap, touts, verdict, skipped>>

Lookup(p) == /\ pc[p] = "idle" /\ \E ip \in Ips :
                LET pb == (p - 1) * 31                                   \* process 1 has the shortest window, process 2 the longest
                    l == LookupP(tab, ip, now, pb)
                    t1 == touts[ip][1]  t2 == touts[ip][2]              \* first and last reported time-out (0 = none): the best witnesses
                    v == IF l.skip = 0 THEN ""
                         ELSE IF ~(t1 # 0 /\ t2 >= t1 + GRACE /\ t2 <= now) THEN "SkippedWithoutTwoTimeoutsTwoMinutesApart"
                         ELSE IF ~(now - t2 < Window(pb)) THEN "SkippedAfterTheWindow"
                         ELSE ""
                IN /\ arg' = [arg EXCEPT ![p] = ip] /\ was' = [was EXCEPT ![p] = l.was]
                   /\ pc' = [pc EXCEPT ![p] = IF l.skip = 1 THEN "idle" ELSE "connecting"]
                   /\ verdict' = (IF verdict # "" THEN verdict ELSE v)
                   /\ skipped' = (skipped \/ l.skip = 1)
             /\ UNCHANGED <<tab, now, nt, snap, touts>>

Report(p) == /\ pc[p] = "connecting" /\ \E flagerr \in {0, 1} :
                /\ touts' = (IF flagerr = 1 THEN [touts EXCEPT ![arg[p]] = <<(IF @[1] = 0 THEN now ELSE @[1]), now>>] ELSE touts)
                /\ IF Atomic THEN /\ tab' = ErrP(tab, was[p], arg[p], flagerr, now) /\ pc' = [pc EXCEPT ![p] = "idle"] /\ UNCHANGED snap
                   ELSE /\ snap' = [snap EXCEPT ![p] = <<tab, flagerr, now>>] /\ pc' = [pc EXCEPT ![p] = "writing"] /\ UNCHANGED tab
             /\ UNCHANGED <<now, nt, arg, was, verdict, skipped>>
\* (non-atomic variant) the slot computed from the stale copy is written over the current table
WriteBack(p) == /\ pc[p] = "writing"
                /\ LET old == snap[p][1]  new == ErrP(old, was[p], arg[p], snap[p][2], snap[p][3])
                       ch == {i \in 1..NSlots : new[i] # old[i]}
                   IN tab' = [i \in 1..NSlots |-> IF i \in ch THEN new[i] ELSE tab[i]]
                /\ pc' = [pc EXCEPT ![p] = "idle"] /\ UNCHANGED <<now, nt, arg, was, snap, touts, verdict, skipped>>

Next == Tick \/ \E p \in Procs : Lookup(p) \/ Report(p) \/ WriteBack(p)
Spec == Init /\ [][Next]_vars

\* ---- what an operator relies on
\* an address is skipped only if it timed out at least twice, two minutes apart or more, and only within the window of the
\* last time-out (judged at the moment of the skip, Lookup)
SkipSound == verdict = ""
\* every address has at most one slot (else a success would clear one slot and the other would go on blocking the host)
UniqueAddress == \A i, j \in 1..NSlots : (i # j /\ tab[i].ip # 0) => tab[i].ip # tab[j].ip
FlagRange == \A i \in 1..NSlots : tab[i].f \in 0..MAXF /\ (tab[i].f > 0 => tab[i].ip \in Ips)
\* sanity: skipping does happen in this model (must be VIOLATED)
NeverSkips == ~skipped
=============================================================================
