----------------------------- MODULE TcptoModel -----------------------------
(***************************************************************************)
(* Several qmail-remote processes share the time-out table.  Each process  *)
(* looks an address up, and - if it is not to be skipped - tries to        *)
(* connect (the environment chooses the outcome) and reports; the clock    *)
(* advances by steps chosen from Steps.  Atomic = TRUE: tcpto_err() holds  *)
(* the lock from reading the table to writing the slot (as the code does); *)
(* Atomic = FALSE splits it into a read and a write step: UniqueAddress    *)
(* must then fail (sanity of the model).                                   *)
(***************************************************************************)
EXTENDS Tcpto, TLC
CONSTANTS NProc, Ips, NSlots, Steps, MaxNow, Atomic
VARIABLES tab, now, pc, arg, was, snap, touts, lastskip
vars == <<tab, now, pc, arg, was, snap, touts, lastskip>>
Procs == 1..NProc
Blank == [ip |-> 0, f |-> 0, w |-> 0]

Init == /\ tab = [i \in 1..NSlots |-> Blank] /\ now = 1000 /\ pc = [p \in Procs |-> "idle"] /\ arg = [p \in Procs |-> 0]
        /\ was = [p \in Procs |-> 0] /\ snap = [p \in Procs |-> <<>>] /\ touts = [i \in Ips |-> {}] /\ lastskip = <<>>

Tick == \E d \in Steps : now + d <= MaxNow /\ now' = now + d /\ UNCHANGED <<tab, pc, arg, was, snap, touts, lastskip>>

Lookup(p) == /\ pc[p] = "idle" /\ \E ip \in Ips :
                LET l == LookupP(tab, ip, now, (p - 1) * 31) IN          \* process 1 has the shortest window, process 2 the longest
                /\ arg' = [arg EXCEPT ![p] = ip] /\ was' = [was EXCEPT ![p] = l.was]
                /\ pc' = [pc EXCEPT ![p] = IF l.skip = 1 THEN "idle" ELSE "connecting"]
                /\ lastskip' = (IF l.skip = 1 THEN <<ip, now, p>> ELSE lastskip)
             /\ UNCHANGED <<tab, now, snap, touts>>

Report(p) == /\ pc[p] = "connecting" /\ \E flagerr \in {0, 1} :
                /\ touts' = (IF flagerr = 1 THEN [touts EXCEPT ![arg[p]] = @ \cup {now}] ELSE touts)
                /\ IF Atomic THEN /\ tab' = ErrP(tab, was[p], arg[p], flagerr, now) /\ pc' = [pc EXCEPT ![p] = "idle"] /\ UNCHANGED snap
                   ELSE /\ snap' = [snap EXCEPT ![p] = <<tab, flagerr, now>>] /\ pc' = [pc EXCEPT ![p] = "writing"] /\ UNCHANGED tab
             /\ UNCHANGED <<now, arg, was, lastskip>>
\* (non-atomic variant) the slot computed from the stale copy is written over the current table
WriteBack(p) == /\ pc[p] = "writing"
                /\ LET old == snap[p][1]  new == ErrP(old, was[p], arg[p], snap[p][2], snap[p][3])
                       ch == {i \in 1..NSlots : new[i] # old[i]}
                   IN tab' = [i \in 1..NSlots |-> IF i \in ch THEN new[i] ELSE tab[i]]
                /\ pc' = [pc EXCEPT ![p] = "idle"] /\ UNCHANGED <<now, arg, was, snap, touts, lastskip>>

Next == Tick \/ \E p \in Procs : Lookup(p) \/ Report(p) \/ WriteBack(p)
Spec == Init /\ [][Next]_vars

\* ---- what an operator relies on
\* an address is skipped only if it timed out at least twice, two minutes apart or more, the last time within the longest window
SkipSound == lastskip = <<>> \/
             LET ip == lastskip[1]  t == lastskip[2]
             IN \E t1, t2 \in touts[ip] : t2 >= t1 + GRACE /\ t2 <= t /\ t - t2 < Window(31)
\* every address has at most one slot (else a success would clear one slot and the other would go on blocking the host)
UniqueAddress == \A i, j \in 1..NSlots : (i # j /\ tab[i].ip # 0) => tab[i].ip # tab[j].ip
FlagRange == \A i \in 1..NSlots : tab[i].f \in 0..MAXF /\ (tab[i].f > 0 => tab[i].ip \in Ips)
\* an address whose last time-out is older than the longest window is not skipped by anybody (stated on the step)
NoStaleSkip == [][lastskip' # lastskip => \E t2 \in touts[lastskip'[1]] : t2 <= now /\ now - t2 < Window((lastskip'[3] - 1) * 31)]_vars
\* sanity: skipping does happen in this model (must be VIOLATED)
NeverSkips == lastskip = <<>>
=============================================================================
