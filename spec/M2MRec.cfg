SPECIFICATION Spec
INVARIANT Inv
