-------------------------------- MODULE Pop3 --------------------------------
(***************************************************************************)
(* Environment layer (E) for property C19: the reference model of a POP3   *)
(* server over a maildir, written from RFC 1939 as qualified by            *)
(* qmail-pop3d(8), qmail-popup(8) and maildir(5), phrased only over        *)
(* observable things: the files of the maildir before and after a session, *)
(* the commands sent, the class (+OK / -ERR) and payload bytes of every    *)
(* reply, the bytes the password checker read on descriptor 3.  Reply      *)
(* wording is never looked at.                                             *)
(*                                                                         *)
(* Bytes are their numeric values, texts are sequences of bytes, so the    *)
(* same operators judge the small model (Pop3d / Pop3Blast / Pop3Popup)    *)
(* and the records taken from the real binaries (Pop3Rec).                 *)
(*                                                                         *)
(* Decisions where the documents leave something open (each accepted in    *)
(* every reading, see the comments at the operators):                      *)
(*  D1 numbering: the statement asks for a consistent numbering of the     *)
(*     messages present at start-up, not for a particular order; the       *)
(*     monitor takes the numbering as a parameter p (Pop3Rec accepts a     *)
(*     session if SOME bijection p explains it).                           *)
(*  D2 STAT: "+OK count size".  The count is outside the comparison (the   *)
(*     property says so).  The size is independent of the count semantics: *)
(*     RFC 1939 section 5 excludes messages marked as deleted from it and  *)
(*     the man page does not qualify that, so it is compared: the sum of   *)
(*     the file sizes of the unmarked messages.                            *)
(*  D3 sizes are file sizes in bytes (statement: "correspond to the        *)
(*     files"), taken when the session starts.                             *)
(*  D4 unique id = the part of the file's base name before the first ':'   *)
(*     (maildir(5): new/unique, cur/unique:info).                          *)
(*  D5 TOP: header = the lines before the first empty line; the separator  *)
(*     is sent and does not count; a message without an empty line is all  *)
(*     header.  A final line without LF is a line.  The extra blank line   *)
(*     of the man page follows in every case.                              *)
(*  D6 malformed commands the statement says nothing about ("DELE 1x",     *)
(*     "DELE 1 2", "RETR 1 2", "TOP 1", "STAT x", LAST's value): the       *)
(*     server may refuse without effect or act on the leading number; for  *)
(*     RETR/TOP the payload must then still be the header plus SOME number *)
(*     of body lines of that message.                                      *)
(*  D7 a message whose file vanished: RETR/TOP may be refused (or answered *)
(*     with the exact former content); it stays numbered and listed; QUIT  *)
(*     after marking it may answer in any class.                           *)
(*  D8 after the session an unmarked message that was new/u is either      *)
(*     still new/u or has become cur/u:<info> (maildir(5): the reader may  *)
(*     rename it), byte-identical in both cases.                           *)
(***************************************************************************)
EXTENDS Integers, Sequences, FiniteSets, SequencesExt, TLC

CR    == 13
LF    == 10
DOT   == 46
SP    == 32
COLON == 58
NUL   == 0
Huge  == 1000000000        \* stands for every number of more than nine significant digits

MinOf(S)  == CHOOSE x \in S : \A y \in S : x <= y
Sorted(S) == SetToSortSeq(S, LAMBDA a, b : a < b)

\* concatenation of a sequence of sequences (halving keeps the recursion shallow for long messages)
RECURSIVE Flat(_)
Flat(ss) == IF ss = <<>> THEN <<>>
            ELSE IF Len(ss) = 1 THEN ss[1]
            ELSE LET h == Len(ss) \div 2 IN Flat(SubSeq(ss, 1, h)) \o Flat(SubSeq(ss, h + 1, Len(ss)))

StartsWith(s, pre) == Len(s) >= Len(pre) /\ SubSeq(s, 1, Len(pre)) = pre
EndsWith(s, suf)   == Len(s) >= Len(suf) /\ SubSeq(s, Len(s) - Len(suf) + 1, Len(s)) = suf

(***************************************************************************)
(* Numbers and arguments                                                   *)
(***************************************************************************)
IsDigit(c) == c >= 48 /\ c <= 57
AllDigits(t) == Len(t) > 0 /\ \A i \in 1..Len(t) : IsDigit(t[i])
DigitPrefixLen(t) == LET nd == {i \in 1..Len(t) : ~IsDigit(t[i])} IN IF nd = {} THEN Len(t) ELSE MinOf(nd) - 1

RECURSIVE SmallVal(_)
SmallVal(d) == IF d = <<>> THEN 0 ELSE SmallVal(SubSeq(d, 1, Len(d) - 1)) * 10 + (d[Len(d)] - 48)
\* the number a digit string denotes; every value above 999999999 is represented by Huge
Val(d) == LET nz == {i \in 1..Len(d) : d[i] # 48}
          IN IF nz = {} THEN 0
             ELSE LET s == SubSeq(d, MinOf(nz), Len(d)) IN IF Len(s) > 9 THEN Huge ELSE SmallVal(s)

RECURSIVE Dec(_)
Dec(n) == IF n < 10 THEN <<48 + n>> ELSE Dec(n \div 10) \o <<48 + (n % 10)>>

\* the space separated, non-empty words of an argument text
Tokens(a) == LET cut  == Sorted({0, Len(a) + 1} \cup {i \in 1..Len(a) : a[i] = SP})
                 segs == [k \in 1..(Len(cut) - 1) |-> SubSeq(a, cut[k] + 1, cut[k + 1] - 1)]
             IN SelectSeq(segs, LAMBDA s : s # <<>>)

(***************************************************************************)
(* Sending a message (RETR / TOP)                                          *)
(***************************************************************************)
\* the lines of a stored message: LF ends a line; a last line without LF is a line too
Lines(m) == LET e    == Sorted({i \in 1..Len(m) : m[i] = LF})
                n    == Len(e)
                full == [k \in 1..n |-> SubSeq(m, (IF k = 1 THEN 1 ELSE e[k - 1] + 1), e[k] - 1)]
                lend == IF n = 0 THEN 0 ELSE e[n]
            IN IF lend < Len(m) THEN Append(full, SubSeq(m, lend + 1, Len(m))) ELSE full

Stuff(l) == IF Len(l) > 0 /\ l[1] = DOT THEN <<DOT>> \o l ELSE l

\* the multi-line payload for these lines: every line dot-stuffed and ended by CR LF, the extra
\* blank line of qmail-pop3d(8), the lone-dot terminator of RFC 1939 section 3
Wire(ls) == Flat([k \in 1..Len(ls) |-> Stuff(ls[k]) \o <<CR, LF>>]) \o <<CR, LF, DOT, CR, LF>>

\* header, separator and the first k body lines (D5)
TopLines(ls, k) == LET B == {i \in 1..Len(ls) : ls[i] = <<>>}
                   IN IF B = {} THEN ls
                      ELSE LET b == MinOf(B) IN SubSeq(ls, 1, (IF b + k < Len(ls) THEN b + k ELSE Len(ls)))

RetrBody(m)   == Wire(Lines(m))
TopBody(m, k) == Wire(TopLines(Lines(m), k))
\* D6: some number of body lines
SomeTopBody(m, b) == LET ls == Lines(m) IN \E k \in 0..Len(ls) : b = Wire(TopLines(ls, k))

(***************************************************************************)
(* The maildir.  A file is [d |-> "new" | "cur", n |-> name, x |-> bytes]. *)
(***************************************************************************)
Uid(f) == LET c == {i \in 1..Len(f.n) : f.n[i] = COLON}
          IN IF c = {} THEN f.n ELSE SubSeq(f.n, 1, MinOf(c) - 1)
Size(f) == Len(f.x)

\* D8: where an untouched message may be found afterwards
SameMessage(e, f) == /\ e.x = f.x
                     /\ \/ e.d = f.d /\ e.n = f.n
                        \/ f.d = "new" /\ e.d = "cur" /\ StartsWith(e.n, f.n \o <<COLON>>)

(***************************************************************************)
(* The session monitor.                                                    *)
(*   files  the maildir at start-up (a sequence; the position is only a    *)
(*          name for the file)                                             *)
(*   p      numbering: message number i is files[p[i]]                     *)
(*   st     [marks: message numbers marked, gone: files removed by someone *)
(*          else during the session, over: the session has ended,          *)
(*          quit: it ended by QUIT]                                        *)
(*   cmd    [v |-> verb in upper case ("OTHER" for anything that is not a  *)
(*          POP3 verb of this server, "XRM" for the environment removing   *)
(*          file cmd.a[1]), a |-> argument text]                           *)
(*   rep    [c |-> "ok" | "err" | "none" | "mix" (several status lines),   *)
(*           t |-> text after the status indicator, b |-> multi-line       *)
(*           payload after the first line including the terminator]        *)
(* Step returns [why |-> "" or the clause that fails, st |-> next state].  *)
(***************************************************************************)
St0 == [marks |-> {}, gone |-> {}, over |-> FALSE, quit |-> FALSE]

NumClass(t, n, marks) ==
  LET k == DigitPrefixLen(t)
  IN IF k = 0 THEN [cls |-> "NonNumeric", v |-> 0, clean |-> FALSE]
     ELSE LET v == Val(SubSeq(t, 1, k))
          IN [cls |-> IF v = 0 THEN "Zero" ELSE IF v > n THEN "OutOfRange" ELSE IF v \in marks THEN "Deleted" ELSE "valid",
              v |-> v, clean |-> (k = Len(t))]

Listing(files, p, marks, uidl) ==
  Flat([i \in 1..Len(files) |->
          IF i \in marks THEN <<>>
          ELSE Dec(i) \o <<SP>> \o (IF uidl THEN Uid(files[p[i]]) ELSE Dec(Size(files[p[i]]))) \o <<CR, LF>>])
  \o <<DOT, CR, LF>>

\* D2: "<digits> SP <total size of the unmarked messages>"
StatText(files, p, marks, t) ==
  LET total == Dec(FoldSeq(LAMBDA x, acc : acc + x, 0, [i \in 1..Len(files) |-> IF i \in marks THEN 0 ELSE Size(files[p[i]])]))
      k     == DigitPrefixLen(t)
  IN k > 0 /\ t = SubSeq(t, 1, k) \o <<SP>> \o total

Res(why, st) == [why |-> why, st |-> st]

\* commands that name a message: DELE RETR TOP, LIST/UIDL with an argument
MsgStep(files, p, st, cmd, rep) ==
  LET n    == Len(files)
      toks == Tokens(cmd.a)
  IN IF toks = <<>> THEN (IF rep.c = "err" THEN Res("", st) ELSE Res("NonNumericNotRefused", st))
     ELSE
     LET nc == NumClass(toks[1], n, st.marks)
     IN IF nc.cls # "valid" THEN (IF rep.c = "err" THEN Res("", st) ELSE Res(nc.cls \o "NotRefused", st))
        ELSE
        LET f     == files[p[nc.v]]
            isTop == cmd.v = "TOP"
            well  == /\ nc.clean
                     /\ Len(toks) = (IF isTop THEN 2 ELSE 1)
                     /\ (isTop => AllDigits(toks[2]))
            here  == p[nc.v] \notin st.gone
        IN IF rep.c = "err"
             THEN (IF well /\ (here \/ cmd.v \notin {"RETR", "TOP"}) THEN Res("ValidCommandRefused", st) ELSE Res("", st))
           ELSE IF rep.c # "ok" THEN Res("NoReply", st)
           ELSE CASE cmd.v = "DELE" -> Res("", [st EXCEPT !.marks = @ \cup {nc.v}])
                  [] cmd.v = "LIST" -> Res((IF rep.t = Dec(nc.v) \o <<SP>> \o Dec(Size(f)) THEN "" ELSE "WrongSizeListed"), st)
                  [] cmd.v = "UIDL" -> Res((IF rep.t = Dec(nc.v) \o <<SP>> \o Uid(f) THEN "" ELSE "WrongUidListed"), st)
                  [] cmd.v = "RETR" -> Res((IF well THEN (IF rep.b = RetrBody(f.x) THEN "" ELSE "MessageNotSentExactly")
                                            ELSE IF SomeTopBody(f.x, rep.b) THEN "" ELSE "MessageNotSentExactly"), st)
                  [] cmd.v = "TOP"  -> Res((IF well THEN (IF rep.b = TopBody(f.x, Val(toks[2])) THEN "" ELSE "TopNotHeaderPlusLines")
                                            ELSE IF SomeTopBody(f.x, rep.b) THEN "" ELSE "TopNotHeaderPlusLines"), st)

Step(files, p, st, cmd, rep) ==
  LET noarg == Tokens(cmd.a) = <<>>
  IN IF cmd.v = "XRM" THEN Res("", [st EXCEPT !.gone = @ \cup {cmd.a[1]}])
     ELSE IF st.over THEN Res((IF rep.c = "none" THEN "" ELSE "ReplyAfterEnd"), st)
     ELSE IF rep.c = "none" THEN Res("NoReply", st)
     ELSE IF cmd.v \in {"DELE", "RETR", "TOP"} \/ (cmd.v \in {"LIST", "UIDL"} /\ ~noarg) THEN MsgStep(files, p, st, cmd, rep)
     ELSE IF cmd.v = "QUIT"
       \* D7: only when a marked file has vanished may the answer be anything but +OK
       THEN Res((IF rep.c = "ok" \/ ~noarg \/ (\E i \in st.marks : p[i] \in st.gone) THEN "" ELSE "QuitRefused"),
                [st EXCEPT !.over = TRUE, !.quit = TRUE])
     ELSE IF cmd.v = "OTHER" THEN Res((IF rep.c = "err" THEN "" ELSE "UnknownCommandNotRefused"), st)
     ELSE IF rep.c = "err" THEN Res((IF noarg THEN "ValidCommandRefused" ELSE ""), st)        \* D6
     ELSE IF rep.c # "ok" THEN Res("NoReply", st)
     ELSE CASE cmd.v = "STAT" -> Res((IF StatText(files, p, st.marks, rep.t) THEN "" ELSE "WrongStatSize"), st)
            [] cmd.v = "LIST" -> Res((IF rep.b = Listing(files, p, st.marks, FALSE) THEN "" ELSE "WrongSizeListing"), st)
            [] cmd.v = "UIDL" -> Res((IF rep.b = Listing(files, p, st.marks, TRUE) THEN "" ELSE "WrongUidListing"), st)
            [] cmd.v = "RSET" -> Res("", [st EXCEPT !.marks = {}])
            [] cmd.v \in {"NOOP", "LAST"} -> Res("", st)
            [] OTHER -> Res("UnknownVerbInRecord", st)

(***************************************************************************)
(* The maildir afterwards: exactly the messages marked when QUIT was given *)
(* are gone, every other one is there, byte-identical (D8), nothing else.  *)
(* Files that somebody else removed are nobody's business.                 *)
(***************************************************************************)
AfterVerdict(files, p, st, after) ==
  LET n       == Len(files)
      removed == IF st.quit THEN {p[i] : i \in st.marks} ELSE {}
      keep    == (1..n) \ (removed \cup st.gone)
  IN IF \E j \in removed \ st.gone : \E k \in 1..Len(after) : SameMessage(after[k], files[j]) THEN "MarkedMessageNotRemoved"
     ELSE IF \E j \in keep : ~\E k \in 1..Len(after) : SameMessage(after[k], files[j])
       THEN (IF st.quit THEN "UnmarkedMessageRemovedOrChanged" ELSE "MessageRemovedOrChangedWithoutQuit")
     ELSE IF \E k \in 1..Len(after) : ~\E j \in keep : SameMessage(after[k], files[j]) THEN "UnexpectedFile"
     ELSE IF Len(after) # Cardinality(keep) THEN "UnexpectedFile"
     ELSE ""

\* fold over a recorded session; result <<clause, index of the failing command (0 = maildir afterwards)>>
RECURSIVE Run(_, _, _, _, _, _, _)
Run(files, p, cmds, reps, after, i, st) ==
  IF i > Len(cmds) THEN <<AfterVerdict(files, p, st, after), 0>>
  ELSE LET s == Step(files, p, st, cmds[i], reps[i])
       IN IF s.why # "" THEN <<s.why, i>> ELSE Run(files, p, cmds, reps, after, i + 1, s.st)

Ident(n) == [i \in 1..n |-> i]

\* D1: the session is accepted when some consistent numbering explains it (the order of `files', which is
\* the order of modification times mt, is tried first).  When none does, the clause reported is the one of
\* the numbering in modification time order - if several files have the same time, of the one among those
\* orders that explains the longest prefix of the session.  (This only selects what is reported.)
Progress(v) == IF v[1] = "" THEN 1000001 ELSE IF v[2] = 0 THEN 1000000 ELSE v[2]
SessionVerdict(files, mt, cmds, reps, after) ==
  LET n == Len(files)
      v == Run(files, Ident(n), cmds, reps, after, 1, St0)
  IN IF v[1] = "" \/ n < 2 THEN v
     ELSE IF \E q \in Permutations(1..n) : Run(files, q, cmds, reps, after, 1, St0)[1] = "" THEN <<"", 0>>
     ELSE LET vs == {Run(files, q, cmds, reps, after, 1, St0) :
                       q \in {r \in Permutations(1..n) : \A i \in 1..(n - 1) : mt[r[i]] <= mt[r[i + 1]]}}
          IN CHOOSE w \in vs : \A u \in vs : Progress(w) >= Progress(u)

\* qmail-pop3d(8): refuses to run as root, exits 1; nothing is served, nothing is touched
RootVerdict(files, greet, reps, after, rc) ==
  IF greet # "none" \/ \E i \in 1..Len(reps) : reps[i].c # "none" THEN <<"ServedAsRoot", 0>>
  ELSE IF rc # 1 THEN <<"RootRefusalExitCode", 0>>
  ELSE IF AfterVerdict(files, Ident(Len(files)), St0, after) # "" THEN <<"MaildirTouchedAsRoot", 0>>
  ELSE <<"", 0>>

(***************************************************************************)
(* Before authentication (qmail-popup(8), RFC 1939 sections 4 and 7).      *)
(*   host   the hostname argument; greet = text of the greeting after +OK  *)
(*   st     [user: <<name>> once a USER was accepted else <<>>, over]      *)
(*   inv    the descriptor-3 texts read by checker invocations during this *)
(*          step (<<>> = the checker was not run)                          *)
(*   ex     what the checker will do: exit status, -1 = it crashes         *)
(* Honoured: USER PASS APOP NOOP QUIT; everything else is refused and does *)
(* not reach the checker.  The checker reads user NUL password NUL         *)
(* timestamp NUL, the timestamp being the <...@host> of the greeting.      *)
(* Open (both readings accepted): USER / PASS with an empty argument,      *)
(* APOP without a digest or with a digest containing a space, a second     *)
(* USER (RFC: only after an unsuccessful one) - the last accepted counts.  *)
(***************************************************************************)
P0 == [user |-> <<>>, over |-> FALSE]

ChallengeOk(ch, host, greet) ==
  /\ Len(ch) >= 2 /\ ch[1] = 60 /\ EndsWith(ch, <<64>> \o host \o <<62>>)     \* < ... @host>
  /\ EndsWith(greet, ch)

CredOk(i3, u, pw, host, greet) ==
  LET k == Len(u) + Len(pw) + 2
  IN /\ Len(i3) > k + 1
     /\ SubSeq(i3, 1, k) = u \o <<NUL>> \o pw \o <<NUL>>
     /\ i3[Len(i3)] = NUL
     /\ ChallengeOk(SubSeq(i3, k + 1, Len(i3) - 1), host, greet)

PopAuth(st, u, pw, host, greet, rep, inv, ex) ==
  IF Len(inv) # 1 THEN Res("CheckerNotRunOnce", st)
  ELSE IF ~CredOk(inv[1], u, pw, host, greet) THEN Res("CredentialsNotVerbatim", st)
  ELSE IF ex = 0 /\ rep.c # "none" THEN Res("ReplyAfterSuccessfulLogin", st)
  ELSE IF ex # 0 /\ rep.c # "err" THEN Res("FailedLoginNotReported", st)
  ELSE Res("", [st EXCEPT !.over = TRUE])

PopRefuse(st, rep, inv) ==
  IF inv # <<>> THEN Res("CheckerRunWithoutCredentials", st)
  ELSE IF rep.c # "err" THEN Res("NotRefusedBeforeLogin", st)
  ELSE Res("", st)

PopStep(st, cmd, rep, inv, ex, host, greet) ==
  LET a == cmd.a
  IN IF st.over THEN Res((IF rep.c = "none" /\ inv = <<>> THEN "" ELSE "ReplyAfterEnd"), st)
     ELSE CASE cmd.v = "USER" ->
                 IF rep.c = "ok" /\ inv = <<>> THEN Res("", [st EXCEPT !.user = <<a>>])
                 ELSE IF a = <<>> THEN PopRefuse(st, rep, inv)
                 ELSE Res("UserNotAccepted", st)
            [] cmd.v = "PASS" ->
                 IF st.user = <<>> THEN PopRefuse(st, rep, inv)
                 ELSE IF a = <<>> /\ inv = <<>> THEN PopRefuse(st, rep, inv)
                 ELSE PopAuth(st, st.user[1], a, host, greet, rep, inv, ex)
            [] cmd.v = "APOP" ->
                 LET sps == {i \in 1..Len(a) : a[i] = SP}
                 IN IF sps = {} THEN PopRefuse(st, rep, inv)
                    ELSE LET s  == MinOf(sps)
                             u  == SubSeq(a, 1, s - 1)
                             dg == SubSeq(a, s + 1, Len(a))
                         IN IF (dg = <<>> \/ Cardinality(sps) > 1) /\ inv = <<>> THEN PopRefuse(st, rep, inv)
                            ELSE PopAuth(st, u, dg, host, greet, rep, inv, ex)
            [] cmd.v = "NOOP" ->
                 IF inv # <<>> THEN Res("CheckerRunWithoutCredentials", st)
                 ELSE Res((IF rep.c = "ok" \/ (a # <<>> /\ rep.c = "err") THEN "" ELSE "ValidCommandRefused"), st)
            [] cmd.v = "QUIT" ->
                 IF inv # <<>> THEN Res("CheckerRunWithoutCredentials", st)
                 ELSE Res((IF rep.c = "ok" \/ a # <<>> THEN "" ELSE "QuitRefused"), [st EXCEPT !.over = TRUE])
            [] OTHER -> PopRefuse(st, rep, inv)

RECURSIVE PopRun(_, _, _, _, _, _, _, _)
PopRun(cmds, reps, invs, ex, host, greet, i, st) ==
  IF i > Len(cmds) THEN <<"", 0>>
  ELSE LET s == PopStep(st, cmds[i], reps[i], invs[i], ex, host, greet)
       IN IF s.why # "" THEN <<s.why, i>> ELSE PopRun(cmds, reps, invs, ex, host, greet, i + 1, s.st)

PopupVerdict(cmds, reps, invs, ex, host, greetc, greet) ==
  IF greetc # "ok" THEN <<"NoGreeting", 0>> ELSE PopRun(cmds, reps, invs, ex, host, greet, 1, P0)
=============================================================================
