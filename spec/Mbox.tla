------------------------------- MODULE Mbox -------------------------------
(***************************************************************************)
(* Program layer (P) of C12, mbox half: qmail-local.c mailfile() with the  *)
(* From_ line built in main(), gfrom.c, lock_ex.c, open_append.c - one     *)
(* action per call on the file - for 1..3 concurrent deliverers, every     *)
(* interleaving, one failing write()/fsync() (or a short write) per        *)
(* behaviour.  The output buffer (substdio, 1024 bytes in the C code) has  *)
(* capacity BufCap: data is handed to write() in pieces of BufCap bytes,   *)
(* the rest by the final flush.                                            *)
(*                                                                         *)
(* Invariants are the monitors of MailStore evaluated on the model's file. *)
(* Mut # "none" switches on a wrong variant that the monitors must reject  *)
(* (sanity runs of the check; never used for a verdict).                   *)
(***************************************************************************)
EXTENDS MailStore, TLC
CONSTANTS Procs,       \* 1..N
          Msgs, Senders, Befores,
          BufCap, MaxFaults,
          FixedInput,  \* TRUE: deliverer p gets the p-th message / sender (concurrency runs)
          Mut

VARIABLES f, f0, lock, pc, msg, snd, rest, obuf, pos, ex, nf, wrote, atlock, failed, order
vars == <<f, f0, lock, pc, msg, snd, rest, obuf, pos, ex, nf, wrote, atlock, failed, order>>

Rcpt == <<114>>                \* "r"
Date == <<68>>                 \* the 24 characters of the date, abstracted to one
RUN  == -1

RECURSIVE Flat(_)
Flat(ss) == IF ss = <<>> THEN <<>> ELSE Head(ss) \o Flat(Tail(ss))

\* ---- the lines of text qmail-local's main() prepares (transcribed, not the reference)
UfWord(s) == IF s = <<>> THEN MailerDaemon
             ELSE [i \in 1..Len(s) |-> IF s[i] = SP \/ s[i] = TAB \/ s[i] = LF THEN (IF Mut = "rawfrom" THEN s[i] ELSE HY) ELSE s[i]]
UfLine(s) == FromSp \o UfWord(s) \o <<SP>> \o Date \o <<LF>>
NeedQuote(s) == s = <<>> \/ \E i \in 1..Len(s) : s[i] \in {SP, TAB, LF, DQ, BS}
Quoted(s) == <<DQ>> \o Flat([i \in 1..Len(s) |-> IF s[i] \in {LF, DQ, BS} THEN <<BS, s[i]>> ELSE <<s[i]>>]) \o <<DQ>>
RpLine(s) == LET q == IF s = <<>> THEN <<>> ELSE IF NeedQuote(s) THEN Quoted(s) ELSE s
             IN MapBytes(RPPre \o q, {LF}, US) \o <<GT, LF>>
DtLine == MapBytes(DTPre \o Rcpt, {LF}, US) \o <<LF>>

\* gfrom.c: skip '>' characters, then compare five bytes with "From "
RECURSIVE SkipGT(_)
SkipGT(l) == IF Len(l) > 0 /\ l[1] = GT THEN SkipGT(Tail(l)) ELSE l
GFrom(l) == LET t == IF Mut = "mboxo" THEN l ELSE SkipGT(l) IN Len(t) >= 5 /\ SubSeq(t, 1, 5) = FromSp

\* ---- messages of the model: up to MaxLines lines of the kinds below, final newline optional
Kinds == {<<70,114,111,109,32,120>>, <<62,70,114,111,109,32,120>>, <<62,62,70,114,111,109,32,120>>, <<120>>, <<>>, <<70>>}
JoinNL(ls, fin) == LET t == Flat([k \in 1..Len(ls) |-> ls[k] \o <<LF>>]) IN IF fin \/ t = <<>> THEN t ELSE SubSeq(t, 1, Len(t) - 1)
MsgsUpTo(n) == {JoinNL(ls, fin) : ls \in UNION {[1..k -> Kinds] : k \in 0..n}, fin \in BOOLEAN}
Msgs2 == MsgsUpTo(2)
Msgs3 == MsgsUpTo(3)
Msgs4 == MsgsUpTo(4)
AllSenders == {<<>>, <<115>>, <<97, 32, 98>>, <<97, 9, 98>>, <<97, 10, 98>>, <<32>>}
OldEntry == <<70,114,111,109,32,111,32,68,10, 62,70,114,111,109,32,120,10, 10>>       \* "From o D\n>From x\n\n"
OldMboxo == <<70,114,111,109,32,111,32,68,10, 120,10>>                                \* "From o D\nx\n" (no blank line)
AllBefores == {<<>>, OldEntry, OldMboxo}
SendersQ == {<<>>, <<97, 32, 98>>, <<97, 10, 98>>}
BeforesQ == {<<>>, OldEntry}
\* fixed inputs of the concurrency runs: a From_ line in the body, a partial last line, an empty message
FixMsg == << <<70,114,111,109,32,120,10,120,10>>, <<120,10,62,70,114,111,109,32,120>>, <<>> >>
FixSnd == << <<97, 32, 98>>, <<>>, <<115>> >>

Init ==
  /\ f0 \in Befores /\ f = f0 /\ lock = 0
  /\ pc = [p \in Procs |-> "open"]
  /\ IF FixedInput THEN msg = [p \in Procs |-> FixMsg[p]] /\ snd = [p \in Procs |-> FixSnd[p]]
     ELSE msg \in [Procs -> Msgs] /\ snd \in [Procs -> Senders]
  /\ rest = msg /\ obuf = [p \in Procs |-> <<>>] /\ pos = [p \in Procs |-> 0]
  /\ ex = [p \in Procs |-> RUN] /\ nf = 0
  /\ wrote = [p \in Procs |-> <<>>] /\ atlock = [p \in Procs |-> <<>>] /\ failed = [p \in Procs |-> FALSE] /\ order = <<>>

Goto(p, l) == pc' = [pc EXCEPT ![p] = l]
Put(p, d)  == obuf' = [obuf EXCEPT ![p] = @ \o d]
Fault      == nf < MaxFaults /\ nf' = nf + 1
Room(p)    == Len(obuf[p]) < BufCap          \* the algorithm runs on only while the buffer is not full

Open(p) == pc[p] = "open" /\ Goto(p, "lock")
           /\ UNCHANGED <<f, f0, lock, msg, snd, rest, obuf, pos, ex, nf, wrote, atlock, failed, order>>
\* lock_ex(): blocks until the lock is free
Lock(p) == /\ pc[p] = "lock" /\ (lock = 0 \/ Mut = "nolock")
           /\ lock' = p /\ atlock' = [atlock EXCEPT ![p] = f] /\ Goto(p, "seek")
           /\ UNCHANGED <<f, f0, msg, snd, rest, obuf, pos, ex, nf, wrote, failed, order>>
\* seek_end(); pos = seek_cur()
Seek(p) == /\ pc[p] = "seek" /\ pos' = [pos EXCEPT ![p] = Len(f)] /\ Goto(p, "hdr")
           /\ UNCHANGED <<f, f0, lock, msg, snd, rest, obuf, ex, nf, wrote, atlock, failed, order>>
Hdr(p) == /\ pc[p] = "hdr" /\ Put(p, UfLine(snd[p]) \o RpLine(snd[p]) \o DtLine) /\ Goto(p, "line")
          /\ UNCHANGED <<f, f0, lock, msg, snd, rest, pos, ex, nf, wrote, atlock, failed, order>>
\* one round of the getln loop
Line(p) ==
  /\ pc[p] = "line" /\ Room(p)
  /\ IF rest[p] = <<>> THEN Goto(p, "tail") /\ UNCHANGED <<obuf, rest>>
     ELSE LET lfs   == {i \in 1..Len(rest[p]) : rest[p][i] = LF}
              match == lfs # {}
              n     == IF match THEN CHOOSE i \in lfs : \A j \in lfs : i <= j ELSE Len(rest[p])
              l     == SubSeq(rest[p], 1, n)
          IN /\ Put(p, (IF GFrom(l) THEN <<GT>> ELSE <<>>) \o l \o (IF match THEN <<>> ELSE <<LF>>))
             /\ rest' = [rest EXCEPT ![p] = SubSeq(@, n + 1, Len(@))]
             /\ Goto(p, IF match THEN "line" ELSE "tail")
  /\ UNCHANGED <<f, f0, lock, msg, snd, pos, ex, nf, wrote, atlock, failed, order>>
Tail_(p) == /\ pc[p] = "tail" /\ Room(p) /\ Put(p, IF Mut = "noblank" THEN <<>> ELSE <<LF>>) /\ Goto(p, "flush")
            /\ UNCHANGED <<f, f0, lock, msg, snd, rest, pos, ex, nf, wrote, atlock, failed, order>>

\* one write() call of n bytes from the buffer (O_APPEND: lands at the current end of the file)
WriteCall(p, n) ==
  \/ /\ f' = f \o SubSeq(obuf[p], 1, n) /\ wrote' = [wrote EXCEPT ![p] = @ \o SubSeq(obuf[p], 1, n)]
     /\ obuf' = [obuf EXCEPT ![p] = SubSeq(@, n + 1, Len(@))]
     /\ UNCHANGED <<pc, nf, failed>>
  \/ /\ Fault /\ n >= 2                     \* short write: the loop in substdio goes on with the rest
     /\ f' = f \o SubSeq(obuf[p], 1, 1) /\ wrote' = [wrote EXCEPT ![p] = @ \o SubSeq(obuf[p], 1, 1)]
     /\ obuf' = [obuf EXCEPT ![p] = Tail(@)]
     /\ UNCHANGED <<pc, failed>>
  \/ /\ Fault /\ failed' = [failed EXCEPT ![p] = TRUE] /\ Goto(p, "trunc")
     /\ UNCHANGED <<f, wrote, obuf>>
\* buffer full: hand BufCap bytes to write()
Spill(p) == /\ pc[p] \in {"line", "tail", "flush"} /\ ~Room(p) /\ WriteCall(p, BufCap)
            /\ UNCHANGED <<f0, lock, msg, snd, rest, pos, ex, atlock, order>>
Flush(p) == /\ pc[p] = "flush" /\ Room(p)
            /\ IF obuf[p] = <<>> THEN Goto(p, "fsync") /\ UNCHANGED <<f, wrote, obuf, nf, failed>>
               ELSE WriteCall(p, Len(obuf[p]))
            /\ UNCHANGED <<f0, lock, msg, snd, rest, pos, ex, atlock, order>>
Fsync(p) == /\ pc[p] = "fsync"
            /\ \/ Goto(p, "close") /\ UNCHANGED <<nf, failed>>
               \/ Fault /\ failed' = [failed EXCEPT ![p] = TRUE] /\ Goto(p, "trunc")
            /\ UNCHANGED <<f, f0, lock, msg, snd, rest, obuf, pos, ex, wrote, atlock, order>>
\* close() releases the lock; its result is not looked at
Close(p) == /\ pc[p] = "close" /\ Goto(p, "done") /\ ex' = [ex EXCEPT ![p] = 0]
            /\ lock' = (IF lock = p THEN 0 ELSE lock) /\ order' = Append(order, p)
            /\ UNCHANGED <<f, f0, msg, snd, rest, obuf, pos, nf, wrote, atlock, failed>>
\* writeerrs: seek_trunc(fd,pos); close(fd); _exit(111)
Trunc(p) == /\ pc[p] = "trunc"
            /\ f' = (IF Mut = "notrunc" THEN f ELSE IF pos[p] <= Len(f) THEN SubSeq(f, 1, pos[p]) ELSE f)
            /\ wrote' = [wrote EXCEPT ![p] = IF Mut = "notrunc" THEN @ ELSE <<>>] /\ Goto(p, "eclose")
            /\ UNCHANGED <<f0, lock, msg, snd, rest, obuf, pos, ex, nf, atlock, failed, order>>
EClose(p) == /\ pc[p] = "eclose" /\ Goto(p, "done") /\ ex' = [ex EXCEPT ![p] = 111]
             /\ lock' = (IF lock = p THEN 0 ELSE lock)
             /\ UNCHANGED <<f, f0, msg, snd, rest, obuf, pos, nf, wrote, atlock, failed, order>>

Next == \E p \in Procs : Open(p) \/ Lock(p) \/ Seek(p) \/ Hdr(p) \/ Line(p) \/ Tail_(p) \/ Spill(p) \/ Flush(p)
                          \/ Fsync(p) \/ Close(p) \/ Trunc(p) \/ EClose(p)
Spec == Init /\ [][Next]_vars

(***************************************************************************)
(* Monitors                                                                *)
(***************************************************************************)
N == Cardinality(Procs)
Dels == [p \in 1..N |-> [sender |-> snd[p], rcpt |-> Rcpt, msg |-> msg[p], ok |-> ex[p] = 0]]

\* entries are contiguous: the file is the old bytes, the complete entries in the order of completion,
\* and the bytes written so far by the deliverer that holds the lock
NoInterleave ==
  f = f0 \o Flat([k \in 1..Len(order) |-> wrote[order[k]]]) \o (IF lock # 0 THEN wrote[lock] ELSE <<>>)
\* whenever nobody is inside, the documented reader gets back exactly the messages delivered so far
\* (ReadBackVerdict includes FromLineOneWord)
ReaderInverts == lock = 0 => ConcurrentVerdict(f0, f, Dels) = ""
\* a failed write()/fsync() is reported as 111 with the file as it was when the lock was taken;
\* nothing else is reported as a failure
RollBack ==
  \A p \in Procs : /\ (pc[p] = "eclose" \/ ex[p] = 111) => (failed[p] /\ (pc[p] = "eclose" => f = atlock[p]))
                   /\ (failed[p] /\ ex[p] # RUN) => ex[p] = 111
=============================================================================
