----------------------------- MODULE OriginRec -----------------------------
(* Record validator (T) for X05: one record = one run of the real qmail-queue under a virtual clock with a chosen invoking uid:
   pid, uid, ids, day / tod of the clock, msg / sender / rcpts as given, mess / envf = the files it left in mess/ and todo/ *)
EXTENDS Origin, Json, IOUtils, TLC
Recs  == ndJsonDeserialize(IOEnv.RECORDS)
Chunk == atoi(IOEnv.CHUNK)
N     == Len(Recs)
NCh   == (N + Chunk - 1) \div Chunk
G     == 16
VARIABLES g, k
Init == g = 0 /\ k = 0
Next == \/ g = 0 /\ g' \in 1..G /\ k' = 0
        \/ g > 0 /\ k = 0 /\ k' \in {c \in 1..NCh : c % G = g - 1} /\ g' = g
Spec == Init /\ [][Next]_<<g, k>>
CheckChunk(c) ==
  LET lo == (c - 1) * Chunk + 1
      hi == IF c * Chunk < N THEN c * Chunk ELSE N
  IN /\ \A i \in lo..hi : LET v == OriginVerdict(Recs[i]) IN v = "" \/ PrintT(<<"BADREC", i, v>>)
     /\ PrintT(<<"CHECKED", lo, hi>>)
Inv == k = 0 \/ CheckChunk(k)
=============================================================================
