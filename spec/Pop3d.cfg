SPECIFICATION Spec
CONSTANTS
  WordMod = 0
  ScanWraps = FALSE
INVARIANT Conforms
INVARIANT MarksAgree
INVARIANT NumberingIsMtimeOrder
INVARIANT Witnessed
