SPECIFICATION Spec
CONSTANTS
  WordMod = 0
INVARIANT Conforms
INVARIANT MarksAgree
INVARIANT NumberingIsMtimeOrder
INVARIANT Witnessed
