------------------------------ MODULE UsersRec ------------------------------
(***************************************************************************)
(* Record validator (T) for C11.  IOEnv.CFGS: one record per configuration *)
(* (the table in force as structured entries, the passwd database with the *)
(* owner of every home directory as found by stat, names whose lookup      *)
(* fails, the alias user's name, the break character, the outcome of the   *)
(* last qmail-newu run).  IOEnv.RECORDS: one record per delivery command   *)
(* given to the real qmail-lspawn: c = index of its configuration, what    *)
(* was asked, and what was observed from outside (report class; argv, ids, *)
(* groups of the stand-in qmail-local if it was started; identity calls    *)
(* seen by the shim before the exec).  Each is judged by Verdict of Users.  *)
(***************************************************************************)
EXTENDS Users, Json, IOUtils, TLC
Recs  == ndJsonDeserialize(IOEnv.RECORDS)
Cfgs  == ndJsonDeserialize(IOEnv.CFGS)
Chunk == atoi(IOEnv.CHUNK)
N     == Len(Recs)
NCh   == (N + Chunk - 1) \div Chunk
G     == 16
VARIABLES g, k
Init == g = 0 /\ k = 0
Next == \/ g = 0 /\ g' \in 1..G /\ k' = 0
        \/ g > 0 /\ k = 0 /\ k' \in {c \in 1..NCh : c % G = g - 1} /\ g' = g
Spec == Init /\ [][Next]_<<g, k>>

CfgOf(r) == LET c == Cfgs[r.c] IN [c EXCEPT !.errs = Range(c.errs)]
CheckChunk(c) ==
  LET lo == (c - 1) * Chunk + 1
      hi == IF c * Chunk < N THEN c * Chunk ELSE N
  IN /\ \A i \in lo..hi : LET v == Verdict(CfgOf(Recs[i]), Recs[i]) IN v = "" \/ PrintT(<<"BADREC", i, v>>)
     /\ PrintT(<<"CHECKED", lo, hi>>)
Inv == k = 0 \/ CheckChunk(k)
=============================================================================
