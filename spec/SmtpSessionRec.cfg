SPECIFICATION Spec
INVARIANT Inv
