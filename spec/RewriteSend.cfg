SPECIFICATION Spec
CONSTANT Inputs <- InputsQuick
INVARIANT RouteOk
INVARIANT VerpOk
INVARIANT InDomain
