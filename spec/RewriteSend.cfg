SPECIFICATION Spec
CONSTANT Tier = "quick"
INVARIANT RouteOk
INVARIANT VerpOk
INVARIANT InDomain
