------------------------------ MODULE DotQmail ------------------------------
(***************************************************************************)
(* Environment layer (E) for C13: what dot-qmail(5), qmail-command(8) and  *)
(* qmail-local(8) say the delivery agent does with an extension address, a *)
(* home directory full of .qmail files and a message - written from the    *)
(* documents, over observable things only (files in the home directory and *)
(* their modes, the argument vector, the message; exit status, programs    *)
(* run and what they saw, files delivered to, the forward envelope).       *)
(*                                                                         *)
(* Text is a tuple of byte values, so the same operators judge the model   *)
(* (DotQmailP) and the records taken from the real qmail-local             *)
(* (DotQmailRec).                                                          *)
(*                                                                         *)
(* A case c (the inputs):                                                  *)
(*   n      1 = run with -n (print the plan), 0 = deliver                  *)
(*   hmode  permission bits of the home directory                          *)
(*   files  <<[nm, kind ("reg" | "dir"), mode, body]>> what the home holds *)
(*   dash, ext, local, host, sender, dflt   the arguments                  *)
(*   msg    the message                                                    *)
(*   progs  <<[cmd, id, ex]>>  environment: the command text cmd is a      *)
(*          probe that logs itself as id and exits with ex (-1: killed)    *)
(*   tgts   <<[path, ix, what]>> environment: what the file name path      *)
(*          (the stripped instruction line) leads to: "file" (a file can   *)
(*          be appended there), "maildir" (a maildir is there), "nodir"    *)
(*          (nothing can be delivered there); ix = its slot in the         *)
(*          snapshots (0 = not watched);  nt = number of slots             *)
(* An observation o:                                                       *)
(*   rc     exit status                                                    *)
(*   ev     <<[k, id, snap, inp, from, to]>> in order: k = "P" a program   *)
(*          line ran (probe id, inp = its standard input), k = "Q" the     *)
(*          queue program was started (inp = message it got, from / to =   *)
(*          envelope); snap = number of messages in every slot then        *)
(*   fin    number of messages in every slot at the end                    *)
(*   dl     <<[ix, kind ("mbox" | "maildir"), data]>> every stored copy    *)
(*   pl, plan   -n: plan = <<[t, arg]>> printed plan (pl = 0: not observed)*)
(*   dt, rp what the first program saw in $DTLINE / $RPLINE (else <<>>)    *)
(*   stray  number of directory entries that appeared in the home beside  *)
(*          the slots (a delivery that went to some other name)            *)
(***************************************************************************)
EXTENDS Integers, Sequences, FiniteSets, SequencesExt

LF == 10
S_DOTQMAIL == <<46,113,109,97,105,108>>                          \* ".qmail"
S_DEFAULT  == <<100,101,102,97,117,108,116>>                     \* "default"
S_OWNER    == <<45,111,119,110,101,114>>                         \* "-owner"
S_OWNERDEF == <<45,111,119,110,101,114,45,100,101,102,97,117,108,116>>   \* "-owner-default"
S_DT       == <<68,101,108,105,118,101,114,101,100,45,84,111,58,32>>     \* "Delivered-To: "
S_RP       == <<82,101,116,117,114,110,45,80,97,116,104,58,32,60>>       \* "Return-Path: <"
S_FROM     == <<70,114,111,109,32>>                              \* "From "
S_LIST     == <<43,108,105,115,116>>                             \* "+list"
S_NULLB    == <<35,64,91,93>>                                    \* "#@[]"
S_OWNERAT  == <<45,111,119,110,101,114,64>>                      \* "-owner@"
S_OWNERVERP == <<45,111,119,110,101,114,45,64>>                  \* "-owner-@"
S_VERPEND  == <<45,64,91,93>>                                    \* "-@[]"

MaxOf(S) == CHOOSE x \in S : \A y \in S : x >= y
MinOf(S) == CHOOSE x \in S : \A y \in S : x <= y
Asc(S)  == SetToSortSeq(S, LAMBDA a, b : a < b)
Desc(S) == SetToSortSeq(S, LAMBDA a, b : a > b)
Bit(m, b) == (m \div b) % 2 = 1           \* b = the decimal value of one octal permission bit
Has(s, b) == \E i \in 1..Len(s) : s[i] = b
StartsWith(s, p) == Len(s) >= Len(p) /\ SubSeq(s, 1, Len(p)) = p
NumLF(s) == Cardinality({i \in 1..Len(s) : s[i] = LF})
Count(seq, x) == Cardinality({i \in 1..Len(seq) : seq[i] = x})
SameBag(a, b) == Len(a) = Len(b) /\ \A i \in 1..Len(a) : Count(a, a[i]) = Count(b, a[i])

(***************************************************************************)
(* Which control file.  dot-qmail(5), EXTENSION ADDRESSES: dots in ext     *)
(* become colons, upper case becomes lower case; .qmail-ext, then - for    *)
(* foo-bar - .qmail-foo-default, then .qmail-default: one -default name    *)
(* for every dash of ext from the right, the last with nothing before it.  *)
(* (For dash = ext = "" that last name is the undocumented .qmaildefault;  *)
(* the generated homes never hold it.)                                     *)
(***************************************************************************)
Lower(b) == IF b \in 65..90 THEN b + 32 ELSE b
SafeExt(ext) == [i \in 1..Len(ext) |-> IF ext[i] = 46 THEN 58 ELSE Lower(ext[i])]

Candidates(dash, sx) ==
  LET cuts == Desc({i \in 0..Len(sx) : i = 0 \/ sx[i] = 45})
  IN <<S_DOTQMAIL \o dash \o sx>> \o [k \in 1..Len(cuts) |-> S_DOTQMAIL \o dash \o SubSeq(sx, 1, cuts[k]) \o S_DEFAULT]

FileIx(files, nm) == LET I == {i \in 1..Len(files) : files[i].nm = nm} IN IF I = {} THEN 0 ELSE MinOf(I)
\* "exists" for a control file: a regular file of that name (anything else is not a .qmail file)
IsCtl(files, nm) == FileIx(files, nm) # 0 /\ files[FileIx(files, nm)].kind = "reg"
\* "exists" for the -owner marker: any directory entry
Exists(files, nm) == FileIx(files, nm) # 0

\* index (in c.files) of the control file in charge, 0 = none
Search(c) ==
  LET cs == Candidates(c.dash, SafeExt(c.ext))
      P  == {k \in 1..Len(cs) : IsCtl(c.files, cs[k])}
  IN IF P = {} THEN 0 ELSE FileIx(c.files, cs[MinOf(P)])

(***************************************************************************)
(* Instruction lines.  dot-qmail(5), THE QMAIL FILE.                        *)
(***************************************************************************)
Lines(b) ==
  LET b2 == IF b = <<>> \/ b[Len(b)] # LF THEN b \o <<LF>> ELSE b
      e  == Asc({i \in 1..Len(b2) : b2[i] = LF})
  IN [k \in 1..Len(e) |-> SubSeq(b2, (IF k = 1 THEN 1 ELSE e[k - 1] + 1), e[k] - 1)]

\* "may contain extra spaces and tabs at the end of a line"
Strip(l) == LET K == {i \in 1..Len(l) : l[i] # 32 /\ l[i] # 9} IN IF K = {} THEN <<>> ELSE SubSeq(l, 1, MaxOf(K))

IsAlnum(b) == b \in 48..57 \/ b \in 65..90 \/ b \in 97..122
\* qmail-command(8), EXIT CODES
HardCodes == {100, 64, 65, 70, 76, 77, 78, 112}

ProgOf(c, cmd) == LET I == {i \in 1..Len(c.progs) : c.progs[i].cmd = cmd} IN IF I = {} THEN 0 ELSE MinOf(I)
TgtOf(c, path) == LET I == {i \in 1..Len(c.tgts) : c.tgts[i].path = path} IN IF I = {} THEN 0 ELSE MinOf(I)

(***************************************************************************)
(* Delivery.  Result: res = "ok" | "defer" | "bounce" | "fail" (an         *)
(* instruction that is not a program failed: some failure is reported) |   *)
(* "open" (a line the documents do not define: unconstrained) | "genbug";  *)
(* acts = the program / file instructions that took effect, in order       *)
(* ([t, id]: id = probe id, or slot of the file); fwd = forward addresses. *)
(*   - each instruction in turn; a failing one stops everything            *)
(*   - forwarding happens after all other instructions (ERROR HANDLING)    *)
(*   - 99: ignore all succeeding lines, earlier forward lines still count  *)
(*   - fo: forward-only, from the x bit or from a "+list" line (un-        *)
(*     documented since 1996, see CHANGES.md; the inherited meaning - the  *)
(*     rest of the file is treated like an executable .qmail - is what the *)
(*     property's quantifier refers to); other "+" lines: open.            *)
(***************************************************************************)
RECURSIVE Walk(_, _, _, _, _, _)
Walk(c, ls, i, fo, acts, fwd) ==
  LET R(res) == [res |-> res, acts |-> acts, fwd |-> fwd] IN
  IF i > Len(ls) THEN R("ok")
  ELSE LET l == Strip(ls[i]) IN
    IF l = <<>> THEN (IF i = 1 THEN R("fail") ELSE Walk(c, ls, i + 1, fo, acts, fwd))    \* "Blank lines are allowed, but not for the first line"
    ELSE LET h == l[1] IN
      CASE h = 35 -> Walk(c, ls, i + 1, fo, acts, fwd)
        [] h \in {46, 47} ->
             IF fo THEN R("defer")
             ELSE LET ty == IF l[Len(l)] = 47 THEN "maildir" ELSE "mbox"
                      t  == TgtOf(c, l)
                  IN IF t = 0 THEN R("genbug")
                     ELSE IF (ty = "maildir" /\ c.tgts[t].what = "maildir") \/ (ty = "mbox" /\ c.tgts[t].what = "file")
                       THEN Walk(c, ls, i + 1, fo, Append(acts, [t |-> ty, id |-> c.tgts[t].ix]), fwd)
                       ELSE R("fail")
        [] h = 124 ->
             IF fo THEN R("defer")
             ELSE LET p == ProgOf(c, Tail(l)) IN
                  IF p = 0 THEN R("genbug")
                  ELSE LET a2 == Append(acts, [t |-> "prog", id |-> c.progs[p].id])
                           ex == c.progs[p].ex
                       IN IF ex = 0 THEN Walk(c, ls, i + 1, fo, a2, fwd)
                          ELSE [res |-> (IF ex = 99 THEN "ok" ELSE IF ex \in HardCodes THEN "bounce" ELSE "defer"), acts |-> a2, fwd |-> fwd]
        [] h = 43 -> IF l = S_LIST THEN Walk(c, ls, i + 1, TRUE, acts, fwd) ELSE R("open")
        [] h = 38 -> IF Len(l) = 1 THEN R("open") ELSE Walk(c, ls, i + 1, fo, acts, Append(fwd, Tail(l)))
        [] OTHER  -> IF IsAlnum(h) THEN Walk(c, ls, i + 1, fo, acts, Append(fwd, l)) ELSE R("open")

\* -n: "print a description of the delivery instructions": every instruction line, nothing is run
RECURSIVE PlanWalk(_, _, _, _)
PlanWalk(ls, i, fo, plan) ==
  LET R(res) == [res |-> res, plan |-> plan] IN
  IF i > Len(ls) THEN R("ok")
  ELSE LET l == Strip(ls[i]) IN
    IF l = <<>> THEN (IF i = 1 THEN R("fail") ELSE PlanWalk(ls, i + 1, fo, plan))
    ELSE LET h == l[1] IN
      CASE h = 35 -> PlanWalk(ls, i + 1, fo, plan)
        [] h \in {46, 47} -> IF fo THEN R("defer")
                             ELSE PlanWalk(ls, i + 1, fo, Append(plan, [t |-> (IF l[Len(l)] = 47 THEN "maildir" ELSE "mbox"), arg |-> l]))
        [] h = 124 -> IF fo THEN R("defer") ELSE PlanWalk(ls, i + 1, fo, Append(plan, [t |-> "program", arg |-> Tail(l)]))
        [] h = 43 -> IF l = S_LIST THEN PlanWalk(ls, i + 1, TRUE, plan) ELSE R("open")
        [] h = 38 -> IF Len(l) = 1 THEN R("open") ELSE PlanWalk(ls, i + 1, fo, Append(plan, [t |-> "forward", arg |-> Tail(l)]))
        [] OTHER  -> IF IsAlnum(h) THEN PlanWalk(ls, i + 1, fo, Append(plan, [t |-> "forward", arg |-> l])) ELSE R("open")

\* number of messages in every slot after the first k effective instructions
CntAfter(c, acts, k) == [x \in 1..c.nt |-> Cardinality({j \in 1..k : acts[j].t # "prog" /\ acts[j].id = x})]
\* the program events a run must show: every program with the file deliveries that precede it
ExpProgEvents(c, acts) ==
  LET ord == Asc({j \in 1..Len(acts) : acts[j].t = "prog"})
  IN [k \in 1..Len(ord) |-> [id |-> acts[ord[k]].id, snap |-> CntAfter(c, acts, ord[k] - 1)]]

\* envelope sender of a forward (dot-qmail(5): -owner, -owner-default, bounces keep their sender)
ExpSender(c) ==
  LET base == S_DOTQMAIL \o c.dash \o SafeExt(c.ext) IN
  IF c.sender = <<>> \/ c.sender = S_NULLB THEN c.sender
  ELSE IF Exists(c.files, base \o S_OWNER)
    THEN (IF Exists(c.files, base \o S_OWNERDEF) THEN c.local \o S_OWNERVERP \o c.host \o S_VERPEND
          ELSE c.local \o S_OWNERAT \o c.host)
  ELSE c.sender

(***************************************************************************)
(* Header lines.  qmail-local(8): one new Delivered-To field recording     *)
(* local@domain, one new Return-Path field recording the sender - two      *)
(* lines whatever bytes the addresses contain; mbox adds the From_ line in *)
(* front (mbox(5)), a forward carries Delivered-To only, a program gets    *)
(* the message as it is.                                                   *)
(***************************************************************************)
Rcpt(c) == c.local \o <<64>> \o c.host
LinesOf(p) == LET e == Asc({i \in 1..Len(p) : p[i] = LF})
              IN [k \in 1..Len(e) |-> SubSeq(p, (IF k = 1 THEN 1 ELSE e[k - 1] + 1), e[k] - 1)]
DtLineOk(c, l) == IF Has(Rcpt(c), LF) THEN StartsWith(l, S_DT) ELSE l = S_DT \o Rcpt(c)
RpLineOk(l)    == StartsWith(l, S_RP) /\ l[Len(l)] = 62
\* pre = the bytes put in front of the message; want = the kinds of lines it must consist of
PrefixOk(c, pre, want) ==
  /\ pre # <<>> /\ pre[Len(pre)] = LF /\ NumLF(pre) = Len(want)
  /\ LET ls == LinesOf(pre)
     IN \A k \in 1..Len(want) : CASE want[k] = "uf" -> StartsWith(ls[k], S_FROM)
                                   [] want[k] = "rp" -> RpLineOk(ls[k])
                                   [] want[k] = "dt" -> DtLineOk(c, ls[k])
StoredOk(c, data, want, tail) ==
  LET m == c.msg \o tail
      n == Len(data) - Len(m)
  IN n > 0 /\ SubSeq(data, n + 1, Len(data)) = m /\ PrefixOk(c, SubSeq(data, 1, n), want)
MboxTail(m) == IF m = <<>> \/ m[Len(m)] = LF THEN <<LF>> ELSE <<LF, LF>>     \* mbox(5): line completed, blank line appended

CopyOk(c, d) == IF d.kind = "maildir" THEN StoredOk(c, d.data, <<"rp", "dt">>, <<>>)
                ELSE StoredOk(c, d.data, <<"uf", "rp", "dt">>, MboxTail(c.msg))

(***************************************************************************)
(* Loop: "If exactly the same Delivered-To: local@domain already appears   *)
(* in the header".  Header = the lines before the first empty line.        *)
(* "yes" | "no" | "open" (a recipient holding a line feed cannot be one    *)
(* header line: not constrained when a Delivered-To field is around).      *)
(***************************************************************************)
HeaderLines(m) ==
  LET ls == LinesOf(m)
      E  == {k \in 1..Len(ls) : ls[k] = <<>>}
  IN IF E = {} THEN ls ELSE SubSeq(ls, 1, MinOf(E) - 1)
LoopClass(c) ==
  LET hl == HeaderLines(c.msg) IN
  IF Has(Rcpt(c), LF) THEN (IF \E k \in 1..Len(hl) : StartsWith(hl[k], S_DT) THEN "open" ELSE "no")
  ELSE IF \E k \in 1..Len(hl) : hl[k] = S_DT \o Rcpt(c) THEN "yes" ELSE "no"

(***************************************************************************)
(* The monitor.  "" = the observation is what the documents allow, else    *)
(* the name of the clause that fails.                                      *)
(***************************************************************************)
Cls(rc) == IF rc = 0 THEN "ok" ELSE IF rc = 111 THEN "defer" ELSE "bounce"     \* qmail-local(8), EXIT CODES
AllZero(v) == \A i \in 1..Len(v) : v[i] = 0
NoEffect(o) == o.ev = <<>> /\ AllZero(o.fin) /\ o.dl = <<>> /\ o.stray = 0
PEv(o) == SelectSeq(o.ev, LAMBDA e : e.k = "P")
QEv(o) == SelectSeq(o.ev, LAMBDA e : e.k = "Q")
RcOk(res, rc) == CASE res = "ok" -> rc = 0 [] res = "defer" -> rc = 111 [] res = "bounce" -> rc # 0 /\ rc # 111 [] res = "fail" -> rc # 0

Flat(oq) == FlattenSeq([k \in 1..Len(oq) |-> oq[k].to])

\* the instructions of body (forward-only iff xbit) carried out for real
RunVerdict(c, o, body, xbit) ==
  LET w  == Walk(c, Lines(body), 1, xbit, <<>>, <<>>)
      pe == ExpProgEvents(c, w.acts)
      op == PEv(o)
      oq == QEv(o)
      fin == CntAfter(c, w.acts, Len(w.acts))
      wantq == w.res = "ok" /\ w.fwd # <<>>
  IN IF w.res = "open" THEN ""
     ELSE IF w.res = "genbug" THEN "GENBUG"
     ELSE IF [k \in 1..Len(op) |-> op[k].id] # [k \in 1..Len(pe) |-> pe[k].id] THEN "ProgramsRunDiffer"
     ELSE IF o.fin # fin THEN "FileDeliveriesDiffer"
     ELSE IF o.stray # 0 THEN "DeliveredSomewhereElse"
     ELSE IF \E k \in 1..Len(op) : op[k].snap # pe[k].snap THEN "InstructionOrderDiffers"
     ELSE IF \E k \in 1..Len(op) : op[k].inp # c.msg THEN "ProgramInputDiffers"
     ELSE IF ~wantq /\ oq # <<>> THEN "ForwardedThoughNotAllSucceeded"
     ELSE IF wantq /\ oq = <<>> THEN "NotForwarded"
     ELSE IF wantq /\ \E k \in 1..Len(o.ev) : o.ev[k].k = "Q" /\ (o.ev[k].snap # fin \/ \E j \in (k + 1)..Len(o.ev) : o.ev[j].k = "P") THEN "ForwardNotLast"
     ELSE IF wantq /\ ~SameBag(Flat(oq), w.fwd) THEN "ForwardRecipientsDiffer"
     ELSE IF wantq /\ \E k \in 1..Len(oq) : oq[k].from # ExpSender(c) THEN "ForwardSenderDiffers"
     ELSE IF ~RcOk(w.res, o.rc) THEN "ExitStatusDiffers"
     ELSE IF \E k \in 1..Len(o.dl) : ~CopyOk(c, o.dl[k]) THEN "HeaderLinesOfStoredCopy"
     ELSE IF \E k \in 1..Len(oq) : ~StoredOk(c, oq[k].inp, <<"dt">>, <<>>) THEN "HeaderLinesOfForward"
     ELSE IF op # <<>> /\ ~(PrefixOk(c, o.dt, <<"dt">>) /\ PrefixOk(c, o.rp, <<"rp">>)) THEN "HeaderLinesInEnvironment"
     ELSE ""


\* the same instructions under -n
PlanVerdict(c, o, body, xbit) ==
  LET w == PlanWalk(Lines(body), 1, xbit, <<>>)
  IN IF w.res = "open" THEN ""
     ELSE IF ~NoEffect(o) THEN "DeliveredUnderDashN"
     ELSE IF ~RcOk(w.res, o.rc) THEN "ExitStatusDiffers"
     ELSE IF o.pl = 1 /\ w.res = "ok" /\ o.plan # w.plan THEN "PlanDiffers"
     ELSE IF o.pl = 1 /\ w.res # "ok" /\ ~(Len(o.plan) <= Len(w.plan) /\ o.plan = SubSeq(w.plan, 1, Len(o.plan))) THEN "PlanDiffers"
     ELSE ""

(***************************************************************************)
(* Conditions under which nothing may be delivered, each with the outcome  *)
(* its clause asks for; where several hold, the outcome of any of them is  *)
(* accepted (the documents give no order).  "may" = the documents and the  *)
(* shipped configuration differ or are silent: both readings accepted.     *)
(*   home writable by others / sticky -> defer     (dot-qmail(5), SAFE     *)
(*        QMAIL EDITING; group-writable: named there, but not among the    *)
(*        bits of the shipped conf-patrn, and not in C13: may)             *)
(*   own Delivered-To line in the header -> bounce (qmail-local(8))        *)
(*   no control file and dash non-empty -> bounce  (dot-qmail(5))          *)
(*   control file writable by others -> defer      (dot-qmail(5); group-   *)
(*        writable: may)                                                   *)
(* Under -n nothing is delivered anyway and the message is not read: the   *)
(* home conditions become "may", the loop condition does not apply.        *)
(***************************************************************************)
Judge(c, o) ==
  LET s     == Search(c)
      f     == c.files[s]
      homeW == Bit(c.hmode, 2) \/ Bit(c.hmode, 512)
      homeG == Bit(c.hmode, 16)
      loop  == IF c.n = 1 THEN "no" ELSE LoopClass(c)
      must  == (IF homeW /\ c.n = 0 THEN {"defer"} ELSE {})
               \cup (IF loop = "yes" THEN {"bounce"} ELSE {})
               \cup (IF s = 0 /\ c.dash # <<>> THEN {"bounce"} ELSE {})
               \cup (IF s # 0 /\ Bit(f.mode, 2) THEN {"defer"} ELSE {})
      may   == (IF homeG \/ (homeW /\ c.n = 1) THEN {"defer"} ELSE {})
               \cup (IF loop = "open" THEN {"bounce"} ELSE {})
               \cup (IF s # 0 /\ Bit(f.mode, 16) THEN {"defer"} ELSE {})
      \* completely empty or (dash empty) missing: defaultdelivery, and there is no .qmail whose x bit could matter
      body  == IF s = 0 \/ f.body = <<>> THEN c.dflt ELSE f.body
      xbit  == s # 0 /\ f.body # <<>> /\ Bit(f.mode, 64)
  IN IF must # {}
       THEN (IF ~NoEffect(o) THEN
               (IF homeW /\ c.n = 0 THEN "DeliveredThoughHomeWritableOrSticky"
                ELSE IF loop = "yes" THEN "DeliveredThoughOwnDeliveredToPresent"
                ELSE IF s = 0 THEN "DeliveredThoughNoControlFile"
                ELSE "DeliveredThoughControlFileWritable")
             ELSE IF Cls(o.rc) \notin (must \cup may) THEN
               (IF homeW /\ c.n = 0 THEN "UnsafeHomeNotDeferred"
                ELSE IF loop = "yes" THEN "LoopNotBounced"
                ELSE IF s = 0 THEN "NoControlFileNotBounced"
                ELSE "WritableControlFileNotDeferred")
             ELSE "")
     ELSE IF NoEffect(o) /\ Cls(o.rc) \in may THEN ""
     ELSE IF c.n = 1 THEN PlanVerdict(c, o, body, xbit)
     ELSE RunVerdict(c, o, body, xbit)
=============================================================================
