------------------------------ MODULE QueueFiles ------------------------------
(***************************************************************************)
(* Program layer (P) for C02 at FILE granularity: injectors (qmail-queue), *)
(* the daemon's preprocessing and completion (qmail-send) with the cleaner *)
(* (qmail-clean) answering its requests, failure clean-up, kills, machine  *)
(* crash and restart, collection of stale entries, and inode reuse from a  *)
(* small pool.  Every directory operation is one step; the monitor of      *)
(* QueueState judges every step (NoObjection) and the existence pattern of *)
(* every number is checked in every state (Documented).                    *)
(***************************************************************************)
EXTENDS QueueState
CONSTANTS NInj, Pool, MaxCrash
VARIABLES ex, syn, ipc, inum, dcur, dpc, old, ncrash, bad, prepped, nrun
vars == <<ex, syn, ipc, inum, dcur, dpc, old, ncrash, bad, prepped, nrun>>
Inj == 1..NInj

Ino == [p \in ex |-> IF p[1] = "mess" THEN p[2] ELSE 0]
E(op, d, n, d2, n2, who) == [op |-> op, d |-> d, n |-> n, d2 |-> d2, n2 |-> n2, ino |-> n2, who |-> who, t |-> 0]
\* perform an unlink / link and record the monitor's objection, if any
Unlink(d, n, who) == /\ <<d, n>> \in ex
                     /\ bad' = (IF bad # "" THEN bad ELSE EventVerdict(ex, Ino, syn, <<>>, E("unlink", d, n, "", 0, who)))
                     /\ ex' = ex \ {<<d, n>>} /\ syn' = syn \ {<<d, n>>}
TryUnlink(d, n, who) == IF <<d, n>> \in ex THEN Unlink(d, n, who) ELSE UNCHANGED <<ex, syn, bad>>
Create(d, n) == ex' = ex \cup {<<d, n>>} /\ syn' = syn \ {<<d, n>>} /\ UNCHANGED bad

Init == /\ ex = {} /\ syn = {} /\ ipc = [i \in Inj |-> "start"] /\ inum = [i \in Inj |-> 0] /\ dcur = 0 /\ dpc = "idle"
        /\ old = {} /\ ncrash = 0 /\ bad = "" /\ prepped = {} /\ nrun = [i \in Inj |-> 0]

\* ---------------- injector i
FreeNum(k) == <<"mess", k>> \notin ex /\ \A j \in Inj : ~(inum[j] = k /\ ipc[j] \in {"linkmess", "unlinkpid"})
IStart(i) == /\ ipc[i] = "start" /\ nrun[i] < 2 /\ \E k \in Pool : FreeNum(k) /\ inum' = [inum EXCEPT ![i] = k]
             /\ ipc' = [ipc EXCEPT ![i] = "linkmess"] /\ nrun' = [nrun EXCEPT ![i] = @ + 1] /\ UNCHANGED <<ex, syn, dcur, dpc, old, ncrash, bad, prepped>>
ILinkMess(i) == /\ ipc[i] = "linkmess"
                /\ bad' = (IF bad # "" THEN bad ELSE IF Class(ex, inum[i]) # "S1" THEN "NumberReusedWhileFilesOfItRemain" ELSE "")
                /\ ex' = ex \cup {<<"mess", inum[i]>>} /\ syn' = syn /\ prepped' = prepped \ {inum[i]} /\ old' = old \ {inum[i]}
                /\ ipc' = [ipc EXCEPT ![i] = "intd"] /\ UNCHANGED <<inum, dcur, dpc, ncrash, nrun>>
IIntd(i) == /\ ipc[i] = "intd" /\ Create("intd", inum[i]) /\ ipc' = [ipc EXCEPT ![i] = "todo"] /\ UNCHANGED <<inum, dcur, dpc, old, ncrash, prepped, nrun>>
ITodo(i) == /\ ipc[i] = "todo" /\ ex' = ex \cup {<<"todo", inum[i]>>} /\ syn' = syn \cup {<<"todo", inum[i]>>, <<"intd", inum[i]>>, <<"mess", inum[i]>>} /\ UNCHANGED bad
            /\ ipc' = [ipc EXCEPT ![i] = "start"] /\ UNCHANGED <<inum, dcur, dpc, old, ncrash, prepped, nrun>>
\* failure at any point before the link: cleanup() removes intd then mess, one step each
IFail(i) == /\ ipc[i] \in {"intd", "todo"} /\ ipc' = [ipc EXCEPT ![i] = "cl1"] /\ UNCHANGED <<ex, syn, inum, dcur, dpc, old, ncrash, bad, prepped, nrun>>
ICl1(i) == /\ ipc[i] = "cl1" /\ TryUnlink("intd", inum[i], "queue") /\ ipc' = [ipc EXCEPT ![i] = "cl2"] /\ UNCHANGED <<inum, dcur, dpc, old, ncrash, prepped, nrun>>
ICl2(i) == /\ ipc[i] = "cl2" /\ TryUnlink("mess", inum[i], "queue") /\ ipc' = [ipc EXCEPT ![i] = "start"] /\ UNCHANGED <<inum, dcur, dpc, old, ncrash, prepped, nrun>>
\* killed (or its 24 hour alarm): stops where it is, no clean-up
IDie(i) == /\ ipc[i] \in {"linkmess", "intd", "todo", "cl1", "cl2"} /\ ipc' = [ipc EXCEPT ![i] = "start"] /\ UNCHANGED <<ex, syn, inum, dcur, dpc, old, ncrash, bad, prepped, nrun>>

\* ---------------- daemon: preprocessing of todo/k (one message at a time), then completion
DStep(k, from, to, act) == dcur = k /\ dpc = from /\ act /\ dpc' = to
PStart == /\ dpc = "idle" /\ \E k \in Pool : <<"todo", k>> \in ex /\ dcur' = k /\ dpc' = "p1" /\ UNCHANGED <<ex, syn, ipc, inum, old, ncrash, bad, prepped, nrun>>
Pre == \E k \in Pool :
  \/ DStep(k, "p1", "p2", TryUnlink("local", k, "send")) /\ UNCHANGED <<prepped>>
  \/ DStep(k, "p2", "p3", TryUnlink("remote", k, "send")) /\ UNCHANGED <<prepped>>
  \/ DStep(k, "p3", "p4", TryUnlink("info", k, "send")) /\ UNCHANGED <<prepped>>
  \/ DStep(k, "p4", "p5", Create("info", k)) /\ prepped' = prepped \cup {k}
  \/ DStep(k, "p5", "p6", \E s \in SUBSET {"local", "remote"} : ex' = ex \cup {<<d, k>> : d \in s} /\ syn' = syn /\ UNCHANGED bad) /\ UNCHANGED <<prepped>>
  \/ DStep(k, "p6", "p7", syn' = syn \cup {<<"info", k>>, <<"local", k>>, <<"remote", k>>} /\ UNCHANGED <<ex, bad>>) /\ UNCHANGED <<prepped>>
  \/ DStep(k, "p7", "p8", TryUnlink("intd", k, "clean")) /\ UNCHANGED <<prepped>>
  \/ DStep(k, "p8", "idle", TryUnlink("todo", k, "clean")) /\ UNCHANGED <<prepped>>
PreA == Pre /\ UNCHANGED <<ipc, inum, old, ncrash, nrun>> /\ dcur' = (IF dpc' = "idle" THEN 0 ELSE dcur)

\* completion of a preprocessed message (S5): recipient lists, [bounce record], info, then the cleaner removes the body
CStart == /\ dpc = "idle" /\ \E k \in Pool : Class(ex, k) = "S5" /\ dcur' = k /\ dpc' = "c1" /\ UNCHANGED <<ex, syn, ipc, inum, old, ncrash, bad, prepped, nrun>>
Comp == \E k \in Pool :
  \/ DStep(k, "c1", "c1", <<"bounce", k>> \notin ex /\ Create("bounce", k))        \* a permanent failure is recorded
  \/ DStep(k, "c1", "c2", TryUnlink("local", k, "send"))
  \/ DStep(k, "c2", "c3", TryUnlink("remote", k, "send"))
  \/ DStep(k, "c3", "c4", TryUnlink("bounce", k, "send"))
  \/ DStep(k, "c4", "c5", Unlink("info", k, "send"))
  \/ DStep(k, "c5", "c6", TryUnlink("intd", k, "clean"))
  \/ DStep(k, "c6", "idle", TryUnlink("mess", k, "clean"))
CompA == Comp /\ UNCHANGED <<ipc, inum, old, ncrash, prepped, nrun>> /\ dcur' = (IF dpc' = "idle" THEN 0 ELSE dcur)

\* collection of stale entries: older than 36 hours (no injector can still be working on it: their alarm is 24 hours), no info, no todo
Age(k) == /\ <<"mess", k>> \in ex /\ k \notin old /\ \A i \in Inj : ~(inum[i] = k /\ ipc[i] # "start")
          /\ old' = old \cup {k} /\ UNCHANGED <<ex, syn, ipc, inum, dcur, dpc, ncrash, bad, prepped, nrun>>
GStart == /\ dpc = "idle" /\ \E k \in old : <<"mess", k>> \in ex /\ <<"info", k>> \notin ex /\ <<"todo", k>> \notin ex /\ dcur' = k /\ dpc' = "g1"
          /\ UNCHANGED <<ex, syn, ipc, inum, old, ncrash, bad, prepped, nrun>>
Gc == \E k \in Pool : \/ DStep(k, "g1", "g2", TryUnlink("intd", k, "clean"))
                      \/ DStep(k, "g2", "idle", TryUnlink("mess", k, "clean"))
GcA == Gc /\ UNCHANGED <<ipc, inum, old, ncrash, prepped, nrun>> /\ dcur' = (IF dpc' = "idle" THEN 0 ELSE dcur)

\* machine crash + restart: every process is gone, the daemon starts from scratch; files stay (directories are synchronous)
Crash == /\ ncrash < MaxCrash /\ ncrash' = ncrash + 1 /\ ipc' = [i \in Inj |-> "start"] /\ dcur' = 0 /\ dpc' = "idle"
         /\ UNCHANGED <<ex, syn, inum, old, bad, prepped, nrun>>

Next == \/ \E i \in Inj : IStart(i) \/ ILinkMess(i) \/ IIntd(i) \/ ITodo(i) \/ IFail(i) \/ ICl1(i) \/ ICl2(i) \/ IDie(i)
        \/ PStart \/ PreA \/ CStart \/ CompA \/ GStart \/ GcA \/ Crash \/ \E k \in Pool : Age(k)
Spec == Init /\ [][Next]_vars

Documented == StateTableOk(ex)
NoObjection == bad = ""
=============================================================================
