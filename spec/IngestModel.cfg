SPECIFICATION Spec
INVARIANT Sound
