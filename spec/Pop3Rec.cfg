SPECIFICATION Spec
INVARIANT Inv
