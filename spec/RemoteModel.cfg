SPECIFICATION Spec
CONSTANT MaxRcpt = 2
INVARIANT Sound
