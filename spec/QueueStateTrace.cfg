SPECIFICATION Spec
INVARIANT Inv
