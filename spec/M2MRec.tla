------------------------------- MODULE M2MRec -------------------------------
(* Record validator (T) for X07: one record = one run of the real maildir2mbox (clean, with one failing or short call, or killed
   before a call):
     old, after   the mbox before and after the run (bytes)
     files        the messages that were in new/ and cur/, by time of delivery: data, mtime, found (1: the scan saw it and it
                  was old enough - taken from the trace of the run), oldenough (1: mtime < the clock), left (1: still there)
     exit         exit status (-9: killed)        fault, fcall   "none" | "fail" | "short" | "kill", and the call it hit
     newino       1: $MAIL names another inode than before     dur, cl   of that inode: length at its last successful fsync,
                  1 if it was closed after its last write
   The monitors are M2M!MoveVerdict (bytes) and the clauses of M2MRun (NoLoss, AllOrNothing, ExitOk, ExitFail) over the record. *)
EXTENDS M2M, Json, IOUtils, TLC
Recs  == ndJsonDeserialize(IOEnv.RECORDS)
Chunk == atoi(IOEnv.CHUNK)
N     == Len(Recs)
NCh   == (N + Chunk - 1) \div Chunk
G     == 16
VARIABLES g, k
Init == g = 0 /\ k = 0
Next == \/ g = 0 /\ g' \in 1..G /\ k' = 0
        \/ g > 0 /\ k = 0 /\ k' \in {c \in 1..NCh : c % G = g - 1} /\ g' = g
Spec == Init /\ [][Next]_<<g, k>>
Verdict(r) ==
  LET n     == Len(r.files)
      found == SelectSeq(r.files, LAMBDA f : f.found = 1)
      gone  == {i \in 1..n : r.files[i].left = 0}
  IN IF r.after = r.old /\ (found = <<>> \/ r.newino = 0) THEN
          IF gone # {} THEN "MessageRemovedButNotInMbox"
          ELSE IF r.exit = 0 /\ found # <<>> THEN "SuccessReportedButNothingMoved"
          ELSE IF r.exit = 0 /\ r.fault = "none" /\ \E i \in 1..n : r.files[i].oldenough = 1 THEN "OldEnoughMessageNotMoved"
          ELSE ""
     ELSE LET v == MoveVerdict(r.old, r.after, found)
          IN IF v # "" THEN v
             ELSE IF r.newino = 0 THEN "MboxChangedInPlace"
             ELSE IF r.dur < Len(r.after) \/ r.cl = 0 THEN "MboxReplacedBeforeItsDataWasSafe"
             ELSE IF \E i \in gone : r.files[i].found = 0 THEN "MessageRemovedButNotInMbox"
             ELSE IF r.exit = 111 THEN "FailureReportedAfterTheMboxWasReplaced"
             ELSE IF r.exit = 0 /\ r.fcall # "unlink" /\ \E i \in 1..n : r.files[i].found = 1 /\ r.files[i].left = 1 THEN "MovedMessageLeftInMaildir"
             ELSE IF r.exit = 0 /\ r.fault = "none" /\ \E i \in 1..n : r.files[i].oldenough = 1 /\ r.files[i].found = 0 THEN "OldEnoughMessageNotMoved"
             ELSE ""
CheckChunk(c) ==
  LET lo == (c - 1) * Chunk + 1
      hi == IF c * Chunk < N THEN c * Chunk ELSE N
  IN /\ \A i \in lo..hi : LET v == Verdict(Recs[i]) IN v = "" \/ PrintT(<<"BADREC", i, v>>)
     /\ PrintT(<<"CHECKED", lo, hi>>)
Inv == k = 0 \/ CheckChunk(k)
=============================================================================
