----------------------------- MODULE InjectHdr -----------------------------
(***************************************************************************)
(* X03 (beyond the listed properties): what qmail-inject does to the       *)
(* header of a locally submitted message and which envelope sender it      *)
(* picks - qmail-inject(8), qmail-header(5).                               *)
(*                                                                         *)
(* A message header is a sequence of fields; a field is [k |-> kind].      *)
(* The environment: fl (letters of QMAILINJECT), fs (-f given), q (TRUE:   *)
(* queue the message, FALSE: -n, print it), mfth (the set of positions of  *)
(* To/Cc fields whose address is listed in the QMAILMFTFILE file).         *)
(*                                                                         *)
(* The result: out, the fields of the new header in order - kept input     *)
(* fields [a |-> "kept", j |-> position] and added ones [a |-> "add",      *)
(* k |-> kind] - and snd, where the envelope sender comes from.            *)
(*                                                                         *)
(* E: Allowed(...) - the set of results the documentation allows.          *)
(* P: InjP(...) - transcription of doheaderfield() / finishheader() /      *)
(*    setreturn() / dodefaultreturnpath() of qmail-inject.c: one pass over *)
(*    the fields with the htypeseen flags, then the end of the header.     *)
(***************************************************************************)
EXTENDS Integers, Sequences, FiniteSets

ResentKinds == {"rsender", "rfrom", "rreplyto", "rto", "rcc", "rbcc", "rdate", "rmsgid"}
Kinds == {"date", "msgid", "from", "to", "cc", "bcc", "ato", "rp", "sender", "replyto", "clen", "mft", "subject", "rrt", "errorsto"} \cup ResentKinds
Letters == {"c", "s", "f", "i", "r", "m"}

Kept(j) == [a |-> "kept", j |-> j]
Add(k) == [a |-> "add", k |-> k]
MinOf(S) == CHOOSE x \in S : \A y \in S : x <= y

\* ---- E
\* a field the letters of QMAILINJECT tell the program not to look at
Ignored(f, fl) == (f.k = "from" /\ "f" \in fl) \/ (f.k = "msgid" /\ "i" \in fl) \/ (f.k = "rp" /\ "s" \in fl)
\* fields that never reach the new header: Bcc and Resent-Bcc (the point of a blind copy), Return-Path (it becomes the envelope
\* sender), Content-Length ("some things are just too stupid"), and the ignored ones
Removed(f, fl) == Ignored(f, fl) \/ f.k \in {"bcc", "rbcc", "rp", "clen"}
Has(hdr, fl, K) == \E j \in 1..Len(hdr) : hdr[j].k = K /\ ~Ignored(hdr[j], fl)
IsResent(hdr, fl) == \E K \in ResentKinds : Has(hdr, fl, K)
\* the fields qmail-inject supplies (qmail-header(5)): in a resent message the Resent- forms, and nothing else
Supplied(hdr, fl, mfth) ==
  IF IsResent(hdr, fl)
  THEN (IF Has(hdr, fl, "rdate") THEN <<>> ELSE <<Add("rdate")>>) \o (IF Has(hdr, fl, "rmsgid") THEN <<>> ELSE <<Add("rmsgid")>>)
       \o (IF Has(hdr, fl, "rfrom") THEN <<>> ELSE <<Add("rfrom")>>)
       \o (IF Has(hdr, fl, "rto") \/ Has(hdr, fl, "rcc") THEN <<>> ELSE <<Add("rccph")>>)
  ELSE (IF Has(hdr, fl, "date") THEN <<>> ELSE <<Add("date")>>) \o (IF Has(hdr, fl, "msgid") THEN <<>> ELSE <<Add("msgid")>>)
       \o (IF Has(hdr, fl, "from") THEN <<>> ELSE <<Add("from")>>)
       \o (IF Has(hdr, fl, "to") \/ Has(hdr, fl, "cc") THEN <<>> ELSE <<Add("ccph")>>)
       \o (IF mfth # {} /\ ~Has(hdr, fl, "mft") THEN <<Add("mft")>> ELSE <<>>)
\* -f overrides Return-Path and all environment variables; Return-Path overrides the environment variables (whether the letter r
\* of QMAILINJECT still applies to it is not said: both readings are allowed); the default sender is modified by r and m
Senders(hdr, fl, fs) ==
  IF fs THEN {[src |-> "f", j |-> 0, verp |-> FALSE, mess |-> FALSE]}
  ELSE IF Has(hdr, fl, "rp")
       THEN {[src |-> "rp", j |-> MinOf({j \in 1..Len(hdr) : hdr[j].k = "rp"}), verp |-> v, mess |-> FALSE] : v \in (IF "r" \in fl THEN BOOLEAN ELSE {FALSE})}
       ELSE {[src |-> "def", j |-> 0, verp |-> "r" \in fl, mess |-> "m" \in fl]}
Allowed(hdr, fl, fs, q, mfth) ==
  {[out |-> (IF q THEN <<>> ELSE <<Add("rp")>>) \o Supplied(hdr, fl, mfth) \o [i \in 1..Len(ks) |-> Kept(ks[i])], snd |-> s] :
     s \in Senders(hdr, fl, fs), ks \in {SelectSeq([i \in 1..Len(hdr) |-> i], LAMBDA j : ~Removed(hdr[j], fl))}}
\* the order of the addresses in a supplied Mail-Followup-To is not documented; the set is: all the To+Cc addresses
MftAddresses(hdr) == {j \in 1..Len(hdr) : hdr[j].k \in {"to", "cc"}}

\* ---- P
RECURSIVE Fields(_, _, _, _)
\* st = [seen: set of kinds, saved: kept positions, snd: sender or "none"]
Fields(hdr, fl, i, st) ==
  IF i > Len(hdr) THEN st
  ELSE LET k == hdr[i].k
       IN IF ("f" \in fl /\ k = "from") \/ ("i" \in fl /\ k = "msgid") \/ ("s" \in fl /\ k = "rp") THEN Fields(hdr, fl, i + 1, st)
          ELSE LET st1 == [st EXCEPT !.seen = @ \cup {k}]
                   st2 == IF k = "rp" /\ st.snd.src = "none" THEN [st1 EXCEPT !.snd = [src |-> "rp", j |-> i, verp |-> "r" \in fl, mess |-> FALSE]] ELSE st1
                   st3 == IF k \in {"bcc", "rbcc", "rp", "clen"} THEN st2 ELSE [st2 EXCEPT !.saved = Append(@, i)]
               IN Fields(hdr, fl, i + 1, st3)
InjP(hdr, fl, fs, q, mfth) ==
  LET st0 == [seen |-> {}, saved |-> <<>>, snd |-> IF fs THEN [src |-> "f", j |-> 0, verp |-> FALSE, mess |-> FALSE] ELSE [src |-> "none", j |-> 0, verp |-> FALSE, mess |-> FALSE]]
      st == Fields(hdr, fl, 1, st0)
      resent == st.seen \cap ResentKinds # {}
      snd == IF st.snd.src = "none" THEN [src |-> "def", j |-> 0, verp |-> "r" \in fl, mess |-> "m" \in fl] ELSE st.snd
      sup == IF resent
             THEN (IF "rdate" \in st.seen THEN <<>> ELSE <<Add("rdate")>>) \o (IF "rmsgid" \in st.seen THEN <<>> ELSE <<Add("rmsgid")>>)
                  \o (IF "rfrom" \in st.seen THEN <<>> ELSE <<Add("rfrom")>>) \o (IF "rto" \notin st.seen /\ "rcc" \notin st.seen THEN <<Add("rccph")>> ELSE <<>>)
             ELSE (IF "date" \in st.seen THEN <<>> ELSE <<Add("date")>>) \o (IF "msgid" \in st.seen THEN <<>> ELSE <<Add("msgid")>>)
                  \o (IF "from" \in st.seen THEN <<>> ELSE <<Add("from")>>) \o (IF "to" \notin st.seen /\ "cc" \notin st.seen THEN <<Add("ccph")>> ELSE <<>>)
                  \o (IF "mft" \notin st.seen /\ mfth # {} THEN <<Add("mft")>> ELSE <<>>)
  IN [out |-> (IF q THEN <<>> ELSE <<Add("rp")>>) \o sup \o [i \in 1..Len(st.saved) |-> Kept(st.saved[i])], snd |-> snd]

\* ---- monitor for one observed run
InjVerdict(hdr, fl, fs, q, mfth, out, snd) ==
  LET al == Allowed(hdr, fl, fs, q, mfth)
  IN IF [out |-> out, snd |-> snd] \in al THEN ""
     ELSE IF \E a \in al : a.out = out THEN
            (IF \A a \in al : a.snd.src # snd.src \/ a.snd.j # snd.j THEN "EnvelopeSenderFromWrongSource" ELSE "EnvelopeSenderVariantWrong")
     ELSE LET a == CHOOSE x \in al : TRUE
              keptof(o) == {o[i].j : i \in {n \in 1..Len(o) : o[n].a = "kept"}}
              addof(o) == {o[i].k : i \in {n \in 1..Len(o) : o[n].a = "add"}}
          IN IF keptof(out) \ keptof(a.out) # {} THEN "FieldThatMustBeRemovedIsKept"
             ELSE IF keptof(a.out) \ keptof(out) # {} THEN "FieldLost"
             ELSE IF addof(a.out) \ addof(out) # {} THEN "RequiredFieldNotSupplied"
             ELSE IF addof(out) \ addof(a.out) # {} THEN "FieldSuppliedAlthoughPresentOrNotCalledFor"
             ELSE "FieldOrderOrMultiplicityWrong"
=============================================================================
