------------------------------ MODULE SchedRec ------------------------------
(***************************************************************************)
(* Record validator (T) for C15's pure parts: results of the real          *)
(* squareroot(), nextretry() and prioq.c judged by the monitors of Sched.  *)
(***************************************************************************)
EXTENDS Sched, Json, IOUtils, TLC
Recs  == ndJsonDeserialize(IOEnv.RECORDS)
Chunk == atoi(IOEnv.CHUNK)
N     == Len(Recs)
NCh   == (N + Chunk - 1) \div Chunk
G     == 16
VARIABLES g, k
Init == g = 0 /\ k = 0
Next == \/ g = 0 /\ g' \in 1..G /\ k' = 0
        \/ g > 0 /\ k = 0 /\ k' \in {c \in 1..NCh : c % G = g - 1} /\ g' = g
Spec == Init /\ [][Next]_<<g, k>>

Verdict(r) ==
  CASE r.kind = "sqrt"  -> IF IsRoot(r.y, r.x) THEN "" ELSE "SquareRootWrong"
    [] r.kind = "retry" -> IF RetryOk(r.birth, r.now, r.c, r.res, r.n) THEN ""
                           ELSE IF r.res <= r.now THEN "RetryTimeNotInFuture" ELSE "RetryTimeNotQuadraticBackoff"
    [] r.kind = "pq"    -> PqVerdict(r.ops, r.mins, r.drain)
    [] OTHER -> "UnknownRecord"
CheckChunk(c) ==
  LET lo == (c - 1) * Chunk + 1
      hi == IF c * Chunk < N THEN c * Chunk ELSE N
  IN /\ \A i \in lo..hi : LET v == Verdict(Recs[i]) IN v = "" \/ PrintT(<<"BADREC", i, v>>)
     /\ PrintT(<<"CHECKED", lo, hi>>)
Inv == k = 0 \/ CheckChunk(k)
=============================================================================
