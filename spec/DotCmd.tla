------------------------------- MODULE DotCmd -------------------------------
(***************************************************************************)
(* X06 (beyond the listed properties): the helper commands users put into  *)
(* .qmail files - bouncesaying(1), except(1), condredirect(1), forward(1), *)
(* preline(1).  Their exit status is an instruction to qmail-local         *)
(* (qmail-command(8): 0 go on, 99 stop and count as delivered, 100 bounce, *)
(* 111 try again later), so a wrong status loses, duplicates or bounces    *)
(* mail.                                                                   *)
(*                                                                         *)
(* The environment of one run:                                             *)
(*   tool   which helper                                                   *)
(*   prog   what the program given to it does: "none" (no program given),  *)
(*          "e0" "e1" "e99" "e100" "e111" (its exit status), "crash"       *)
(*          (killed by a signal), "noexec" (it cannot be run: no such file)*)
(*   qq     what the queue does when asked: "ok", "temp", "perm"           *)
(*   has    which of SENDER / NEWSENDER / DTLINE / UFLINE / RPLINE are set *)
(*   fl     preline's options, a subset of {"f", "r", "d"}                 *)
(* The result: [exit, fwd, pre] - exit status; fwd = "none" or the variable *)
(* that names the envelope sender of the forwarding request (its           *)
(* recipients are the address arguments); pre = for preline the set of     *)
(* lines put in front of the message.                                      *)
(*                                                                         *)
(* E: Expected(...) from the manual pages.  P: ToolP(...) in the order of  *)
(* the code (fork/exec/wait, then the environment, then the queue).        *)
(***************************************************************************)
EXTENDS Integers, Sequences, FiniteSets

Tools == {"bouncesaying", "except", "condredirect", "forward", "preline"}
Progs == {"none", "e0", "e1", "e99", "e100", "e111", "crash", "noexec"}
Code(p) == CASE p = "e0" -> 0 [] p = "e1" -> 1 [] p = "e99" -> 99 [] p = "e100" -> 100 [] p = "e111" -> 111
             [] p = "noexec" -> 100       \* the child reports a permanent exec failure with 100
             [] OTHER -> 0
R(x, f) == [exit |-> x, fwd |-> f, pre |-> {}]
\* the queue's answer as an exit status of the helper: refused for good -> 100, anything else that went wrong -> 111
QExit(qq, ok) == IF qq = "ok" THEN ok ELSE IF qq = "perm" THEN 100 ELSE 111

\* ---- E
Expected(tool, prog, qq, has, fl) ==
  CASE tool = "bouncesaying" ->
         \* "If program exits 0 (or no program is given) the message is bounced with the error text; 111: try again later; anything
         \* else: the rest of .qmail is processed as usual"
         IF prog = "none" \/ prog = "e0" THEN R(100, "none")
         ELSE IF prog \in {"e111", "crash"} THEN R(111, "none")
         ELSE R(0, "none")
    [] tool = "except" ->
         \* the reverse of a condition: program exits 0 -> 100; 111 -> 111; anything else -> 0
         IF prog = "e0" THEN R(100, "none")
         ELSE IF prog \in {"e111", "crash"} THEN R(111, "none")
         ELSE IF prog = "none" THEN R(100, "none")                 \* usage error
         ELSE R(0, "none")
    [] tool = "condredirect" ->
         \* program exits 0: the message is forwarded to newaddress (sender unchanged) and 99 is returned; 111: 111; else 0
         IF prog = "none" THEN R(100, "none")                      \* usage error
         ELSE IF prog \in {"e111", "crash"} THEN R(111, "none")
         ELSE IF prog # "e0" THEN R(0, "none")
         ELSE IF "SENDER" \notin has \/ "DTLINE" \notin has THEN R(100, "none")
         ELSE R(QExit(qq, 99), "SENDER")
    [] tool = "forward" ->
         IF "NEWSENDER" \notin has \/ "DTLINE" \notin has THEN R(100, "none")
         ELSE R(QExit(qq, 0), "NEWSENDER")
    [] tool = "preline" ->
         \* the command gets UFLINE, RPLINE, DTLINE (each unless switched off) and the message; preline exits as the command does
         IF {"UFLINE", "RPLINE", "DTLINE"} \ has # {} \/ prog = "none" THEN R(100, "none")
         ELSE [exit |-> IF prog = "crash" THEN 111 ELSE Code(prog), fwd |-> "none",
               pre |-> IF prog = "noexec" THEN {} ELSE ({"UFLINE"} \ (IF "f" \in fl THEN {"UFLINE"} ELSE {})) \cup ({"RPLINE"} \ (IF "r" \in fl THEN {"RPLINE"} ELSE {}))
                                                         \cup ({"DTLINE"} \ (IF "d" \in fl THEN {"DTLINE"} ELSE {}))]

\* ---- P
Wait(prog) == IF prog = "crash" THEN [crashed |-> TRUE, code |-> 0] ELSE [crashed |-> FALSE, code |-> Code(prog)]
ToolP(tool, prog, qq, has, fl) ==
  LET w == Wait(prog)
      queue(ok, sndvar) == IF qq = "ok" THEN R(ok, sndvar) ELSE IF qq = "perm" THEN R(100, sndvar) ELSE R(111, sndvar)
  IN CASE tool = "bouncesaying" ->
            IF prog = "none" THEN R(100, "none")
            ELSE IF w.crashed THEN R(111, "none")
            ELSE IF w.code = 0 THEN R(100, "none") ELSE IF w.code = 111 THEN R(111, "none") ELSE R(0, "none")
       [] tool = "except" ->
            IF prog = "none" THEN R(100, "none")
            ELSE IF w.crashed THEN R(111, "none")
            ELSE IF w.code = 0 THEN R(100, "none") ELSE IF w.code = 111 THEN R(111, "none") ELSE R(0, "none")
       [] tool = "condredirect" ->
            IF prog = "none" THEN R(100, "none")
            ELSE IF w.crashed THEN R(111, "none")
            ELSE IF w.code = 111 THEN R(111, "none")
            ELSE IF w.code # 0 THEN R(0, "none")
            ELSE IF "SENDER" \notin has THEN R(100, "none")
            ELSE IF "DTLINE" \notin has THEN R(100, "none")
            ELSE queue(99, "SENDER")
       [] tool = "forward" ->
            IF "NEWSENDER" \notin has THEN R(100, "none")
            ELSE IF "DTLINE" \notin has THEN R(100, "none")
            ELSE queue(0, "NEWSENDER")
       [] tool = "preline" ->
            IF "UFLINE" \notin has \/ "RPLINE" \notin has \/ "DTLINE" \notin has THEN R(100, "none")
            ELSE IF prog = "none" THEN R(100, "none")
            ELSE [exit |-> IF w.crashed THEN 111 ELSE w.code, fwd |-> "none",
                  pre |-> IF prog = "noexec" THEN {} ELSE {v \in {"UFLINE", "RPLINE", "DTLINE"} : (v = "UFLINE" => "f" \notin fl) /\ (v = "RPLINE" => "r" \notin fl) /\ (v = "DTLINE" => "d" \notin fl)}]
\* a forwarding request that the queue refused was still made: E leaves fwd free in that case
Agrees(e, p) == e.exit = p.exit /\ e.pre = p.pre /\ (e.fwd = p.fwd \/ (e.exit \in {100, 111} /\ e.fwd # "none"))
=============================================================================
