-------------------------------- MODULE Addr --------------------------------
(***************************************************************************)
(* Property C17: address quoting and parsing agree; header recipients      *)
(* become the envelope.                                                    *)
(*                                                                         *)
(* Part E (environment layer): what the DOCUMENTS say, over observable     *)
(* bytes only.                                                             *)
(*   - RFC 822 section 6.1 local-part / RFC 821 section 4.1.2 local-part:  *)
(*     Dec822 / Dec821 read an encoded local part and give the mailbox     *)
(*     name it denotes (or Bad when it is not in the grammar)              *)
(*   - addresses(5): an address is local part, the LAST '@', domain part   *)
(*   - qmail-header(5), qmail-inject(8): default host, default domain and  *)
(*     plus domain rewriting (RwDom), which fields feed the envelope,      *)
(*     Bcc removed (ExpectedRcpts)                                         *)
(*   - the monitors QuoteVerdict / ListVerdict used for the records taken  *)
(*     from the real programs                                              *)
(* Part P (program layer) operators: transcriptions of quote.c,            *)
(* qmail-remote.c addrmangle, token822.c token822_parse/_unquote/_unparse, *)
(* qmail-smtpd.c addrparse + commands.c, qmail-inject.c rwgeneric.  They   *)
(* are composed with an environment in AddrQuote.tla and AddrList.tla.     *)
(*                                                                         *)
(* Bytes are their numeric values; strings are sequences of bytes.         *)
(***************************************************************************)
EXTENDS Integers, Sequences, FiniteSets

TAB == 9   LF == 10   CR == 13   SP == 32   DQ == 34   LPAR == 40   RPAR == 41   PLUS == 43
COMMA == 44   DOT == 46   COLON == 58   SEMI == 59   LT == 60   GT == 62   AT == 64
LBR == 91   BSL == 92   RBR == 93

Bad == <<-1>>                      \* "not in the grammar" / "not observed"

Front(s) == SubSeq(s, 1, Len(s) - 1)
Last(s)  == s[Len(s)]
Drop(s, n) == SubSeq(s, n + 1, Len(s))              \* s without its first n elements
RECURSIVE Flat(_)
Flat(ss) == IF ss = <<>> THEN <<>> ELSE Head(ss) \o Flat(Tail(ss))
RECURSIVE Join(_, _)
Join(ss, sep) == IF ss = <<>> THEN <<>> ELSE IF Len(ss) = 1 THEN ss[1] ELSE ss[1] \o sep \o Join(Tail(ss), sep)
\* first index >= i at which s holds c; Len(s) + 1 if none (str_chr)
RECURSIVE IndexFrom(_, _, _)
IndexFrom(s, c, i) == IF i > Len(s) THEN Len(s) + 1 ELSE IF s[i] = c THEN i ELSE IndexFrom(s, c, i + 1)
\* last index at which s holds c; Len(s) + 1 if none (str_rchr)
LastIndex(s, c) == LET S == {i \in 1..Len(s) : s[i] = c}
                   IN IF S = {} THEN Len(s) + 1 ELSE CHOOSE i \in S : \A j \in S : j <= i
BagOf(s) == [x \in {s[i] : i \in 1..Len(s)} |-> Cardinality({i \in 1..Len(s) : s[i] = x})]

(***************************************************************************)
(* E.1  The two encodings of a local part, read from the RFCs.             *)
(*                                                                         *)
(* RFC 822:  local-part = word *("." word);  word = atom / quoted-string;  *)
(*   atom = 1*<any CHAR except specials, SPACE and CTLs>;                  *)
(*   quoted-string = <"> *(qtext / quoted-pair) <">;  qtext excludes <">,  *)
(*   "\" and CR;  quoted-pair = "\" CHAR.  The value of a quoted-string is *)
(*   its text with the quotes and the backslash of each pair removed.      *)
(* RFC 821:  local-part = dot-string | quoted-string;                      *)
(*   dot-string = string *("." string); string = 1*(<c> | "\" <x>);        *)
(*   quoted-string = """ 1*(<q> | "\" <x>) """; <q> excludes CR, LF, quote *)
(*   and backslash; <c> excludes the specials, SP and control characters.  *)
(* Both RFCs are 7-bit; bytes above 127 are accepted where ordinary text   *)
(* is (the statement quantifies over them and the RFCs do not speak).      *)
(***************************************************************************)
Specials == {LPAR, RPAR, LT, GT, AT, COMMA, SEMI, COLON, BSL, DQ, DOT, LBR, RBR}
AtomChar(c) == c > 32 /\ c < 127 /\ c \notin Specials

\* mode: 0 expecting a word, 1 inside an atom, 2 inside a quoted-string, 3 after a quoted-string
RECURSIVE D822(_, _, _, _)
D822(q, i, mode, acc) ==
  IF i > Len(q) THEN (IF mode \in {1, 3} THEN acc ELSE Bad)
  ELSE LET c == q[i] IN
    CASE mode = 0 -> IF c = DQ THEN D822(q, i + 1, 2, acc)
                     ELSE IF AtomChar(c) THEN D822(q, i + 1, 1, Append(acc, c)) ELSE Bad
      [] mode = 1 -> IF c = DOT THEN D822(q, i + 1, 0, Append(acc, DOT))
                     ELSE IF AtomChar(c) THEN D822(q, i + 1, 1, Append(acc, c)) ELSE Bad
      [] mode = 2 -> IF c = DQ THEN D822(q, i + 1, 3, acc)
                     ELSE IF c = BSL THEN (IF i + 1 > Len(q) THEN Bad ELSE D822(q, i + 2, 2, Append(acc, q[i + 1])))
                     ELSE IF c = CR \/ c = LF THEN Bad
                     ELSE D822(q, i + 1, 2, Append(acc, c))
      [] OTHER    -> IF c = DOT THEN D822(q, i + 1, 0, Append(acc, DOT)) ELSE Bad
Dec822(q) == D822(q, 1, 0, <<>>)

\* RFC 821 dot-string.  mode: 0 expecting a string, 1 inside a string
RECURSIVE D821dot(_, _, _, _)
D821dot(q, i, mode, acc) ==
  IF i > Len(q) THEN (IF mode = 1 THEN acc ELSE Bad)
  ELSE LET c == q[i] IN
    IF c = BSL THEN (IF i + 1 > Len(q) THEN Bad ELSE D821dot(q, i + 2, 1, Append(acc, q[i + 1])))
    ELSE IF c = DOT THEN (IF mode = 1 THEN D821dot(q, i + 1, 0, Append(acc, DOT)) ELSE Bad)
    ELSE IF AtomChar(c) THEN D821dot(q, i + 1, 1, Append(acc, c))
    ELSE Bad
\* RFC 821 quoted-string body (between the quotes)
RECURSIVE D821q(_, _, _)
D821q(q, i, acc) ==
  IF i > Len(q) THEN acc
  ELSE LET c == q[i] IN
    IF c = BSL THEN (IF i + 1 > Len(q) THEN Bad ELSE D821q(q, i + 2, Append(acc, q[i + 1])))
    ELSE IF c \in {DQ, CR, LF} THEN Bad
    ELSE D821q(q, i + 1, Append(acc, c))
Dec821(q) ==
  IF Len(q) >= 2 /\ q[1] = DQ
    THEN (IF Last(q) # DQ \/ Len(q) = 2 THEN Bad                  \* 1*(...): the empty quoted-string is not RFC 821
          ELSE LET b == SubSeq(q, 2, Len(q) - 1)
                   \* the closing quote must not itself be the <x> of a pair: decode the body, it must be consumed exactly
               IN D821q(b, 1, <<>>))
  ELSE D821dot(q, 1, 0, <<>>)

(***************************************************************************)
(* E.2  Monitors for the quoting round trips through the real programs.    *)
(* a = lp '@' host with a fixed host name (addresses(5): the domain part   *)
(* is everything after the final '@').  Bad = not observed / refused.      *)
(* Each returns "" or the name of the failing clause.                      *)
(***************************************************************************)
\* argument path: qmail-inject -a a; back = the recipient handed to the queue program (the package
\* quotes the argument for a header and parses it back as RFC 822)
QaVerdict(lp, host, back) ==
  IF back # lp \o <<AT>> \o host THEN "ArgQuotedAndParsedBackDiffers" ELSE ""

\* header path: hq = the local part as the package wrote it into a header field (Return-Path line
\* printed by qmail-inject -n -f a, text between "<" and "@host>"); b1, b2 = the recipients derived
\* from "To: hq@host" and "Cc: <hq@host>" (RFC 822 address-list parsing), snd = the envelope
\* sender derived from "Return-Path: <hq@host>"
QhVerdict(lp, host, hq, b1, b2, snd) ==
  LET a == lp \o <<AT>> \o host
  IN IF Dec822(hq) # lp THEN "HeaderFormNotRfc822EncodingOfAddress"
     ELSE IF b1 # a \/ b2 # a \/ snd # a THEN "HeaderQuotedAndParsedBackDiffers"
     ELSE ""

\* SMTP path: sq = the local part as qmail-remote sent it in MAIL FROM / RCPT TO (text between "<"
\* and "@host>"), sok = 1 iff qmail-smtpd answered that command line with 2xx, back = the address
\* it handed to the queue program.  addresses(5): an empty local part cannot appear in SMTP.
QsVerdict(lp, host, sq, sok, back) ==
  IF lp = <<>> THEN ""
  ELSE IF Dec821(sq) # lp THEN "SmtpFormNotRfc821EncodingOfAddress"
  ELSE IF sok # 1 \/ back # lp \o <<AT>> \o host THEN "SmtpQuotedAndParsedBackDiffers"
  ELSE ""

(***************************************************************************)
(* E.3  Header address lists: the mailboxes a list names, the documented   *)
(* rewriting, and which of them become envelope recipients.                *)
(*                                                                         *)
(* Abstract syntax (the generator's output; rendering to bytes adds only   *)
(* white space, comments, folding, phrases, routes and quoting):           *)
(*   mailbox  [lp |-> <<word>>, dom |-> <<sub>>, ...]  word = bytes;       *)
(*            sub = [t |-> "a" (atom) | "l" (domain literal), s |-> bytes] *)
(*            dom = <<>> means "lone box name"                             *)
(*   item     [k |-> "m", m |-> mailbox] or [k |-> "g", ms |-> <<mailbox>>]*)
(*   field    [name |-> "to"|"cc"|"bcc"|"ato"|"rto"|"rcc"|"rbcc",          *)
(*             items |-> <<item>>]                                         *)
(*   cfg      [dh, dd, pd |-> <<sub>>]  default host / domain / plus domain*)
(***************************************************************************)
SubText(x) == IF x.t = "l" THEN <<LBR>> \o x.s \o <<RBR>> ELSE x.s
DomText(d) == Join([k \in 1..Len(d) |-> SubText(d[k])], <<DOT>>)
EndsPlus(x) == x.t = "a" /\ Len(x.s) >= 2 /\ Last(x.s) = PLUS

\* qmail-header(5): lone box name -> default host name; name that ends with a plus sign -> plus domain
\* name appended; name without dots -> default domain name appended; qmail-inject(8): "If a host name
\* does not have dots but ends with a plus sign, qmail-inject uses plusdomain, not defaultdomain";
\* both also apply to defaulthost itself.  A dotted-decimal address in brackets is a complete host name.
RwDom(d, cfg) ==
  LET h == IF d = <<>> THEN cfg.dh ELSE d
  IN IF EndsPlus(Last(h)) THEN Front(h) \o <<[t |-> "a", s |-> Front(Last(h).s)]>> \o cfg.pd
     ELSE IF Len(h) = 1 /\ h[1].t = "a" THEN h \o cfg.dd
     ELSE h
Mailbox(m, cfg) == Join(m.lp, <<DOT>>) \o <<AT>> \o DomText(RwDom(m.dom, cfg))

ItemBoxes(it, cfg) == IF it.k = "m" THEN <<Mailbox(it.m, cfg)>> ELSE [j \in 1..Len(it.ms) |-> Mailbox(it.ms[j], cfg)]
FieldBoxes(f, cfg) == Flat([j \in 1..Len(f.items) |-> ItemBoxes(f.items[j], cfg)])
BoxesOf(fields, names, cfg) ==
  Flat([j \in 1..Len(fields) |-> IF fields[j].name \in names THEN FieldBoxes(fields[j], cfg) ELSE <<>>])

\* qmail-inject(8) -h: non-forwarded: To, Cc, Bcc, Apparently-To; forwarded (qmail-header(5) RESENT
\* MESSAGES: any Resent- field present): Resent-To, Resent-Cc, Resent-Bcc
ResentNames == {"rto", "rcc", "rbcc"}
IsResent(fields, otherResent) == otherResent \/ \E j \in 1..Len(fields) : fields[j].name \in ResentNames
HeaderRcpts(fields, otherResent, cfg) ==
  IF IsResent(fields, otherResent) THEN BoxesOf(fields, ResentNames, cfg)
  ELSE BoxesOf(fields, {"to", "cc", "bcc", "ato"}, cfg)
\* the same after the Bcc / Resent-Bcc fields have been deleted
HeaderRcptsNoBcc(fields, otherResent, cfg) ==
  IF IsResent(fields, otherResent) THEN BoxesOf(fields, {"rto", "rcc"}, cfg)
  ELSE BoxesOf(fields, {"to", "cc", "ato"}, cfg)

\* argument addresses: [lp |-> bytes (the local part itself), dom |-> <<sub>>]
ArgBox(x, cfg) == x.lp \o <<AT>> \o DomText(RwDom(x.dom, cfg))
ArgRcpts(args, cfg) == [j \in 1..Len(args) |-> ArgBox(args[j], cfg)]

\* mode: "a" arguments only, "h" header only, "H" both, "A" default (arguments if any, else header)
ExpectedRcpts(mode, fields, otherResent, args, cfg) ==
  LET hd == HeaderRcpts(fields, otherResent, cfg)
      ar == ArgRcpts(args, cfg)
  IN CASE mode = "a" -> ar
       [] mode = "h" -> hd
       [] mode = "H" -> ar \o hd
       [] OTHER      -> IF args # <<>> THEN ar ELSE hd

(***************************************************************************)
(* Monitor for one run of qmail-inject (record r).  Input: mode, fields,   *)
(* other (1 = some other Resent- field is present), args, cfg, hasf/fsnd   *)
(* (the -f argument as [lp, dom]), flagr (QMAILINJECT contains r).         *)
(* Observed: rc exit status, env the recipients handed to the queue        *)
(* program (any order: the documents do not fix one), snd the envelope     *)
(* sender, nbcc the number of Bcc / Resent-Bcc fields in the message       *)
(* handed to the queue program, and (has2 = 1) rc2 / env2: the same when   *)
(* that message is injected again with -h.                                 *)
(***************************************************************************)
ListVerdict(r) ==
  LET exp == ExpectedRcpts(r.mode, r.fields, r.other = 1, r.args, r.cfg)
      exp2 == HeaderRcptsNoBcc(r.fields, r.other = 1, r.cfg)
      fs == ArgBox(r.fsnd, r.cfg)
  IN IF r.rc # 0 THEN "ValidListRefused"
     ELSE IF BagOf(r.env) # BagOf(exp) THEN "EnvelopeIsNotTheListedMailboxes"
     ELSE IF r.nbcc # 0 THEN "BccFieldNotRemoved"
     ELSE IF r.hasf = 1 /\ r.snd # fs /\ ~(r.flagr = 1 /\ r.snd = fs \o <<45, AT, LBR, RBR>>) THEN "SenderOptionNotEnvelopeSender"
     ELSE IF r.has2 = 1 /\ (r.rc2 # 0 \/ BagOf(r.env2) # BagOf(exp2)) THEN "RewrittenHeaderParsesDifferently"
     ELSE ""

(***************************************************************************)
(* P.1  quote.c                                                            *)
(***************************************************************************)
\* the ok[] table: 7 for the characters that may appear unquoted
OkTab(c) == c < 128 /\ (c = 33 \/ c \in 35..39 \/ c = 42 \/ c = 43 \/ c = 45 \/ c = 46 \/ c = 47 \/ c \in 48..57
                        \/ c = 61 \/ c = 63 \/ c \in 65..90 \/ c \in 94..126)
QuoteNeed(s) ==
  LET n == Len(s)
  IN \/ n = 0
     \/ \E i \in 1..n : s[i] >= 128 \/ ~OkTab(s[i])
     \/ s[1] = DOT
     \/ s[n] = DOT
     \/ \E i \in 1..(n - 1) : s[i] = DOT /\ s[i + 1] = DOT
\* doit(): '"', then every byte, CR LF '"' '\' preceded by '\', then '"'
QuoteDoit(s) == <<DQ>> \o Flat([i \in 1..Len(s) |-> IF s[i] \in {CR, LF, DQ, BSL} THEN <<BSL, s[i]>> ELSE <<s[i]>>]) \o <<DQ>>
Quote(s) == IF QuoteNeed(s) THEN QuoteDoit(s) ELSE s
\* quote2(): split at the last '@'; the part from '@' on is copied unchanged
Quote2(a) ==
  IF a = <<>> THEN <<>>
  ELSE LET j == LastIndex(a, AT)
       IN IF j > Len(a) THEN Quote(a) ELSE Quote(SubSeq(a, 1, j - 1)) \o SubSeq(a, j, Len(a))
\* qmail-remote.c addrmangle()
Mangle(a) ==
  LET j == LastIndex(a, AT)
  IN IF j > Len(a) THEN a ELSE Quote(SubSeq(a, 1, j - 1)) \o <<AT>> \o SubSeq(a, j + 1, Len(a))

(***************************************************************************)
(* P.2  token822.c: token822_parse (second pass; the first pass only       *)
(* counts and detects the same failures), token822_unquote,                *)
(* token822_unparse.  A token is [t |-> type, s |-> bytes].                *)
(***************************************************************************)
Tk(t, s) == [t |-> t, s |-> s]
SpecialTok(c) == CASE c = DOT -> "dot" [] c = COMMA -> "comma" [] c = AT -> "at" [] c = LT -> "left"
                   [] c = GT -> "right" [] c = COLON -> "colon" [] c = SEMI -> "semi" [] OTHER -> ""
AtomOk(c) == c \notin {SP, TAB, CR, LF, LPAR, LBR, DQ, LT, GT, SEMI, COLON, AT, COMMA, DOT}
\* atomcheck(): `char' is signed or unsigned, either way bytes above 126 and below 32 qualify
AtomType(s) == IF \E i \in 1..Len(s) : s[i] < 32 \/ s[i] > 126 \/ s[i] \in {RPAR, RBR, BSL} THEN "quote" ELSE "atom"

NoScan == [ok |-> FALSE, j |-> 0, s |-> <<>>]
\* comment: i is the index of the next byte to look at
RECURSIVE ScanComment(_, _, _, _)
ScanComment(s, i, level, acc) ==
  IF i > Len(s) THEN NoScan
  ELSE LET c == s[i] IN
    IF c = LPAR THEN ScanComment(s, i + 1, level + 1, acc)
    ELSE IF c = RPAR THEN (IF level = 1 THEN [ok |-> TRUE, j |-> i + 1, s |-> acc] ELSE ScanComment(s, i + 1, level - 1, acc))
    ELSE IF c = BSL THEN (IF i + 1 > Len(s) THEN NoScan ELSE ScanComment(s, i + 2, level, Append(acc, s[i + 1])))
    ELSE ScanComment(s, i + 1, level, Append(acc, c))
\* quoted-string (close = '"') and domain literal (close = ']')
RECURSIVE ScanDelim(_, _, _, _)
ScanDelim(s, i, close, acc) ==
  IF i > Len(s) THEN NoScan
  ELSE LET c == s[i] IN
    IF c = close THEN [ok |-> TRUE, j |-> i + 1, s |-> acc]
    ELSE IF c = BSL THEN (IF i + 1 > Len(s) THEN NoScan ELSE ScanDelim(s, i + 2, close, Append(acc, s[i + 1])))
    ELSE ScanDelim(s, i + 1, close, Append(acc, c))
\* atom: do { if '\\' skip it (stop at the end); copy; advance (stop at the end) } while atomok
RECURSIVE ScanAtom(_, _, _)
ScanAtom(s, i, acc) ==
  LET i1 == IF s[i] = BSL THEN i + 1 ELSE i
  IN IF i1 > Len(s) THEN [ok |-> TRUE, j |-> i1, s |-> acc]
     ELSE LET acc1 == Append(acc, s[i1])
          IN IF i1 + 1 > Len(s) \/ ~AtomOk(s[i1 + 1]) THEN [ok |-> TRUE, j |-> i1 + 1, s |-> acc1]
             ELSE ScanAtom(s, i1 + 1, acc1)

LexFail == [ok |-> FALSE, toks |-> <<>>]
RECURSIVE LexFrom(_, _, _)
LexFrom(s, i, toks) ==
  IF i > Len(s) THEN [ok |-> TRUE, toks |-> toks]
  ELSE LET c == s[i] IN
    IF SpecialTok(c) # "" THEN LexFrom(s, i + 1, Append(toks, Tk(SpecialTok(c), <<>>)))
    ELSE IF c \in {SP, TAB, CR, LF} THEN LexFrom(s, i + 1, toks)
    ELSE IF c \in {RPAR, RBR} THEN LexFail
    ELSE IF c = LPAR THEN LET r == ScanComment(s, i + 1, 1, <<>>) IN IF r.ok THEN LexFrom(s, r.j, Append(toks, Tk("comment", r.s))) ELSE LexFail
    ELSE IF c = DQ THEN LET r == ScanDelim(s, i + 1, DQ, <<>>) IN IF r.ok THEN LexFrom(s, r.j, Append(toks, Tk("quote", r.s))) ELSE LexFail
    ELSE IF c = LBR THEN LET r == ScanDelim(s, i + 1, RBR, <<>>) IN IF r.ok THEN LexFrom(s, r.j, Append(toks, Tk("literal", r.s))) ELSE LexFail
    ELSE LET r == ScanAtom(s, i, <<>>) IN LexFrom(s, r.j, Append(toks, Tk(AtomType(r.s), r.s)))
Lex822(s) == LexFrom(s, 1, <<>>)

TokChar(t) == CASE t = "dot" -> DOT [] t = "comma" -> COMMA [] t = "at" -> AT [] t = "left" -> LT
                [] t = "right" -> GT [] t = "colon" -> COLON [] t = "semi" -> SEMI
Words == {"atom", "quote", "literal", "comment"}
\* token822_unquote(): the bytes an envelope address is made of
UnquoteTok(x) == CASE x.t \in {"atom", "quote"} -> x.s
                   [] x.t = "literal" -> <<LBR>> \o x.s \o <<RBR>>
                   [] x.t = "comment" -> <<>>
                   [] OTHER -> <<TokChar(x.t)>>
Unquote822(toks) == Flat([i \in 1..Len(toks) |-> UnquoteTok(toks[i])])

\* token822_unparse() without the line-length bookkeeping: every ',' is followed by the fold
\* LF SP (the C code takes a fold out again while the line stays within 80 columns, which only
\* removes white space)
NeedSpace(t1, t2) ==
  IF t1 = "" THEN FALSE
  ELSE IF t1 = "colon" \/ t1 = "comma" THEN TRUE
  ELSE IF t2 = "left" THEN TRUE
  ELSE t1 \in Words /\ t2 \in Words
EscBody(s) == Flat([i \in 1..Len(s) |-> IF s[i] \in {DQ, LBR, RBR, LPAR, RPAR, BSL, CR, LF} THEN <<BSL, s[i]>> ELSE <<s[i]>>])
UnparseTok(x) == CASE x.t = "comma" -> <<COMMA, LF, SP>>
                   [] x.t = "atom" -> EscBody(x.s)
                   [] x.t = "quote" -> <<DQ>> \o EscBody(x.s) \o <<DQ>>
                   [] x.t = "literal" -> <<LBR>> \o EscBody(x.s) \o <<RBR>>
                   [] x.t = "comment" -> <<LPAR>> \o EscBody(x.s) \o <<RPAR>>
                   [] OTHER -> <<TokChar(x.t)>>
Unparse(toks) == Flat([i \in 1..Len(toks) |->
                        (IF NeedSpace(IF i = 1 THEN "" ELSE toks[i - 1].t, toks[i].t) THEN <<SP>> ELSE <<>>) \o UnparseTok(toks[i])])
                 \o <<LF>>

(***************************************************************************)
(* P.3  qmail-smtpd.c: commands() argument splitting and addrparse().      *)
(* line = one command line without its LF.  Result [ok, addr].  The        *)
(* control/localiphost substitution (domain part a bracketed address of    *)
(* this host) is outside the quantifier (fixed host name) and left out.    *)
(***************************************************************************)
CmdArg(line) ==
  LET l == IF Len(line) > 0 /\ Last(line) = CR THEN Front(line) ELSE line
      i == IndexFrom(l, SP, 1)
      RECURSIVE SkipSp(_)
      SkipSp(j) == IF j <= Len(l) /\ l[j] = SP THEN SkipSp(j + 1) ELSE j
  IN Drop(l, SkipSp(i) - 1)

\* the copy loop; st = [esc, quoted, out, done]
ApStep(st, ch, term) ==
  IF st.done THEN st
  ELSE IF st.esc THEN [st EXCEPT !.out = Append(@, ch), !.esc = FALSE]
  ELSE IF ~st.quoted /\ ch = term THEN [st EXCEPT !.done = TRUE]
  ELSE IF ch = BSL THEN [st EXCEPT !.esc = TRUE]
  ELSE IF ch = DQ THEN [st EXCEPT !.quoted = ~@]
  ELSE [st EXCEPT !.out = Append(@, ch)]
RECURSIVE ApLoop(_, _, _, _)
ApLoop(st, arg, i, term) == IF i > Len(arg) THEN st ELSE ApLoop(ApStep(st, arg[i], term), arg, i + 1, term)

AddrParse(arg0) ==
  LET lt == IndexFrom(arg0, LT, 1)
      bracket == lt <= Len(arg0)
      term == IF bracket THEN GT ELSE SP
      a1 == IF bracket THEN Drop(arg0, lt)
            ELSE LET c == IndexFrom(arg0, COLON, 1)
                     b == Drop(arg0, c - 1)                                  \* arg += str_chr(arg,':')
                     b1 == IF b # <<>> /\ b[1] = COLON THEN Tail(b) ELSE b
                     RECURSIVE Sk(_)
                     Sk(x) == IF x # <<>> /\ x[1] = SP THEN Sk(Tail(x)) ELSE x
                 IN Sk(b1)
      \* strip source route: if (*arg == '@') while (*arg) if (*arg++ == ':') break;
      a2 == IF a1 # <<>> /\ a1[1] = AT THEN Drop(a1, IndexFrom(a1, COLON, 1)) ELSE a1
      st == ApLoop([esc |-> FALSE, quoted |-> FALSE, out |-> <<>>, done |-> FALSE], a2, 1, term)
  IN [ok |-> Len(st.out) + 1 <= 900, addr |-> st.out]

\* what the server makes of the command line the client sends for address a
SmtpLine(verb, a) == verb \o <<LT>> \o Mangle(a) \o <<GT, CR>>       \* LF taken off by the line reader

(***************************************************************************)
(* P.4  qmail-inject.c rwgeneric() on a REVERSED token list (index 1 is    *)
(* the last token of the address), as token822_addrlist hands it over.     *)
(* cfgt = [dh, dd, pd |-> token lists as getcontrols() makes them: the     *)
(* tokens of "@" defaulthost, "." defaultdomain, "." plusdomain]           *)
(***************************************************************************)
Rev(s) == [i \in 1..Len(s) |-> s[Len(s) + 1 - i]]
HasTok(s, t) == \E i \in 1..Len(s) : s[i].t = t

RwRoute(a) ==            \* first token '@': drop everything up to and including the first ':'
  IF a[Len(a)].t # "at" THEN a
  ELSE LET C == {i \in 1..Len(a) : a[i].t = "colon"}
       IN IF C = {} THEN <<>> ELSE SubSeq(a, 1, (CHOOSE i \in C : \A j \in C : j <= i) - 1)
RwExtraDot(a) == IF a[1].t = "dot" THEN Tail(a) ELSE a
RwExtraAt(a)  == IF a[1].t = "at" THEN Tail(a) ELSE a
RwNoAt(a, cfgt) == IF HasTok(a, "at") THEN a ELSE Rev(cfgt.dh) \o a
RwPlus(a, cfgt) ==
  IF a[1].t # "atom" \/ a[1].s = <<>> \/ Last(a[1].s) # PLUS THEN a
  ELSE Rev(cfgt.pd) \o <<Tk("atom", Front(a[1].s))>> \o Tail(a)
\* tokens after the last '@' in address order = tokens before the first "at" in reversed order
BeforeAt(a) == LET A == {i \in 1..Len(a) : a[i].t = "at"}
               IN IF A = {} THEN a ELSE SubSeq(a, 1, (CHOOSE i \in A : \A j \in A : i <= j) - 1)
RwNoDot(a, cfgt) == IF HasTok(BeforeAt(a), "dot") \/ HasTok(BeforeAt(a), "literal") THEN a ELSE Rev(cfgt.dd) \o a
RwGeneric(a, cfgt) ==
  IF a = <<>> THEN a
  ELSE IF Len(a) >= 2 /\ a[2].t = "at" /\ a[1].t = "literal" /\ a[1].s = <<>> THEN a
  ELSE LET r1 == RwRoute(a) IN IF r1 = <<>> THEN r1
  ELSE LET r2 == RwExtraDot(r1) IN IF r2 = <<>> THEN r2
  ELSE LET r3 == RwExtraAt(r2) IN IF r3 = <<>> THEN r3
  ELSE RwNoDot(RwPlus(RwNoAt(r3, cfgt), cfgt), cfgt)
\* rwappend(): reverse, unquote
RwAppend(a) == Unquote822(Rev(a))

(***************************************************************************)
(* P.5  token822.c token822_addrlist(): the right-to-left address-list     *)
(* parser, one ALStep per iteration of its outer loop.  State:             *)
(*   toks  the tokens of the whole field (1, 2 = field name and ':')       *)
(*   t     index of the token looked at (the C pointer t)                  *)
(*   out   taout (in the order appended, i.e. reversed)                    *)
(*   addr  taaddr (reversed address being collected)                       *)
(*   got   what the callback has produced so far: here the callback is     *)
(*         qmail-inject's rwtocc/rwhr/rwhrr = rwgeneric + rwappend, so the *)
(*         envelope addresses in call order                                *)
(*   st    "run" | "done" | "fail" (return 0: unparseable)                 *)
(***************************************************************************)
ALInit(toks) == [toks |-> toks, t |-> Len(toks), out |-> <<>>, addr |-> <<>>, ingroup |-> FALSE, wordok |-> TRUE,
                 got |-> <<>>, st |-> "run"]
Beg == 3
CommaTok == Tk("comma", <<>>)
GotAddr(s, cfgt) == LET a == RwGeneric(s.addr, cfgt)
                    IN [s EXCEPT !.out = @ \o a, !.addr = <<>>, !.got = Append(@, RwAppend(a))]
ALFlush(s, cfgt) == IF s.addr # <<>> THEN GotAddr(s, cfgt) ELSE s
ALFlushComma(s, cfgt) == IF s.addr # <<>> THEN [GotAddr(s, cfgt) EXCEPT !.out = Append(@, CommaTok)] ELSE s
OutLeft(s)  == [s EXCEPT !.out = Append(@, s.toks[s.t]), !.t = @ - 1]
AddrLeft(s) == [s EXCEPT !.addr = Append(@, s.toks[s.t]), !.t = @ - 1]
TokTypes == {"atom", "quote", "literal", "comment", "dot", "comma", "at", "left", "right", "colon", "semi"}
RECURSIVE OutWhile(_, _)       \* while (t >= beginning && t->type in S) OUTLEFT
OutWhile(s, S) == IF s.t >= Beg /\ s.toks[s.t].t \in S THEN OutWhile(OutLeft(s), S) ELSE s
RECURSIVE AddrWhile(_, _)
AddrWhile(s, S) == IF s.t >= Beg /\ s.toks[s.t].t \in S THEN AddrWhile(AddrLeft(s), S) ELSE s

ALFinish(s, cfgt) ==           \* FLUSH; copy the field name and ':'; token822_reverse(taout)
  LET s1 == ALFlush(s, cfgt)
      RECURSIVE Rest(_, _)
      Rest(o, i) == IF i < 1 THEN o ELSE Rest(Append(o, s1.toks[i]), i - 1)
  IN [s1 EXCEPT !.out = Rest(s1.out, s1.t), !.t = 0, !.st = "done"]

ALStep(s, cfgt) ==
  IF s.st # "run" THEN s
  ELSE IF s.t < Beg THEN ALFinish(s, cfgt)
  ELSE LET ty == s.toks[s.t].t IN
    CASE ty = "semi" ->
           LET s1 == ALFlushComma(s, cfgt)
           IN IF s1.ingroup THEN [s1 EXCEPT !.st = "fail"]
              ELSE OutLeft([s1 EXCEPT !.ingroup = TRUE, !.wordok = TRUE])
      [] ty = "colon" ->
           LET s1 == ALFlush(s, cfgt)
           IN IF ~s1.ingroup THEN [s1 EXCEPT !.st = "fail"]
              ELSE LET s2 == OutWhile([s1 EXCEPT !.ingroup = FALSE], TokTypes \ {"comma"})
                       s3 == IF s2.t >= Beg THEN OutLeft(s2) ELSE s2
                   IN [s3 EXCEPT !.wordok = TRUE]
      [] ty = "right" ->
           LET s1 == OutLeft(ALFlushComma(s, cfgt))
               s2 == AddrWhile(s1, TokTypes \ {"left"})
               s3 == GotAddr(s2, cfgt)                      \* "important to use address here even if it's empty: <>"
           IN IF s3.t < Beg THEN [s3 EXCEPT !.st = "fail"]
              ELSE [OutWhile(OutLeft(s3), {"comment", "atom", "quote", "at", "dot"}) EXCEPT !.wordok = FALSE]
      [] ty \in {"atom", "quote", "literal"} ->
           LET s1 == IF ~s.wordok THEN ALFlushComma(s, cfgt) ELSE s
           IN AddrLeft([s1 EXCEPT !.wordok = FALSE])
      [] ty = "comment" -> OutLeft(s)
      [] ty = "comma" -> OutLeft([ALFlush(s, cfgt) EXCEPT !.wordok = TRUE])
      [] OTHER -> AddrLeft([s EXCEPT !.wordok = TRUE])
RECURSIVE ALRunFrom(_, _)
ALRunFrom(s, cfgt) == IF s.st # "run" THEN s ELSE ALRunFrom(ALStep(s, cfgt), cfgt)
ALRun(toks, cfgt) == ALRunFrom(ALInit(toks), cfgt)
\* the rewritten field as doheaderfield() stores it
ALField(s) == Unparse(Rev(s.out))

(***************************************************************************)
(* P.6  qmail-inject.c: what doheaderfield / finishheader / exitnicely do  *)
(* with the recipient fields.  hs = the header as a sequence of            *)
(* [name, toks]; result [rc, env, kept (names of the fields passed on)].   *)
(* Parse failures of recipient fields are ignored (rwmayfail) and the      *)
(* field is kept as it was.                                                *)
(***************************************************************************)
RECURSIVE InjFields(_, _, _)
InjFields(hs, cfgt, acc) ==
  IF hs = <<>> THEN acc
  ELSE LET h == Head(hs)
           r == ALRun(h.toks, cfgt)
           a1 == IF h.name \in {"to", "cc", "bcc", "ato"} THEN [acc EXCEPT !.hr = @ \o r.got]
                 ELSE IF h.name \in {"rto", "rcc", "rbcc"} THEN [acc EXCEPT !.hrr = @ \o r.got]
                 ELSE acc
           a2 == [a1 EXCEPT !.seen = @ \cup {h.name},
                            !.kept = IF h.name \in {"bcc", "rbcc"} THEN @ ELSE Append(@, h.name)]
       IN InjFields(Tail(hs), cfgt, a2)
\* argrc: the recipients dorecip() made of the arguments; strategy as in main()
InjEnvelope(mode, hs, otherResent, argrc, cfgt) ==
  LET acc == InjFields(hs, cfgt, [hr |-> <<>>, hrr |-> <<>>, seen |-> {}, kept |-> <<>>])
      strategy == IF mode = "A" THEN (IF argrc # <<>> THEN "a" ELSE "h") ELSE mode
      recips == IF strategy # "h" THEN argrc ELSE <<>>
      flagrh == strategy # "a"
      resent == otherResent \/ acc.seen \cap {"rto", "rcc", "rbcc"} # {}
  IN [env |-> recips \o (IF flagrh THEN (IF resent THEN acc.hrr ELSE acc.hr) ELSE <<>>), kept |-> acc.kept]
\* dorecip(): quote2, token822_parse, reverse, rwgeneric, rwappend
DoRecip(a, cfgt) == LET l == Lex822(Quote2(a)) IN IF l.ok THEN RwAppend(RwGeneric(Rev(l.toks), cfgt)) ELSE Bad
=============================================================================
