------------------------------ MODULE SmtpData ------------------------------
(***************************************************************************)
(* Environment layer (E) for the SMTP DATA phase: what RFC 5321 section    *)
(* 4.5.2 says a receiver reconstructs from a payload, and the monitors of  *)
(* properties C05 (inbound decoding) and C06 (outbound encoding) phrased   *)
(* only over bytes on the wire and bytes in the queue.                     *)
(*                                                                         *)
(* Bytes are their numeric values, so the same operators judge the model   *)
(* (alphabet {CR, LF, '.', 'x'}) and records taken from the real programs  *)
(* (arbitrary bytes).                                                      *)
(***************************************************************************)
EXTENDS Integers, Sequences, FiniteSets, SequencesExt

CR  == 13
LF  == 10
DOT == 46
EOD == <<CR, LF, DOT, CR, LF>>

MinOf(S) == CHOOSE x \in S : \A y \in S : x <= y
Sorted(S) == SetToSortSeq(S, LAMBDA a, b : a < b)

\* all positions at which pattern p occurs in s
Occ(s, p) == {i \in 1..(Len(s) - Len(p) + 1) : \A j \in 1..Len(p) : s[i + j - 1] = p[j]}

\* concatenation of a sequence of sequences
RECURSIVE Flat(_)
Flat(ss) == IF ss = <<>> THEN <<>> ELSE Head(ss) \o Flat(Tail(ss))

(***************************************************************************)
(* Wire view: on the wire a line ends with CR LF and with nothing else.    *)
(***************************************************************************)
CrlfEnds(s) == {i \in 2..Len(s) : s[i] = LF /\ s[i - 1] = CR}      \* index of the LF of each CR LF
BareLFs(s)  == {i \in 1..Len(s) : s[i] = LF /\ (i = 1 \/ s[i - 1] # CR)}

\* contents of the CR LF terminated lines of s, in order (a trailing partial line is ignored)
WireLines(s) == LET e == Sorted(CrlfEnds(s))
                IN [k \in 1..Len(e) |-> SubSeq(s, (IF k = 1 THEN 1 ELSE e[k - 1] + 1), e[k] - 2)]

Unstuff(l) == IF Len(l) > 0 /\ l[1] = DOT THEN Tail(l) ELSE l

(***************************************************************************)
(* The reference receiver.  s is everything the client sent after the 354  *)
(* reply.  Result:                                                         *)
(*   st = "more"  no terminating line yet                                  *)
(*   st = "bad"   a bare LF occurred before the terminator (C05: refused)  *)
(*   st = "end"   terminated; used = number of bytes that belong to DATA,  *)
(*                lines = the message lines (dot-unstuffed, no line ends)  *)
(***************************************************************************)
RefRecv(s) ==
  LET e  == Sorted(CrlfEnds(s))
      ls == WireLines(s)
      T  == {k \in 1..Len(ls) : ls[k] = <<DOT>>}
  IN IF T = {}
       THEN [st |-> IF BareLFs(s) # {} THEN "bad" ELSE "more", used |-> 0, lines |-> <<>>]
       ELSE LET t == MinOf(T)
            IN IF \E b \in BareLFs(s) : b < e[t]
                 THEN [st |-> "bad", used |-> 0, lines |-> <<>>]
                 ELSE [st |-> "end", used |-> e[t], lines |-> [k \in 1..(t - 1) |-> Unstuff(ls[k])]]

\* the message a receiver stores: every line followed by LF
Stored(lines) == Flat([k \in 1..Len(lines) |-> lines[k] \o <<LF>>])

(***************************************************************************)
(* Message view (the file in the queue).  Two readings of "line" that the  *)
(* documents and the repository's own tests allow for a stored message:    *)
(*   A  LF, CR LF and a bare CR each end a line (tests/unittest_qmail-     *)
(*      remote.c: "cr\rlf\n" goes out as "cr\r\nlf\r\n")                   *)
(*   B  only LF ends a line, CR is ordinary data (qmail 1.03's client)     *)
(* For messages without CR both coincide with "split at LF".  C06 holds if *)
(* the receiver reconstructs the lines of either reading.                  *)
(***************************************************************************)
\* reading A: index of the last byte of each line terminator
EndsA(m) == {i \in 1..Len(m) : m[i] = LF \/ (m[i] = CR /\ (i = Len(m) \/ m[i + 1] # LF))}
LinesA(m) == LET e == Sorted(EndsA(m))
             IN [k \in 1..Len(e) |->
                   LET from == IF k = 1 THEN 1 ELSE e[k - 1] + 1
                       to   == IF m[e[k]] = LF /\ e[k] > from /\ m[e[k] - 1] = CR THEN e[k] - 2 ELSE e[k] - 1
                   IN SubSeq(m, from, to)]
CompleteA(m) == Len(m) = 0 \/ Len(m) \in EndsA(m)

EndsB(m) == {i \in 1..Len(m) : m[i] = LF}
LinesB(m) == LET e == Sorted(EndsB(m))
             IN [k \in 1..Len(e) |-> SubSeq(m, (IF k = 1 THEN 1 ELSE e[k - 1] + 1), e[k] - 1)]
CompleteB(m) == Len(m) = 0 \/ m[Len(m)] = LF

HasCR(m) == \E i \in 1..Len(m) : m[i] = CR

(***************************************************************************)
(* C06 monitor.  m = message bytes in the queue, o = bytes the client put  *)
(* on the wire between the 354 reply and the reply to the final dot,       *)
(* res = "ok" (payload sent completely) or "refused" (client gave up, in   *)
(* which case it must not have sent an end-of-data sequence) or "failed"   *)
(* (a failing call or a lost connection at an arbitrary point).            *)
(* Returns "" when the property holds for this transmission, else the name *)
(* of the clause that fails.                                               *)
(***************************************************************************)
RECURSIVE EncVerdict(_, _, _)
EncVerdict(m, o, res) ==
  LET v == <<CR, LF>> \o o                      \* the payload follows the CR LF of the DATA command line
      eods == Occ(v, EOD)
  IN IF res = "nodata"      \* the server refused the DATA command (4xx / 5xx): not one byte of the message may follow - it would be read as commands
       THEN (IF o # <<>> THEN "ContentSentAlthoughDataRefused" ELSE "")
     ELSE IF res = "failed"      \* something failed (a system call, the connection) and the client reports the message as not delivered:
       THEN (IF eods = {} THEN ""                   \* abandoned before or inside DATA: no end-of-data may have been sent;
             ELSE EncVerdict(m, o, "ok"))           \* or the failure came after the final dot: what was sent is the whole message
     ELSE IF res # "ok"
       THEN (IF eods # {} THEN "EodInRefusedPayload"
             ELSE IF CompleteA(m) /\ CompleteB(m) THEN "RefusedCompleteMessage"   \* a complete message must be sent
             ELSE "")
     ELSE IF BareLFs(o) # {} THEN "BareLF"
     ELSE IF eods # {Len(v) - 4} THEN "EodNotExactlyOnceAtEnd"
     ELSE LET r == RefRecv(o)
              mA == IF CompleteA(m) THEN m ELSE m \o <<LF>>
              mB == IF CompleteB(m) THEN m ELSE m \o <<LF>>
          IN IF r.st # "end" \/ r.used # Len(o) THEN "ReceiverDoesNotEndAtEnd"
             ELSE IF r.lines = LinesA(mA) \/ r.lines = LinesB(mB) THEN ""
             ELSE IF ~HasCR(m) THEN "NotByteIdentical"
             ELSE "LinesChanged"

(***************************************************************************)
(* C05 monitor.  s = bytes sent by the client after 354; outcome of the    *)
(* server: res in {"end","bad","eof"}, msg = bytes handed to the queue     *)
(* after the Received field, used = bytes of s consumed by the DATA phase  *)
(* (observed through what the command loop saw next; -1 if not observed).  *)
(*                                                                         *)
(* Lines of the form '.' CR x.. (x # LF) are not "dot-stuffed lines" in    *)
(* the sense of the statement (no conforming sender emits them: a line     *)
(* that starts with a dot is always sent with two); for them both the RFC  *)
(* reading (dot deleted) and the inherited one (dot kept) are accepted.    *)
(***************************************************************************)
OddDotCr(l) == Len(l) >= 2 /\ l[1] = DOT /\ l[2] = CR
LineOk(stored, wire) == stored = Unstuff(wire) \/ (OddDotCr(wire) /\ stored = wire)

NumLF(s) == Cardinality({i \in 1..Len(s) : s[i] = LF})

\* used: bytes consumed by DATA (or -1 if not observed); queued: did the queue program see a
\* complete envelope (only then can a message have been committed)
DecVerdict(s, res, msg, used, queued) ==
  LET r == RefRecv(s)
  IN IF r.st = "more" THEN (IF res # "eof" THEN "ShouldWaitForMore" ELSE IF queued THEN "QueuedWithoutTerminator" ELSE "")
     ELSE IF r.st = "bad" THEN (IF res # "bad" THEN "BareLFNotRefused" ELSE IF queued THEN "QueuedDespiteBareLF" ELSE "")
     ELSE IF res # "end" THEN "TerminatorNotRecognised"
     ELSE IF ~queued THEN "AcceptedButNotQueued"
     ELSE IF used # -1 /\ used # r.used THEN "WrongFraming"
     ELSE LET got == LinesB(msg)
              wl  == WireLines(s)
          IN IF ~CompleteB(msg) \/ Len(got) # Len(r.lines) THEN "LinesChanged"
             ELSE IF \A k \in 1..Len(got) : LineOk(got[k], wl[k]) THEN "" ELSE "LinesChanged"

(***************************************************************************)
(* Reference encoder (what a conforming sender does with a message made of *)
(* lines): used for decode(encode(m)) = m.                                 *)
(***************************************************************************)
RefEnc(lines) == Flat([k \in 1..Len(lines) |->
                         (IF Len(lines[k]) > 0 /\ lines[k][1] = DOT THEN <<DOT>> ELSE <<>>) \o lines[k] \o <<CR, LF>>])
                 \o <<DOT, CR, LF>>
=============================================================================
