SPECIFICATION Spec
INVARIANT Inv
