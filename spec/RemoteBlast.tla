---------------------------- MODULE RemoteBlast ----------------------------
(***************************************************************************)
(* Program layer (P): qmail-remote.c blast(), one action per substdio_get  *)
(* / control-flow join, composed with an environment that supplies the     *)
(* message file one byte at a time (or end of file) from a small alphabet. *)
(* TLC therefore visits every message of at most MaxLen bytes, and the     *)
(* monitor EncVerdict of SmtpData is evaluated when the procedure ends.    *)
(*                                                                         *)
(* pc values follow the C text:                                            *)
(*   "outer"  top of for(;;): get a byte; EOF -> final dot                 *)
(*   "inner"  top of while (ch != LF)                                      *)
(*   "aftercr" the get that follows a CR                                   *)
(*   "next"   the get at the bottom of the while body (EOF -> partial)     *)
(*   "done"   returned (res = "ok") or perm_partialline() (res="refused")  *)
(* FIXED selects the transcription of the repaired code (fix: commit) or   *)
(* of the code as found; the as-found variant is kept so that TLC's own    *)
(* counterexample for the finding stays reproducible.                      *)
(***************************************************************************)
EXTENDS SmtpData, TLC
CONSTANTS Alphabet, MaxLen, FIXED
VARIABLES pc, ch, inp, out, res, eof
vars == <<pc, ch, inp, out, res, eof>>

Init == pc = "outer" /\ ch = 0 /\ inp = <<>> /\ out = <<>> /\ res = "" /\ eof = FALSE

\* the environment: next byte of the file, or EOF (always possible; forced at MaxLen)
Get(c) == ~eof /\ Len(inp) < MaxLen /\ c \in Alphabet /\ inp' = Append(inp, c) /\ ch' = c /\ UNCHANGED eof
Eof    == eof' = TRUE /\ UNCHANGED <<inp, ch>>

Put(s) == out' = out \o s

Outer ==
  /\ pc = "outer"
  /\ \/ \E c \in Alphabet : /\ Get(c)
                            /\ Put(IF c = DOT THEN <<DOT>> ELSE <<>>)
                            /\ pc' = "inner" /\ UNCHANGED res
     \/ /\ Eof /\ Put(<<DOT, CR, LF>>) /\ pc' = "done" /\ res' = "ok"

\* while (ch != '\n') { if (ch == '\r') ... ; put(ch); get }   -- the part before a get
Inner ==
  /\ pc = "inner"
  /\ IF ch = LF THEN Put(<<CR, LF>>) /\ pc' = "outer"
     ELSE IF ch = CR THEN UNCHANGED out /\ pc' = "aftercr"
     ELSE Put(<<ch>>) /\ pc' = "next"
  /\ UNCHANGED <<ch, inp, res, eof>>

AfterCr ==
  /\ pc = "aftercr"
  /\ \/ \E c \in Alphabet :
          /\ Get(c)
          /\ IF c = LF
               THEN Put(<<CR, LF>>) /\ pc' = "outer"             \* CR LF: break, then the CR LF after the loop
               ELSE IF FIXED
                 THEN \* repaired: the byte after a bare CR starts a new line
                      Put(<<CR, LF>> \o (IF c = DOT THEN <<DOT>> ELSE <<>>)) /\ pc' = "inner"
                 ELSE \* as found: the byte is copied without the start-of-line treatment
                      Put(<<CR, LF, c>>) /\ pc' = "next"
          /\ UNCHANGED res
     \/ /\ Eof /\ Put(<<CR, LF>>) /\ pc' = "outer" /\ UNCHANGED res   \* CR at end of file: break

NextByte ==
  /\ pc = "next"
  /\ \/ \E c \in Alphabet : Get(c) /\ pc' = "inner" /\ UNCHANGED <<out, res>>
     \/ Eof /\ pc' = "done" /\ res' = "refused" /\ UNCHANGED out      \* perm_partialline()

Next == Outer \/ Inner \/ AfterCr \/ NextByte
Spec == Init /\ [][Next]_vars

\* ---- the property on the design
EncodingSound == pc = "done" => EncVerdict(inp, out, res) = ""
\* decode(encode(m)) = m with this package's own server reading (DecVerdict accepts what the reference accepts)
NeverStuck == pc # "done" => ENABLED Next
=============================================================================
