----------------------------- MODULE SmtpdBlast -----------------------------
(***************************************************************************)
(* Program layer (P): the five-state recogniser in qmail-smtpd.c blast(),  *)
(* one action per byte read, composed with a client that sends any byte of *)
(* a small alphabet.  The monitor of C05 (DecVerdict / RefRecv of          *)
(* SmtpData) is evaluated in *every* state, i.e. on every prefix of every  *)
(* stream: the machine has ended / refused / is still reading exactly when *)
(* the reference receiver says so, and what it handed to the queue is the  *)
(* reference decoding.                                                     *)
(*   st = 0 inside a line, 1 at line start, 2 after leading '.',           *)
(*        3 after leading '.' CR, 4 after a CR; 5 = ended, 6 = refused.      *)
(***************************************************************************)
EXTENDS SmtpData, TLC
CONSTANTS Alphabet, MaxLen
VARIABLES st, inp, out
vars == <<st, inp, out>>

Init == st = 1 /\ inp = <<>> /\ out = <<>>

Step(ch) ==
  /\ st \in 0..4 /\ Len(inp) < MaxLen
  /\ inp' = Append(inp, ch)
  /\ CASE st = 0 -> IF ch = LF THEN st' = 6 /\ UNCHANGED out
                    ELSE IF ch = CR THEN st' = 4 /\ UNCHANGED out
                    ELSE st' = 0 /\ out' = Append(out, ch)
       [] st = 1 -> IF ch = LF THEN st' = 6 /\ UNCHANGED out
                    ELSE IF ch = DOT THEN st' = 2 /\ UNCHANGED out
                    ELSE IF ch = CR THEN st' = 4 /\ UNCHANGED out
                    ELSE st' = 0 /\ out' = Append(out, ch)
       [] st = 2 -> IF ch = LF THEN st' = 6 /\ UNCHANGED out
                    ELSE IF ch = CR THEN st' = 3 /\ UNCHANGED out
                    ELSE st' = 0 /\ out' = Append(out, ch)
       [] st = 3 -> IF ch = LF THEN st' = 5 /\ UNCHANGED out
                    ELSE IF ch = CR THEN st' = 4 /\ out' = out \o <<DOT, CR>>      \* continue: the new CR is pending
                    ELSE st' = 0 /\ out' = out \o <<DOT, CR>> \o <<ch>>
       [] st = 4 -> IF ch = LF THEN st' = 1 /\ out' = Append(out, LF)
                    ELSE IF ch = CR THEN st' = 4 /\ out' = Append(out, CR)
                    ELSE st' = 0 /\ out' = out \o <<CR, ch>>
Next == \E ch \in Alphabet : Step(ch)
Spec == Init /\ [][Next]_vars

\* in every state the machine and the reference receiver agree on the prefix read so far
Agree ==
  LET r == RefRecv(inp)
  IN CASE st = 5 -> DecVerdict(inp, "end", out, Len(inp), TRUE) = ""
       [] st = 6 -> r.st = "bad"
       [] OTHER      -> r.st = "more"

\* decode(encode(m)) = m for every message made of lines over the alphabet: checked on the
\* streams that are reference encodings (a conforming sender's output)
RoundTrip ==
  st = 5 =>
    LET ls == RefRecv(inp).lines
    IN (inp = RefEnc(ls)) => out = Stored(ls)
=============================================================================
