----------------------------- MODULE RemoteModel -----------------------------
(***************************************************************************)
(* qmail-remote's smtp() (Remote!RemoteP) against the C09 monitor for      *)
(* EVERY server script over the reply classes, 1..MaxRcpt recipients.      *)
(* The environment (the server) builds its script phase by phase.          *)
(***************************************************************************)
EXTENDS Remote, TLC
CONSTANT MaxRcpt
Classes == {"ok", "odd", "4", "5", "drop", "junk"}
VARIABLES s, stage
vars == <<s, stage>>
Init == s = [greet |-> "ok", helo |-> "ok", mail |-> "ok", rcpt |-> <<>>, data |-> "ok", dot |-> "ok"] /\ stage = "greet"
Next == \/ stage = "greet" /\ \E c \in Classes : s' = [s EXCEPT !.greet = c] /\ stage' = "helo"
        \/ stage = "helo"  /\ \E c \in Classes : s' = [s EXCEPT !.helo = c]  /\ stage' = "mail"
        \/ stage = "mail"  /\ \E c \in Classes : s' = [s EXCEPT !.mail = c]  /\ stage' = "rcpt"
        \/ stage = "rcpt"  /\ Len(s.rcpt) < MaxRcpt /\ \E c \in Classes : s' = [s EXCEPT !.rcpt = Append(@, c)] /\ UNCHANGED stage
        \/ stage = "rcpt"  /\ Len(s.rcpt) >= 1 /\ stage' = "data" /\ UNCHANGED s
        \/ stage = "data"  /\ \E c \in Classes : s' = [s EXCEPT !.data = c]  /\ stage' = "dot"
        \/ stage = "dot"   /\ \E c \in Classes : s' = [s EXCEPT !.dot = c]   /\ stage' = "done"
Spec == Init /\ [][Next]_vars
Sound == stage = "done" => LET p == RemoteP(s) IN RemoteVerdict(s, p.rr, p.mr, p.dup) = ""
=============================================================================
