SPECIFICATION Spec
INVARIANT Inv
