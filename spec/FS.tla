---------------------------------- MODULE FS ----------------------------------
(***************************************************************************)
(* Environment layer (E): the part of a UNIX file system the queue and the *)
(* mailbox writers rely on, with the failure model conf-qmail stipulates:  *)
(*   - directory operations (create, link, unlink, rename) are synchronous *)
(*   - file data is durable only after fsync: `data` is what a reader sees *)
(*     now, `disk` is what survives a machine crash                        *)
(*   - a crash leaves every file with its disk image plus any prefix of    *)
(*     the data appended since, and any subset of the single-byte in-place *)
(*     overwrites made since (CrashImages gives a representative set:      *)
(*     nothing, everything, cut in the middle, all but the last byte)      *)
(* names is a set of <<path, inode>> pairs (path = [d |-> directory,       *)
(* n |-> number]); files maps the inodes of a small pool to their contents.*)
(***************************************************************************)
EXTENDS Integers, Sequences, FiniteSets
CONSTANT Inodes
VARIABLES names, files

Blank == [data |-> <<>>, disk |-> <<>>]
FsInit == names = {} /\ files = [i \in Inodes |-> Blank]

Exists(p)  == \E t \in names : t[1] = p
InoOf(p)   == (CHOOSE t \in names : t[1] = p)[2]
Data(p)    == files[InoOf(p)].data
InDir(d)   == {t[1].n : t \in {u \in names : u[1].d = d}}
P(d, n)    == [d |-> d, n |-> n]

Create(p, i) == /\ names' = names \cup {<<p, i>>}
                /\ files' = [files EXCEPT ![i] = Blank]
Link(p, q)   == names' = names \cup {<<q, InoOf(p)>>} /\ UNCHANGED files
Unlink(p)    == names' = {t \in names : t[1] # p} /\ UNCHANGED files
Rename(p, q) == names' = {t \in names : t[1] # p /\ t[1] # q} \cup {<<q, InoOf(p)>>} /\ UNCHANGED files

Pad(s, n) == s \o [k \in 1..(n - Len(s)) |-> 0]
WriteAt(old, off, b) == SubSeq(Pad(old, off), 1, off) \o b \o SubSeq(old, off + Len(b) + 1, Len(old))
Write(i, off, b) == files' = [files EXCEPT ![i].data = WriteAt(@, off, b)] /\ UNCHANGED names
Trunc(i, n)      == files' = [files EXCEPT ![i].data = SubSeq(Pad(@, n), 1, n)] /\ UNCHANGED names
Fsync(i)         == files' = [files EXCEPT ![i].disk = files[i].data] /\ UNCHANGED names

IsPrefix(a, b) == Len(a) <= Len(b) /\ SubSeq(b, 1, Len(a)) = a
\* representative post-crash images of one file
CrashImages(f) ==
  IF IsPrefix(f.disk, f.data)
    THEN {f.disk, f.data,
          SubSeq(f.data, 1, Len(f.disk) + (Len(f.data) - Len(f.disk)) \div 2),
          SubSeq(f.data, 1, IF Len(f.data) > Len(f.disk) THEN Len(f.data) - 1 ELSE Len(f.data))}
    ELSE {f.disk, f.data}        \* in-place change or truncation not yet synced: old or new image
Crash == /\ \E img \in [Inodes -> UNION {CrashImages(files[i]) : i \in Inodes}] :
              /\ \A i \in Inodes : img[i] \in CrashImages(files[i])
              /\ files' = [i \in Inodes |-> [data |-> img[i], disk |-> img[i]]]
         /\ UNCHANGED names
=============================================================================
