----------------------------- MODULE AddrInject -----------------------------
(***************************************************************************)
(* Program layer (P) for "which addresses become the envelope": the        *)
(* qmail-inject.c logic around the parser - doheaderfield (which list a    *)
(* field's addresses go to, which fields are deleted), finishheader        *)
(* (forwarded or not), main/exitnicely (recipient strategy -a/-h/-H/       *)
(* default) and dorecip (argument addresses: quote2, token822_parse,       *)
(* rwgeneric) - as transcribed in Addr.tla (InjEnvelope, DoRecip),         *)
(* composed with an environment that supplies every header of up to        *)
(* MaxFields fields (To, Cc, Bcc, Apparently-To, Resent-To, Resent-Cc,     *)
(* Resent-Bcc, Subject - each with one of three small address lists),      *)
(* every strategy, 0..2 argument addresses and "some other Resent- field   *)
(* present".  All choices are made in the initial state; the single action *)
(* runs the program.  Invariants = the clauses of ListVerdict (Addr.tla).  *)
(***************************************************************************)
EXTENDS Addr, TLC
CONSTANTS MaxFields
VARIABLES hdr, mode, args, other, res

A(s) == [t |-> "a", s |-> s]
Cfg == [dh |-> <<A(<<100>>)>>, dd |-> <<A(<<101>>), A(<<111>>)>>, pd |-> <<A(<<112>>), A(<<110>>)>>]      \* d  e.o  p.n
CfgT == [dh |-> Lex822(<<AT>> \o DomText(Cfg.dh)).toks, dd |-> Lex822(<<DOT>> \o DomText(Cfg.dd)).toks,
         pd |-> Lex822(<<DOT>> \o DomText(Cfg.pd)).toks]
Mb(l, d) == [lp |-> <<l>>, dom |-> d]
\* x@h.t        "a b"@h+ , G: y ;        (empty)
Lists == << <<[k |-> "m", m |-> Mb(<<120>>, <<A(<<104>>), A(<<116>>)>>)]>>,
            <<[k |-> "m", m |-> Mb(<<97, 32, 98>>, <<A(<<104, 43>>)>>)], [k |-> "g", ms |-> <<Mb(<<121>>, <<>>)>>]>>,
            <<>> >>
Texts == << <<120, 64, 104, 46, 116, LF>>,
            <<DQ, 97, 32, 98, DQ, AT, 104, 43, COMMA, 71, COLON, 121, SEMI, LF>>,
            <<LF>> >>
Names == {"to", "cc", "bcc", "ato", "rto", "rcc", "rbcc", "subject"}
NameText(n) == CASE n = "to" -> <<84, 111>> [] n = "cc" -> <<67, 99>> [] n = "bcc" -> <<66, 99, 99>>
                 [] n = "ato" -> <<65, 45, 84, 111>> [] n = "rto" -> <<82, 45, 84, 111>> [] n = "rcc" -> <<82, 45, 67, 99>>
                 [] n = "rbcc" -> <<82, 45, 66, 99, 99>> [] OTHER -> <<83>>
Fields == [name : Names, li : 1..3]
RECURSIVE SeqsUpTo(_, _)
SeqsUpTo(S, n) == IF n = 0 THEN {<<>>} ELSE LET R == SeqsUpTo(S, n - 1) IN R \cup {Append(r, x) : r \in {q \in R : Len(q) = n - 1}, x \in S}
ArgMenu == << <<>>, <<[lp |-> <<97, 32, 98>>, dom |-> <<A(<<104, 43>>)>>]>>,
              <<[lp |-> <<120>>, dom |-> <<>>], [lp |-> <<46, 64>>, dom |-> <<A(<<104>>)>>]>> >>
ArgText(x) == x.lp \o (IF x.dom = <<>> THEN <<>> ELSE <<AT>> \o DomText(x.dom))

Init == /\ hdr \in SeqsUpTo(Fields, MaxFields)
        /\ mode \in {"a", "h", "H", "A"}
        /\ args \in 1..3
        /\ other \in BOOLEAN
        /\ res = [st |-> "init"]
Run == /\ res.st = "init"
       /\ LET hs == [j \in 1..Len(hdr) |-> [name |-> hdr[j].name, toks |-> Lex822(NameText(hdr[j].name) \o <<COLON>> \o Texts[hdr[j].li]).toks]]
              ar == [j \in 1..Len(ArgMenu[args]) |-> DoRecip(ArgText(ArgMenu[args][j]), CfgT)]
              r == InjEnvelope(mode, hs, other, ar, CfgT)
          IN res' = [st |-> "done", env |-> r.env, kept |-> r.kept]
       /\ UNCHANGED <<hdr, mode, args, other>>
Spec == Init /\ [][Run]_<<hdr, mode, args, other, res>>

AbsFields == [j \in 1..Len(hdr) |-> [name |-> hdr[j].name, items |-> Lists[hdr[j].li]]]
EnvelopeListed == res.st = "done" => BagOf(res.env) = BagOf(ExpectedRcpts(mode, AbsFields, other, ArgMenu[args], Cfg))
BccRemoved == res.st = "done" => \A j \in 1..Len(res.kept) : res.kept[j] \notin {"bcc", "rbcc"}
OthersKept == res.st = "done" => Len(res.kept) = Cardinality({j \in 1..Len(hdr) : hdr[j].name \notin {"bcc", "rbcc"}})
=============================================================================
