------------------------------ MODULE Pop3Impl ------------------------------
(***************************************************************************)
(* Program layer (P), constant part: transcriptions of the C functions of  *)
(* qmail-pop3d.c, commands.c, scan_ulong.c, prioq.c and maildir.c that     *)
(* the state machines Pop3d, Pop3Blast and Pop3Popup are made of.  The     *)
(* shape follows the C code (same locals, same order of tests), not the    *)
(* documents - the documents are Pop3.tla.                                 *)
(*                                                                         *)
(* WordMod models the width of `unsigned long': scan_ulong as found         *)
(* accumulated result*10+c without an overflow test, i.e. modulo 2^64      *)
(* (ScanWraps = TRUE); the repaired one saturates.  TLC integers           *)
(* are 32 bit, so the model word is WordMod (0 = unbounded arithmetic);    *)
(* the number WordMod+1 plays the role 2^64+1 plays for the real program.  *)
(***************************************************************************)
EXTENDS Pop3
CONSTANTS WordMod,
          ScanWraps      \* TRUE: scan_ulong as found (result*10+c modulo the word); FALSE: as repaired by the
                         \* "fix: scan_ulong: saturate instead of wrapping around" commit (sticks at the largest word)

Wrap(v) == IF WordMod = 0 THEN v ELSE v % WordMod
Sat(v) == IF WordMod = 0 THEN v ELSE IF v >= WordMod THEN WordMod - 1 ELSE v

\* scan_ulong(s,&u): returns the number of digits consumed (pos) and the value
CScanUlong(s) ==
  LET pos == DigitPrefixLen(s)
  IN [pos |-> pos, u |-> IF ScanWraps THEN Wrap(Val(SubSeq(s, 1, pos))) ELSE Sat(Val(SubSeq(s, 1, pos)))]

\* commands(): verb = text before the first space, arg = rest with leading spaces skipped
\* (the model hands verb and arg over separately; this is the argument skipping)
RECURSIVE SkipSpaces(_)
SkipSpaces(a) == IF a # <<>> /\ a[1] = SP THEN SkipSpaces(Tail(a)) ELSE a

(***************************************************************************)
(* prioq.c: binary heap ordered by dt in a sequence (index 0 of C = 1)     *)
(***************************************************************************)
RECURSIVE PqSiftUp(_, _, _)
PqSiftUp(q, j, pe) ==          \* q has a hole at C index j
  IF j = 0 THEN [q EXCEPT ![1] = pe]
  ELSE LET i == (j - 1) \div 2
       IN IF q[i + 1].dt <= pe.dt THEN [q EXCEPT ![j + 1] = pe]
          ELSE PqSiftUp([q EXCEPT ![j + 1] = q[i + 1]], i, pe)
PqInsert(q, pe) == PqSiftUp(Append(q, pe), Len(q), pe)

RECURSIVE PqSiftDown(_, _, _)
PqSiftDown(q, i, n) ==         \* n = C index of the last element, which is being moved to the hole i
  LET j0 == i + i + 2
  IN IF j0 > n THEN [q EXCEPT ![i + 1] = q[n + 1]]
     ELSE LET j == IF q[j0].dt <= q[j0 + 1].dt THEN j0 - 1 ELSE j0      \* q[j0] is C p[j-1], q[j0+1] is C p[j]
          IN IF q[n + 1].dt <= q[j + 1].dt THEN [q EXCEPT ![i + 1] = q[n + 1]]
             ELSE PqSiftDown([q EXCEPT ![i + 1] = q[j + 1]], j, n)
PqDelMin(q) == IF q = <<>> THEN q
               ELSE LET n == Len(q) - 1 IN SubSeq(PqSiftDown(q, 0, n), 1, n)

RECURSIVE PqDrain(_)
PqDrain(q) == IF q = <<>> THEN <<>> ELSE <<q[1]>> \o PqDrain(PqDelMin(q))
RECURSIVE PqFill(_, _)
PqFill(q, es) == IF es = <<>> THEN q ELSE PqFill(PqInsert(q, Head(es)), Tail(es))

\* getlist(): the directory entries (in readdir order) go through the heap keyed by mtime
\* and come out as the message table m; entry = [dt |-> mtime, id |-> file]
CGetList(entries) == LET out == PqDrain(PqFill(<<>>, entries))
                     IN [i \in 1..Len(out) |-> [fi |-> out[i].id, del |-> FALSE]]

\* what getlist relies on: the heap hands the entries out in non-decreasing dt order, none lost
PrioqSorts(maxn) ==
  \A n \in 0..maxn : \A dts \in [1..n -> 1..n] :
     LET out == PqDrain(PqFill(<<>>, [k \in 1..n |-> [dt |-> dts[k], id |-> k]]))
     IN /\ Len(out) = n
        /\ {out[k].id : k \in 1..n} = 1..n
        /\ \A k \in 1..(n - 1) : out[k].dt <= out[k + 1].dt

(***************************************************************************)
(* msgno(): -1 = refused, else the C index                                 *)
(***************************************************************************)
CMsgno(arg, m) ==
  LET sc == CScanUlong(arg)
  IN IF sc.pos = 0 THEN -1                      \* err_syntax
     ELSE IF sc.u = 0 THEN -1                   \* err_nozero
     ELSE IF sc.u - 1 >= Len(m) THEN -1         \* err_toobig
     ELSE IF m[sc.u].del THEN -1                \* err_deleted
     ELSE sc.u - 1

\* pop3_top(): the limit handed to blast (0 = everything)
CTopLimit(arg) ==
  LET a1 == SkipSpaces(SubSeq(arg, CScanUlong(arg).pos + 1, Len(arg)))
      sc == CScanUlong(a1)
  IN IF sc.pos # 0 THEN Wrap(sc.u + 1) ELSE 0

(***************************************************************************)
(* blast(): one iteration of the for(;;) loop.  b = [pos: next unread byte *)
(* of the file, inh: inheaders, lim: limit, out: bytes put, done]          *)
(***************************************************************************)
Blast0(limit) == [pos |-> 1, inh |-> TRUE, lim |-> limit, out |-> <<>>, done |-> FALSE]

BlastStep(msg, b) ==
  LET nls   == {i \in b.pos..Len(msg) : msg[i] = LF}
      match == nls # {}
      stop  == IF match THEN MinOf(nls) ELSE Len(msg)
      raw   == SubSeq(msg, b.pos, stop)                       \* getln: the line including its LF
      fin(o) == [b EXCEPT !.out = o \o <<CR, LF, DOT, CR, LF>>, !.done = TRUE]
  IN IF ~match /\ raw = <<>> THEN fin(b.out)
     ELSE LET l   == IF match THEN SubSeq(raw, 1, Len(raw) - 1) ELSE raw       \* --line.len
              dec == b.lim # 0 /\ ~b.inh
          IN IF dec /\ b.lim - 1 = 0 THEN fin(b.out)
             ELSE LET o == b.out \o (IF l # <<>> /\ l[1] = DOT THEN <<DOT>> ELSE <<>>) \o l \o <<CR, LF>>
                      nb == [b EXCEPT !.lim = IF dec THEN @ - 1 ELSE @,
                                      !.inh = IF l = <<>> THEN FALSE ELSE @,
                                      !.out = o, !.pos = stop + 1]
                  IN IF ~match THEN fin(o) ELSE nb

RECURSIVE BlastLoop(_, _)
BlastLoop(msg, b) == IF b.done THEN b.out ELSE BlastLoop(msg, BlastStep(msg, b))
CBlast(msg, limit) == BlastLoop(msg, Blast0(limit))
=============================================================================
