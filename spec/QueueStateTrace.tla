--------------------------- MODULE QueueStateTrace ---------------------------
(***************************************************************************)
(* Trace validator T_mon for C02: the directory events (create, link,      *)
(* unlink, rename, write, fsync on queue files) of every process of a      *)
(* history - injectors, qmail-send, qmail-clean, in the total order of the *)
(* gate - are replayed; after every event every message number must be in  *)
(* one of the documented states, and every removal must respect the        *)
(* documented order (QueueState!EventVerdict, GcVerdict).                  *)
(***************************************************************************)
EXTENDS QueueState, Json, IOUtils
Runs == ndJsonDeserialize(IOEnv.RECORDS)
VARIABLES r, l, ex, ino, syn, born, prepped, bad
vars == <<r, l, ex, ino, syn, born, prepped, bad>>
Init == r \in 1..Len(Runs) /\ l = 1 /\ ex = {} /\ ino = <<>> /\ syn = {} /\ born = <<>> /\ prepped = {} /\ bad = ""

Put(f, k, v) == [x \in (DOMAIN f) \cup {k} |-> IF x = k THEN v ELSE f[x]]
NamesOf(i) == {p \in ex : ino[p] = i}
Apply(e) ==
  CASE e.op = "create" -> /\ ex' = ex \cup {<<e.d, e.n>>} /\ ino' = Put(ino, <<e.d, e.n>>, e.ino) /\ syn' = syn \ {<<e.d, e.n>>}
                          /\ born' = (IF e.d = "mess" THEN Put(born, e.n, e.t) ELSE born)
                          /\ prepped' = (IF e.d = "info" THEN prepped \cup {e.n} ELSE prepped)
    [] e.op = "link"   -> /\ ex' = ex \cup {<<e.d2, e.n2>>} /\ ino' = Put(ino, <<e.d2, e.n2>>, e.ino)
                          /\ syn' = (IF <<e.d, e.n>> \in syn THEN syn \cup {<<e.d2, e.n2>>} ELSE syn \ {<<e.d2, e.n2>>})
                          /\ born' = (IF e.d2 = "mess" THEN Put(born, e.n2, e.t) ELSE born)
                          /\ prepped' = (IF e.d2 = "mess" THEN prepped \ {e.n2} ELSE prepped)
    [] e.op = "rename" -> /\ ex' = (ex \ {<<e.d, e.n>>}) \cup {<<e.d2, e.n2>>} /\ ino' = Put(ino, <<e.d2, e.n2>>, e.ino)
                          /\ syn' = syn \ {<<e.d, e.n>>} /\ born' = (IF e.d2 = "mess" THEN Put(born, e.n2, e.t) ELSE born)
                          /\ prepped' = (IF e.d2 = "mess" THEN prepped \ {e.n2} ELSE prepped)
    [] e.op = "unlink" -> /\ ex' = ex \ {<<e.d, e.n>>} /\ syn' = syn \ {<<e.d, e.n>>} /\ UNCHANGED <<ino, born, prepped>>
    [] e.op = "write"  -> /\ syn' = syn \ NamesOf(e.ino)
                          /\ born' = [n \in DOMAIN born |-> IF <<"mess", n>> \in NamesOf(e.ino) THEN e.t ELSE born[n]]
                          /\ UNCHANGED <<ex, ino, prepped>>
    [] e.op = "fsync"  -> /\ syn' = syn \cup NamesOf(e.ino) /\ UNCHANGED <<ex, ino, born, prepped>>
    [] OTHER -> UNCHANGED <<ex, ino, syn, born, prepped>>

Next == /\ bad = "" /\ l <= Len(Runs[r].ev)
        /\ LET e == Runs[r].ev[l]
               v1 == IF e.d = "pid" /\ e.op # "link" THEN "" ELSE EventVerdict(ex, ino, syn, born, e)
               v2 == GcVerdict(ex, born, e, prepped)
           IN /\ Apply(e)
              /\ bad' = (IF v1 # "" THEN v1 ELSE IF v2 # "" THEN v2 ELSE IF ~StateTableOk(ex') THEN "EntryNotInADocumentedState" ELSE "")
        /\ l' = l + 1 /\ UNCHANGED r
Spec == Init /\ [][Next]_vars
Done == bad # "" \/ l > Len(Runs[r].ev)
Inv == /\ bad = "" \/ PrintT(<<"BADREC", r, bad, l - 1>>)
       /\ Done => PrintT(<<"CHECKED", r, r>>)
=============================================================================
