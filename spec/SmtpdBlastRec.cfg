SPECIFICATION Spec
INVARIANT Inv
