------------------------------ MODULE FoldModel ------------------------------
(***************************************************************************)
(* qmail-rspawn's report() (Spawn!FoldP) against the C09 relay monitor for *)
(* every exit status / crash and every output made of at most MaxPieces    *)
(* pieces (terminated and unterminated reports of every kind, garbage).    *)
(***************************************************************************)
EXTENDS Spawn, TLC
CONSTANT MaxPieces
Pieces == {<<114,0>>, <<104,0>>, <<115,0>>, <<75,0>>, <<90,0>>, <<68,0>>, <<120,0>>, <<0>>,
           <<114>>, <<75>>, <<120>>, <<114,120,0>>, <<75,120,0>>, <<104,75,0>>}
VARIABLES out, np, ex, cr, fin
vars == <<out, np, ex, cr, fin>>
Init == out = <<>> /\ np = 0 /\ ex = 0 /\ cr = FALSE /\ fin = FALSE
Add == ~fin /\ np < MaxPieces /\ \E p \in Pieces : out' = out \o p /\ np' = np + 1 /\ UNCHANGED <<ex, cr, fin>>
Exit == ~fin /\ \E e \in {0, 1, 100, 111} : \E c \in BOOLEAN : ex' = e /\ cr' = c /\ fin' = TRUE /\ UNCHANGED <<out, np>>
Next == Add \/ Exit
Spec == Init /\ [][Next]_vars
Sound == fin => FoldVerdict(ex, cr, out, FoldP(ex, cr, out)) = ""
=============================================================================
