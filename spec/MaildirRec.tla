---------------------------- MODULE MaildirRec ----------------------------
(***************************************************************************)
(* Record validator (T) for C12, maildir half.  One record = one run of    *)
(* the real qmail-local with a maildir default delivery.                   *)
(*                                                                         *)
(*  t = "d"  one delivery.  sender, rcpt, msg: what was to be delivered;   *)
(*    pre / ptmp: files of OTHER deliveries that were in new/ and tmp/     *)
(*    (name, inode, bytes); s0: listing before the writer's first call;    *)
(*    steps: the writer's file-system calls in order (c, res, ino) each    *)
(*    with the listing of new/ and tmp/ taken while the writer was stopped *)
(*    before its next call (gate of the shim) - so every listing is a      *)
(*    state in which the process or the machine may die; fin: listing      *)
(*    after qmail-local exited; rc: its exit code; killed: the writer was  *)
(*    killed by the controller.  Un-gated bulk runs have steps = <<>> and  *)
(*    are judged on fin and rc only (sync = 0: durability not observed).   *)
(*    A listing entry of new/ is [n, ino, d], of tmp/ [n, ino, len, d].    *)
(*  t = "g"  several concurrent deliveries dels = [sender, rcpt, msg, rc]  *)
(*    into one maildir; fin = listing of new/ afterwards.                  *)
(*                                                                         *)
(* Machine crashes are materialised here: from the calls TLC knows for     *)
(* every inode what was synced and closed when a listing was taken         *)
(* (Track), and NewEntryVerdict demands that every content the crash may   *)
(* leave (CrashClosure) is the complete message.                           *)
(***************************************************************************)
EXTENDS MailStore, Json, IOUtils, TLC
Recs  == ndJsonDeserialize(IOEnv.RECORDS)
Chunk == atoi(IOEnv.CHUNK)
N     == Len(Recs)
NCh   == (N + Chunk - 1) \div Chunk
G     == 16
VARIABLES g, k
Init == g = 0 /\ k = 0
Next == \/ g = 0 /\ g' \in 1..G /\ k' = 0
        \/ g > 0 /\ k = 0 /\ k' \in {c \in 1..NCh : c % G = g - 1} /\ g' = g
Spec == Init /\ [][Next]_<<g, k>>

Inos == 0..12
SizeIn(ls, ino) == LET a == {i \in 1..Len(ls.new) : ls.new[i].ino = ino}
                       b == {i \in 1..Len(ls.tmp) : ls.tmp[i].ino = ino}
                   IN IF a # {} THEN Len(ls.new[CHOOSE i \in a : TRUE].d)
                      ELSE IF b # {} THEN ls.tmp[CHOOSE i \in b : TRUE].len ELSE 0

\* what is known to be synced / closed of every inode after the first j steps
RECURSIVE Track(_, _)
Track(st, j) ==
  IF j = 0 THEN [i \in Inos |-> [dur |-> 0, cl |-> FALSE]]
  ELSE LET t == Track(st, j - 1)
           s == st[j]
       IN IF s.ino \notin Inos \/ s.ino = 0 THEN t
          ELSE IF s.c = "fsync" /\ s.res = 0 THEN [t EXCEPT ![s.ino].dur = SizeIn(s, s.ino)]
          ELSE IF s.c = "close" /\ s.res = 0 THEN [t EXCEPT ![s.ino].cl = TRUE]
          ELSE IF s.c = "write" THEN [t EXCEPT ![s.ino].cl = FALSE]
          ELSE IF s.c = "ftruncate" THEN [t EXCEPT ![s.ino].dur = MinI(@, SizeIn(s, s.ino))]
          ELSE t

Names(es) == {es[i].n : i \in 1..Len(es)}
Find(es, n) == es[CHOOSE i \in 1..Len(es) : es[i].n = n]

\* one listing; tr = Track at that moment; sync = durability observed in this record
ListingVerdict(r, ls, tr, sync) ==
  LET own == {i \in 1..Len(ls.new) : ls.new[i].n \notin Names(r.pre)}
  IN IF \E i \in 1..Len(r.pre) : r.pre[i].n \notin Names(ls.new) \/ Find(ls.new, r.pre[i].n) # r.pre[i]
       THEN "EntryOfAnotherDeliveryReplacedOrRemoved"
     ELSE IF \E i \in 1..Len(r.ptmp) : r.ptmp[i].n \notin Names(ls.tmp) \/ Find(ls.tmp, r.ptmp[i].n) # r.ptmp[i]
       THEN "TmpFileOfAnotherDeliveryTouched"
     ELSE IF Cardinality(own) > 1 THEN "MoreThanOneEntryInNew"
     ELSE IF own = {} THEN ""
     ELSE LET e == ls.new[CHOOSE i \in own : TRUE]
              f == IF sync THEN [data |-> e.d, dur |-> tr[e.ino].dur, cl |-> tr[e.ino].cl]
                   ELSE [data |-> e.d, dur |-> Len(e.d), cl |-> TRUE]
          IN NewEntryVerdict(f, r.sender, r.rcpt, r.msg)

HasOwn(r, ls) == \E i \in 1..Len(ls.new) : ls.new[i].n \notin Names(r.pre)

DeliveryVerdict(r) ==
  LET n    == Len(r.steps)
      sync == r.sync = 1
      v0   == ListingVerdict(r, r.s0, Track(r.steps, 0), sync)
      bad  == {j \in 1..n : ListingVerdict(r, r.steps[j], Track(r.steps, j), sync) # ""}
      vf   == ListingVerdict(r, r.fin, Track(r.steps, n), sync)
  IN IF v0 # "" THEN v0
     ELSE IF bad # {} THEN LET j == CHOOSE x \in bad : \A y \in bad : x <= y
                           IN ListingVerdict(r, r.steps[j], Track(r.steps, j), sync)
     ELSE IF vf # "" THEN vf
     ELSE IF r.rc = 0 /\ ~HasOwn(r, r.fin) THEN "SuccessReportedWithoutMessageInNew"
     ELSE IF r.rc # 0 /\ r.killed = 0 /\ HasOwn(r, r.fin) THEN "FailureReportedButMessageInNew"
     ELSE IF r.rc # 0 /\ r.clean = 1 THEN "UndisturbedDeliveryFailed"
     ELSE ""

GroupVerdict(r) ==
  LET okd == SelectSeq(r.dels, LAMBDA d : d.rc = 0)
      n   == Len(okd)
      own == SelectSeq(r.fin, LAMBDA e : e.n \notin Names(r.pre))
  IN IF \E i \in 1..Len(r.pre) : r.pre[i].n \notin Names(r.fin) \/ Find(r.fin, r.pre[i].n) # r.pre[i]
       THEN "EntryOfAnotherDeliveryReplacedOrRemoved"
     ELSE IF Len(okd) # Len(r.dels) THEN "UndisturbedDeliveryFailed"
     ELSE IF Len(own) # n \/ Cardinality(Names(own)) # n THEN "EntriesAndSuccessesDiffer"
     ELSE IF \E f \in [1..n -> 1..n] :
               /\ \A i, j \in 1..n : i # j => f[i] # f[j]
               /\ \A i \in 1..n : MdFileVerdict(own[i].d, okd[f[i]].sender, okd[f[i]].rcpt, okd[f[i]].msg) = ""
          THEN ""
     ELSE "SomeEntryIsNotItsMessage"

Verdict(r) == IF r.t = "g" THEN GroupVerdict(r) ELSE DeliveryVerdict(r)

CheckChunk(c) ==
  LET lo == (c - 1) * Chunk + 1
      hi == IF c * Chunk < N THEN c * Chunk ELSE N
  IN /\ \A i \in lo..hi : LET v == Verdict(Recs[i]) IN v = "" \/ PrintT(<<"BADREC", i, v>>)
     /\ PrintT(<<"CHECKED", lo, hi>>)
Inv == k = 0 \/ CheckChunk(k)
=============================================================================
