---------------------------- MODULE UsersLspawn ----------------------------
(***************************************************************************)
(* Program layer (P) for C11: qmail-newu (one action per line of the       *)
(* table), nughde_get() and spawn() of qmail-lspawn.c (one action per key  *)
(* tried / per identity call) and userext() of qmail-getpw.c (one action   *)
(* per candidate split), composed with an environment that supplies every  *)
(* table of at most MaxLines lines over a universe of entries (simple,     *)
(* wildcard, duplicate, overlapping, mixed case, uid 0, malformed), every  *)
(* passwd database over a universe of accounts x home ownership x lookup   *)
(* errors, every local part up to MaxLocal bytes over {a, A, b, -}, and    *)
(* (Faults) a read error at any access to the compiled database or a       *)
(* temporary stat error.                                                   *)
(*                                                                         *)
(* The compiled database is the sequence of (key, data) records in file    *)
(* order plus the record of key "" (the last bytes of all wildcard keys);  *)
(* a lookup returns the first record with that key.  The hash arithmetic   *)
(* is outside the model (32-bit); the real file is bound to this map by    *)
(* round trip in checks/c11.py.                                            *)
(*                                                                         *)
(* Invariant: in every final state the observation the run produced is     *)
(* accepted by the monitor Verdict of module Users.                        *)
(***************************************************************************)
EXTENDS Users, TLC
CONSTANTS MaxLines,     \* lines per table
          MaxLocal,     \* bytes per local part
          Mode,         \* "tables": all tables x few databases; "passwd": few tables x all databases
          ULen,         \* account names are shorter than this (32 in the real program)
          Faults,       \* TRUE: the environment may inject read / stat errors
          WcAsWritten   \* how qmail-newu records the last byte of a wildcard key: FALSE lower-cased (what the
                        \* lower-cased probe of nughde_get needs), TRUE as written in users/assign (what
                        \* qmail-newu.c does today: finding "wildcard-last-byte-uppercase"; with TRUE TLC
                        \* reports SearchIsAssign violated: table <<+a-, +a-A>>, local A-A)

a == 97
A == 65
b == 98
BRK == 45
Alpha == {a, A, b, BRK}

\* ---------------------------------------------------------------- universes
E(w, loc, k, uid, dash, ext) == [w |-> w, loc |-> loc, user |-> <<117, k>>, uid |-> uid, gid |-> 200 + k, home |-> <<47, k>>, dash |-> dash, ext |-> ext]
EntryU == <<
  E(0, <<a>>,         1, 101, <<>>,   <<>>),        \* =a
  E(0, <<A>>,         2, 102, <<>>,   <<A>>),       \* =A      duplicate of =a without regard to case
  E(1, <<a>>,         3, 103, HYPHEN, <<A>>),       \* +a      pre "A"
  E(1, <<a, BRK>>,    4, 104, HYPHEN, <<>>),        \* +a-     more specific
  E(1, <<>>,          5, 105, HYPHEN, <<>>),        \* +       catch-all
  E(0, <<a, b>>,      6, 0,   <<>>,   <<>>),        \* =ab     uid 0
  E(1, <<a, BRK, A>>, 7, 107, <<>>,   <<b>>),       \* +a-A    mixed case, overlaps +a-
  E(1, <<a>>,         8, 0,   HYPHEN, <<>>),        \* +a      duplicate wildcard, uid 0
  [w |-> 2, loc |-> <<>>, user |-> <<>>, uid |-> 0, gid |-> 0, home |-> <<>>, dash |-> <<>>, ext |-> <<>>]   \* a line with a problem
>>
NE == Len(EntryU)

RECURSIVE SeqsUpTo(_, _)
SeqsUpTo(S, n) == IF n = 0 THEN {<<>>} ELSE LET P == SeqsUpTo(S, n - 1) IN P \cup {Append(s, x) : s \in {t \in P : Len(t) = n - 1}, x \in S}

Locals == SeqsUpTo(Alpha, MaxLocal)
Tables == IF Mode = "tables" THEN {[i \in 1..Len(s) |-> EntryU[s[i]]] : s \in SeqsUpTo(1..NE, MaxLines)}
          ELSE {<<EntryU[NE]>>, <<EntryU[4]>>}       \* no users/cdb at all; one wildcard that takes a-... away from the passwd rules

ALIAS == <<a, b, a>>      \* name of the alias user in the model
Acc(name, k, uid, own) == [name |-> name, uid |-> uid, gid |-> 300 + k, home |-> <<47, 47, k>>, own |-> own]
\* per account: the states it can be in (0 = absent, 1 = owns its home, 2 = home owned by someone else, 3 = home missing, 4 = lookup error)
AccState(name, k, uid, st) == IF st = 1 THEN <<Acc(name, k, uid, uid)>> ELSE IF st = 2 THEN <<Acc(name, k, uid, uid + 1)>> ELSE IF st = 3 THEN <<Acc(name, k, uid, -1)>> ELSE <<>>
Dbs ==
  IF Mode = "tables"
    THEN {[db |-> AccState(<<a>>, 1, 11, 1) \o AccState(ALIAS, 9, 19, 2), errs |-> {}],
          [db |-> AccState(<<a>>, 1, 11, 1), errs |-> {}]}                                   \* no alias user
    ELSE {[db |-> AccState(<<a>>, 1, 11, s1) \o AccState(<<a, BRK, b>>, 2, 12, s2) \o AccState(<<b>>, 3, 0, s3)
                  \o AccState(<<A>>, 4, 14, s4) \o AccState(<<a, BRK, b, b>>, 5, 15, s5) \o AccState(ALIAS, 9, 19, IF s9 = 1 THEN 2 ELSE 0),
           errs |-> (IF s1 = 4 THEN {<<a>>} ELSE {}) \cup (IF s2 = 4 THEN {<<a, BRK, b>>} ELSE {}) \cup (IF s9 = 4 THEN {ALIAS} ELSE {})] :
          s1 \in 0..4, s2 \in {0, 1, 2, 4}, s3 \in {0, 1}, s4 \in {0, 1}, s5 \in (IF MaxLocal >= 4 THEN {0, 1} ELSE {0}), s9 \in {0, 1, 4}}

DOM == <<100>>
SENDER == <<115>>
DFLT == <<46>>

\* ---------------------------------------------------------------- state
VARIABLES tab, pw, local,        \* inputs chosen by the environment
          pc, n, tmp, twc,       \* qmail-newu: line number, records written to cdb.tmp, wildcard characters
          cdb,                   \* users/cdb: [file, recs, wc]
          lower, i, flagwild,    \* nughde_get
          ext,                   \* userext: offset of the candidate split
          nughde,                \* the six fields found
          cred, ev,              \* credentials of the child, identity calls made
          fault,                 \* an injected error happened
          obs                    \* what can be observed from outside: [rep, nex, argv, ids, grp]
vars == <<tab, pw, local, pc, n, tmp, twc, cdb, lower, i, flagwild, ext, nughde, cred, ev, fault, obs>>

NoObs == [rep |-> 0, nex |-> 0, argv |-> <<>>, ids |-> <<>>, grp |-> <<>>]
NoCdb == [file |-> FALSE, recs |-> <<>>, wc |-> {}]

Init == /\ tab \in Tables /\ pw \in Dbs /\ local \in Locals
        /\ pc = "newu" /\ n = 1 /\ tmp = <<>> /\ twc = {}
        /\ cdb = NoCdb
        /\ lower = <<>> /\ i = 0 /\ flagwild = FALSE /\ ext = 0 /\ nughde = NoId
        /\ cred = RootCred /\ ev = <<>> /\ fault = FALSE /\ obs = NoObs

Exit(rep) == pc' = "done" /\ obs' = [obs EXCEPT !.rep = rep]

\* ---------------------------------------------------------------- qmail-newu
Key(e) == IF e.w = 1 THEN <<33>> \o LowerS(e.loc) ELSE <<33>> \o LowerS(e.loc) \o <<0>>
NewuLine ==
  /\ pc = "newu" /\ n <= Len(tab) /\ tab[n].w # 2
  /\ tmp' = Append(tmp, [key |-> Key(tab[n]), e |-> tab[n]])
  /\ twc' = IF tab[n].w = 1 /\ Len(tab[n].loc) >= 1
              THEN twc \cup {IF WcAsWritten THEN tab[n].loc[Len(tab[n].loc)] ELSE Lower(tab[n].loc[Len(tab[n].loc)])}
              ELSE twc
  /\ n' = n + 1
  /\ UNCHANGED <<tab, pw, local, pc, cdb, lower, i, flagwild, ext, nughde, cred, ev, fault, obs>>
NewuBadLine ==      \* die_format: cdb.tmp is abandoned, users/cdb stays as it was
  /\ pc = "newu" /\ n <= Len(tab) /\ tab[n].w = 2
  /\ pc' = "lspawn"
  /\ UNCHANGED <<tab, pw, local, n, tmp, twc, cdb, lower, i, flagwild, ext, nughde, cred, ev, fault, obs>>
NewuFinish ==       \* the dot line: record "" -> wildchars, rename
  /\ pc = "newu" /\ n > Len(tab)
  /\ cdb' = [file |-> TRUE, recs |-> tmp, wc |-> twc]
  /\ pc' = "lspawn"
  /\ UNCHANGED <<tab, pw, local, n, tmp, twc, lower, i, flagwild, ext, nughde, cred, ev, fault, obs>>

\* ---------------------------------------------------------------- qmail-lspawn: spawn(), nughde_get()
Seek(key) == LET S == {k \in 1..Len(cdb.recs) : cdb.recs[k].key = key} IN IF S = {} THEN 0 ELSE MinOf(S)

LsTrash ==          \* if (!r[0]) _exit(0)
  /\ pc = "lspawn" /\ local = <<>>
  /\ Exit(RK)
  /\ UNCHANGED <<tab, pw, local, n, tmp, twc, cdb, lower, i, flagwild, ext, nughde, cred, ev, fault>>
LsOpen ==
  /\ pc = "lspawn" /\ local # <<>>
  /\ lower' = <<33>> \o LowerS(local) \o <<0>>
  /\ IF cdb.file THEN pc' = "wildchars" ELSE pc' = "getpw"
  /\ UNCHANGED <<tab, pw, local, n, tmp, twc, cdb, i, flagwild, ext, nughde, cred, ev, fault, obs>>
LsWildchars ==      \* cdb_seek(fd,"",0): must be there
  /\ pc = "wildchars"
  /\ i' = Len(lower) /\ flagwild' = FALSE /\ pc' = "loop"
  /\ UNCHANGED <<tab, pw, local, n, tmp, twc, cdb, lower, ext, nughde, cred, ev, fault, obs>>
CdbFault ==         \* any read of users/cdb fails: _exit(QLX_CDB)
  /\ Faults /\ pc \in {"wildchars", "loop"}
  /\ fault' = TRUE /\ Exit(RZ)
  /\ UNCHANGED <<tab, pw, local, n, tmp, twc, cdb, lower, i, flagwild, ext, nughde, cred, ev>>
Tried == ~flagwild \/ i = 1 \/ lower[i] \in cdb.wc
LsHit ==
  /\ pc = "loop" /\ Tried /\ Seek(SubSeq(lower, 1, i)) # 0
  /\ LET e == cdb.recs[Seek(SubSeq(lower, 1, i))].e
     IN nughde' = Ident(e, IF flagwild THEN Drop(local, i - 1) ELSE <<>>)
  /\ pc' = "drop"
  /\ UNCHANGED <<tab, pw, local, n, tmp, twc, cdb, lower, i, flagwild, ext, cred, ev, fault, obs>>
LsExactHit == /\ pc = "loop" /\ ~flagwild /\ LsHit
LsWildHit ==  /\ pc = "loop" /\ flagwild /\ LsHit
LsNext ==
  /\ pc = "loop" /\ (Tried => Seek(SubSeq(lower, 1, i)) = 0)
  /\ i' = i - 1 /\ flagwild' = TRUE
  /\ pc' = IF i - 1 = 0 THEN "getpw" ELSE "loop"
  /\ UNCHANGED <<tab, pw, local, n, tmp, twc, cdb, lower, ext, nughde, cred, ev, fault, obs>>
LsMiss == /\ pc = "loop" /\ Tried /\ LsNext
LsSkip == /\ pc = "loop" /\ ~Tried /\ LsNext     \* the last byte of the prefix ends no wildcard key: not looked up

\* ---------------------------------------------------------------- qmail-getpw: userext(), main()
Candidate == ext < ULen /\ (IF ext = Len(local) THEN TRUE ELSE local[ext + 1] = BRK)
Name == LowerS(SubSeq(local, 1, ext))
GpStart ==
  /\ pc = "getpw"
  /\ ext' = Len(local) /\ pc' = "userext"
  /\ UNCHANGED <<tab, pw, local, n, tmp, twc, cdb, lower, i, flagwild, nughde, cred, ev, fault, obs>>
GpAdvance ==        \* if (extension == local) return 0; --extension;
  /\ IF ext = 0 THEN pc' = "alias" /\ UNCHANGED ext ELSE ext' = ext - 1 /\ UNCHANGED pc
  /\ UNCHANGED <<tab, pw, local, n, tmp, twc, cdb, lower, i, flagwild, nughde, cred, ev, fault, obs>>
Looked == pc = "userext" /\ Candidate /\ Name \notin pw.errs
PwOf == pw.db[Acct(pw.db, Name)]
GpNotCandidate == /\ pc = "userext" /\ ~Candidate /\ GpAdvance                 \* not at a break, or the name is too long
GpNoAccount ==    /\ Looked /\ Acct(pw.db, Name) = 0 /\ GpAdvance
GpRootAccount ==  /\ Looked /\ Acct(pw.db, Name) # 0 /\ PwOf.uid = 0 /\ GpAdvance
GpHomeMissing ==  /\ Looked /\ Acct(pw.db, Name) # 0 /\ PwOf.uid # 0 /\ PwOf.own = -1 /\ GpAdvance
GpHomeNotOwned == /\ Looked /\ Acct(pw.db, Name) # 0 /\ PwOf.uid # 0 /\ PwOf.own \notin {-1, PwOf.uid} /\ GpAdvance
GpLookupError ==    \* errno == error_txtbsy: _exit(QLX_SYS)
  /\ pc = "userext" /\ Candidate /\ Name \in pw.errs
  /\ Exit(RZ)
  /\ UNCHANGED <<tab, pw, local, n, tmp, twc, cdb, lower, i, flagwild, ext, nughde, cred, ev, fault>>
GpStatFault ==      \* stat fails temporarily: _exit(QLX_NFS)
  /\ Faults /\ pc = "userext" /\ Candidate /\ Name \notin pw.errs
  /\ LET x == Acct(pw.db, Name) IN x # 0 /\ pw.db[x].uid # 0
  /\ fault' = TRUE /\ Exit(RZ)
  /\ UNCHANGED <<tab, pw, local, n, tmp, twc, cdb, lower, i, flagwild, ext, nughde, cred, ev>>
GpUser ==
  /\ pc = "userext" /\ Candidate /\ Name \notin pw.errs
  /\ LET x == Acct(pw.db, Name)
     IN /\ x # 0 /\ pw.db[x].uid # 0 /\ pw.db[x].own = pw.db[x].uid
        /\ nughde' = [user |-> pw.db[x].name, uid |-> pw.db[x].uid, gid |-> pw.db[x].gid, home |-> pw.db[x].home,
                      dash |-> IF ext < Len(local) THEN HYPHEN ELSE <<>>,
                      ext |-> IF ext < Len(local) THEN Drop(local, ext + 1) ELSE <<>>]
  /\ pc' = "drop"
  /\ UNCHANGED <<tab, pw, local, n, tmp, twc, cdb, lower, i, flagwild, ext, cred, ev, fault, obs>>
GpAlias ==
  /\ pc = "alias" /\ ALIAS \notin pw.errs /\ Acct(pw.db, ALIAS) # 0
  /\ LET u == pw.db[Acct(pw.db, ALIAS)]
     IN nughde' = [user |-> u.name, uid |-> u.uid, gid |-> u.gid, home |-> u.home, dash |-> HYPHEN, ext |-> local]
  /\ pc' = "drop"
  /\ UNCHANGED <<tab, pw, local, n, tmp, twc, cdb, lower, i, flagwild, ext, cred, ev, fault, obs>>
GpNoAlias ==        \* QLX_NOALIAS
  /\ pc = "alias" /\ (ALIAS \in pw.errs \/ Acct(pw.db, ALIAS) = 0)
  /\ Exit(RZ)
  /\ UNCHANGED <<tab, pw, local, n, tmp, twc, cdb, lower, i, flagwild, ext, nughde, cred, ev, fault>>

\* ---------------------------------------------------------------- spawn(): prot_gid, prot_uid, root check, execv
Call(c, arg) ==
  /\ ev' = Append(ev, [c |-> c, a |-> <<arg>>, ok |-> 1])
  /\ cred' = IF c = 1 THEN [cred EXCEPT !.groups = {arg}] ELSE IF c = 2 THEN [cred EXCEPT !.gid = arg] ELSE [cred EXCEPT !.uid = arg]
DropGroups == /\ pc = "drop" /\ Call(1, nughde.gid) /\ pc' = "setgid"
              /\ UNCHANGED <<tab, pw, local, n, tmp, twc, cdb, lower, i, flagwild, ext, nughde, fault, obs>>
DropGid ==    /\ pc = "setgid" /\ Call(2, nughde.gid) /\ pc' = "setuid"
              /\ UNCHANGED <<tab, pw, local, n, tmp, twc, cdb, lower, i, flagwild, ext, nughde, fault, obs>>
DropUid ==    /\ pc = "setuid" /\ Call(3, nughde.uid) /\ pc' = "rootcheck"
              /\ UNCHANGED <<tab, pw, local, n, tmp, twc, cdb, lower, i, flagwild, ext, nughde, fault, obs>>
RootRefused == /\ pc = "rootcheck" /\ cred.uid = 0        \* if (!getuid()) _exit(QLX_ROOT)
               /\ Exit(RZ)
               /\ UNCHANGED <<tab, pw, local, n, tmp, twc, cdb, lower, i, flagwild, ext, nughde, cred, ev, fault>>
Exec ==       /\ pc = "rootcheck" /\ cred.uid # 0
              /\ pc' = "done"
              /\ obs' = [rep |-> RK, nex |-> 1,
                         argv |-> <<<<45, 45>>, nughde.user, nughde.home, local, nughde.dash, nughde.ext, DOM, SENDER, DFLT>>,
                         ids |-> <<cred.uid, cred.uid, cred.uid, cred.gid, cred.gid, cred.gid>>,
                         grp |-> <<CHOOSE g \in cred.groups : TRUE>>]
              /\ UNCHANGED <<tab, pw, local, n, tmp, twc, cdb, lower, i, flagwild, ext, nughde, cred, ev, fault>>

Next == \/ NewuLine \/ NewuBadLine \/ NewuFinish
        \/ LsTrash \/ LsOpen \/ LsWildchars \/ CdbFault \/ LsExactHit \/ LsWildHit \/ LsMiss \/ LsSkip
        \/ GpStart \/ GpNotCandidate \/ GpNoAccount \/ GpRootAccount \/ GpHomeMissing \/ GpHomeNotOwned
        \/ GpLookupError \/ GpStatFault \/ GpUser \/ GpAlias \/ GpNoAlias
        \/ DropGroups \/ DropGid \/ DropUid \/ RootRefused \/ Exec
Spec == Init /\ [][Next]_vars

\* ---------------------------------------------------------------- the monitors as invariants
Malformed == \E k \in 1..Len(tab) : tab[k].w = 2
Cfg == [tab |-> IF Malformed THEN <<>> ELSE tab, db |-> pw.db, errs |-> pw.errs, alias |-> ALIAS, brk |-> BRK, ulen |-> ULen,
        mal |-> IF Malformed THEN 1 ELSE 0, rc |-> IF Malformed THEN 111 ELSE 0, chg |-> 0]
Obs == [local |-> local, dom |-> DOM, sender |-> SENDER, dflt |-> DFLT, dmg |-> IF fault THEN 1 ELSE 0,
        rep |-> obs.rep, nex |-> obs.nex, argv |-> obs.argv, ids |-> obs.ids, grp |-> obs.grp, tr |-> 1, ev |-> ev]

\* every completed run is accepted by the monitor of the E layer
Conforms == pc = "done" => Verdict(Cfg, Obs) = ""
\* the search order of nughde_get finds exactly what the declarative reading of qmail-users(5) says
SearchIsAssign == pc = "drop" /\ Assign(Cfg.tab, local).found => nughde = Assign(Cfg.tab, local).id
SearchComplete == pc \in {"getpw", "userext", "alias"} => ~Assign(Cfg.tab, local).found
\* the compiled database returns for every key what the source table says (first duplicate)
CompiledEqualsSource ==
  cdb.file => \A k \in 1..Len(tab) : LET s == Seek(Key(tab[k])) IN s # 0 /\ s <= k /\ Key(tab[s]) = Key(tab[k]) /\ cdb.recs[s].e = tab[s]
\* never root, at the last moment before the exec
NeverRootAtExec == obs.nex > 0 => (cred.uid # 0 /\ ev = <<[c |-> 1, a |-> <<nughde.gid>>, ok |-> 1], [c |-> 2, a |-> <<nughde.gid>>, ok |-> 1], [c |-> 3, a |-> <<nughde.uid>>, ok |-> 1]>>)
=============================================================================
