SPECIFICATION Spec
CONSTANTS
 MaxLines = 2
 MaxLocal = 3
 Mode = "tables"
 ULen = 4
 Faults = TRUE
 WcAsWritten = FALSE
INVARIANT Conforms
INVARIANT SearchIsAssign
INVARIANT SearchComplete
INVARIANT CompiledEqualsSource
INVARIANT NeverRootAtExec
