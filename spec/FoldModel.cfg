SPECIFICATION Spec
CONSTANT MaxPieces = 3
INVARIANT Sound
