--------------------------- MODULE DatetimeModel ---------------------------
(***************************************************************************)
(* Walks the calendar one day at a time, forwards and backwards from       *)
(* 1 January 1970, between MinYear and MaxYear, and compares the program's *)
(* arithmetic (DateP) with the calendar (DateE) on every day, at the       *)
(* seconds of the day in Tods.  Also SplitP on every t that fits 32 bits.  *)
(***************************************************************************)
EXTENDS Datetime, TLC
CONSTANTS MinYear, MaxYear
VARIABLES c, dir
Tods == {0, 1, 59, 60, 3599, 3600, 43200, 86399}
Init == c = Epoch /\ dir \in {1, -1}
Next == \/ dir = 1 /\ (c.year < MaxYear \/ c.mon < 11 \/ c.mday < 31) /\ c' = NextDay(c) /\ UNCHANGED dir
        \/ dir = -1 /\ (c.year > MinYear \/ c.mon > 0 \/ c.mday > 1) /\ c' = PrevDay(c) /\ UNCHANGED dir
Spec == Init /\ [][Next]_<<c, dir>>

FieldsAgree == \A tod \in Tods : LET p == DateP(c.day, tod)  e == DateE(c, tod)
                                 IN p.year = e.year /\ p.mon = e.mon /\ p.mday = e.mday /\ p.wday = e.wday /\ p.hour = e.hour /\ p.min = e.min /\ p.sec = e.sec
YdayAgrees == DateP(c.day, 0).yday = DateE(c, 0).yday
\* what the code does: from March to December of a year divisible by 100 and not by 400 its day of the year is one too large
\* (the leap day is assumed from the position in the four-year cycle alone); no program of the suite reads that field
YdayAsCoded == DateP(c.day, 0).yday = DateE(c, 0).yday + (IF c.year % 100 = 0 /\ c.year % 400 # 0 /\ c.mon >= 2 THEN 1 ELSE 0)
SplitAgrees == (c.day > -24000 /\ c.day < 24000) => \A tod \in Tods : SplitP(c.day * 86400 + tod) = [tod |-> tod, day |-> c.day]
\* sanity: the walk really reaches the ends
ReachesEnd == ~(c.year = MaxYear /\ c.mon = 11 /\ c.mday = 31)
=============================================================================
