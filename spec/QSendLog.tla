------------------------------- MODULE QSendLog -------------------------------
(***************************************************************************)
(* X02 (beyond the listed properties): the activity record tells the truth.*)
(* qmail-send prints one line per activity (qmail-log(5)); operators and   *)
(* qmailanalog rely on it.  This monitor runs beside QSendMon on the same  *)
(* event stream, extended by one `log` event per completed line (k = kind  *)
(* of line: start, K / D / Z / G (result of a delivery), status, new,      *)
(* info, bounce, triple, end, exiting, warn, other), and checks, using     *)
(* QSendMon's state BEFORE the event (st):                                 *)
(*  - delivery numbers start at 1 and increase by 1; every delivery        *)
(*    command handed to a spawner was announced by a "starting delivery"   *)
(*    line naming that message, channel and recipient;                     *)
(*  - every result line follows a report for that delivery and says what   *)
(*    the report said (a temporary failure past the queue lifetime is      *)
(*    logged as a failure);                                                *)
(*  - every status line shows the number of deliveries started and not yet *)
(*    finished per channel and the limits in force (the smaller of the     *)
(*    configured concurrency and the spawner's announced limit);           *)
(*  - "info msg" follows "new msg" and names the envelope sender;          *)
(*  - "bounce msg" is printed only after a notice was queued, and before   *)
(*    the bounce record goes; a failing double bounce is discarded only    *)
(*    with a "triple bounce" line; "end msg" only when every recipient is  *)
(*    finished, and before the message goes;                               *)
(*  - nothing undocumented is printed.                                     *)
(* Histories with injected failures or crashes are not judged (a failing   *)
(* write may hit the record itself).                                       *)
(***************************************************************************)
EXTENDS QSendMon

LogInit == [act |-> {}, open |-> {}, run |-> {}, rep |-> {}, ended |-> {}, bq |-> {}, tr |-> {}, news |-> {}, last |-> 0]
LR(lg, v) == [lg |-> lg, v |-> v]
Reset(lg) == [LogInit EXCEPT !.news = lg.news]
OnChan(S, c) == Cardinality({y \in S : y[2] = c})

LogStep(lg, st, e) ==
  LET n == e.n
      known == n \in 1..NMAX /\ st.msgs[n].alive
  IN
  IF st.crashed \/ st.faulted \/ st.lossy THEN LR(lg, "")
  ELSE CASE e.op = "log" ->
         (CASE e.k = "start" ->
                 IF e.m # lg.last + 1 THEN LR(lg, "X02:DeliveryNumbersNotConsecutive")
                 ELSE LR([lg EXCEPT !.last = e.m, !.open = @ \cup {<<e.m, e.c, n, e.a>>}, !.act = @ \cup {<<e.m, e.c>>}], "")
            [] e.k \in {"K", "D", "Z", "G"} ->
                 LET hit == {x \in lg.rep : x[1] = e.m}
                 IN IF hit = {} THEN LR(lg, "X02:DeliveryResultLoggedWithoutReport")
                    ELSE IF Pick(hit)[2] # e.k THEN LR(lg, "X02:LoggedResultDiffersFromReport")
                    ELSE LR([lg EXCEPT !.rep = @ \ hit, !.act = {y \in @ : y[1] # e.m}], "")
            [] e.k = "status" ->
                 IF e.rc[1] # OnChan(lg.act, 0) \/ e.rc[3] # OnChan(lg.act, 1) THEN LR(lg, "X02:StatusCountsWrong")
                 ELSE IF e.rc[2] # Limit(st, 0) \/ e.rc[4] # Limit(st, 1) THEN LR(lg, "X02:StatusLimitsWrong")
                 ELSE LR(lg, "")
            [] e.k = "new" -> LR([lg EXCEPT !.news = @ \cup {n}], "")
            [] e.k = "info" ->
                 IF n \notin lg.news THEN LR(lg, "X02:InfoLineWithoutNewMsgLine")
                 ELSE IF known /\ e.s > 0 /\ e.s # st.msgs[n].s THEN LR(lg, "X02:InfoLineSenderWrong")
                 ELSE LR([lg EXCEPT !.news = @ \ {n}], "")
            [] e.k = "end" ->
                 IF known /\ st.msgs[n].prepped /\ \E i \in 1..Len(st.msgs[n].recs) : ~Finished(st.msgs[n].recs[i])
                   THEN LR(lg, "X02:EndLoggedWithUnfinishedRecipient")
                 ELSE LR([lg EXCEPT !.ended = @ \cup {n}], "")
            [] e.k = "bounce" ->
                 IF n \notin lg.bq THEN LR(lg, "X02:BounceLoggedWithoutQueuedNotice") ELSE LR([lg EXCEPT !.bq = @ \ {n}], "")
            [] e.k = "triple" -> LR([lg EXCEPT !.tr = @ \cup {n}], "")
            [] e.k = "other" -> LR(lg, "X02:UndocumentedLogLine")
            [] OTHER -> LR(lg, ""))
       [] e.op = "delcmd" ->
            \* the announcement precedes the command; an address the record shows only sanitised is matched by message and channel
            LET hit == {x \in lg.open : x[2] = e.c /\ x[3] = n /\ (x[4] = e.a \/ x[4] <= 0)}
            IN IF hit = {} THEN LR(lg, "X02:DeliveryStartedWithoutLogLine")
               ELSE LET x == CHOOSE y \in hit : \A z \in hit : y[1] <= z[1]
                    IN LR([lg EXCEPT !.open = @ \ {x}, !.run = @ \cup {<<x[1], e.c, e.d>>}], "")
       [] e.op = "report" ->
            LET hit == {x \in lg.run : x[2] = e.c /\ x[3] = e.d}
                fs == {f \in st.fl : f[1] = e.c /\ f[2] = e.d}
                expired == fs # {} /\ e.k = "Z" /\ LET f == Pick(fs) IN st.msgs[f[3]].recs[f[4]].tatt > st.msgs[f[3]].birth + st.life
                cls == IF expired THEN "D" ELSE IF e.k \in {"K", "Z", "D"} THEN e.k ELSE "G"
            IN IF hit = {} THEN LR(lg, "")
               ELSE LR([lg EXCEPT !.run = @ \ hit, !.rep = @ \cup {<<Pick(hit)[1], cls>>}], "")
       [] e.op = "bounceq" -> IF e.ok = 1 /\ n \in 1..NMAX THEN LR([lg EXCEPT !.bq = @ \cup {n}], "") ELSE LR(lg, "")
       [] e.op = "rmbounce" ->
            IF ~known THEN LR(lg, "")
            ELSE IF st.msgs[n].form = "dbl" THEN (IF n \notin lg.tr THEN LR(lg, "X02:DiscardWithoutTripleBounceLine") ELSE LR([lg EXCEPT !.tr = @ \ {n}], ""))
            ELSE IF n \in lg.bq THEN LR(lg, "X02:BounceRecordRemovedBeforeBounceLogged")
            ELSE LR(lg, "")
       [] e.op = "rminfo" ->
            IF ~known \/ e.extra # 1 \/ ~st.msgs[n].prepped THEN LR(lg, "")
            ELSE IF n \notin lg.ended THEN LR(lg, "X02:MessageRemovedWithoutEndLine")
            ELSE LR([lg EXCEPT !.ended = @ \ {n}], "")
       [] e.op \in {"crash", "sendexit", "stopped", "start"} -> LR(Reset(lg), "")
       [] OTHER -> LR(lg, "")
=============================================================================
