SPECIFICATION Spec
CONSTANTS
 Procs = {1}
 Names = {"a"}
 Msgs <- SmallMsgs
 Progs <- DocProgs
 MaxFaults = 1
 FullLoss = TRUE
INVARIANT NewIsComplete
INVARIANT SuccessIffNew
INVARIANT UniqueName
PROPERTY NewStable
