------------------------------ MODULE QSendMon ------------------------------
(***************************************************************************)
(* Environment layer (E): the monitors of C03, C04, C14 (structure), C15   *)
(* (timing), C16 (wake-up and time-outs) and C18 (report channels) over    *)
(* the OBSERVABLE events of a running queue manager: messages accepted by  *)
(* qmail-queue, recipient lists written by the daemon, delivery commands   *)
(* on descriptors 1/3, reports fed on 2/4, one-byte marks, bounce records, *)
(* bounce messages queued, files removed, crashes, signals, the clock, the *)
(* select time-out at every quiescent point.                               *)
(*                                                                         *)
(* The monitor state is a ghost history of what an outside observer has    *)
(* seen; Step(e) updates it for one event and returns the name of the      *)
(* clause of a property the event violates ("" if none).  Nothing here     *)
(* depends on how qmail-send is organised internally.                      *)
(*                                                                         *)
(*  msgs[n]  = [alive, s, rc, prepped, birth, recs, bounced, bq, lostnote, *)
(*              chgone, bgone, dbl]                                        *)
(*  recs[i]  = [c, pos, a, mark, last, noted, kc, att, fl, tatt]           *)
(*    last = class of the last report for an attempt of this recipient:    *)
(*           "" none, K, Z, D, G (garbled), E (Z on a pass that started    *)
(*           after the queue lifetime: counts as permanent)                *)
(*  fl[<<c,d>>] in flight: delivery number d on channel c -> <<n, i>>      *)
(***************************************************************************)
EXTENDS Integers, Sequences, FiniteSets, TLC, Bounce
CONSTANTS NMAX          \* message numbers are 1..NMAX (renumbered by first appearance)

BlankMsg == [alive |-> FALSE, seen |-> FALSE, s |-> 0, rc |-> <<>>, prepped |-> FALSE, birth |-> 0, recs |-> <<>>, bounced |-> {}, bq |-> FALSE,
             lostnote |-> FALSE, chgone |-> <<FALSE, FALSE>>, bgone |-> TRUE, isbounce |-> FALSE, form |-> "", base |-> 0, todo |-> FALSE]
InitMon == [msgs |-> [n \in 1..NMAX |-> BlankMsg], fl |-> {}, conc |-> <<0, 0>>, ann |-> <<0, 0>>, crashed |-> FALSE, lossy |-> FALSE,
            now |-> 0, term |-> FALSE, alrm |-> 0, dead |-> <<FALSE, FALSE>>, life |-> 604800, up |-> FALSE, lastcrash |-> 0,
            eidx |-> 0, didx |-> 0, dbto |-> 0, seq |-> 0, faulted |-> FALSE, starts |-> 0, pass |-> <<0, 0>>]

MinI(a, b) == IF a < b THEN a ELSE b
Limit(st, c) == MinI(st.conc[c + 1], st.ann[c + 1])
InFlightOn(st, c) == {f \in st.fl : f[1] = c}
SeqToBag(s) == [x \in {s[i] : i \in 1..Len(s)} |-> Cardinality({i \in 1..Len(s) : s[i] = x})]
RecIdx(m, c, a) == {i \in 1..Len(m.recs) : m.recs[i].c = c /\ m.recs[i].a = a}
RecAt(m, c, pos) == {i \in 1..Len(m.recs) : m.recs[i].c = c /\ m.recs[i].pos = pos}
RecOf(m, a) == {i \in 1..Len(m.recs) : m.recs[i].a = a}
Pick(S) == CHOOSE x \in S : TRUE
Permanent(l) == l \in {"D", "E"}
\* a recipient is finished once its mark is written, or its success / permanent failure was reported and (for a failure) recorded
Finished(rec) == rec.mark \/ rec.last = "K" \/ (Permanent(rec.last) /\ rec.noted)

\* floor square root by search (ages in the recorded histories are far below 10^7)
Isqrt(x) == IF x <= 0 THEN 0 ELSE CHOOSE y \in 0..3200 : y * y <= x /\ x < (y + 1) * (y + 1)
Skip(c) == IF c = 0 THEN 10 ELSE 20
Backoff(birth, t, c) == IF birth > t THEN birth + Skip(c) * Skip(c) ELSE LET y == Isqrt(t - birth) + Skip(c) IN birth + y * y

R(st, v) == [st |-> st, v |-> v]

(***************************************************************************)
(* One event.  e is a record with the fields of lib/qsproj.py.             *)
(***************************************************************************)
Step(st0, e, strict) ==
  LET st == [st0 EXCEPT !.now = IF e.t > st0.now THEN e.t ELSE st0.now, !.seq = st0.seq + 1]
      n  == e.n
      m  == IF n \in 1..NMAX THEN st.msgs[n] ELSE BlankMsg
  IN
  CASE e.op = "start" ->
         R([st EXCEPT !.pass = <<0, 0>>, !.conc = <<e.conc[1], e.conc[2]>>, !.ann = <<e.announce[1], e.announce[2]>>, !.fl = {}, !.term = FALSE,
                      !.dead = <<FALSE, FALSE>>, !.up = TRUE, !.starts = st.starts + 1, !.eidx = e.s, !.didx = e.d, !.dbto = e.a, !.life = e.pos], "")
    [] e.op = "accept" ->
         IF n \notin 1..NMAX THEN R(st, "")
         ELSE IF m.alive THEN R(st, "C02:MessageNumberSharedByTwoMessages")
         ELSE R([st EXCEPT !.msgs[n] = [BlankMsg EXCEPT !.alive = TRUE, !.seen = TRUE, !.s = e.s, !.rc = e.rc, !.isbounce = (e.extra = 1), !.birth = e.t, !.form = e.k, !.base = e.to, !.todo = TRUE]], "")
    [] e.op = "prep" ->
         IF ~m.alive THEN R(st, "")
         ELSE LET recs == [i \in 1..Len(e.recs) |-> [c |-> e.recs[i][1], pos |-> e.recs[i][2], a |-> e.recs[i][3], mark |-> FALSE, last |-> "",
                                                       noted |-> FALSE, kc |-> 0, att |-> 0, fl |-> FALSE, tatt |-> 0, satt |-> 0, free |-> TRUE, topen |-> FALSE, alrmed |-> FALSE]]
                  addrs == [i \in 1..Len(recs) |-> recs[i].a]
                  \* a message preprocessed again (after a crash) keeps what was already reported for its recipients
                  carry(i) == IF m.prepped /\ RecOf(m, recs[i].a) # {} THEN LET o == m.recs[Pick(RecOf(m, recs[i].a))] IN [recs[i] EXCEPT !.kc = o.kc, !.att = o.att] ELSE recs[i]
              IN IF strict /\ SeqToBag(addrs) # SeqToBag(m.rc) THEN R(st, "C03:RecipientDroppedOrDuplicatedAtPreprocessing")
                 ELSE IF m.prepped /\ ~st.crashed THEN R(st, "C02:MessagePreprocessedTwice")
                 \* (a message whose todo entry could not be removed is preprocessed again at the next scan: that is harmless only
                 \* if no delivery of it was started in between - the daemon must not schedule it before the cleaner confirmed)
                 ELSE IF ~st.crashed /\ \E i \in 1..Len(m.recs) : m.recs[i].att > 0 THEN R(st, "C04:MessagePreprocessedAgainAfterDeliveriesStarted")
                 ELSE IF ~m.todo THEN R(st, "C02:PreprocessedWithoutTodoEntry")
                 ELSE R([st EXCEPT !.msgs[n].prepped = TRUE, !.msgs[n].birth = e.t, !.msgs[n].recs = [i \in 1..Len(recs) |-> carry(i)],
                                   !.msgs[n].chgone = <<~\E i \in 1..Len(recs) : recs[i].c = 0, ~\E i \in 1..Len(recs) : recs[i].c = 1>>], "")
    [] e.op = "delcmd" ->
         LET c == e.c
             idx == IF m.alive THEN RecIdx(m, c, e.a) ELSE {}
         IN IF ~m.alive \/ idx = {} THEN R(st, "C04:DeliveryCommandForUnknownRecipient")
            ELSE LET i == Pick(idx)
                     rec == m.recs[i]
                     f == <<c, e.d, n, i>>
                 IN IF rec.mark THEN R(st, "C04:FinishedRecipientAttemptedAgain")
                    ELSE IF rec.fl THEN R(st, "C04:TwoAttemptsInFlightForOneRecipient")
                    ELSE IF Cardinality(InFlightOn(st, c)) >= Limit(st, c) THEN R(st, "C04:ConcurrencyLimitExceeded")
                    ELSE IF \E g \in st.fl : g[1] = c /\ g[2] = e.d THEN R(st, "C04:DeliveryNumberInUse")
                    ELSE IF st.term THEN R(st, "C03:DeliveryStartedAfterTerm")
                    ELSE IF strict /\ ~st.faulted /\ st.starts <= 1 /\      \* (after a restart the order follows the saved times, see the C15 known finding)
                            (LET dueOf(k, j) == LET q == st.msgs[k].recs[j] IN
                                                  IF q.att = 0 THEN st.msgs[k].birth ELSE IF q.alrmed THEN st.alrm ELSE IF st.lastcrash > q.satt THEN 0 ELSE Backoff(st.msgs[k].birth, q.tatt, q.c)
                                 mine == dueOf(n, i)
                             IN \E k \in 1..NMAX : k # n /\ st.msgs[k].alive /\ st.msgs[k].prepped /\ ~(\E f2 \in st.fl : f2[3] = k /\ st.msgs[k].recs[f2[4]].c = c) /\
                                   \E j \in 1..Len(st.msgs[k].recs) : LET q == st.msgs[k].recs[j] IN
                                        q.c = c /\ ~q.mark /\ ~q.fl /\ q.free /\ dueOf(k, j) < mine /\ dueOf(k, j) + 1 < e.t
                                        /\ st.pass[c + 1] # n                                                  \* this delcmd opens a new pass of message n (no pass of n over this list is open: event passeof)
                                        /\ ~(\E f3 \in st.fl : f3[3] = n /\ st.msgs[n].recs[f3[4]].c = c)
                                        /\ \A j2 \in 1..Len(st.msgs[n].recs) : st.msgs[n].recs[j2].c = c => (st.msgs[n].recs[j2].mark \/ st.msgs[n].recs[j2].satt < rec.satt \/ j2 = i \/ st.msgs[n].recs[j2].att = 0))
                         THEN R(st, "C15:LaterDueMessageServedBeforeEarlierDue")
                    ELSE IF strict /\ rec.att > 0 /\ ~rec.alrmed /\ st.lastcrash <= rec.satt /\ rec.free /\ e.t < Backoff(m.birth, rec.tatt, c)
                         THEN R(st, IF rec.topen THEN "C15:RetriedBeforeBackoffTime:PassOpenAtTerm" ELSE "C15:RetriedBeforeBackoffTime")
                    ELSE R([st EXCEPT !.pass[c + 1] = n, !.fl = st.fl \cup {f}, !.msgs[n].recs[i].fl = TRUE, !.msgs[n].recs[i].att = rec.att + 1,
                                      !.msgs[n].recs[i].tatt = e.t, !.msgs[n].recs[i].satt = st.seq, !.msgs[n].recs[i].last = "", !.msgs[n].recs[i].free = TRUE, !.msgs[n].recs[i].topen = FALSE, !.msgs[n].recs[i].alrmed = FALSE], "")
    [] e.op = "report" ->
         LET fs == {f \in st.fl : f[1] = e.c /\ f[2] = e.d}
         IN IF fs = {} THEN R(st, "")                       \* a report for nothing in flight: must change nothing (checked by what follows)
            ELSE LET f == Pick(fs)
                     mm == st.msgs[f[3]]
                     rec == mm.recs[f[4]]
                     cls == IF e.k = "Z" /\ rec.tatt > mm.birth + st.life THEN "E" ELSE e.k
                 IN IF e.k = "K" /\ rec.kc >= 1 /\ ~st.crashed /\ ~st.faulted THEN R(st, "C04:RecipientDeliveredTwiceWithoutCrash")
                    ELSE R([st EXCEPT !.fl = st.fl \ {f}, !.msgs[f[3]].recs[f[4]].fl = FALSE, !.msgs[f[3]].recs[f[4]].last = cls,
                                      !.msgs[f[3]].recs[f[4]].kc = rec.kc + (IF e.k = "K" THEN 1 ELSE 0)], "")
    [] e.op = "mark" ->
         LET idx == IF m.alive THEN RecAt(m, e.c, e.pos) ELSE {}
         IN IF idx = {} THEN R(st, "C03:MarkAtUnknownRecord")
            ELSE LET i == Pick(idx)
                     rec == m.recs[i]
                 IN IF rec.last \notin {"K", "D", "E"} THEN R(st, "C03:RecipientMarkedDoneWithoutSuccessOrFailureReport")
                    ELSE IF Permanent(rec.last) /\ ~rec.noted THEN R(st, "C03:FailureMarkedBeforeBounceRecordWritten")
                    ELSE R([st EXCEPT !.msgs[n].recs[i].mark = TRUE], "")
    [] e.op = "note" ->
         LET idx == IF m.alive /\ e.a # 0 THEN RecOf(m, e.a) ELSE {}
         IN IF idx = {} THEN R(st, IF strict THEN "C14:BounceRecordForUnknownRecipient" ELSE "")
            ELSE LET i == Pick(idx) IN
                 IF ~Permanent(m.recs[i].last) THEN R(st, "C14:BounceRecordWithoutPermanentFailure")
                 ELSE R([st EXCEPT !.msgs[n].recs[i].noted = TRUE, !.msgs[n].bgone = FALSE, !.msgs[n].bq = FALSE], "")
    [] e.op = "rmchan" ->
         IF ~m.alive THEN R(st, "")
         ELSE IF ~m.prepped THEN R(st, "")             \* stale files of an earlier preprocessing attempt
         ELSE IF m.todo THEN R([st EXCEPT !.msgs[n].prepped = FALSE], "")   \* todo/n still there: the lists are rebuilt from it (after a crash)
         ELSE IF \E i \in 1..Len(m.recs) : m.recs[i].c = e.c /\ ~Finished(m.recs[i]) THEN R(st, "C03:RecipientListRemovedWithUnfinishedRecipient")
         ELSE R([st EXCEPT !.msgs[n].chgone[e.c + 1] = TRUE], "")
    [] e.op = "bounceq" ->
         IF ~m.alive THEN R(st, "")
         ELSE IF e.ok = 0 THEN R(st, "")
         ELSE LET failed == {m.recs[i].a : i \in {j \in 1..Len(m.recs) : m.recs[j].noted}}
                  named == {e.names[i] : i \in 1..Len(e.names)}
              IN IF strict /\ ~(failed \subseteq named) /\ ~m.lostnote THEN R(st, "C14:FailedRecipientNotNamedInBounce")
                 ELSE IF strict /\ ~(named \subseteq {m.recs[i].a : i \in 1..Len(m.recs)}) THEN R(st, "C14:BounceNamesForeignRecipient")
                 ELSE IF strict /\ ~st.crashed /\ Len(e.names) # Cardinality(named) THEN R(st, "C14:RecipientNamedTwiceInBounce")
                 ELSE IF e.extra # 1 THEN R(st, "C14:BounceNotToExactlyOneRecipient")
                 ELSE IF m.form = "dbl" THEN R(st, "C14:FailingDoubleBounceNotDiscarded")
                 ELSE IF m.form \in {"plain", "verp"} /\ ~(e.s = st.eidx /\ e.to = m.base) THEN R(st, "C14:BounceNotToEnvelopeSenderWithEmptySender")
                 ELSE IF m.form = "empty" /\ ~(e.s = st.didx /\ e.to = st.dbto) THEN R(st, "C14:DoubleBounceNotToPostmasterWithSpecialSender")
                 ELSE LET bytesOf(a) == LET hit == {i \in 1..Len(e.atab) : e.atab[i][1] = a} IN IF hit = {} THEN <<>> ELSE e.atab[Pick(hit)][2]
                          nv == IF e.b = <<>> \/ m.lostnote THEN "" ELSE NoticeVerdict(e.b, {bytesOf(a) : a \in failed}, e.pfx, st.crashed)
                      IN IF nv # "" THEN R(st, "C14:" \o nv)
                         ELSE IF e.b # <<>> /\ OversizedParagraph(e.b) THEN R(st, "C18:OversizedReportNotTruncated")
                         ELSE R([st EXCEPT !.msgs[n].bounced = m.bounced \cup (IF e.b = <<>> THEN named ELSE failed \cup named), !.msgs[n].bq = TRUE], "")
    [] e.op = "rmbounce" ->
         IF ~m.alive THEN R(st, "")
         ELSE IF m.form = "dbl"          \* the documented discard of a failing double bounce
              THEN R([st EXCEPT !.msgs[n].bgone = TRUE, !.msgs[n].bounced = m.bounced \cup {m.recs[i].a : i \in {j \in 1..Len(m.recs) : m.recs[j].noted}}], "")
         ELSE IF ~m.bq /\ ~m.bgone THEN R(st, "C14:BounceRecordRemovedBeforeNoticeQueued")
         ELSE R([st EXCEPT !.msgs[n].bgone = TRUE], "")
    [] e.op = "discard" -> R([st EXCEPT !.msgs[n].bq = TRUE, !.msgs[n].bounced = m.bounced \cup {m.recs[i].a : i \in {j \in 1..Len(m.recs) : m.recs[j].noted}}], "")
    [] e.op = "rminfo" ->
         IF ~m.alive \/ e.extra # 1 THEN R(st, "")          \* (the daemon removes a stale info/ during preprocessing as well)
         ELSE IF ~m.prepped THEN R(st, "")
         ELSE IF \E i \in 1..Len(m.recs) : ~(m.recs[i].kc >= 1 \/ m.recs[i].a \in m.bounced \/ (m.lostnote /\ m.recs[i].mark))
                THEN R(st, "C03:MessageRemovedWithRecipientNeitherDeliveredNorBounced")
         ELSE IF ~(m.chgone[1] /\ m.chgone[2]) THEN R(st, "C02:InfoRemovedBeforeRecipientLists")
         ELSE IF ~m.bgone THEN R(st, "C02:InfoRemovedBeforeBounceRecord")
         ELSE R([st EXCEPT !.msgs[n].alive = FALSE], "")
    [] e.op = "rmtodo" -> IF n \in 1..NMAX THEN R([st EXCEPT !.msgs[n].todo = FALSE], "") ELSE R(st, "")
    [] e.op = "rmmess" ->
         IF n \in 1..NMAX /\ m.alive /\ m.prepped THEN R(st, "C02:MessageBodyRemovedWhileInfoPresent") ELSE R(st, "")
    [] e.op = "crash" ->
         R([st EXCEPT !.pass = <<0, 0>>, !.fl = {}, !.crashed = TRUE, !.lossy = (st.lossy \/ e.lossy = 1), !.term = FALSE, !.up = FALSE, !.lastcrash = st.seq,
                      !.msgs = [k \in 1..NMAX |-> [st.msgs[k] EXCEPT !.recs = [i \in 1..Len(st.msgs[k].recs) |-> [st.msgs[k].recs[i] EXCEPT !.fl = FALSE, !.last = ""]]]]], "")
    [] e.op = "lost" ->
         LET idx == RecAt(m, e.c, e.pos)
         IN IF idx = {} THEN R(st, "") ELSE R([st EXCEPT !.msgs[n].recs[Pick(idx)].mark = FALSE], "")
    [] e.op = "lostnote" -> R([st EXCEPT !.msgs[n].lostnote = TRUE], "")
    [] e.op = "sig" ->
         IF e.k = "TERM"
           THEN \* remember which passes are still open (blocked on a saturated channel with a delivery in flight): see known_findings.txt
                LET open == {<<f[3], f[1]>> : f \in {g \in st.fl : Cardinality(InFlightOn(st, g[1])) >= Limit(st, g[1])}}
                IN R([st EXCEPT !.term = TRUE,
                                !.msgs = [k \in 1..NMAX |-> [st.msgs[k] EXCEPT !.recs = [i \in 1..Len(st.msgs[k].recs) |->
                                            IF <<k, st.msgs[k].recs[i].c>> \in open THEN [st.msgs[k].recs[i] EXCEPT !.topen = TRUE] ELSE st.msgs[k].recs[i]]]]], "")
         ELSE IF e.k = "ALRM"
           THEN \* everything that is waiting becomes due; a message with a delivery in flight on a channel is being attempted already
                LET busy == {<<f[3], f[1]>> : f \in st.fl}
                \* (pqrun() sets the retry time of every waiting entry to the time of the signal - not to zero: a message that arrived
                \* in the same second is not later than they are)
                IN R([st EXCEPT !.alrm = e.t,
                                !.msgs = [k \in 1..NMAX |-> [st.msgs[k] EXCEPT !.recs = [i \in 1..Len(st.msgs[k].recs) |->
                                            IF <<k, st.msgs[k].recs[i].c>> \notin busy THEN [st.msgs[k].recs[i] EXCEPT !.alrmed = TRUE] ELSE st.msgs[k].recs[i]]]]], "")
         ELSE R(st, "")
    [] e.op = "spawnerdied" -> R([st EXCEPT !.dead[e.c + 1] = TRUE], "")
    [] e.op = "sendexit" ->        \* status as the parent sees it: exit code, or minus the signal that killed it
         IF e.status \in {-11, -6, -7, -8, -4} THEN R([st EXCEPT !.up = FALSE, !.fl = {}], "C18:QueueManagerCrashed")   \* SEGV ABRT BUS FPE ILL: never the environment's doing
         ELSE R([st EXCEPT !.up = FALSE, !.fl = {}], "")
    [] e.op = "fault" -> \* after an injected failure the retry schedule may legitimately be SLEEP_SYSFAIL based, and a mark may not have been written
         R([st EXCEPT !.faulted = TRUE, !.msgs = [k \in 1..NMAX |-> [st.msgs[k] EXCEPT !.recs = [i \in 1..Len(st.msgs[k].recs) |-> [st.msgs[k].recs[i] EXCEPT !.free = FALSE]]]]], "")
    [] e.op = "quiet" ->
         \* C16 / C15 at a quiescent point: the daemon is blocked in select with time-out e.tmo (-1: not in select)
         IF ~st.up \/ st.term \/ e.k # "parked" \/ e.tmo < 0 THEN R(st, "")
         ELSE LET vis == {k \in 1..NMAX : st.msgs[k].alive}
                  unprepped == {k \in vis : ~st.msgs[k].prepped}
                  \* recipients waiting for a (re)try on a live channel with a free slot
                  waiting == {<<k, i>> \in UNION {{<<k2, i2>> : i2 \in 1..Len(st.msgs[k2].recs)} : k2 \in vis} :
                                LET rec == st.msgs[k].recs[i] IN st.msgs[k].prepped /\ ~rec.mark /\ ~rec.fl /\ ~st.dead[rec.c + 1]
                                                                 /\ Cardinality(InFlightOn(st, rec.c)) < Limit(st, rec.c)}
                  due(w) == LET rec == st.msgs[w[1]].recs[w[2]] IN
                              IF rec.att = 0 THEN st.msgs[w[1]].birth
                              ELSE IF rec.alrmed THEN st.alrm ELSE IF st.lastcrash > rec.satt THEN 0
                              ELSE Backoff(st.msgs[w[1]].birth, rec.tatt, rec.c)
                  overdue == {w \in waiting : st.msgs[w[1]].recs[w[2]].free /\ due(w) + 1 <= st.now /\ ~\E f \in st.fl : f[3] = w[1] /\ st.msgs[f[3]].recs[f[4]].c = st.msgs[w[1]].recs[w[2]].c}
                  overslept == {w \in waiting : st.msgs[w[1]].recs[w[2]].free /\ due(w) > st.now /\ st.now + e.tmo > due(w) + 1
                                                 /\ ~\E f \in st.fl : f[3] = w[1] /\ st.msgs[f[3]].recs[f[4]].c = st.msgs[w[1]].recs[w[2]].c}
                  \* a channel whose concurrency is 0 ("on hold") with mail waiting keeps one job slot for good; if the other
                  \* channel has no more than one slot it is starved (see known_findings.txt)
                  busyjobs == Cardinality({<<f[3], f[1]>> : f \in st.fl})        \* jobs kept open by deliveries in flight
                  held == \E c \in {0, 1} : Limit(st, c) = 0 /\ Limit(st, 0) + Limit(st, 1) - 1 - busyjobs <= 0 /\
                             \E k \in vis : st.msgs[k].prepped /\ \E i \in 1..Len(st.msgs[k].recs) : st.msgs[k].recs[i].c = c /\ ~st.msgs[k].recs[i].mark
                  tag == IF held THEN ":JobSlotHeldByChannelOnHold" ELSE ""
                  expiredopen == {w \in UNION {{<<k2, i2>> : i2 \in 1..Len(st.msgs[k2].recs)} : k2 \in vis} :
                                    st.msgs[w[1]].recs[w[2]].last = "E" /\ ~st.msgs[w[1]].recs[w[2]].mark /\ st.msgs[w[1]].recs[w[2]].free}
              IN IF strict /\ e.extra = 1 /\ unprepped # {} THEN R(st, "C16:AcceptedMessageNotNoticedWithoutRescan")
                 ELSE IF strict /\ ~st.faulted /\ expiredopen # {} THEN R(st, "C15:ExpiredTemporaryFailureNotTreatedAsPermanent")
                 ELSE IF strict /\ overdue # {} THEN R(st, "C15:DueRecipientNotAttempted" \o tag \o "|" \o ToString(Pick(overdue)) \o ToString(due(Pick(overdue))))
                 ELSE IF e.tmo = 0 THEN R(st, "C16:ZeroTimeoutWhileIdle")
                 ELSE IF strict /\ overslept # {} THEN R(st, "C16:SleepsPastEarliestDueEvent" \o tag \o "|" \o ToString(Pick(overslept)) \o ToString(due(Pick(overslept))))
                 ELSE IF e.tmo > 86401 THEN R(st, "C16:SleepsPastEarliestDueEvent")
                 ELSE R(st, "")
    [] e.op = "end" ->
         IF strict /\ e.extra > 0 /\ st.conc[1] > 0 /\ st.conc[2] > 0 /\ ~st.dead[1] /\ ~st.dead[2] THEN R(st, "C15:MessageNeverLeavesTheQueue") ELSE R(st, "")
    \* X01 (beyond the listed properties): what qmail-qread prints at a quiescent moment is the queue: every preprocessed message
    \* with its sender, every recipient of it on its channel, marked done exactly if the daemon has marked it.
    \* e.recs = <<n, -1, sender, bouncing>> per message followed by <<n, channel, address, done>> per recipient
    [] e.op = "qread" ->
         LET heads == {i \in 1..Len(e.recs) : e.recs[i][2] = -1}
             shown == {e.recs[i][1] : i \in heads}
             vis == {k \in 1..NMAX : st.msgs[k].alive /\ st.msgs[k].prepped /\ ~st.msgs[k].todo}
             lines(k) == {<<e.recs[i][2], e.recs[i][3], e.recs[i][4]>> : i \in {j \in 1..Len(e.recs) : e.recs[j][1] = k /\ e.recs[j][2] # -1}}
             \* (a channel file is removed once all its recipients are done: they are no longer listed)
             keep(k) == {i \in 1..Len(st.msgs[k].recs) : ~st.msgs[k].chgone[st.msgs[k].recs[i].c + 1]}
             want(k) == {<<st.msgs[k].recs[i].c, st.msgs[k].recs[i].a, (IF st.msgs[k].recs[i].mark THEN 1 ELSE 0)>> : i \in keep(k)}
         IN IF st.crashed \/ st.faulted \/ st.lossy THEN R(st, "")
            ELSE IF e.status # 0 \/ e.ok # 1 THEN R(st, "X01:QueueListingFailedOrUnparseable")
            ELSE IF \E k \in vis : k \notin shown THEN R(st, "X01:QueuedMessageNotListed")
            ELSE IF \E k \in shown : k \in 1..NMAX /\ ~st.msgs[k].alive THEN R(st, "X01:ListedMessageNotInQueue")
            ELSE IF \E i \in heads : e.recs[i][1] \in vis /\ e.recs[i][3] # st.msgs[e.recs[i][1]].s THEN R(st, "X01:ListedSenderWrong")
            ELSE IF \E k \in vis : lines(k) # want(k) \/ Cardinality({j \in 1..Len(e.recs) : e.recs[j][1] = k /\ e.recs[j][2] # -1}) # Cardinality(keep(k))
                   THEN R(st, "X01:ListedRecipientsOrDoneMarksWrong")
            ELSE R(st, "")
    [] e.op = "passeof" -> IF st.pass[e.c + 1] = n THEN R([st EXCEPT !.pass[e.c + 1] = 0], "") ELSE R(st, "")
    [] e.op = "noexit" -> R(st, "C03:DaemonDoesNotExitAfterTermWithNothingInFlight")
    [] e.op = "busyloop" -> R(st, "C16:DaemonNeverBlocks")
    [] e.op = "hang" -> R(st, "C15:DaemonStopsMakingProgress")
    [] OTHER -> R(st, "")
=============================================================================
