SPECIFICATION Spec
CONSTANTS
 Procs = {1}
 Msgs <- Msgs2
 Senders <- AllSenders
 Befores <- AllBefores
 BufCap = 16
 MaxFaults = 1
 FixedInput = FALSE
 Mut = "none"
INVARIANT NoInterleave
INVARIANT ReaderInverts
INVARIANT RollBack
