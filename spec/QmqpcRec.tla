----------------------------- MODULE QmqpcRec -----------------------------
(***************************************************************************)
(* Record validator (T) for X04: one record = one run of the real          *)
(* qmail-qmqpc against scripted QMQP servers on loopback addresses:        *)
(* env, srv as in Qmqpc.tla; exit = its exit status; got = for every       *)
(* server position the requests that server received (byte sequences);     *)
(* msg, sender, rcpts = what the client was given.                         *)
(***************************************************************************)
EXTENDS Qmqpc, Json, IOUtils, TLC
Recs  == ndJsonDeserialize(IOEnv.RECORDS)
Chunk == atoi(IOEnv.CHUNK)
N     == Len(Recs)
NCh   == (N + Chunk - 1) \div Chunk
G     == 16
VARIABLES g, k
Init == g = 0 /\ k = 0
Next == \/ g = 0 /\ g' \in 1..G /\ k' = 0
        \/ g > 0 /\ k = 0 /\ k' \in {c \in 1..NCh : c % G = g - 1} /\ g' = g
Spec == Init /\ [][Next]_<<g, k>>

\* a round trip: the connecting server is the real qmail-qmqpd with the recording queue program behind it (rt = 1): nq = how
\* often the queue program ran for this message, qmsg / qsender / qrcpts = what it was given (after the Received field)
RtVerdict(r) ==
  IF r.nq # 1 THEN "RoundTripNotQueuedExactlyOnce"
  ELSE IF r.qpos # FirstConnecting(r.srv) THEN "WrongServerAsked"
  ELSE IF r.qmsg # r.msg \/ r.qsender # r.sender \/ r.qrcpts # r.rcpts THEN "RoundTripChangesMessageOrEnvelope"
  ELSE IF r.exit # 0 THEN "WrongExitStatus"
  ELSE ""
Verdict(r) ==
  IF r.rt = 1 THEN RtVerdict(r) ELSE
  LET e == Expected(r.env, r.srv)
      sentto == {i \in 1..Len(r.got) : Len(r.got[i]) > 0}
  IN IF r.exit = 0 /\ ~SuccessSound(r.env, r.srv, [exit |-> 0, sentto |-> sentto]) THEN "SuccessReportedButNoServerAcknowledged"
     ELSE IF \E i \in sentto : Len(r.got[i]) > 1 THEN "RequestSentTwiceToOneServer"
     ELSE IF sentto # e.sentto THEN (IF Cardinality(sentto) > 1 THEN "MessageGivenToSeveralServers" ELSE IF sentto = {} THEN "NoServerAsked" ELSE "WrongServerAsked")
     ELSE IF \E i \in sentto : r.got[i][1] # Request(r.msg, r.sender, r.rcpts) THEN "RequestIsNotTheMessageAndEnvelopeGiven"
     ELSE IF r.exit # e.exit THEN "WrongExitStatus"
     ELSE ""
CheckChunk(c) ==
  LET lo == (c - 1) * Chunk + 1
      hi == IF c * Chunk < N THEN c * Chunk ELSE N
  IN /\ \A i \in lo..hi : LET v == Verdict(Recs[i]) IN v = "" \/ PrintT(<<"BADREC", i, v>>)
     /\ PrintT(<<"CHECKED", lo, hi>>)
Inv == k = 0 \/ CheckChunk(k)
=============================================================================
