------------------------------ MODULE AddrList ------------------------------
(***************************************************************************)
(* Program layer (P) for the header half of C17: token822_parse,           *)
(* token822_addrlist (one action per iteration of its loop), rwgeneric,    *)
(* rwappend and token822_unparse as transcribed in Addr.tla, composed with *)
(* an environment that writes every address list of a bounded abstract     *)
(* grammar into a To field:                                                *)
(*   mailbox: bare addr-spec or [phrase] "<" [route] addr-spec ">";        *)
(*     local part = words (atoms / quoted-strings) separated by dots;      *)
(*     domain = none | atoms separated by dots (with or without a dot,     *)
(*     last atom with or without a trailing plus) | a domain literal;      *)
(*     one comment in any of the positions the form has                    *)
(*   item: mailbox | group "G:" mailbox, ... ";"  (0..2 members)           *)
(*   list: items separated by commas; the comma may be missing between two *)
(*     bare addr-specs (qmail-header(5) OTHER FEATURES)                    *)
(* The expected mailboxes are known by construction (Mailbox of Addr.tla,  *)
(* written from qmail-header(5) / qmail-inject(8)).                        *)
(* Invariants (= the monitor's clauses, on the model):                     *)
(*   Rendered        the list's text lexes to the tokens intended (sanity) *)
(*   Parses          a valid list is never refused                         *)
(*   EnvelopeListed  at the end the callback has produced exactly the      *)
(*                   listed mailboxes (as a bag)                           *)
(*   RewrittenSame   the rewritten field, unparsed and parsed again, gives *)
(*                   the same addresses                                    *)
(*                                                                         *)
(* PendingExcluded = TRUE leaves out two shapes for which the CURRENT code *)
(* (and therefore this transcription) misses a documented rewriting - see  *)
(* PENDING_FINDINGS in checks/c17.py:                                      *)
(*   "<" comment route addr-spec ">"    (route not stripped)               *)
(*   "<" box "@" host+ comment ">"      (plus domain not applied)          *)
(* With PendingExcluded = FALSE TLC reports EnvelopeListed violated with   *)
(* exactly these shapes.                                                   *)
(***************************************************************************)
EXTENDS Addr, TLC
CONSTANTS W1, W2, MaxItems, PendingExcluded
VARIABLES list, ci, loose, al

A(s) == [t |-> "a", s |-> s]
L(s) == [t |-> "l", s |-> s]
Cfgs == << [dh |-> <<A(<<100>>), A(<<116>>)>>, dd |-> <<A(<<101>>), A(<<111>>)>>, pd |-> <<A(<<112>>), A(<<110>>)>>],   \* d.t  e.o  p.n
           [dh |-> <<A(<<100>>)>>,             dd |-> <<A(<<101>>), A(<<111>>)>>, pd |-> <<A(<<112>>), A(<<110>>)>>],   \* d (no dot)
           [dh |-> <<A(<<100, 43>>)>>,         dd |-> <<A(<<101>>)>>,             pd |-> <<A(<<112>>)>>] >>              \* d+  e  p
CfgT(c) == [dh |-> Lex822(<<AT>> \o DomText(c.dh)).toks, dd |-> Lex822(<<DOT>> \o DomText(c.dd)).toks,
            pd |-> Lex822(<<DOT>> \o DomText(c.pd)).toks]

LPs  == { <<<<120>>>>, <<<<120>>, <<121>>>>, <<<<97, 32, 98>>>>, <<<<120>>, <<64>>>>, <<<<112, 43>>>> }   \* x  x.y  "a b"  x."@"  p+
Doms == { <<>>, <<A(<<104>>)>>, <<A(<<104>>), A(<<116>>)>>, <<A(<<104, 43>>)>>, <<A(<<104>>), A(<<105, 43>>)>>, <<L(<<49, 46, 50>>)>> }
DefaultLp == <<<<120>>>>
DefaultDom == <<A(<<104>>), A(<<116>>)>>
Weight(m) == (IF m.lp # DefaultLp THEN 1 ELSE 0) + (IF m.fq THEN 1 ELSE 0) + (IF m.dom # DefaultDom THEN 1 ELSE 0)
             + (IF m.ph # 0 THEN 1 ELSE 0) + (IF m.rt # 0 THEN 1 ELSE 0) + (IF m.cm # 0 THEN 1 ELSE 0)
IsPlusDom(d) == d # <<>> /\ EndsPlus(Last(d))
Pending(m) == m.f = "n" /\ ((m.cm = 1 /\ m.rt # 0) \/ (m.cm = 2 /\ IsPlusDom(m.dom)))
Mboxes(w) == {m \in [f : {"b", "n"}, lp : LPs, fq : BOOLEAN, dom : Doms, ph : 0..2, rt : 0..2, cm : 0..3] :
                /\ (m.f = "b" => m.ph = 0 /\ m.rt = 0)
                /\ Weight(m) <= w
                /\ (PendingExcluded => ~Pending(m))}
Small == Mboxes(W2)
Items(w) == {[k |-> "m", m |-> m, sep |-> s] : m \in Mboxes(w), s \in {"c", "n"}}
            \cup {[k |-> "g", ms |-> ms, sep |-> "c"] : ms \in {<<>>} \cup {<<m>> : m \in Small} \cup {<<m1, m2>> : m1 \in Mboxes(0), m2 \in Mboxes(0)}}
I1 == Items(W1)
I2 == Items(W2)
\* a comma may be missing only between two bare addr-specs
SepOk(prev, it) == it.sep = "c" \/ (prev # <<>> /\ Last(prev).k = "m" /\ Last(prev).m.f = "b" /\ it.k = "m" /\ it.m.f = "b")

(***************************************************************************)
(* rendering: abstract list -> tokens -> text                              *)
(***************************************************************************)
T0(t) == Tk(t, <<>>)
Cm == Tk("comment", <<99>>)
RECURSIVE Inter(_, _)
Inter(ts, sep) == IF Len(ts) <= 1 THEN ts ELSE <<ts[1], sep>> \o Inter(Tail(ts), sep)
WordTok(w, fq) == IF fq \/ w = <<>> \/ (\E i \in 1..Len(w) : ~AtomChar(w[i])) THEN Tk("quote", w) ELSE Tk("atom", w)
LpToks(m) == Inter([k \in 1..Len(m.lp) |-> WordTok(m.lp[k], m.fq)], T0("dot"))
SubTok(x) == IF x.t = "l" THEN Tk("literal", x.s) ELSE Tk("atom", x.s)
DomToks(d) == IF d = <<>> THEN <<>> ELSE <<T0("at")>> \o Inter([k \in 1..Len(d) |-> SubTok(d[k])], T0("dot"))
Phrase(n) == CASE n = 0 -> <<>> [] n = 1 -> <<Tk("atom", <<80>>)>> [] OTHER -> <<Tk("atom", <<80>>), Tk("quote", <<81, 32, 82>>)>>
Route(n) == CASE n = 0 -> <<>>
              [] n = 1 -> <<T0("at"), Tk("atom", <<114>>), T0("colon")>>
              [] OTHER -> <<T0("at"), Tk("atom", <<114>>), T0("comma"), T0("at"), Tk("atom", <<115>>), T0("dot"), Tk("atom", <<117>>), T0("colon")>>
CmIf(b) == IF b THEN <<Cm>> ELSE <<>>
MboxToks(m) ==
  IF m.f = "b" THEN CmIf(m.cm = 1) \o LpToks(m) \o CmIf(m.cm = 2) \o DomToks(m.dom) \o CmIf(m.cm = 3)
  ELSE Phrase(m.ph) \o CmIf(m.cm = 3) \o <<T0("left")>> \o CmIf(m.cm = 1) \o Route(m.rt) \o LpToks(m) \o DomToks(m.dom)
       \o CmIf(m.cm = 2) \o <<T0("right")>>
ItemToks(it) == IF it.k = "m" THEN MboxToks(it.m)
                ELSE <<Tk("atom", <<71>>), T0("colon")>> \o Flat(Inter([k \in 1..Len(it.ms) |-> MboxToks(it.ms[k])], <<T0("comma")>>)) \o <<T0("semi")>>
ListToks(l) == <<Tk("atom", <<84, 111>>), T0("colon")>>
               \o Flat([k \in 1..Len(l) |-> (IF k > 1 /\ l[k].sep = "c" THEN <<T0("comma")>> ELSE <<>>) \o ItemToks(l[k])])
EscQ(s) == Flat([i \in 1..Len(s) |-> IF s[i] \in {DQ, BSL, CR} THEN <<BSL, s[i]>> ELSE <<s[i]>>])
RenderTok(x) == CASE x.t = "atom" -> x.s
                  [] x.t = "quote" -> <<DQ>> \o EscQ(x.s) \o <<DQ>>
                  [] x.t = "literal" -> <<LBR>> \o x.s \o <<RBR>>
                  [] x.t = "comment" -> <<LPAR>> \o x.s \o <<RPAR>>
                  [] OTHER -> <<TokChar(x.t)>>
Render(toks, lo) == Flat([i \in 1..Len(toks) |->
                           (IF i > 1 /\ (lo \/ (toks[i - 1].t \in Words /\ toks[i].t \in Words)) THEN <<SP>> ELSE <<>>) \o RenderTok(toks[i])])
                    \o <<LF>>

(***************************************************************************)
(* the machine                                                             *)
(***************************************************************************)
Idle == [st |-> "idle"]
\* spacing style tied to the configuration (lexing does not depend on the configuration)
Init == list = <<>> /\ ci \in 1..Len(Cfgs) /\ loose = (ci = 2) /\ al = Idle
\* longer lists are built on small items only (what matters there is how neighbouring items interact)
ItemWeight(it) == IF it.k = "m" THEN Weight(it.m) ELSE 0
AddItem == /\ al = Idle /\ Len(list) < MaxItems
           /\ \A k \in 1..Len(list) : ItemWeight(list[k]) <= W2
           /\ \E it \in (IF list = <<>> THEN I1 ELSE I2) : SepOk(list, it) /\ list' = Append(list, it)
           /\ UNCHANGED <<ci, loose, al>>
Start == /\ al = Idle
         /\ al' = ALInit(Lex822(Render(ListToks(list), loose)).toks)
         /\ UNCHANGED <<list, ci, loose>>
Step == /\ al # Idle /\ al.st = "run"
        /\ al' = ALStep(al, CfgT(Cfgs[ci]))
        /\ UNCHANGED <<list, ci, loose>>
Next == AddItem \/ Start \/ Step
Spec == Init /\ [][Next]_<<list, ci, loose, al>>

Field == [name |-> "to", items |-> list]
Rendered == al = Idle => LET l == Lex822(Render(ListToks(list), loose)) IN l.ok /\ l.toks = ListToks(list)
Parses == al # Idle => al.st # "fail"
EnvelopeListed == (al # Idle /\ al.st = "done") => BagOf(al.got) = BagOf(FieldBoxes(Field, Cfgs[ci]))
RewrittenSame ==
  (al # Idle /\ al.st = "done") =>
     LET l2 == Lex822(ALField(al))
         r2 == ALRun(l2.toks, CfgT(Cfgs[ci]))
     IN l2.ok /\ r2.st = "done" /\ BagOf(r2.got) = BagOf(al.got)
=============================================================================
