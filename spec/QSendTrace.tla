------------------------------ MODULE QSendTrace ------------------------------
(***************************************************************************)
(* Trace validator T_mon for the queue manager: every history executed on  *)
(* the real qmail-send + qmail-clean + qmail-queue (under the gate, with   *)
(* scripted spawners, signals, crashes, injected failures and a virtual    *)
(* clock) is a sequence of observable events (lib/qsproj.py).  TLC replays *)
(* it through the monitor state machine QSendMon!Step and reports the      *)
(* first clause of a property that an event violates.                      *)
(* Runs[r] = [ev, strict]: strict = 1 when the history was driven so that  *)
(* the timing clauses are decidable from outside (clock advanced only at   *)
(* quiescence with nothing in flight; no address rewriting).               *)
(***************************************************************************)
EXTENDS QSendMon, Json, IOUtils
Runs == ndJsonDeserialize(IOEnv.RECORDS)
VARIABLES r, l, st, bad
vars == <<r, l, st, bad>>

Init == r \in 1..Len(Runs) /\ l = 1 /\ st = InitMon /\ bad = ""
Next == /\ bad = "" /\ l <= Len(Runs[r].ev)
        /\ LET res == Step(st, Runs[r].ev[l], Runs[r].strict = 1)
           IN st' = res.st /\ bad' = res.v
        /\ l' = l + 1 /\ UNCHANGED r
Spec == Init /\ [][Next]_vars

Done == bad # "" \/ l > Len(Runs[r].ev)
Inv == /\ bad = "" \/ PrintT(<<"BADREC", r, bad, l - 1>>)
       /\ Done => PrintT(<<"CHECKED", r, r>>)
=============================================================================
