------------------------------ MODULE QSendTrace ------------------------------
(***************************************************************************)
(* Trace validator T_mon for the queue manager: every history executed on  *)
(* the real qmail-send + qmail-clean + qmail-queue (under the gate, with   *)
(* scripted spawners, signals, crashes, injected failures and a virtual    *)
(* clock) is a sequence of observable events (lib/qsproj.py).  TLC replays *)
(* it through the monitor state machine QSendMon!Step and reports the      *)
(* first clause of a property that an event violates.                      *)
(* Runs[r] = [ev, strict]: strict = 1 when the history was driven so that  *)
(* the timing clauses are decidable from outside (clock advanced only at   *)
(* quiescence with nothing in flight; no address rewriting).               *)
(***************************************************************************)
EXTENDS QSendLog, Json, IOUtils
Runs == ndJsonDeserialize(IOEnv.RECORDS)
VARIABLES r, l, st, lg, bad
vars == <<r, l, st, lg, bad>>

Init == r \in 1..Len(Runs) /\ l = 1 /\ st = InitMon /\ lg = LogInit /\ bad = ""
\* the activity-record monitor (QSendLog) runs beside the main one when the history carries `log` events (Runs[r].log = 1)
Next == /\ bad = "" /\ l <= Len(Runs[r].ev)
        /\ LET res == Step(st, Runs[r].ev[l], Runs[r].strict = 1)
               lres == IF Runs[r].log = 1 THEN LogStep(lg, st, Runs[r].ev[l]) ELSE LR(lg, "")
               \* Runs[r].skip: objections (exact texts) that a first pass has already shown and that belong to another property than
               \* the one being decided: the event is passed over as the monitor does for any objection, and the history goes on
               skip == {Runs[r].skip[i] : i \in 1..Len(Runs[r].skip)}
           IN st' = res.st /\ lg' = lres.lg /\ bad' = (IF res.v # "" /\ res.v \notin skip THEN res.v ELSE IF lres.v \notin skip THEN lres.v ELSE "")
        /\ l' = l + 1 /\ UNCHANGED r
Spec == Init /\ [][Next]_vars

Done == bad # "" \/ l > Len(Runs[r].ev)
Inv == /\ bad = "" \/ PrintT(<<"BADREC", r, bad, l - 1>>)
       /\ Done => PrintT(<<"CHECKED", r, r>>)
=============================================================================
