----------------------------- MODULE DotCmdRec -----------------------------
(* Record validator (T) for X06: one record = one run of a real helper: tool, prog, qq, has, fl as in DotCmd.tla; exit; nq = how often the
   queue program ran, qmsg / qsender / qrcpts what it was given; ran / out = whether the program given to the helper ran and what it read;
   msg, dt, uf, rp, sender, newsender, args = the message, the three lines, the two sender variables and the address arguments *)
EXTENDS DotCmd, Json, IOUtils, TLC
Recs  == ndJsonDeserialize(IOEnv.RECORDS)
Chunk == atoi(IOEnv.CHUNK)
N     == Len(Recs)
NCh   == (N + Chunk - 1) \div Chunk
G     == 16
VARIABLES g, k
Init == g = 0 /\ k = 0
Next == \/ g = 0 /\ g' \in 1..G /\ k' = 0
        \/ g > 0 /\ k = 0 /\ k' \in {c \in 1..NCh : c % G = g - 1} /\ g' = g
Spec == Init /\ [][Next]_<<g, k>>
Verdict(r) ==
  LET has == {r.has[i] : i \in 1..Len(r.has)}
      fl == {r.fl[i] : i \in 1..Len(r.fl)}
      e == Expected(r.tool, r.prog, r.qq, has, fl)
      lines == (IF "UFLINE" \in e.pre THEN r.uf ELSE <<>>) \o (IF "RPLINE" \in e.pre THEN r.rp ELSE <<>>) \o (IF "DTLINE" \in e.pre THEN r.dt ELSE <<>>)
  IN IF r.exit # e.exit THEN "WrongExitStatus"
     ELSE IF e.fwd = "none" /\ r.nq > 0 THEN "ForwardedAlthoughNotCalledFor"
     ELSE IF e.fwd # "none" /\ r.nq # 1 THEN "NotForwardedExactlyOnce"
     ELSE IF e.fwd # "none" /\ (r.qmsg # r.dt \o r.msg \/ r.qsender # (IF e.fwd = "SENDER" THEN r.sender ELSE r.newsender) \/ r.qrcpts # r.args) THEN "ForwardedMessageOrEnvelopeWrong"
     ELSE IF r.tool = "preline" /\ r.ran = 1 /\ r.out # lines \o r.msg THEN "CommandDidNotGetTheLinesAndTheMessage"
     ELSE IF r.prog \in {"e0", "e1", "e99", "e100", "e111"} /\ r.tool # "forward" /\ e.exit # 100 /\ r.ran # 1 THEN "ProgramNotRun"
     ELSE ""
CheckChunk(c) ==
  LET lo == (c - 1) * Chunk + 1
      hi == IF c * Chunk < N THEN c * Chunk ELSE N
  IN /\ \A i \in lo..hi : LET v == Verdict(Recs[i]) IN v = "" \/ PrintT(<<"BADREC", i, v>>)
     /\ PrintT(<<"CHECKED", lo, hi>>)
Inv == k = 0 \/ CheckChunk(k)
=============================================================================
