------------------------------ MODULE SmtpModel ------------------------------
(***************************************************************************)
(* qmail-smtpd's session logic (SmtpSession!PStep) against the C08 monitor *)
(* for EVERY command sequence up to MaxCmds over the eleven verbs with     *)
(* arguments from a set of address shapes, under every configuration of a  *)
(* small family (rcpthosts present/absent, exact and dot-suffix entries,   *)
(* the compiled extra list, badmailfrom address and @domain entries,       *)
(* localiphost, RELAYCLIENT unset / empty / suffix).                       *)
(***************************************************************************)
EXTENDS SmtpSession
CONSTANT MaxCmds
A(l, d) == [loc |-> l, dom |-> d, noat |-> FALSE, long |-> FALSE, lit |-> FALSE, edge |-> FALSE]
Senders == {A("s", <<"ok","test">>), A("bad", <<"bmf","test">>), A("x", <<"bmfdom","test">>), A("", <<>>),
            [A("s", <<"ok","test">>) EXCEPT !.long = TRUE], [A("s", <<>>) EXCEPT !.lit = TRUE, !.edge = TRUE]}
Rcpts == {A("r", <<"rh","test">>), A("r", <<"sub","dot","test">>), A("r", <<"dot","test">>), A("r", <<"more","test">>), A("r", <<"x","moredot","test">>),
          A("r", <<"other","test">>), A("r", <<"x","rh","test">>), [A("r", <<>>) EXCEPT !.noat = TRUE], [A("r", <<>>) EXCEPT !.lit = TRUE],
          [A("r", <<"rh","test">>) EXCEPT !.long = TRUE], [A("r", <<>>) EXCEPT !.lit = TRUE, !.edge = TRUE],
          A("r", <<"abcdefghijklm","nopqrstuvwxyz","test">>)}
Cmds == {[verb |-> v, a |-> MonInit.sender] : v \in {"HELO", "EHLO", "RSET", "NOOP", "VRFY", "HELP", "XXXX", "DATA"}}
        \cup {[verb |-> "MAIL", a |-> s] : s \in Senders} \cup {[verb |-> "RCPT", a |-> r] : r \in Rcpts}
Base == [rh |-> TRUE, exact |-> {<<"rh","test">>, <<"lip","test">>, <<"abcdefghijklm","nopqrstuvwxyz","test">>}, suffix |-> {<<"dot","test">>}, mexact |-> {<<"more","test">>}, msuffix |-> {<<"moredot","test">>},
         bmfaddr |-> {[loc |-> "bad", dom |-> <<"bmf","test">>]}, bmfdom |-> {<<"bmfdom","test">>}, lip |-> <<"test","example">>, relay |-> "unset", mrhbad |-> FALSE]
Configs == {Base, [Base EXCEPT !.rh = FALSE], [Base EXCEPT !.lip = <<"lip","test">>], [Base EXCEPT !.lip = <<"notlisted","test">>],
            [Base EXCEPT !.relay = "empty"], [Base EXCEPT !.relay = "suffix"], [Base EXCEPT !.mexact = {}, !.msuffix = {}, !.bmfaddr = {}, !.bmfdom = {}]}
VARIABLES cfg, st, ps, verdict, n
vars == <<cfg, st, ps, verdict, n>>
Init == cfg \in Configs /\ st = MonInit /\ ps = PInit /\ verdict = "" /\ n = 0
Next == /\ n < MaxCmds /\ verdict = ""
        /\ \E c \in Cmds :
             LET p == PStep(ps, c, cfg)
                 m == MonStep(st, c, p.reply, p.sub, cfg)
             IN ps' = p.ps /\ st' = m.st /\ verdict' = m.v
        /\ n' = n + 1 /\ UNCHANGED cfg
Spec == Init /\ [][Next]_vars
Sound == verdict = ""
\* sanity: must be violated (a message is submitted in some behaviour)
NeverSubmits == ~(st.open = FALSE /\ n > 2 /\ ps.rcptto # <<>> /\ ~ps.seenmail)
=============================================================================
