SPECIFICATION Spec
CONSTANTS
  Alphabet = {13, 10, 46, 120}
  MaxLen = 8
  FIXED = TRUE
INVARIANT EncodingSound
