------------------------------ MODULE SchedModel ------------------------------
(***************************************************************************)
(* TLC model for C15's pure parts:                                         *)
(*  - SqrtAlg with Bits iterations is the floor square root on its whole   *)
(*    domain 0 .. 4^Bits - 1 (the C loop with Bits = 16)                   *)
(*  - the back-off time computed from it is strictly in the future         *)
(*  - the array heap of prioq.c (insert / delmin transcribed) keeps heap   *)
(*    order, its root is a minimum, and no element is lost or duplicated,  *)
(*    for every operation sequence up to MaxOps over keys 0 .. MaxKey      *)
(***************************************************************************)
EXTENDS Sched, TLC
CONSTANTS Bits, MaxOps, MaxKey
VARIABLES x, heap, ops
vars == <<x, heap, ops>>

\* ---- prioq.c on an array (1-based here; C indices are 0-based)
RECURSIVE SiftUp(_, _, _)
\* while (j) { i = (j-1)/2; if (p[i] <= pe) break; p[j] = p[i]; j = i } p[j] = pe   (0-based j)
SiftUp(p, j, pe) ==
  IF j = 0 THEN [p EXCEPT ![1] = pe]
  ELSE LET i == (j - 1) \div 2
       IN IF p[i + 1] <= pe THEN [p EXCEPT ![j + 1] = pe]
          ELSE SiftUp([p EXCEPT ![j + 1] = p[i + 1]], i, pe)
Insert(p, pe) == SiftUp(Append(p, pe), Len(p), pe)

RECURSIVE SiftDown(_, _, _)
\* n = len - 1 (index of the last element, 0-based); loop of prioq_delmin
SiftDown(p, i, n) ==
  LET j0 == i + i + 2
  IN IF j0 > n THEN [p EXCEPT ![i + 1] = p[n + 1]]
     ELSE LET j == IF p[j0 - 1 + 1] <= p[j0 + 1] THEN j0 - 1 ELSE j0
          IN IF p[n + 1] <= p[j + 1] THEN [p EXCEPT ![i + 1] = p[n + 1]]
             ELSE SiftDown([p EXCEPT ![i + 1] = p[j + 1]], j, n)
DelMin(p) == IF Len(p) = 0 THEN p
             ELSE LET q == SiftDown(p, 0, Len(p) - 1) IN SubSeq(q, 1, Len(p) - 1)

Init == x \in 0..(Pow2(2 * Bits) - 1) /\ heap = <<>> /\ ops = <<>>
DoInsert == Len(ops) < MaxOps /\ \E key \in 0..MaxKey : heap' = Insert(heap, key) /\ ops' = Append(ops, key) /\ UNCHANGED x
DoDelMin == Len(ops) < MaxOps /\ heap' = DelMin(heap) /\ ops' = Append(ops, -1) /\ UNCHANGED x
\* the heap is explored from one initial state only (x = 0) to keep the two parts independent
Next == x = 0 /\ (DoInsert \/ DoDelMin)
Spec == Init /\ [][Next]_vars

SqrtCorrect == IsRoot(SqrtAlg(x, Bits), x)
RetryInFuture == \A c \in {0, 1} : LET n == SqrtAlg(x, Bits) + Skip(c) IN RetryOk(0, x, c, n * n, n)
HeapOrdered == \A j \in 2..Len(heap) : heap[(j - 2) \div 2 + 1] <= heap[j]
MinIsMin == Len(heap) > 0 => \A j \in 1..Len(heap) : heap[1] <= heap[j]
BagPreserved == LET b == BagAfter(ops, <<>>) IN
                  /\ Len(b) = Len(heap)
                  /\ \A key \in 0..MaxKey : Cardinality({i \in 1..Len(b) : b[i] = key}) = Cardinality({i \in 1..Len(heap) : heap[i] = key})
=============================================================================
