SPECIFICATION Spec
INVARIANT Inv
