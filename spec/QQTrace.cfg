SPECIFICATION Spec
CONSTANT Inodes = {1,2,3,4}
INVARIANT Inv
