---------------------------- MODULE DotQmailRec ----------------------------
(***************************************************************************)
(* Record validator (T) for C13: one record = one execution of the real    *)
(* qmail-local in a generated home directory: the case (fields n, hmode,   *)
(* files, dash, ext, local, host, sender, dflt, msg, progs, tgts, nt) and  *)
(* what was observed (rc, ev, fin, dl, pl, plan, dt, rp) - see the header  *)
(* of DotQmail.tla.  The verdict is the monitor Judge of the documents,    *)
(* the same operator the model DotQmailP is checked against.               *)
(***************************************************************************)
EXTENDS DotQmail, Json, IOUtils, TLC
Recs  == ndJsonDeserialize(IOEnv.RECORDS)
Chunk == atoi(IOEnv.CHUNK)
N     == Len(Recs)
NCh   == (N + Chunk - 1) \div Chunk
G     == 16
VARIABLES g, k
Init == g = 0 /\ k = 0
Next == \/ g = 0 /\ g' \in 1..G /\ k' = 0
        \/ g > 0 /\ k = 0 /\ k' \in {c \in 1..NCh : c % G = g - 1} /\ g' = g
Spec == Init /\ [][Next]_<<g, k>>

Verdict(r) == Judge(r, r)
CheckChunk(c) ==
  LET lo == (c - 1) * Chunk + 1
      hi == IF c * Chunk < N THEN c * Chunk ELSE N
  IN /\ \A i \in lo..hi : LET v == Verdict(Recs[i]) IN v = "" \/ PrintT(<<"BADREC", i, v>>)
     /\ PrintT(<<"CHECKED", lo, hi>>)
Inv == k = 0 \/ CheckChunk(k)
=============================================================================
