SPECIFICATION Spec
INVARIANT Inv
