SPECIFICATION Spec
INVARIANT Inv
