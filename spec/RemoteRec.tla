------------------------------ MODULE RemoteRec ------------------------------
(***************************************************************************)
(* Record validator (T) for C09: one record = one run of the real          *)
(* qmail-remote against the scripted server: s (script as reply classes),  *)
(* rr / mr / dup as printed on its standard output, exit status, and the   *)
(* order in which the server saw the recipients (argument indices).        *)
(***************************************************************************)
EXTENDS Remote, Json, IOUtils, TLC
Recs  == ndJsonDeserialize(IOEnv.RECORDS)
Chunk == atoi(IOEnv.CHUNK)
N     == Len(Recs)
NCh   == (N + Chunk - 1) \div Chunk
G     == 16
VARIABLES g, k
Init == g = 0 /\ k = 0
Next == \/ g = 0 /\ g' \in 1..G /\ k' = 0
        \/ g > 0 /\ k = 0 /\ k' \in {c \in 1..NCh : c % G = g - 1} /\ g' = g
Spec == Init /\ [][Next]_<<g, k>>

\* runs in which ONE system call of qmail-remote itself fails or is cut short, against a server that accepts everything
\* (fault = 1): success only if the server did get the whole message and accepted it (srvok); otherwise a temporary
\* failure - a local mishap is never a permanent one
FaultVerdict(r) ==
  IF r.nmsgreports # 1 THEN "NotExactlyOneMessageReport"
  ELSE IF r.mr = "K" THEN (IF r.srvok = 1 THEN "" ELSE "SuccessReportedButServerDidNotAcceptMessage")
  ELSE IF r.mr = "Z" THEN ""
  ELSE "LocalFailureReportedAsPermanent"
Verdict(r) ==
  LET v == RemoteVerdict(r.s, r.rr, r.mr, r.dup = 1)
  IN IF r.fault = 1 THEN FaultVerdict(r)
     ELSE IF r.exit # 0 THEN "NonZeroExit"
     ELSE IF r.nmsgreports # 1 THEN "NotExactlyOneMessageReport"
     ELSE IF v # "" THEN v
     ELSE IF r.seen # [i \in 1..Len(r.seen) |-> i] THEN "RecipientsNotSentInArgumentOrder"
     ELSE ""
CheckChunk(c) ==
  LET lo == (c - 1) * Chunk + 1
      hi == IF c * Chunk < N THEN c * Chunk ELSE N
  IN /\ \A i \in lo..hi : LET v == Verdict(Recs[i]) IN v = "" \/ PrintT(<<"BADREC", i, v>>)
     /\ PrintT(<<"CHECKED", lo, hi>>)
Inv == k = 0 \/ CheckChunk(k)
=============================================================================
