SPECIFICATION Spec
INVARIANT Inv
