SPECIFICATION Spec
CONSTANTS
  Alphabet = {13, 10, 46, 120}
  MaxLen = 8
INVARIANT Agree
INVARIANT RoundTrip
