----------------------------- MODULE Pop3Popup -----------------------------
(***************************************************************************)
(* Program layer (P): qmail-popup as a state machine (seenuser, username;  *)
(* pop3_user, pop3_pass, pop3_apop, doanddie), one action per command,     *)
(* composed with an environment that sends any command of Verbs x Args in  *)
(* any order and a checker that exits 0, exits non-zero or crashes.        *)
(* The reference model Pop3!PopStep runs in lock step on command, reply    *)
(* class and the bytes the checker read on descriptor 3.                   *)
(***************************************************************************)
EXTENDS Pop3Impl
VARIABLES seenuser, username, ex, pst, why, cmd, rep, inv, phase
vars == <<seenuser, username, ex, pst, why, cmd, rep, inv, phase>>

Host      == <<104, 46, 116>>                             \* "h.t"
Unique    == <<55, 46, 57, 64>>                           \* "7.9@"  (pid.time@)
Challenge == <<60>> \o Unique \o Host \o <<62>>
Greet     == Challenge                                    \* "+OK <7.9@h.t>"

Verbs == {"USER", "PASS", "APOP", "NOOP", "QUIT", "STAT", "LIST", "RETR", "DELE", "TOP", "UIDL", "RSET", "LAST", "OTHER"}
Args  == { <<>>, <<117>>, <<118>>, <<117, SP, 112>>, <<117, SP>>, <<117, SP, SP, 112>>, <<112, SP, 113, SP, 114>>, <<49>> }

Ok   == [c |-> "ok", t |-> <<>>, b |-> <<>>]
Err  == [c |-> "err", t |-> <<>>, b |-> <<>>]
None == [c |-> "none", t |-> <<>>, b |-> <<>>]

Init == /\ seenuser = FALSE /\ username = <<>> /\ ex \in {0, 1, 111, -1}
        /\ pst = P0 /\ why = "" /\ cmd = [v |-> "START", a |-> <<>>] /\ rep = Ok /\ inv = <<>> /\ phase = "run"

\* doanddie(user, pass): what goes down descriptor 3, what is said afterwards; always ends the program
DoAndDie(u, pw) ==
  [rep |-> IF ex = -1 THEN Err               \* wait_crashed: die_childcrashed (the exit code of a killed child is 0)
           ELSE IF ex # 0 THEN Err           \* wait_exitcode: die_badauth
           ELSE None,
   inv |-> << u \o <<NUL>> \o pw \o <<NUL>> \o <<60>> \o Unique \o Host \o <<62, NUL>> >>,
   su |-> seenuser, un |-> username, done |-> TRUE]
Go(r, su, un, dn) == [rep |-> r, inv |-> <<>>, su |-> su, un |-> un, done |-> dn]

CPop(v, a) ==
  CASE v = "USER" -> IF a = <<>> THEN Go(Err, seenuser, username, FALSE) ELSE Go(Ok, TRUE, a, FALSE)
    [] v = "PASS" -> IF ~seenuser THEN Go(Err, seenuser, username, FALSE)
                     ELSE IF a = <<>> THEN Go(Err, seenuser, username, FALSE)
                     ELSE DoAndDie(username, a)
    [] v = "APOP" -> LET sps == {i \in 1..Len(a) : a[i] = SP}           \* str_chr(arg,' ')
                     IN IF sps = {} THEN Go(Err, seenuser, username, FALSE)
                        ELSE DoAndDie(SubSeq(a, 1, MinOf(sps) - 1), SubSeq(a, MinOf(sps) + 1, Len(a)))
    [] v = "QUIT" -> Go(Ok, seenuser, username, TRUE)
    [] v = "NOOP" -> Go(Ok, seenuser, username, FALSE)
    [] OTHER      -> Go(Err, seenuser, username, FALSE)                  \* err_authoriz

Command(v, a) ==
  /\ phase = "run"
  /\ LET r == CPop(v, a)
         s == PopStep(pst, [v |-> v, a |-> a], r.rep, r.inv, ex, Host, Greet)
     IN /\ cmd' = [v |-> v, a |-> a] /\ rep' = r.rep /\ inv' = r.inv
        /\ seenuser' = r.su /\ username' = r.un
        /\ pst' = s.st /\ why' = s.why
        /\ phase' = IF r.done THEN "done" ELSE "run"
  /\ UNCHANGED ex
Next == \E v \in Verbs, a \in Args : Command(v, a)
Spec == Init /\ [][Next]_vars

Conforms == why = ""
EndsAgree == (phase = "done") = pst.over
\* non-vacuity witnesses (expected to be violated)
CovLogin  == ~(inv # <<>> /\ cmd.v = "PASS" /\ ex = 0)
CovApop   == ~(inv # <<>> /\ cmd.v = "APOP" /\ ex = -1)
Witnessed ==
  /\ (~CovLogin => PrintT("COV Login"))
  /\ (~CovApop  => PrintT("COV ApopCrash"))
  /\ (cmd.v = "PASS" /\ rep.c = "err" /\ inv = <<>> /\ pst.user = <<>> /\ cmd.a = <<117>> => PrintT("COV PassBeforeUser"))
  /\ (cmd.v = "RETR" /\ rep.c = "err" /\ pst.user # <<>> => PrintT("COV RefusedBeforeLogin"))
=============================================================================
