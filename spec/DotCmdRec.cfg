SPECIFICATION Spec
INVARIANT Inv
