SPECIFICATION Spec
INVARIANT Inv
