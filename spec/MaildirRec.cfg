SPECIFICATION Spec
INVARIANT Inv
