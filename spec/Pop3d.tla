------------------------------- MODULE Pop3d -------------------------------
(***************************************************************************)
(* Program layer (P): qmail-pop3d as a state machine - getlist() at        *)
(* start-up (directory entries through the prioq heap), then one action    *)
(* per command, each a transcription of the C handler (msgno, dolisting,   *)
(* pop3_top + blast, pop3_dele, pop3_rset, pop3_stat, pop3_last,           *)
(* pop3_quit) - composed with an environment that                          *)
(*   - populates the maildir with any of the populations Pops (new/ and    *)
(*     cur/, empty message, dot lines, no final newline, no blank line),   *)
(*   - sends any command of Verbs x argument texts, in any order and for   *)
(*     any length (the state space is finite: every command sequence is    *)
(*     covered, not only those up to a bound),                             *)
(*   - removes any file behind the server's back between two commands,     *)
(*   - ends the session by QUIT or by dropping the connection.             *)
(* The reference model (Pop3!Step, Pop3!AfterVerdict) runs in lock step    *)
(* on what is observable - command, reply class, payload, maildir          *)
(* afterwards; `why' holds its verdict.  Invariant: Conforms (why = "").   *)
(* Reached-branch witnesses (non-vacuity) are the Cov* properties, which   *)
(* the check runs expecting a violation.                                   *)
(***************************************************************************)
EXTENDS Pop3Impl
VARIABLES files, fs, m, last, ref, why, cmd, rep, phase, after
vars == <<files, fs, m, last, ref, why, cmd, rep, phase, after>>

F(d, n, x) == [d |-> d, n |-> n, x |-> x]
h == 104
x == 120
Pops ==
  { <<>>,
    << F("new", <<97>>, <<h, LF, LF, DOT, x, LF, x>>) >>,
    << F("cur", <<98, COLON, 50, 44, 83>>, <<>>), F("new", <<97>>, <<h, LF, LF, x, LF, LF, x, LF>>) >>,
    << F("new", <<97>>, <<x, LF>>), F("cur", <<98, COLON, 50, 44>>, <<DOT, LF, LF, DOT, DOT, LF>>), F("new", <<99>>, <<LF>>) >> }

HugeArg == <<57, 57, 57, 57, 57, 57, 57, 57, 57, 57>>
MsgArgs ==
  { <<>>, <<48>>, <<49>>, <<50>>, <<51>>, <<52>>, HugeArg, <<120>>, <<49, 120>>, <<45, 49>>, <<48, 49>>,
    <<49, SP, 48>>, <<49, SP, 49>>, <<49, SP, 50>>, <<50, SP, 49>>, <<51, SP>> \o HugeArg, <<49, SP, 120>>,
    <<49, SP, 49, SP, 49>>, <<SP, 50>>, <<50, 120, SP, 49>>,
    Dec(WordMod + 1), <<49, SP>> \o Dec(WordMod) }
NoArgs == { <<>>, <<120>> }
MsgVerbs  == {"LIST", "UIDL", "DELE", "RETR", "TOP"}
BareVerbs == {"QUIT", "STAT", "RSET", "LAST", "NOOP", "OTHER"}

N == Len(files)
Ok(t, b) == [c |-> "ok", t |-> t, b |-> b]
Err      == [c |-> "err", t |-> <<>>, b |-> <<>>]
None     == [c |-> "none", t |-> <<>>, b |-> <<>>]
SizeOf(i) == Len(files[m[i].fi].x)           \* getlist(): st_size at start-up

Init ==
  /\ files \in Pops
  /\ fs = 1..Len(files)
  \* readdir hands the entries out in some order (here: newest first); mtime = position in files
  /\ m = CGetList([k \in 1..Len(files) |-> [dt |-> Len(files) + 1 - k, id |-> Len(files) + 1 - k]])
  /\ last = 0 /\ ref = St0 /\ why = "" /\ cmd = [v |-> "START", a |-> <<>>] /\ rep = Ok(<<>>, <<>>)
  /\ phase = "run" /\ after = <<>>

\* list(i, flaguidl): "n size" / "n uid"
CList(i, uidl) == Dec(i) \o <<SP>> \o (IF uidl THEN Uid(files[m[i].fi]) ELSE Dec(SizeOf(i)))

\* the maildir as a listing, given the files that exist and the ones QUIT renamed
ListingOf(exist, renamed) ==
  LET js == SetToSortSeq(exist, LAMBDA p, q : p < q)
  IN [k \in 1..Len(js) |-> IF js[k] \in renamed THEN F("cur", files[js[k]].n \o <<COLON, 50, 44>>, files[js[k]].x) ELSE files[js[k]]]

\* result of one command: [rep, m, last, fs, done, ren]
R(r, mm, ll, ff, dn, rn) == [rep |-> r, m |-> mm, last |-> ll, fs |-> ff, done |-> dn, ren |-> rn]
Same(r) == R(r, m, last, fs, FALSE, {})

CDo(v, a0) ==
  LET a == SkipSpaces(a0)
  IN CASE v = "QUIT" ->
            LET del    == {m[i].fi : i \in {k \in 1..Len(m) : m[k].del}}
                failed == del \ fs                                              \* unlink() == -1: err_nounlink
                ren    == {j \in fs \ del : files[j].d = "new"}                 \* rename(new/x, cur/x:2,)
            IN R((IF failed # {} THEN [c |-> "mix", t |-> <<>>, b |-> <<>>] ELSE Ok(<<>>, <<>>)), m, last, fs \ del, TRUE, ren)
       [] v = "STAT" ->
            Same(Ok(Dec(Len(m)) \o <<SP>> \o Dec(FoldSeq(LAMBDA e, acc : acc + e, 0, [i \in 1..Len(m) |-> IF m[i].del THEN 0 ELSE SizeOf(i)])), <<>>))
       [] v = "RSET" -> R(Ok(<<>>, <<>>), [i \in 1..Len(m) |-> [m[i] EXCEPT !.del = FALSE]], 0, fs, FALSE, {})
       [] v = "LAST" -> Same(Ok(Dec(last), <<>>))
       [] v = "NOOP" -> Same(Ok(<<>>, <<>>))
       [] v = "DELE" ->
            LET i == CMsgno(a, m)
            IN IF i = -1 THEN Same(Err)
               ELSE R(Ok(<<>>, <<>>), [m EXCEPT ![i + 1].del = TRUE], (IF i + 1 > last THEN i + 1 ELSE last), fs, FALSE, {})
       [] v \in {"LIST", "UIDL"} ->
            IF a # <<>>
              THEN LET i == CMsgno(a, m) IN IF i = -1 THEN Same(Err) ELSE Same(Ok(CList(i + 1, v = "UIDL"), <<>>))
              ELSE Same(Ok(<<>>, Flat([i \in 1..Len(m) |-> IF m[i].del THEN <<>> ELSE CList(i, v = "UIDL") \o <<CR, LF>>]) \o <<DOT, CR, LF>>))
       [] v \in {"RETR", "TOP"} ->                                              \* both are pop3_top
            LET i == CMsgno(a, m)
            IN IF i = -1 THEN Same(Err)
               ELSE IF m[i + 1].fi \notin fs THEN Same(Err)                     \* open_read fails: err_nosuch
               ELSE Same(Ok(<<>>, CBlast(files[m[i + 1].fi].x, CTopLimit(a))))
       [] OTHER -> Same(Err)                                                    \* err_unimpl

Finish(w, st, exist, ren) ==
  /\ phase' = "done"
  /\ after' = ListingOf(exist, ren)
  /\ why' = IF w # "" THEN w ELSE AfterVerdict(files, Ident(N), st, ListingOf(exist, ren))

Command(v, a) ==
  /\ phase = "run"
  /\ LET r == CDo(v, a)
         s == Step(files, Ident(N), ref, [v |-> v, a |-> a], r.rep)
     IN /\ cmd' = [v |-> v, a |-> a] /\ rep' = r.rep
        /\ m' = r.m /\ last' = r.last /\ fs' = r.fs /\ ref' = s.st
        /\ IF r.done THEN Finish(s.why, s.st, r.fs, r.ren)
           ELSE why' = s.why /\ UNCHANGED <<phase, after>>
  /\ UNCHANGED files

Vanish(j) ==
  /\ phase = "run" /\ j \in fs
  /\ fs' = fs \ {j}
  /\ cmd' = [v |-> "XRM", a |-> <<j>>] /\ rep' = None
  /\ ref' = Step(files, Ident(N), ref, [v |-> "XRM", a |-> <<j>>], None).st
  /\ UNCHANGED <<files, m, last, why, phase, after>>

Drop ==
  /\ phase = "run"
  /\ cmd' = [v |-> "EOF", a |-> <<>>] /\ rep' = None
  /\ Finish("", ref, fs, {})
  /\ UNCHANGED <<files, fs, m, last, ref>>

Next == \/ \E v \in MsgVerbs, a \in MsgArgs : Command(v, a)
        \/ \E v \in BareVerbs, a \in NoArgs : Command(v, a)
        \/ \E j \in 1..N : Vanish(j)
        \/ Drop
Spec == Init /\ [][Next]_vars

Conforms == why = ""
\* the transcription keeps the server's own view in step with the reference model's
MarksAgree == phase = "run" => ref.marks = {i \in 1..Len(m) : m[i].del}
NumberingIsMtimeOrder == \A i \in 1..Len(m) : m[i].fi = i

\* non-vacuity: each of these is expected to be VIOLATED (the branch is reached)
CovRetrDotStuffed   == ~(cmd.v = "RETR" /\ rep.c = "ok" /\ \E i \in 1..(Len(rep.b) - 6) : SubSeq(rep.b, i, i + 3) = <<CR, LF, DOT, DOT>>)
CovTopLimited       == ~(cmd.v = "TOP" /\ rep.c = "ok" /\ rep.b # RetrBody(files[1].x) /\ Len(rep.b) > 5)
CovDeletedAtQuit    == ~(phase = "done" /\ ref.quit /\ ref.marks # {} /\ Len(after) < N /\ ref.gone = {})
CovRenamedAtQuit    == ~(phase = "done" /\ \E k \in 1..Len(after) : after[k] \notin {files[j] : j \in 1..N})
CovRefusedDeleted   == ~(cmd.v = "RETR" /\ rep.c = "err" /\ ref.marks # {} /\ Tokens(cmd.a) = <<<<49>>>> /\ 1 \in ref.marks)
CovVanishedRetr     == ~(cmd.v = "RETR" /\ rep.c = "err" /\ ref.gone # {} /\ ref.marks = {} /\ Tokens(cmd.a) = <<<<49>>>> /\ N >= 1)
CovMixedQuit        == ~(cmd.v = "QUIT" /\ rep.c = "mix")
CovRsetUnmarks      == ~(cmd.v = "LIST" /\ cmd.a = <<>> /\ ref.marks = {} /\ N = 3 /\ last = 0 /\ fs = {1} /\ rep.b = Listing(files, Ident(N), {}, FALSE))
\* always TRUE; prints a line for every witness state so that the check can see that each branch was reached
Witnessed ==
  /\ (~CovRetrDotStuffed => PrintT("COV RetrDotStuffed"))
  /\ (~CovTopLimited     => PrintT("COV TopLimited"))
  /\ (~CovDeletedAtQuit  => PrintT("COV DeletedAtQuit"))
  /\ (~CovRenamedAtQuit  => PrintT("COV RenamedAtQuit"))
  /\ (~CovRefusedDeleted => PrintT("COV RefusedDeleted"))
  /\ (~CovVanishedRetr   => PrintT("COV VanishedRetr"))
  /\ (~CovMixedQuit      => PrintT("COV MixedQuit"))
  /\ (~CovRsetUnmarks    => PrintT("COV RsetUnmarks"))
  /\ (phase = "done" /\ ~ref.quit /\ ref.marks # {} /\ ref.gone = {} /\ Len(after) = N => PrintT("COV DroppedKeepsMarked"))
=============================================================================
