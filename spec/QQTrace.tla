------------------------------- MODULE QQTrace -------------------------------
(***************************************************************************)
(* Trace validator T_mon for C01: every run of the real qmail-queue        *)
(* (clean, with one injected failure, or killed) is a recorded sequence of *)
(* file-system events.  TLC replays the events through the environment     *)
(* layer FS only - any call the program made is accepted - and evaluates   *)
(* the C01 monitors in every state and in every crash successor of every   *)
(* prefix (Next = consume the next event \/ crash here), so the crash      *)
(* points and data-loss choices are explored on the order of calls the     *)
(* current build really makes.                                             *)
(*                                                                         *)
(* Run record: ev (events), input, sender, rcpts (what was fed), defect    *)
(* ("none" or the single defect planted in the envelope), exit (status, -1 *)
(* if killed), cut = 1 if the envelope stream ended early.                 *)
(* Event: [op, d, n, d2, n2, ino, off, b, len]                             *)
(***************************************************************************)
EXTENDS QueueMon, Json, IOUtils, TLC
Runs == ndJsonDeserialize(IOEnv.RECORDS)
VARIABLES r, l, crashed
vars == <<r, l, crashed, names, files>>

Ev(run, i) == Runs[run].ev[i]
NEv(run) == Len(Runs[run].ev)

Init == r \in 1..Len(Runs) /\ l = 1 /\ crashed = FALSE /\ FsInit

Apply(e) ==
  CASE e.op = "create" -> Create(P(e.d, e.n), e.ino)
    [] e.op = "link"   -> Link(P(e.d, e.n), P(e.d2, e.n2))
    [] e.op = "unlink" -> Unlink(P(e.d, e.n))
    [] e.op = "rename" -> Rename(P(e.d, e.n), P(e.d2, e.n2))
    [] e.op = "write"  -> Write(e.ino, e.off, e.b)
    [] e.op = "trunc"  -> Trunc(e.ino, e.len)
    [] e.op = "fsync"  -> Fsync(e.ino)
    [] OTHER           -> UNCHANGED <<names, files>>

Consume == ~crashed /\ l <= NEv(r) /\ Apply(Ev(r, l)) /\ l' = l + 1 /\ UNCHANGED <<r, crashed>>
CrashHere == ~crashed /\ Crash /\ crashed' = TRUE /\ UNCHANGED <<r, l>>
Next == Consume \/ CrashHere
Spec == Init /\ [][Next]_vars

Run == Runs[r]
AtEnd == ~crashed /\ l > NEv(r)
ValidEnv == Run.defect = "none"

Verdict ==
  IF ~Atomic(Run.input, Run.sender, Run.rcpts, ValidEnv) THEN (IF crashed THEN "PartialMessageVisibleAfterCrash" ELSE "PartialMessageVisible")
  ELSE IF ~StateTable THEN "EnvelopeWithoutMessageFile"
  ELSE IF ~NameIsInode THEN "MessageNameIsNotItsInode"
  ELSE IF ~AtEnd THEN ""
  ELSE IF {<<t[1].d, t[1].n, Len(files[t[2]].data)>> : t \in names} # {<<o[1], o[2], o[3]>> : o \in {Run.obs[i] : i \in 1..Len(Run.obs)}}
       THEN "ABSTRACTION-MISMATCH"       \* the recorded events do not explain the real directory: cannot decide (infrastructure)
  ELSE IF ~SuccessMeansQueued(Run.exit) THEN "SuccessButNotDurablyQueued"
  ELSE IF Run.exit = 0 /\ ~ValidEnv THEN "MalformedEnvelopeAccepted"
  ELSE IF Run.fault = 0 /\ Run.defect \in {"badF", "badT"} /\ Run.exit # 91 THEN "WrongLetterNotRefusedWith91"
  ELSE IF Run.fault = 0 /\ Run.defect \in {"longF", "longT"} /\ Run.exit # 11 THEN "OverlongAddressNotRefusedWith11"
  ELSE IF Run.fault = 0 /\ Run.defect = "eof" /\ Run.exit # 54 THEN "TruncatedEnvelopeNotRefusedWith54"
  ELSE IF Run.defect = "none" /\ Run.fault = 0 /\ Run.exit # 0 THEN "ValidMessageRefused"
  ELSE ""

Inv == /\ LET v == Verdict IN v = "" \/ PrintT(<<"BADREC", r, v>>)
       /\ AtEnd => PrintT(<<"CHECKED", r, r>>)
=============================================================================
