--------------------------- MODULE RemoteBlastRec ---------------------------
(***************************************************************************)
(* Record validator (T) for C06: every record is one transmission made by  *)
(* the real qmail-remote code - message bytes i, read chunking c, bytes o  *)
(* put on the SMTP stream, outcome r - and is judged by the monitor        *)
(* EncVerdict of SmtpData.  TLC walks the file in chunks spread over its   *)
(* workers; see lib/vlib.py tlc_validate_records for the print protocol.   *)
(***************************************************************************)
EXTENDS SmtpData, Json, IOUtils, TLC
Recs  == ndJsonDeserialize(IOEnv.RECORDS)
Chunk == atoi(IOEnv.CHUNK)
N     == Len(Recs)
NCh   == (N + Chunk - 1) \div Chunk
G     == 16
VARIABLES g, k
Init == g = 0 /\ k = 0
Next == \/ g = 0 /\ g' \in 1..G /\ k' = 0
        \/ g > 0 /\ k = 0 /\ k' \in {c \in 1..NCh : c % G = g - 1} /\ g' = g
Spec == Init /\ [][Next]_<<g, k>>

Verdict(r) == EncVerdict(r.i, r.o, IF r.r = "ok" THEN "ok" ELSE r.r)
CheckChunk(c) ==
  LET lo == (c - 1) * Chunk + 1
      hi == IF c * Chunk < N THEN c * Chunk ELSE N
  IN /\ \A i \in lo..hi : LET v == Verdict(Recs[i]) IN v = "" \/ PrintT(<<"BADREC", i, v>>)
     /\ PrintT(<<"CHECKED", lo, hi>>)
Inv == k = 0 \/ CheckChunk(k)
=============================================================================
