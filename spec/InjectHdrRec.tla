---------------------------- MODULE InjectHdrRec ----------------------------
(***************************************************************************)
(* Record validator (T) for X03.                                           *)
(*  kind "dt":  one call of the real datetime_tai() + date822fmt():        *)
(*              day/tod (the time split by the harness), t (when it fits   *)
(*              32 bits), f = <<year, mon, mday, hour, min, sec, wday,     *)
(*              yday>>, text = the formatted date                          *)
(*  kind "inj": one run of the real qmail-inject: the input header as      *)
(*              kinds, the letters, -f, -n, the To/Cc positions listed in  *)
(*              the follow-up file; the new header as kept positions and   *)
(*              added kinds, the envelope sender bytes, the values of the  *)
(*              supplied Date / Message-ID / From fields, the virtual      *)
(*              clock and the process id                                   *)
(***************************************************************************)
EXTENDS InjectHdr, Datetime, Json, IOUtils, TLC
Recs  == ndJsonDeserialize(IOEnv.RECORDS)
Chunk == atoi(IOEnv.CHUNK)
N     == Len(Recs)
NCh   == (N + Chunk - 1) \div Chunk
G     == 16
VARIABLES g, k
Init == g = 0 /\ k = 0
Next == \/ g = 0 /\ g' \in 1..G /\ k' = 0
        \/ g > 0 /\ k = 0 /\ k' \in {c \in 1..NCh : c % G = g - 1} /\ g' = g
Spec == Init /\ [][Next]_<<g, k>>

DtVerdict(r) ==
  LET p == DateP(r.day, r.tod)
  IN IF r.fits = 1 /\ SplitP(r.t) # [tod |-> r.tod, day |-> r.day] THEN "TimeSplitWrong"
     ELSE IF r.f # <<p.year, p.mon, p.mday, p.hour, p.min, p.sec, p.wday, p.yday>> THEN "CalendarFieldsWrong"
     ELSE IF r.text # DateText(p) THEN "DateTextWrong"
     ELSE ""

Txt(s) == [i \in 1..Len(s) |-> s[i]]
VerpTail == <<45, 64, 91, 93>>                       \* -@[]
SenderText(r, s) ==
  IF s.src = "f" THEN r.fsnd
  ELSE IF s.src = "rp" THEN r.addr[s.j] \o (IF s.verp THEN VerpTail ELSE <<>>)
  ELSE r.suser \o (IF s.mess THEN <<45>> \o Dec(r.clock) \o <<46>> \o Dec(r.pid) ELSE <<>>) \o (IF s.verp THEN <<45>> ELSE <<>>)
       \o <<64>> \o r.shost \o (IF s.verp THEN VerpTail ELSE <<>>)
\* the From field qmail-inject makes up: name-address style, or address-comment style with the letter c
FromText(r, fl) ==
  LET a == r.user \o <<64>> \o r.host
  IN IF r.name = <<>> THEN a
     ELSE IF "c" \in fl THEN a \o <<32, 40>> \o r.name \o <<41>>
     ELSE <<34>> \o r.name \o <<34, 32, 60>> \o a \o <<62>>
InjRecVerdict(r) ==
  LET fl == {r.fl[i] : i \in 1..Len(r.fl)}
      mfth == {r.mfth[i] : i \in 1..Len(r.mfth)}
      out == [i \in 1..Len(r.out) |-> IF r.out[i].a = "kept" THEN Kept(r.out[i].j) ELSE Add(r.out[i].k)]
      al == Allowed(r.hdr, fl, r.fs = 1, r.q = 1, mfth)
      fits == {a \in al : a.out = out}
      added == {out[i].k : i \in {n \in 1..Len(out) : out[n].a = "add"}}
      d == DateP(r.day, r.tod)
  IN IF r.rc # 0 THEN "ValidMessageRefused"
     ELSE IF r.queued # r.q THEN (IF r.q = 1 THEN "NothingQueued" ELSE "QueuedAlthoughToldToPrint")
     ELSE IF fits = {} THEN InjVerdict(r.hdr, fl, r.fs = 1, r.q = 1, mfth, out, (CHOOSE a \in al : TRUE).snd)
     ELSE IF r.sndb \notin {SenderText(r, a.snd) : a \in fits} THEN "EnvelopeSenderWrong"
     ELSE IF r.phbad = 1 THEN "PlaceholderRecipientFieldWrong"
     ELSE IF added \cap {"date", "rdate"} # {} /\ r.datetxt # DateText(d) THEN "SuppliedDateIsNotTheTimeOfSubmission"
     ELSE IF added \cap {"msgid", "rmsgid"} # {} /\ r.msgidtxt # MsgidText(d, r.pid, r.idhost) THEN "SuppliedMessageIdWrong"
     ELSE IF added \cap {"from", "rfrom"} # {} /\ r.fromtxt # FromText(r, fl) THEN "SuppliedFromWrong"
     ELSE IF "mft" \in added /\ {r.mftset[i] : i \in 1..Len(r.mftset)} # MftAddresses(r.hdr) THEN "FollowupListIsNotAllToAndCcAddresses"
     ELSE IF "mft" \in added /\ Len(r.mftset) # Cardinality(MftAddresses(r.hdr)) THEN "FollowupListRepeatsAnAddress"
     ELSE ""
Verdict(r) == IF r.kind = "dt" THEN DtVerdict(r) ELSE InjRecVerdict(r)
CheckChunk(c) ==
  LET lo == (c - 1) * Chunk + 1
      hi == IF c * Chunk < N THEN c * Chunk ELSE N
  IN /\ \A i \in lo..hi : LET v == Verdict(Recs[i]) IN v = "" \/ PrintT(<<"BADREC", i, v>>)
     /\ PrintT(<<"CHECKED", lo, hi>>)
Inv == k = 0 \/ CheckChunk(k)
=============================================================================
