SPECIFICATION Spec
CONSTANT NMAX = 12
INVARIANT Inv
