SPECIFICATION Spec
CONSTANTS
  MaxLen = 9
  Split = 3
INVARIANT Sound
