------------------------------ MODULE IngestRec ------------------------------
(***************************************************************************)
(* Record validator (T) for C07: one record = one SMTP / QMTP / QMQP       *)
(* transaction with the real daemon in front of the recording queue        *)
(* program; judged by Ingest!IngestVerdict.                                *)
(***************************************************************************)
EXTENDS Ingest, Json, IOUtils
Recs  == ndJsonDeserialize(IOEnv.RECORDS)
Chunk == atoi(IOEnv.CHUNK)
N     == Len(Recs)
NCh   == (N + Chunk - 1) \div Chunk
G     == 16
VARIABLES g, k
Init == g = 0 /\ k = 0
Next == \/ g = 0 /\ g' \in 1..G /\ k' = 0
        \/ g > 0 /\ k = 0 /\ k' \in {c \in 1..NCh : c % G = g - 1} /\ g' = g
Spec == Init /\ [][Next]_<<g, k>>
Verdict(r) == IngestVerdict(r)
CheckChunk(c) ==
  LET lo == (c - 1) * Chunk + 1
      hi == IF c * Chunk < N THEN c * Chunk ELSE N
  IN /\ \A i \in lo..hi : LET v == Verdict(Recs[i]) IN v = "" \/ PrintT(<<"BADREC", i, v>>)
     /\ PrintT(<<"CHECKED", lo, hi>>)
Inv == k = 0 \/ CheckChunk(k)
=============================================================================
