-------------------------------- MODULE QSend --------------------------------
(***************************************************************************)
(* Program layer (P): the queue manager qmail-send as a generator of       *)
(* OBSERVABLE events, at the grain of its externally visible steps:        *)
(* preprocess, start a delivery (comm_write), receive a report, append a   *)
(* bounce record (addbounce), write a mark (markdone), remove a recipient  *)
(* list (job_close), queue the bounce (injectbounce), remove bounce / info *)
(* (messdone), crash, restart, TERM.  The environment is the injector      *)
(* (Accept), the spawners (any report class, any order, garbled or foreign *)
(* reports), the machine (Crash, optionally losing un-synced marks and     *)
(* bounce records) and the operator (Term).                                *)
(*                                                                         *)
(* Every event the program or the environment produces is fed to the       *)
(* monitor QSendMon!Step; the invariant is that the monitor never objects. *)
(* Steps are deliberately small (a report, the bounce record and the mark  *)
(* are three steps) so that TLC puts a crash between any two of them.      *)
(***************************************************************************)
EXTENDS QSendMon
CONSTANTS MaxMsgs, MaxRcpt, MaxCrash, MaxTime, Lossy
VARIABLES mon, verdict, ps, fly, todoq, nmsg, ncrash, up, term, phase
vars == <<mon, verdict, ps, fly, todoq, nmsg, ncrash, up, term, phase>>

\* ps[n] = [stage, recs, noted, bq, bgone, chgone]; recs[i] = [c, pos, a, mark, st]  st: "todo" | "fly" | "wait" (reported, follow-up steps pending)
\* fly  = set of <<c, d, n, i>>      todoq = sequence of pending follow-up steps <<kind, n, i>> of the daemon
\* phase: "run" | "down" (after crash or exit: only Lose* and Restart)

E0 == [op |-> "", t |-> 0, n |-> 0, c |-> 0, d |-> 0, a |-> 0, k |-> "", pos |-> 0, s |-> 0, to |-> 0, m |-> 0, ok |-> 0, rc |-> <<>>, recs |-> <<>>,
       names |-> <<>>, b |-> <<>>, atab |-> <<>>, pfx |-> <<>>, tmo |-> 0, lossy |-> 0, conc |-> <<>>, announce |-> <<>>, status |-> 0, extra |-> 0]
\* history counters of the monitor that only the timing clauses (strict mode) read are normalised away, and the
\* counters that matter are saturated, so that the reachable state space is finite
Sat(x, m) == IF x > m THEN m ELSE x
Norm(st) == [st EXCEPT !.seq = 0, !.now = 0, !.alrm = 0, !.lastcrash = 0, !.starts = Sat(@, 2),
                       !.msgs = [n \in 1..NMAX |-> [st.msgs[n] EXCEPT !.recs = [i \in 1..Len(st.msgs[n].recs) |->
                                    [st.msgs[n].recs[i] EXCEPT !.satt = 0, !.tatt = 0, !.kc = Sat(@, 2), !.att = Sat(@, MaxTime + 1)]]]]]
Feed(e) == LET r == Step(mon, e, FALSE) IN mon' = Norm(r.st) /\ verdict' = (IF verdict = "" THEN r.v ELSE verdict)

Conc == <<2, 1>>
Sender == 90      \* address index of the (plain) envelope sender; 91 = empty sender, 92 = #@[], 93 = postmaster
Addr(n, i) == 10 * n + i
ChanOf(i) == i % 2
BlankP == [stage |-> "none", recs |-> <<>>, bq |-> FALSE, bgone |-> TRUE, chgone |-> <<TRUE, TRUE>>]

Init == /\ mon = Step(InitMon, [E0 EXCEPT !.op = "start", !.conc = Conc, !.announce = <<120, 120>>, !.s = 91, !.d = 92, !.a = 93, !.pos = 604800], FALSE).st
        /\ verdict = "" /\ ps = [n \in 1..NMAX |-> BlankP] /\ fly = {} /\ todoq = <<>> /\ nmsg = 0 /\ ncrash = 0 /\ up = TRUE /\ term = FALSE /\ phase = "run"

Accept == /\ nmsg < MaxMsgs /\ \E k \in 1..MaxRcpt :
               LET n == nmsg + 1 IN
               /\ Feed([E0 EXCEPT !.op = "accept", !.n = n, !.s = Sender, !.to = Sender, !.k = "plain", !.rc = [i \in 1..k |-> Addr(n, i)]])
               /\ ps' = [ps EXCEPT ![n] = [BlankP EXCEPT !.stage = "todo", !.recs = [i \in 1..k |-> [c |-> ChanOf(i), pos |-> 20 * ((i - 1) \div 2), a |-> Addr(n, i), mark |-> FALSE, st |-> "todo", noted |-> FALSE]]]]
               /\ nmsg' = n
          /\ UNCHANGED <<fly, todoq, ncrash, up, term, phase>>

Prep(n) == /\ phase = "run" /\ ~term /\ ps[n].stage = "todo"
           /\ Feed([E0 EXCEPT !.op = "prep", !.n = n, !.recs = [i \in 1..Len(ps[n].recs) |-> <<ps[n].recs[i].c, ps[n].recs[i].pos, ps[n].recs[i].a>>]])
           /\ ps' = [ps EXCEPT ![n].stage = "prepped0", ![n].chgone = <<~\E i \in 1..Len(ps[n].recs) : ps[n].recs[i].c = 0, ~\E i \in 1..Len(ps[n].recs) : ps[n].recs[i].c = 1>>,
                               ![n].recs = [i \in 1..Len(ps[n].recs) |-> [ps[n].recs[i] EXCEPT !.mark = FALSE, !.st = "todo", !.noted = FALSE]]]
           /\ UNCHANGED <<fly, todoq, nmsg, ncrash, up, term, phase>>

\* the cleaner removes intd/n and todo/n on the daemon's request; only then is the message scheduled
CleanTodo(n) == /\ phase = "run" /\ ps[n].stage = "prepped0"
                /\ Feed([E0 EXCEPT !.op = "rmtodo", !.n = n, !.extra = 1])
                /\ ps' = [ps EXCEPT ![n].stage = "prepped"]
                /\ UNCHANGED <<fly, todoq, nmsg, ncrash, up, term, phase>>
\* after a crash between the two, the daemon finds todo/n again, removes the stale lists and starts over
Redo(n, c) == /\ phase = "run" /\ ~term /\ ps[n].stage = "stale" /\ ~ps[n].chgone[c + 1]
              /\ Feed([E0 EXCEPT !.op = "rmchan", !.n = n, !.c = c])
              /\ ps' = [ps EXCEPT ![n].chgone[c + 1] = TRUE, ![n].stage = IF ps[n].chgone[2 - c] THEN "todo" ELSE "stale"]
              /\ UNCHANGED <<fly, todoq, nmsg, ncrash, up, term, phase>>

FreeNum(c) == CHOOSE d \in 0..3 : ~\E f \in fly : f[1] = c /\ f[2] = d
Start(n, i) ==
  LET rec == ps[n].recs[i] IN
  /\ phase = "run" /\ ~term /\ ps[n].stage = "prepped" /\ rec.st = "todo" /\ ~rec.mark
  /\ Cardinality({f \in fly : f[1] = rec.c}) < Conc[rec.c + 1]
  /\ Feed([E0 EXCEPT !.op = "delcmd", !.c = rec.c, !.d = FreeNum(rec.c), !.n = n, !.a = rec.a, !.s = Sender])
  /\ fly' = fly \cup {<<rec.c, FreeNum(rec.c), n, i>>}
  /\ ps' = [ps EXCEPT ![n].recs[i].st = "fly"]
  /\ UNCHANGED <<todoq, nmsg, ncrash, up, term, phase>>

\* the spawner answers a delivery in flight with any class; the daemon queues its follow-up steps
Report(f, k) ==
  /\ phase = "run" /\ f \in fly
  /\ Feed([E0 EXCEPT !.op = "report", !.c = f[1], !.d = f[2], !.k = k])
  /\ fly' = fly \ {f}
  /\ todoq' = todoq \o (CASE k = "K" -> <<<<"mark", f[3], f[4]>>, <<"rel", f[3], f[4]>>>>
                          [] k = "D" -> <<<<"note", f[3], f[4]>>, <<"mark", f[3], f[4]>>, <<"rel", f[3], f[4]>>>>
                          [] OTHER  -> <<<<"rel", f[3], f[4]>>>>)
  /\ ps' = [ps EXCEPT ![f[3]].recs[f[4]].st = "wait"]
  /\ UNCHANGED <<nmsg, ncrash, up, term, phase>>
\* a report that belongs to nothing in flight (hostile or confused spawner): the daemon ignores it
ForeignReport(c, d, k) ==
  /\ phase = "run" /\ ~\E f \in fly : f[1] = c /\ f[2] = d
  /\ Feed([E0 EXCEPT !.op = "report", !.c = c, !.d = d, !.k = k])
  /\ UNCHANGED <<ps, fly, todoq, nmsg, ncrash, up, term, phase>>

\* the daemon performs its next follow-up step
Follow ==
  /\ phase = "run" /\ todoq # <<>>
  /\ LET s == Head(todoq)  n == s[2]  i == s[3]  rec == ps[n].recs[i] IN
     CASE s[1] = "note" -> /\ Feed([E0 EXCEPT !.op = "note", !.n = n, !.a = rec.a])
                           /\ ps' = [ps EXCEPT ![n].recs[i].noted = TRUE, ![n].bgone = FALSE, ![n].bq = FALSE]
       [] s[1] = "mark" -> /\ Feed([E0 EXCEPT !.op = "mark", !.n = n, !.c = rec.c, !.pos = rec.pos])
                           /\ ps' = [ps EXCEPT ![n].recs[i].mark = TRUE]
       [] OTHER          -> /\ UNCHANGED <<mon, verdict>>
                            /\ ps' = [ps EXCEPT ![n].recs[i].st = "todo"]
  /\ todoq' = Tail(todoq)
  /\ UNCHANGED <<fly, nmsg, ncrash, up, term, phase>>

Idle(n, c) == /\ ~\E f \in fly : f[3] = n /\ ps[n].recs[f[4]].c = c
              /\ ~\E j \in 1..Len(todoq) : todoq[j][2] = n /\ ps[n].recs[todoq[j][3]].c = c
RmChan(n, c) ==
  /\ phase = "run" /\ ps[n].stage = "prepped" /\ ~ps[n].chgone[c + 1] /\ Idle(n, c)
  /\ \A i \in 1..Len(ps[n].recs) : ps[n].recs[i].c = c => ps[n].recs[i].mark
  /\ Feed([E0 EXCEPT !.op = "rmchan", !.n = n, !.c = c])
  /\ ps' = [ps EXCEPT ![n].chgone[c + 1] = TRUE]
  /\ UNCHANGED <<fly, todoq, nmsg, ncrash, up, term, phase>>

Noted(n) == {ps[n].recs[i].a : i \in {j \in 1..Len(ps[n].recs) : ps[n].recs[j].noted}}
\* injectbounce: the queue program succeeds or fails (environment)
BounceQ(n, ok) ==
  /\ phase = "run" /\ ps[n].stage = "prepped" /\ ps[n].chgone = <<TRUE, TRUE>> /\ ~ps[n].bgone /\ ~ps[n].bq
  /\ Feed([E0 EXCEPT !.op = "bounceq", !.n = n, !.ok = IF ok THEN 1 ELSE 0, !.s = 91, !.to = Sender, !.extra = 1,
                     !.names = LET S == Noted(n) IN [j \in 1..Cardinality(S) |-> CHOOSE x \in S : Cardinality({y \in S : y < x}) = j - 1]])
  /\ ps' = [ps EXCEPT ![n].bq = ok]
  /\ UNCHANGED <<fly, todoq, nmsg, ncrash, up, term, phase>>
RmBounce(n) ==
  /\ phase = "run" /\ ps[n].stage = "prepped" /\ ps[n].bq /\ ~ps[n].bgone
  /\ Feed([E0 EXCEPT !.op = "rmbounce", !.n = n])
  /\ ps' = [ps EXCEPT ![n].bgone = TRUE]
  /\ UNCHANGED <<fly, todoq, nmsg, ncrash, up, term, phase>>
RmInfo(n) ==
  /\ phase = "run" /\ ps[n].stage = "prepped" /\ ps[n].chgone = <<TRUE, TRUE>> /\ ps[n].bgone
  /\ Feed([E0 EXCEPT !.op = "rminfo", !.n = n, !.extra = 1])
  /\ ps' = [ps EXCEPT ![n].stage = "done"]
  /\ UNCHANGED <<fly, todoq, nmsg, ncrash, up, term, phase>>

\* machine crash: deliveries in flight and pending follow-up steps are gone
Crash ==
  /\ phase = "run" /\ ncrash < MaxCrash
  /\ Feed([E0 EXCEPT !.op = "crash", !.lossy = IF Lossy THEN 1 ELSE 0])
  /\ fly' = {} /\ todoq' = <<>> /\ ncrash' = ncrash + 1 /\ phase' = "down" /\ term' = FALSE
  /\ ps' = [n \in 1..NMAX |-> [ps[n] EXCEPT !.recs = [i \in 1..Len(ps[n].recs) |-> [ps[n].recs[i] EXCEPT !.st = "todo"]],
                                              !.stage = IF ps[n].stage = "prepped0" THEN (IF ps[n].chgone = <<TRUE, TRUE>> THEN "todo" ELSE "stale") ELSE ps[n].stage]]
  /\ UNCHANGED <<nmsg, up>>
\* with un-synced data lost, a mark (never fsynced) may be gone, and so may the bounce record
LoseMark(n, i) ==
  /\ phase = "down" /\ Lossy /\ ps[n].stage = "prepped" /\ ps[n].recs[i].mark /\ ~ps[n].chgone[ps[n].recs[i].c + 1]
  /\ Feed([E0 EXCEPT !.op = "lost", !.n = n, !.c = ps[n].recs[i].c, !.pos = ps[n].recs[i].pos])
  /\ ps' = [ps EXCEPT ![n].recs[i].mark = FALSE]
  /\ UNCHANGED <<fly, todoq, nmsg, ncrash, up, term, phase>>
LoseNote(n) ==
  /\ phase = "down" /\ Lossy /\ ps[n].stage = "prepped" /\ ~ps[n].bgone
  /\ Feed([E0 EXCEPT !.op = "lostnote", !.n = n])
  /\ ps' = [ps EXCEPT ![n].recs = [i \in 1..Len(ps[n].recs) |-> [ps[n].recs[i] EXCEPT !.noted = FALSE]]]     \* the file stays, its content is gone
  /\ UNCHANGED <<fly, todoq, nmsg, ncrash, up, term, phase>>
Restart ==
  /\ phase = "down"
  /\ Feed([E0 EXCEPT !.op = "start", !.conc = Conc, !.announce = <<120, 120>>, !.s = 91, !.d = 92, !.a = 93, !.pos = 604800])
  /\ phase' = "run" /\ UNCHANGED <<ps, fly, todoq, nmsg, ncrash, up, term>>
\* TERM: nothing new is started; when nothing is in flight the daemon exits and is started again
Term == /\ phase = "run" /\ ~term /\ Feed([E0 EXCEPT !.op = "sig", !.k = "TERM"]) /\ term' = TRUE
        /\ UNCHANGED <<ps, fly, todoq, nmsg, ncrash, up, phase>>
Exit == /\ phase = "run" /\ term /\ fly = {} /\ todoq = <<>>
        /\ Feed([E0 EXCEPT !.op = "sendexit"]) /\ phase' = "down" /\ term' = FALSE
        /\ UNCHANGED <<ps, fly, todoq, nmsg, ncrash, up>>

Next == \/ Accept \/ Follow \/ Crash \/ Restart \/ Term \/ Exit
        \/ \E n \in 1..NMAX : Prep(n) \/ CleanTodo(n) \/ (\E c \in {0, 1} : Redo(n, c)) \/ RmBounce(n) \/ RmInfo(n) \/ LoseNote(n) \/ (\E ok \in BOOLEAN : BounceQ(n, ok))
                              \/ (\E c \in {0, 1} : RmChan(n, c)) \/ (\E i \in 1..Len(ps[n].recs) : Start(n, i) \/ LoseMark(n, i))
        \/ \E f \in fly : \E k \in {"K", "Z", "D", "G"} : Report(f, k)
        \/ \E c \in {0, 1} : \E k \in {"K", "D"} : ForeignReport(c, 3, k)
Spec == Init /\ [][Next]_vars

MonitorNeverObjects == verdict = ""
\* bound on attempts per recipient (retries are otherwise unbounded)
Bound == \A n \in 1..NMAX : \A i \in 1..Len(mon.msgs[n].recs) : mon.msgs[n].recs[i].att <= MaxTime
\* sanity (must be VIOLATED): some message leaves the queue having had a permanent failure and a bounce
NoMessageEverCompletesWithBounce == ~\E n \in 1..NMAX : ps[n].stage = "done" /\ mon.msgs[n].bounced # {}
=============================================================================
