-------------------------------- MODULE Tcpto --------------------------------
(***************************************************************************)
(* The table of remote hosts that time out (tcpto.c, qmail-tcpto.8,        *)
(* qmail-remote.8; part of C09: "connect trouble yields temporary          *)
(* failure"): qmail-remote skips an address that has timed out twice, at   *)
(* least two minutes apart, for about an hour after the last time-out; a   *)
(* connection that works clears the entry.                                 *)
(*                                                                         *)
(* The table is queue/lock/tcpto: slots of 16 bytes (address 4, flag 1,    *)
(* pad 3, time 4 little-endian, pad 4).  A table is a sequence of records  *)
(* [ip, f, w]; ip = 0 with f = 0 is a slot never used.                      *)
(*                                                                         *)
(* P  LookupP / ErrP: transcription of tcpto() and tcpto_err().  Each runs *)
(*    under the exclusive lock of the file, so each is one atomic step;    *)
(*    `was` (static flagwasthere) is private to the process.               *)
(* E  SkipSound etc. are stated in TcptoModel over the history of reported *)
(*    time-outs; TcptoRec applies LookupP / ErrP to recorded calls of the  *)
(*    real functions and to runs of the real qmail-remote.                 *)
(***************************************************************************)
EXTENDS Integers, Sequences, FiniteSets

MinOf(S) == CHOOSE x \in S : \A y \in S : x <= y
Window(pidbits) == (60 + pidbits) * 64          \* (60 + (getpid() & 31)) << 6 seconds: 64 .. 97 minutes
GRACE == 120                                     \* a second time-out counts only two minutes after the recorded one
MAXF == 10

\* tcpto(ip): is this address to be skipped now?  -> [skip, was]
LookupP(tab, ip, now, pidbits) ==
  LET hits == {i \in 1..Len(tab) : tab[i].ip = ip}
  IN IF hits = {} THEN [skip |-> 0, was |-> 0]
     ELSE LET r == tab[MinOf(hits)]
          IN [skip |-> IF r.f >= 2 /\ now - r.w < Window(pidbits) THEN 1 ELSE 0, was |-> 1]

\* slot to take for a new address: the first free one (f = 0), else the first with the least w + f * 1024
Victim(tab) ==
  LET free == {i \in 1..Len(tab) : tab[i].f = 0}
      key(i) == tab[i].w + tab[i].f * 1024
  IN IF free # {} THEN MinOf(free)
     ELSE MinOf({i \in 1..Len(tab) : \A j \in 1..Len(tab) : key(i) <= key(j)})

\* tcpto_err(ip, flagerr): flagerr = 1 the connection attempt timed out, 0 anything else (connected, refused, ...)
ErrP(tab, was, ip, flagerr, now) ==
  IF flagerr = 0 /\ was = 0 THEN tab
  ELSE IF Len(tab) = 0 THEN tab
  ELSE LET hits == {i \in 1..Len(tab) : tab[i].ip = ip}
       IN IF hits # {} THEN
               LET i == MinOf(hits)  r == tab[i]
               IN IF flagerr = 0 THEN [tab EXCEPT ![i].f = 0]
                  ELSE IF r.f # 0 /\ now < GRACE + r.w THEN tab
                  ELSE [tab EXCEPT ![i].f = (IF r.f + 1 > MAXF THEN MAXF ELSE r.f + 1), ![i].w = now]
          ELSE IF flagerr = 0 THEN tab
          ELSE [tab EXCEPT ![Victim(tab)] = [ip |-> ip, f |-> 1, w |-> now]]

\* one connection attempt of qmail-remote to one address: look up, (if not skipped) connect, report
\* outcome in {"ok", "timeout", "refused"};  -> [skipped, tab]
AttemptP(tab, ip, now, pidbits, outcome) ==
  LET l == LookupP(tab, ip, now, pidbits)
  IN IF l.skip = 1 THEN [skipped |-> 1, tab |-> tab]
     ELSE [skipped |-> 0, tab |-> ErrP(tab, l.was, ip, (IF outcome = "timeout" THEN 1 ELSE 0), now)]
=============================================================================
