--------------------------- MODULE SmtpdBlastRec ---------------------------
(***************************************************************************)
(* Record validator (T) for C05: one record = one real SMTP session:       *)
(* s bytes sent after 354, res = class of the reply (end = 250, bad = 451, *)
(* eof = none), msg = bytes the queue program received after the Received  *)
(* field, q = queue program saw a complete envelope, nlf = number of       *)
(* commands the server answered after the end of DATA (-1 = not observed). *)
(* "Bytes after the terminator are the next command" is observed through   *)
(* nlf: the command reader answers once per LF-terminated line.            *)
(* orig: when the stream s was produced by the real qmail-remote from a    *)
(* message, that message (else <<-1>>): the round trip must be identity.   *)
(***************************************************************************)
EXTENDS SmtpData, Json, IOUtils, TLC
Recs  == ndJsonDeserialize(IOEnv.RECORDS)
Chunk == atoi(IOEnv.CHUNK)
N     == Len(Recs)
NCh   == (N + Chunk - 1) \div Chunk
G     == 16
VARIABLES g, k
Init == g = 0 /\ k = 0
Next == \/ g = 0 /\ g' \in 1..G /\ k' = 0
        \/ g > 0 /\ k = 0 /\ k' \in {c \in 1..NCh : c % G = g - 1} /\ g' = g
Spec == Init /\ [][Next]_<<g, k>>

Verdict(r) ==
  LET v == DecVerdict(r.s, r.res, r.msg, -1, r.q = 1)
      ref == RefRecv(r.s)
  IN IF v # "" THEN v
     ELSE IF r.orig # <<-1>> /\ r.msg # r.orig THEN "RoundTripChangedMessage"     \* decode(encode(m)) = m
     ELSE IF ref.st = "end" /\ r.nlf # -1 /\ r.nlf # NumLF(SubSeq(r.s, ref.used + 1, Len(r.s))) THEN "BytesAfterTerminatorNotCommands"
     ELSE ""
CheckChunk(c) ==
  LET lo == (c - 1) * Chunk + 1
      hi == IF c * Chunk < N THEN c * Chunk ELSE N
  IN /\ \A i \in lo..hi : LET v == Verdict(Recs[i]) IN v = "" \/ PrintT(<<"BADREC", i, v>>)
     /\ PrintT(<<"CHECKED", lo, hi>>)
Inv == k = 0 \/ CheckChunk(k)
=============================================================================
