--------------------------- MODULE SmtpdBlastRec ---------------------------
(***************************************************************************)
(* Record validator (T) for C05: one record = one real SMTP session:       *)
(* s bytes sent after 354, res = class of the reply (end = 250, bad = 451, *)
(* eof = none), msg = bytes the queue program received after the Received  *)
(* field, q = queue program saw a complete envelope, nlf = number of       *)
(* commands the server answered after the end of DATA (-1 = not observed). *)
(* "Bytes after the terminator are the next command" is observed through   *)
(* nlf: the command reader answers once per LF-terminated line.            *)
(* orig: when the stream s was produced by the real qmail-remote from a    *)
(* message, that message (else <<-1>>): the round trip must give back the  *)
(* same lines.                                                             *)
(***************************************************************************)
EXTENDS SmtpData, Json, IOUtils, TLC, SequencesExt
Recs  == ndJsonDeserialize(IOEnv.RECORDS)
Chunk == atoi(IOEnv.CHUNK)
N     == Len(Recs)
NCh   == (N + Chunk - 1) \div Chunk
G     == 16
VARIABLES g, k
Init == g = 0 /\ k = 0
Next == \/ g = 0 /\ g' \in 1..G /\ k' = 0
        \/ g > 0 /\ k = 0 /\ k' \in {c \in 1..NCh : c % G = g - 1} /\ g' = g
Spec == Init /\ [][Next]_<<g, k>>

\* the lines of a queued message as its sender sees them: a line ends at LF, at CR LF, or at a CR not followed by LF (the
\* client sends each as CR LF, so each comes back as LF)
Lines(m) == LET keep == {i \in 1..Len(m) : ~(m[i] = 13 /\ i < Len(m) /\ m[i + 1] = 10)}
                idx == SetToSortSeq(keep, LAMBDA a, b : a < b)
            IN [j \in 1..Len(idx) |-> IF m[idx[j]] = 13 THEN 10 ELSE m[idx[j]]]
\* what the command loop answers to the bytes that follow the terminator, when they are lines of the small known vocabulary
\* NOOP (250), QUIT (221, ends the session), anything else made of letters (502); <<-1>> = not predicted here
Upper(b) == IF b \in 97..122 THEN b - 32 ELSE b
CmdLines(rem) == LET lfs == SetToSortSeq({i \in 1..Len(rem) : rem[i] = 10}, LAMBDA a, b : a < b)
                 IN [q \in 1..Len(lfs) |-> LET lo == IF q = 1 THEN 1 ELSE lfs[q - 1] + 1
                                               hi == lfs[q] - 1
                                               raw == SubSeq(rem, lo, hi)
                                               t == IF Len(raw) > 0 /\ raw[Len(raw)] = 13 THEN SubSeq(raw, 1, Len(raw) - 1) ELSE raw
                                           IN [i \in 1..Len(t) |-> Upper(t[i])]]
Simple(l) == Len(l) > 0 /\ \A i \in 1..Len(l) : l[i] \in 65..90
ReplyOf(l) == IF l = <<78, 79, 79, 80>> THEN 250 ELSE IF l = <<81, 85, 73, 84>> THEN 221 ELSE 502
ExpectedReplies(rem) ==
  LET ls == CmdLines(rem)
      quits == {q \in 1..Len(ls) : ls[q] = <<81, 85, 73, 84>>}
      upto == IF quits = {} THEN Len(ls) ELSE CHOOSE q \in quits : \A j \in quits : q <= j
  IN IF Len(ls) = 0 \/ (Len(rem) > 0 /\ rem[Len(rem)] # 10) \/ \E q \in 1..Len(ls) : ~Simple(ls[q]) THEN <<-1>>
     ELSE [q \in 1..upto |-> ReplyOf(ls[q])]
\* sessions under a size limit (lim > 0; the exact boundary belongs to C07 and is left open within two bytes): a message over
\* the limit is refused as a whole after its terminator (res = "big") and nothing is queued - in particular no prefix of it
StoredSize(lines) == LET n == Len(lines) IN IF n = 0 THEN 0 ELSE n + Len(Flat(lines))
Verdict(r) ==
  LET ref == RefRecv(r.s)
      sz == IF ref.st = "end" THEN StoredSize(ref.lines) ELSE 0
      v == IF r.lim > 0 /\ r.res = "big"
             THEN (IF r.q = 1 THEN "QueuedDespiteSizeRefusal" ELSE IF ref.st # "end" THEN "SizeRefusalBeforeTheTerminator"
                   ELSE IF sz < r.lim - 2 THEN "SmallMessageRefusedForSize" ELSE "")
           ELSE IF r.lim > 0 /\ r.res = "end" /\ ref.st = "end" /\ sz > r.lim + 2 THEN "MessageOverTheLimitAccepted"
           ELSE DecVerdict(r.s, r.res, r.msg, -1, r.q = 1)
  IN IF r.res = "fault"
       \* one call of the daemon failed (resource trouble): r.aft = the reply codes from the reply to DATA on, r.nlf = the number of
       \* commands sent after the terminator.  Whatever failed: once 354 has been said, everything up to CRLF.CRLF is the message and
       \* draws ONE reply - its lines are never answered as commands
       THEN (IF Len(r.aft) >= 1 /\ r.aft[1] = 354 /\ Len(r.aft) > 2 + r.nlf THEN "MessageLinesAnsweredAsCommandsAfterGoAhead" ELSE "")
     ELSE IF r.res = "pre" THEN "CommandNotRecognisedWhenSplitAcrossReads"        \* (or, with cap = 0, when one call of the daemon was cut short)
     ELSE IF v # "" THEN v
     ELSE IF r.orig # <<-1>> /\ r.msg # Lines(r.orig) THEN "RoundTripChangedMessage"     \* decode(encode(m)) = m, line by line
     ELSE IF ref.st = "end" /\ r.nlf # -1 /\ r.nlf # NumLF(SubSeq(r.s, ref.used + 1, Len(r.s))) THEN "BytesAfterTerminatorNotCommands"
     ELSE IF ref.st = "end" /\ r.aft # <<-1>> /\ ExpectedReplies(SubSeq(r.s, ref.used + 1, Len(r.s))) # <<-1>>
             /\ r.aft # ExpectedReplies(SubSeq(r.s, ref.used + 1, Len(r.s))) THEN "BytesAfterTerminatorNotTheNextCommands"
     ELSE ""
CheckChunk(c) ==
  LET lo == (c - 1) * Chunk + 1
      hi == IF c * Chunk < N THEN c * Chunk ELSE N
  IN /\ \A i \in lo..hi : LET v == Verdict(Recs[i]) IN v = "" \/ PrintT(<<"BADREC", i, v>>)
     /\ PrintT(<<"CHECKED", lo, hi>>)
Inv == k = 0 \/ CheckChunk(k)
=============================================================================
