SPECIFICATION Spec
INVARIANT Inv
