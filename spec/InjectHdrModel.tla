--------------------------- MODULE InjectHdrModel ---------------------------
(***************************************************************************)
(* Every header of up to MaxFields fields over the kinds of InjectHdr,     *)
(* every set of QMAILINJECT letters, with and without -f, -n and a         *)
(* matching Mail-Followup-To list: the program (InjP) produces one of the  *)
(* documented results (Allowed).  All choices are made in the initial      *)
(* state; the single action runs the program.                              *)
(***************************************************************************)
EXTENDS InjectHdr, TLC
CONSTANTS MaxFields, FlagSets
VARIABLES hdr, fl, fs, q, mf, res
RECURSIVE SeqsUpTo(_, _)
SeqsUpTo(S, n) == IF n = 0 THEN {<<>>} ELSE LET R == SeqsUpTo(S, n - 1) IN R \cup {Append(r, x) : r \in {s \in R : Len(s) = n - 1}, x \in S}
Init == /\ hdr \in SeqsUpTo([k : Kinds], MaxFields)
        /\ fl \in FlagSets
        /\ fs \in BOOLEAN /\ q \in BOOLEAN /\ mf \in BOOLEAN
        /\ res = [st |-> "init"]
Mfth == IF mf THEN {j \in 1..Len(hdr) : hdr[j].k \in {"to", "cc"}} ELSE {}
Run == /\ res.st = "init"
       /\ res' = [st |-> "done", r |-> InjP(hdr, fl, fs, q, Mfth)]
       /\ UNCHANGED <<hdr, fl, fs, q, mf>>
Spec == Init /\ [][Run]_<<hdr, fl, fs, q, mf, res>>
ProgramDoesWhatIsDocumented == res.st = "done" => res.r \in Allowed(hdr, fl, fs, q, Mfth)
VerdictAgrees == res.st = "done" => InjVerdict(hdr, fl, fs, q, Mfth, res.r.out, res.r.snd) = ""
\* sanity (must be violated): some run supplies a Resent-Date, some run takes the sender from Return-Path
NeverResent == res.st = "done" => Add("rdate") \notin {res.r.out[i] : i \in 1..Len(res.r.out)}
NeverReturnPath == res.st = "done" => res.r.snd.src # "rp"
=============================================================================
