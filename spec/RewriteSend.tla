---------------------------- MODULE RewriteSend ----------------------------
(***************************************************************************)
(* Program layer (P) for C10: qmail-send.c getcontrols(), regetcontrols(), *)
(* the T-record loop of todo_do(), rewrite() and senderadd() transcribed   *)
(* step by step (C indices are 0-based and kept that way), composed with   *)
(* an environment that supplies every input of a bounded domain: a         *)
(* configuration, an envelope (sender, recipients), and optionally a later *)
(* edit of the control files with or without a HUP, after which the same   *)
(* envelope is preprocessed again.                                         *)
(*                                                                         *)
(* Invariants = the monitors of Rewrite.tla (written from the documents):  *)
(*   RouteOk  what ends up in local/ and remote/ is what MsgVerdict wants  *)
(*   VerpOk   the sender field of every delivery command is SenderAdd      *)
(*                                                                         *)
(* Every branch of the algorithm is its own action so that TLC's action    *)
(* coverage shows that no branch is vacuous.                               *)
(***************************************************************************)
EXTENDS Rewrite
CONSTANTS Tier         \* "tiny", "quick" or "thorough": selects the bounded input domain (In1 .. In4 below)
VARIABLES files,       \* the control files now
          mem,         \* what qmail-send holds in memory (after defaults)
          hist,        \* observable history of the control files (for the monitor)
          snd, msg,    \* the envelope
          n,           \* index of the T record being processed / of the delivery being passed
          pc, addr, i, at,   \* rewrite(): program counter, stralloc addr, i, at
          outL, outR,  \* local/<id>, remote/<id>
          dl,          \* delivery commands written to the spawners
          round,       \* 0 first message, 1 control files edited, 2 HUP sent or not, 3 second message
          edits        \* the configurations an edit may produce for this input
vars == <<files, mem, hist, snd, msg, n, pc, addr, i, at, outL, outR, dl, round, edits>>

\* ---- C helpers -----------------------------------------------------------
Rchr(s, len, ch) == LET P == {p \in 1..len : s[p] = ch} IN IF P = {} THEN len ELSE MaxOf(P) - 1   \* byte_rchr
From(s, p) == SubSeq(s, p + 1, Len(s))                                                          \* s + p, len - p
MapHas(list, key) == \E x \in 1..Len(list) : Fold(list[x]) = Fold(key)                           \* constmap() != 0, flagcolon = 0
VdHit(vd, key)  == \E x \in 1..Len(vd) : Fold(vd[x].k) = Fold(key)                               \* constmap() != 0, flagcolon = 1
VdVal(vd, key)  == vd[CHOOSE x \in 1..Len(vd) : Fold(vd[x].k) = Fold(key)].t

GetControls(f) == [me |-> f.me,
                   env |-> IF f.envabs = 1 THEN f.me ELSE f.env,        \* control_rldef(...,1,...)
                   lo |-> IF f.loabs = 1 THEN <<f.me>> ELSE f.lo,       \* control_readfile(...,1)
                   ph |-> f.ph, vd |-> f.vd]
ReGet(m, f)    == [m EXCEPT !.lo = IF f.loabs = 1 THEN <<m.me>> ELSE f.lo, !.vd = f.vd]

(***************************************************************************)
(* The bounded input domain.  One-letter labels: domains a.t, b.a.t,       *)
(* x.b.a.t, o.t (configurable), z.t and y.a.t (never configured), and      *)
(* near misses: other case, bare t, leading / trailing dot, a tail that is *)
(* not on a label boundary (ba.t), the empty domain.                       *)
(***************************************************************************)
u  == <<117>>
U  == <<85>>
dA == <<97, 46, 116>>
dAup == <<65, 46, 84>>
dB == <<98, 46>> \o dA
dBmix == <<66, 46, 97, 46, 84>>
dX == <<120, 46>> \o dB
dO == <<111, 46, 116>>
dOup == <<79, 46, 84>>
dZ == <<122, 46, 116>>
dY == <<121, 46>> \o dA
dM == <<109, 46, 116>>
dT == <<116>>
dotA == <<46>> \o dA
Adot == dA \o <<46>>
dBA == <<98>> \o dA            \* ba.t: ends with a.t but not with .a.t
At(l, d) == l \o <<AT>> \o d
Pc(l, d) == l \o <<PCT>> \o d

Entry(key, tag) == [k |-> key, t |-> tag]
AllEntries == << Entry(At(u, dB), <<112>>),           \* u@b.a.t:p     virtual user
                 Entry(dB, <<113>>),                  \* b.a.t:q       virtual domain
                 Entry(dotA, <<114>>),                \* .a.t:r        wildcard
                 Entry(<<46, 116>>, <<115, 45, 115>>),\* .t:s-s        shorter wildcard
                 Entry(<<>>, <<99>>),                 \* :c            catch-all
                 Entry(dX, <<>>),                     \* x.b.a.t:      exception for a domain
                 Entry(At(U, dOup), <<119>>),         \* U@O.T:w       key in upper case
                 Entry(<<46>> \o dB, <<>>),           \* .b.a.t:       exception for a wildcard
                 Entry(At(<<46>> \o u, dA), <<100>>)  \* .u@a.t:d      virtual user whose name starts with a dot
              >>
VdOf(S) == SelectSeq(AllEntries, LAMBDA e : e \in S)
EntrySets(max) == {S \in SUBSET {AllEntries[x] : x \in 1..Len(AllEntries)} : Cardinality(S) <= max}

Cfg(me, lo, loabs, vd, ph, env, envabs) == [me |-> me, lo |-> lo, loabs |-> loabs, vd |-> vd, ph |-> ph, env |-> env, envabs |-> envabs]
LocalsChoices == {<<>>, <<dA>>, <<dBmix>>, <<dA, dB>>}
PctChoices    == {<<>>, <<dA>>, <<dAup, dO>>}

\* addresses
Locs  == {u, U, <<>>}
DomsCore == {dA, dB, dX, dO}
DomsNear == {dAup, dBmix, dOup, dZ, dY, dT, dotA, Adot, dBA, <<>>}
Simple(Ls, Ds)   == {At(l, d) : l \in Ls, d \in Ds}
Pct1(Ls, D1, D2) == {At(Pc(l, d1), d2) : l \in Ls, d1 \in D1, d2 \in D2}
Pct2(Ls, D1, D2) == {At(Pc(Pc(l, d1), d2), d3) : l \in Ls, d1 \in D1, d2 \in D2, d3 \in D2}
TwoAt(Ls, D1, D2) == {At(At(l, d1), d2) : l \in Ls, d1 \in D1, d2 \in D2}
Mixed(Ls, D1, D2) == {At(At(Pc(l, d1), d2), d3) : l \in Ls, d1 \in D1, d2 \in D2, d3 \in D2}
                     \cup {At(Pc(At(l, d1), d2), d3) : l \in Ls, d1 \in D1, d2 \in D2, d3 \in D2}
                     \cup {At(Pc(At(Pc(l, d1), d2), d3), d3) : l \in Ls, d1 \in D1, d2 \in D2, d3 \in D2}
DotUser == {At(<<46>> \o u, dA), At(<<102, 46>> \o u, dA), At(<<46>> \o U, dAup), At(<<102, 46>> \o u, dB)}
NoAtAddrs(D1) == {u, U} \cup {Pc(l, d) : l \in Locs, d \in D1} \cup {Pc(Pc(u, d1), d2) : d1 \in D1, d2 \in D1}

VerpSender == <<108, 45, 64, 104, 45, 64, 91, 93>>        \* l-@h-@[]
Senders == {VerpSender, <<>>, <<35, 64, 91, 93>>, <<115, 64, 104>>,      \* "", #@[], s@h
            <<108, 45, 64, 91, 93>>,                                     \* l-@[]       no @ before the tail
            <<45, 64, 91, 93>>,                                          \* -@[]
            <<64, 45, 64, 91, 93>>,                                      \* @-@[]       empty pre and host
            <<108, 64, 103, 64, 104, 45, 64, 91, 93>>,                   \* l@g@h-@[]   pre contains @
            VerpSender \o <<120>>,                                       \* l-@h-@[]x   tail not at the end
            <<108, 45, 64, 104, 64, 91, 93>> }                           \* l-@h@[]     no dash

In(c, s, m, e) == [c |-> c, s |-> s, m |-> m, e |-> e]

\* family 1: addresses with @ and without %: locals x virtualdomains matter
Fam1(maxvd, Ds) ==
  {In(Cfg(dM, lo, 0, VdOf(S), <<>>, <<>>, 1), VerpSender, <<a>>, {}) :
     lo \in LocalsChoices, S \in EntrySets(maxvd), a \in Simple(Locs, Ds) \cup DotUser \cup TwoAt({u}, DomsCore, DomsCore)}
\* family 2: percent hack
Fam2(maxvd, D1, D2) ==
  {In(Cfg(dM, lo, 0, VdOf(S), ph, <<>>, 1), VerpSender, <<a>>, {}) :
     lo \in {<<>>, <<dA, dB>>}, S \in EntrySets(maxvd), ph \in PctChoices,
     a \in Pct1({u, <<>>}, D1, D2) \cup Pct2({u}, D1, D2) \cup Mixed({u}, D1, D2)}
\* family 3: no @: envnoathost (present / defaulting to me), then everything else applies to the result
Fam3(maxvd) ==
  {In(Cfg(me, lo, loabs, VdOf(S), ph, env, envabs), VerpSender, <<a>>, {}) :
     me \in {dM, dA}, lo \in {<<>>, <<dA>>}, loabs \in {0, 1}, S \in EntrySets(maxvd), ph \in PctChoices,
     env \in {dB, dOup}, envabs \in {0, 1}, a \in NoAtAddrs({dA, dO})}
\* family 4: envelopes of several recipients, every sender form, and a later edit with / without HUP
SmallCfgs == {Cfg(dM, <<dA>>, 0, VdOf({AllEntries[2], AllEntries[3]}), <<dA>>, dB, 0),
              Cfg(dA, <<>>, 1, VdOf({AllEntries[5], AllEntries[6]}), <<>>, <<>>, 1),
              Cfg(dO, <<dO, dB>>, 0, <<>>, <<dO>>, dA, 0)}
SmallAddrs == {u, At(u, dA), At(U, dBmix), At(u, dX), At(Pc(u, dO), dA), At(u, dZ)}
SeqsUpTo(S, len) == UNION {[1..l -> S] : l \in 1..len}
Fam4(len) ==
  {In(c, s, m, SmallCfgs \ {c}) : c \in SmallCfgs, s \in Senders, m \in SeqsUpTo(SmallAddrs, 1)}
  \cup {In(c, VerpSender, m, SmallCfgs \ {c}) : c \in SmallCfgs, m \in SeqsUpTo(SmallAddrs, len)}

\* the input sets, each a set of [c: configuration, s: sender, m: recipients, e: set of configurations an edit
\* may produce]; selected by Tier inside one definition each, because TLC evaluates every constant definition
\* eagerly; kept apart because TLC's union of large sets of records is slow
In1 == CASE Tier = "quick"    -> Fam1(2, DomsCore \cup {dAup, dY, dT, dotA, dBA, <<>>})
         [] Tier = "thorough" -> Fam1(3, DomsCore \cup DomsNear)
         [] OTHER             -> Fam1(1, DomsCore)
In2 == CASE Tier = "quick"    -> Fam2(1, {dA, dO}, {dA, dAup, dO, dB})
         [] Tier = "thorough" -> Fam2(2, {dA, dO, dB}, {dA, dAup, dO, dB, dZ})
         [] OTHER             -> Fam2(0, {dA}, {dA, dO})
In3 == CASE Tier = "quick"    -> Fam3(1)
         [] Tier = "thorough" -> Fam3(2)
         [] OTHER             -> Fam3(0)
In4 == CASE Tier = "quick"    -> Fam4(3)
         [] Tier = "thorough" -> Fam4(4)
         [] OTHER             -> Fam4(2)

Start(in) ==
          /\ files = in.c /\ mem = GetControls(in.c) /\ hist = <<[k |-> "start", c |-> in.c]>>
          /\ snd = in.s /\ msg = in.m /\ edits = in.e
          /\ n = 1 /\ pc = "copy" /\ addr = <<>> /\ i = 0 /\ at = 0
          /\ outL = <<>> /\ outR = <<>> /\ dl = <<>> /\ round = 0
Init == \/ \E in \in In1 : Start(in)
        \/ \E in \in In2 : Start(in)
        \/ \E in \in In3 : Start(in)
        \/ \E in \in In4 : Start(in)

Keep(S) == UNCHANGED S
ctl == <<files, mem, hist, snd, msg, round, edits>>

\* ---- rewrite() ------------------------------------------------------------
Copy   == /\ pc = "copy"
          /\ addr' = msg[n] /\ i' = Rchr(msg[n], Len(msg[n]), AT)
          /\ pc' = IF i' = Len(msg[n]) THEN "noat" ELSE "pct"
          /\ Keep(<<ctl, n, at, outL, outR, dl>>)
NoAt   == /\ pc = "noat"
          /\ addr' = addr \o <<AT>> \o mem.env /\ pc' = "pct"
          /\ Keep(<<ctl, n, i, at, outL, outR, dl>>)
PctNotListed == /\ pc = "pct" /\ ~MapHas(mem.ph, From(addr, i + 1))
                /\ pc' = "at" /\ Keep(<<ctl, n, addr, i, at, outL, outR, dl>>)
PctNoPercent == /\ pc = "pct" /\ MapHas(mem.ph, From(addr, i + 1)) /\ Rchr(addr, i, PCT) = i
                /\ pc' = "at" /\ Keep(<<ctl, n, addr, i, at, outL, outR, dl>>)
PctRewrite   == /\ pc = "pct" /\ MapHas(mem.ph, From(addr, i + 1))
                /\ LET j == Rchr(addr, i, PCT)
                   IN /\ j # i
                      /\ addr' = [SubSeq(addr, 1, i) EXCEPT ![j + 1] = AT]      \* addr.len = i; addr.s[j] = '@'
                      /\ i' = j
                /\ Keep(<<ctl, n, pc, at, outL, outR, dl>>)
FindAt == /\ pc = "at"
          /\ at' = Rchr(addr, Len(addr), AT) /\ pc' = "loc"
          /\ Keep(<<ctl, n, addr, i, outL, outR, dl>>)

\* the T record is complete: append to the channel file, next record (todo_do)
Emit(ch, a) == /\ IF ch = 0 THEN outL' = Append(outL, a) /\ Keep(outR) ELSE outR' = Append(outR, a) /\ Keep(outL)
               /\ IF n < Len(msg) THEN n' = n + 1 /\ pc' = "copy" ELSE n' = 1 /\ pc' = "pass"
               /\ Keep(<<ctl, addr, i, at, dl>>)

LocHit  == /\ pc = "loc" /\ MapHas(mem.lo, From(addr, at + 1)) /\ Emit(0, addr)
LocMiss == /\ pc = "loc" /\ ~MapHas(mem.lo, From(addr, at + 1))
           /\ pc' = "vd" /\ i' = 0 /\ Keep(<<ctl, n, addr, at, outL, outR, dl>>)

Cand(j) == j = 0 \/ j = at + 1 \/ j = Len(addr) \/ (j > at /\ j < Len(addr) /\ addr[j + 1] = DOT)
VdSkip  == /\ pc = "vd" /\ ~Cand(i)                                     \* i <= addr.len always holds here
           /\ i' = i + 1 /\ Keep(<<ctl, n, pc, addr, at, outL, outR, dl>>)
VdMiss  == /\ pc = "vd" /\ Cand(i) /\ ~VdHit(mem.vd, From(addr, i)) /\ i < Len(addr)
           /\ i' = i + 1 /\ Keep(<<ctl, n, pc, addr, at, outL, outR, dl>>)
VdEnd   == /\ pc = "vd" /\ Cand(i) /\ ~VdHit(mem.vd, From(addr, i)) /\ i = Len(addr) /\ Emit(1, addr)
VdExcept == /\ pc = "vd" /\ Cand(i) /\ VdHit(mem.vd, From(addr, i)) /\ VdVal(mem.vd, From(addr, i)) = <<>>
            /\ Emit(1, addr)                                            \* if (!*x) break;
VdTag   == /\ pc = "vd" /\ Cand(i) /\ VdHit(mem.vd, From(addr, i))
           /\ LET x == VdVal(mem.vd, From(addr, i)) IN x # <<>> /\ Emit(0, x \o <<DASH>> \o addr)

\* ---- pass: one delivery command per record, local channel then remote; senderadd() -------------
SenderAddAlg(s, r) ==
  LET len == Len(s)
  IN IF len >= 4 /\ SubSeq(s, len - 3, len) = VerpTail
       THEN LET j == Rchr(s, len - 4, AT)
                k == Rchr(r, Len(r), AT)                                \* str_rchr
            IN IF k < Len(r) /\ j + 5 <= len
                 THEN SubSeq(s, 1, j) \o SubSeq(r, 1, k) \o <<EQ>> \o From(r, k + 1) \o <<AT>> \o SubSeq(s, j + 2, len - 4)
                 ELSE s
       ELSE s
Pass == /\ pc = "pass"
        /\ LET all == outL \o outR
           IN /\ dl' = Append(dl, [s |-> SenderAddAlg(snd, all[n]), r |-> all[n]])
              /\ IF n < Len(all) THEN n' = n + 1 /\ Keep(pc) ELSE n' = 1 /\ pc' = "idle"
        /\ Keep(<<ctl, addr, i, at, outL, outR>>)

\* ---- the operator edits control files, may send HUP, the same envelope arrives again -----------
Edit == /\ pc = "idle" /\ round = 0
        /\ \E f \in edits : files' = f /\ hist' = Append(hist, [k |-> "edit", c |-> f])
        /\ round' = 1 /\ Keep(<<mem, snd, msg, edits, n, pc, addr, i, at, outL, outR, dl>>)
Hup  == /\ pc = "idle" /\ round = 1
        /\ mem' = ReGet(mem, files) /\ hist' = Append(hist, [k |-> "hup", c |-> files])      \* regetcontrols()
        /\ round' = 2 /\ Keep(<<files, snd, msg, edits, n, pc, addr, i, at, outL, outR, dl>>)
NoHup == /\ pc = "idle" /\ round = 1
         /\ round' = 2 /\ Keep(<<files, mem, hist, snd, msg, edits, n, pc, addr, i, at, outL, outR, dl>>)
Again == /\ pc = "idle" /\ round = 2
         /\ round' = 3 /\ pc' = "copy" /\ n' = 1 /\ outL' = <<>> /\ outR' = <<>> /\ dl' = <<>>
         /\ Keep(<<files, mem, hist, snd, msg, edits, addr, i, at>>)

Next == \/ Copy \/ NoAt \/ PctNotListed \/ PctNoPercent \/ PctRewrite \/ FindAt \/ LocHit \/ LocMiss
        \/ VdSkip \/ VdMiss \/ VdEnd \/ VdExcept \/ VdTag \/ Pass \/ Edit \/ Hup \/ NoHup \/ Again
Spec == Init /\ [][Next]_vars

\* ---- invariants: the monitors ---------------------------------------------------------------
RouteOk == (pc = "pass" /\ n = 1) => MsgVerdict(Effective(hist), msg, outL, outR) = ""
VerpOk  == pc = "idle" => VerpFirstBad(snd, dl) = 0
InDomain == ~DupKeys(files)

=============================================================================
