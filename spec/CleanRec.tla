------------------------------ MODULE CleanRec ------------------------------
(***************************************************************************)
(* Record validator (T) for the cleaner: one record = one request served   *)
(* by the real qmail-clean: req (bytes incl. NUL), st (status bytes it     *)
(* wrote for that request), unl (paths it passed to unlink, parsed into    *)
(* d/s/n with ok = unlinked or already absent).  Judged by CleanVerdict.   *)
(***************************************************************************)
EXTENDS Helpers, Json, IOUtils, TLC
Recs  == ndJsonDeserialize(IOEnv.RECORDS)
Chunk == atoi(IOEnv.CHUNK)
Split == atoi(IOEnv.SPLIT)
N     == Len(Recs)
NCh   == (N + Chunk - 1) \div Chunk
G     == 16
VARIABLES g, k
Init == g = 0 /\ k = 0
Next == \/ g = 0 /\ g' \in 1..G /\ k' = 0
        \/ g > 0 /\ k = 0 /\ k' \in {c \in 1..NCh : c % G = g - 1} /\ g' = g
Spec == Init /\ [][Next]_<<g, k>>

Verdict(r) == CleanVerdict(r.req, r.st, r.unl, Split)
CheckChunk(c) ==
  LET lo == (c - 1) * Chunk + 1
      hi == IF c * Chunk < N THEN c * Chunk ELSE N
  IN /\ \A i \in lo..hi : LET v == Verdict(Recs[i]) IN v = "" \/ PrintT(<<"BADREC", i, v>>)
     /\ PrintT(<<"CHECKED", lo, hi>>)
Inv == k = 0 \/ CheckChunk(k)
=============================================================================
