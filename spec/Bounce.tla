-------------------------------- MODULE Bounce --------------------------------
(***************************************************************************)
(* C14, byte level: the failure notice as the recipient of a bounce reads  *)
(* it.  A paragraph is a maximal run of lines between blank lines (LF LF). *)
(* "Each failed recipient occupies exactly one paragraph of the notice -   *)
(* report text cannot forge further recipient paragraphs": among the       *)
(* paragraphs that precede the copy of the original message, those that    *)
(* begin with '<' are exactly one per failed recipient, and the first line *)
(* of each is "<" recipient ">:" (the recipient with any virtual-domain    *)
(* prefix removed; for a virtual USER entry both spellings are accepted).  *)
(*                                                                         *)
(* E: Paras, NoticeVerdict.  P: AddBounceP, the transcription of           *)
(* qmail-send.c addbounce() (module BounceModel checks it for every text). *)
(***************************************************************************)
EXTENDS Integers, Sequences, FiniteSets, SequencesExt

LT == 60  GT == 62  COLON == 58  NL == 10  SLASH == 47  USCORE == 95
Sorted(S) == SetToSortSeq(S, LAMBDA a, b : a < b)
\* positions i such that b[i] = b[i+1] = LF: the second LF ends a paragraph
Breaks(b) == {i \in 1..(Len(b) - 1) : b[i] = NL /\ b[i + 1] = NL}
\* split at blank lines; empty pieces (runs of several LF) are dropped
Paras(b) == LET e == Sorted(Breaks(b))
                piece(k) == SubSeq(b, (IF k = 1 THEN 1 ELSE e[k - 1] + 1), (IF k > Len(e) THEN Len(b) ELSE e[k]))
                all == [k \in 1..(Len(e) + 1) |-> piece(k)]
                strip(p) == LET nz == {i \in 1..Len(p) : p[i] # NL} IN IF nz = {} THEN <<>> ELSE SubSeq(p, CHOOSE i \in nz : \A j \in nz : i <= j, Len(p))
            IN SelectSeq([k \in 1..Len(all) |-> strip(all[k])], LAMBDA p : p # <<>>)
FirstLine(p) == LET nl == {i \in 1..Len(p) : p[i] = NL} IN IF nl = {} THEN p ELSE SubSeq(p, 1, (CHOOSE i \in nl : \A j \in nl : i <= j) - 1)
RcptParas(b) == SelectSeq(Paras(b), LAMBDA p : p[1] = LT)

StartsWith(a, p) == Len(a) >= Len(p) /\ SubSeq(a, 1, Len(p)) = p
\* the spelling under which a failed recipient must be named: as the sender wrote it, i.e. with the configured prefix "pfx-" removed
\* (pfx is the prefix of the DOMAIN / dot-suffix / catch-all entry in force: it must be removed; an address that got a prefix
\* from a user@domain entry does not start with pfx and is named as delivered - qmail-send does not look those entries up)
Spellings(a, pfx) == IF pfx # <<>> /\ StartsWith(a, pfx \o <<45>>) THEN {SubSeq(a, Len(pfx) + 2, Len(a))} ELSE {a}
Heading(a) == <<LT>> \o [i \in 1..Len(a) |-> IF a[i] = NL THEN USCORE ELSE a[i]] \o <<GT, COLON>>

\* notice = bytes of the bounce message before the copy of the original; failed = set of recipient addresses (bytes)
\* dupok: after a crash between writing a bounce record and marking the recipient, the failure is recorded again
NoticeVerdict(notice, failed, pfx, dupok) ==
  LET rp == RcptParas(notice)
      heads == {FirstLine(rp[k]) : k \in 1..Len(rp)}
      legit == UNION {{Heading(s) : s \in Spellings(a, pfx)} : a \in failed}
  IN IF dupok /\ Len(rp) > Cardinality(failed) /\ heads \subseteq legit THEN ""
     ELSE IF Len(rp) > Cardinality(failed) THEN "ForgedOrDuplicateRecipientParagraph"
     ELSE IF Len(rp) < Cardinality(failed) THEN "FailedRecipientHasNoParagraph"
     ELSE IF \E a \in failed : ~\E s \in Spellings(a, pfx) : Heading(s) \in heads THEN "FailedRecipientNotNamed"
     ELSE ""

\* reports are truncated to REPORTMAX bytes by the queue manager before anything is done with them: no recipient paragraph
\* of a notice is longer than that plus its heading and the fixed sentence added to an expired temporary failure
REPORTMAX == 10000
OversizedParagraph(notice) == LET rp == RcptParas(notice) IN \E k \in 1..Len(rp) : Len(rp[k]) > REPORTMAX + 600

(***************************************************************************)
(* P: addbounce(id, recip, report): "<" recip ">:\n" report [\n] with LF   *)
(* in the address replaced by '_' and every second LF of a run replaced by *)
(* '/', then one more LF.                                                  *)
(***************************************************************************)
RECURSIVE FixRuns(_, _)
\* for (pos = len-2; pos > 0; --pos) if (s[pos] == LF && s[pos-1] == LF) s[pos] = '/'   (0-based pos)
FixRuns(s, pos) == IF pos <= 0 THEN s
                   ELSE IF s[pos + 1] = NL /\ s[pos] = NL THEN FixRuns([s EXCEPT ![pos + 1] = SLASH], pos - 1)
                   ELSE FixRuns(s, pos - 1)
AddBounceP(recip, report) ==
  LET head == <<LT>> \o [i \in 1..Len(recip) |-> IF recip[i] = NL THEN USCORE ELSE recip[i]] \o <<GT, COLON, NL>>
      body == report \o (IF report # <<>> /\ report[Len(report)] # NL THEN <<NL>> ELSE <<>>)
      t == head \o body
  IN FixRuns(t, Len(t) - 2) \o <<NL>>
=============================================================================
