-------------------------------- MODULE Ingest --------------------------------
(***************************************************************************)
(* C07: the network daemons (qmail-smtpd DATA phase, qmail-qmtpd,          *)
(* qmail-qmqpd) in front of the queue program (qmail.c interface).         *)
(*                                                                         *)
(* One record = one transaction as seen from outside:                      *)
(*   proto   "smtp" | "qmtp" | "qmqp"                                      *)
(*   over    body exceeds the configured size limit                        *)
(*   hops    the message carries 100 or more Received/Delivered-To fields  *)
(*           (SMTP only: the other two do not count hops)                  *)
(*   sbad    the sender is over-long or contains NUL                       *)
(*   rc      per recipient: "ok" | "deny" (not in rcpthosts) | "bad"       *)
(*           (over-long or NUL)                                            *)
(*   cut     the client disconnected before the end of the transaction     *)
(*   qinv, qcomplete, qexit, qsig, qtext   the queue program: was started, *)
(*           saw the envelope terminator, exit status, died by signal,     *)
(*           first byte of its descriptor-6 text ("" none / too short)     *)
(*   acks    SMTP: <<class of the reply after the final dot>> ("2" "4" "5" *)
(*           or <<>> if none); QMTP: one letter per recipient; QMQP: one   *)
(*   body / got      bytes expected in the queue after the Received field  *)
(*                   and bytes the queue program received there            *)
(*   recv            the Received field the queue program received         *)
(*   xs, xr / gs, gr expected and received envelope sender / recipients    *)
(* E: IngestVerdict.   P: SmtpDataP etc. (module IngestModel).             *)
(***************************************************************************)
EXTENDS Integers, Sequences, FiniteSets, TLC

Pos(a) == a \in {"2", "K"}
Perm(a) == a \in {"5", "D"}
Temp(a) == a \in {"4", "Z"}

\* qmail-queue(8) EXIT CODES: 0 success; 11..40 permanent; 82: by the text on descriptor 6; all other codes 1..99 temporary
QueueClass(ex, sig, text) ==
  IF sig THEN "neg"
  ELSE IF ex = 0 THEN "ok"
  ELSE IF ex \in 11..40 THEN "perm"
  ELSE IF ex = 82 THEN (IF text = "D" THEN "perm" ELSE IF text = "Z" THEN "temp" ELSE "neg")
  ELSE IF ex \in 1..99 THEN "temp"
  ELSE "neg"                                  \* 100..255 are not queue-program codes: any negative reply

\* the Received field names the peer using only safe characters: everything the daemon copies from the peer
\* (HELO name, TCPREMOTE*) is reduced to [A-Za-z0-9.@%+/=:-[]] or '?'; the fixed text adds space ( ) ; LF
SafeByte(b) == b \in 48..57 \/ b \in 65..90 \/ b \in 97..122 \/ b \in {46, 64, 37, 43, 47, 61, 58, 45, 91, 93, 63, 32, 40, 41, 59, 10}
RecvPrefix == <<82, 101, 99, 101, 105, 118, 101, 100, 58, 32, 102, 114, 111, 109, 32>>          \* "Received: from "
ReceivedOk(r) == /\ Len(r) > Len(RecvPrefix) /\ SubSeq(r, 1, Len(RecvPrefix)) = RecvPrefix
                 /\ r[Len(r)] = 10 /\ Cardinality({i \in 1..Len(r) : r[i] = 10}) = 2
                 /\ \A i \in 1..Len(r) : SafeByte(r[i])

\* exact form: every string that comes from the peer (TCPREMOTEHOST, HELO name, TCPREMOTEINFO, TCPREMOTEIP) or from the
\* environment (local name) appears with every byte outside [A-Za-z0-9.@%+/=:-[]] replaced by '?':
\*   "Received: from " host [" (HELO " helo ")"] " (" [info "@"] ip ")" LF "  by " local " with " proto "; " date LF
PeerSafe(b) == b \in 48..57 \/ b \in 65..90 \/ b \in 97..122 \/ b \in {46, 64, 37, 43, 47, 61, 58, 45, 91, 93}
San(x) == [i \in 1..Len(x) |-> IF PeerSafe(x[i]) THEN x[i] ELSE 63]
Lower(x) == [i \in 1..Len(x) |-> IF x[i] \in 65..90 THEN x[i] + 32 ELSE x[i]]
StartsWithAt(r, p, at) == Len(r) >= at + Len(p) - 1 /\ SubSeq(r, at, at + Len(p) - 1) = p
\* f = [host, helo, hashelo, info, hasinfo, ip, local, proto] (byte sequences / flags)
ReceivedHead(f, withhelo) ==
  RecvPrefix \o San(f.host) \o (IF withhelo THEN <<32, 40, 72, 69, 76, 79, 32>> \o San(f.helo) \o <<41>> ELSE <<>>)
  \o <<32, 40>> \o (IF f.hasinfo THEN San(f.info) \o <<64>> ELSE <<>>) \o San(f.ip) \o <<41, 10, 32, 32, 98, 121, 32>> \o San(f.local)
  \o <<32, 119, 105, 116, 104, 32>> \o f.proto \o <<59, 32>>
ReceivedExact(r, f) ==
  /\ ReceivedOk(r)
  /\ \/ (f.hashelo /\ StartsWithAt(r, ReceivedHead(f, TRUE), 1))
     \/ ((~f.hashelo \/ Lower(f.helo) = Lower(f.host)) /\ StartsWithAt(r, ReceivedHead(f, FALSE), 1))     \* the HELO name is shown only when it differs from the host name

Sel(seq, keep) == LET idx == {i \in 1..Len(seq) : keep[i]} IN [j \in 1..Cardinality(idx) |-> seq[CHOOSE i \in idx : Cardinality({k \in idx : k < i}) = j - 1]]

IngestVerdict(r) ==
  LET n == Len(r.rc)
      ackfor(i) == IF r.proto = "qmtp" THEN (IF i <= Len(r.acks) THEN r.acks[i] ELSE "") ELSE (IF Len(r.acks) >= 1 THEN r.acks[1] ELSE "")
      anypos == \E i \in 1..Len(r.acks) : Pos(r.acks[i])
      committed == r.qinv /\ r.qcomplete /\ r.qexit = 0 /\ ~r.qsig
      qc == QueueClass(r.qexit, r.qsig, r.qtext)
      \* recipients the daemon must hand to the queue: all for smtp (the session offered only accepted ones) and qmqp; the acceptable ones for qmtp
      handed == IF r.proto = "qmtp" THEN Sel(r.xr, [i \in 1..n |-> r.rc[i] = "ok"]) ELSE r.xr
  IN
  IF r.trouble THEN (IF committed \/ anypos THEN "QueuedDespiteUnreadableControlFile"
                     ELSE IF \E i \in 1..Len(r.acks) : Perm(r.acks[i]) THEN "ResourceTroubleRefusedPermanently"      \* temporary for resource trouble
                     ELSE "")
  ELSE IF r.incomplete /\ committed THEN "IncompleteRequestQueued"          \* the client stopped (or sent a wrong byte) before its request was complete
  ELSE IF anypos /\ ~committed THEN "AcknowledgedButNotQueued"
  ELSE IF anypos /\ r.got # r.body THEN "AcknowledgedMessageIsNotTheOneQueued"
  ELSE IF anypos /\ ~ReceivedOk(r.recv) THEN "ReceivedFieldMalformedOrUnsafe"
  ELSE IF anypos /\ r.pf.known /\ ~ReceivedExact(r.recv, r.pf) THEN "ReceivedFieldDoesNotNameThePeerSafely"
  ELSE IF anypos /\ (r.gs # r.xs \/ r.gr # handed) THEN "QueuedEnvelopeIsNotTheAcknowledgedOne"
  ELSE IF r.proto = "qmtp" /\ \E i \in 1..n : Pos(ackfor(i)) /\ r.rc[i] # "ok" THEN "RefusableRecipientAcknowledged"
  ELSE IF committed /\ ~r.cut /\ ~anypos THEN "QueuedButNotAcknowledged"
  ELSE IF r.cut THEN ""                                                     \* a disconnect: nothing more to demand than the above
  ELSE IF (r.over \/ r.hops \/ r.sbad) /\ r.qcomplete THEN "LimitExceededButEnvelopeCompleted"
  ELSE IF (r.over \/ r.hops \/ r.sbad) /\ \E i \in 1..Len(r.acks) : ~Perm(r.acks[i]) THEN "PolicyOrSizeRefusalNotPermanent"
  ELSE IF r.proto = "qmtp" /\ Len(r.acks) # n THEN "NotOneReplyPerRecipient"
  ELSE IF r.proto = "qmtp" /\ \E i \in 1..n : r.rc[i] # "ok" /\ ~Perm(ackfor(i)) THEN "UnacceptableRecipientNotRefusedPermanently"
  ELSE IF r.proto = "qmqp" /\ (\E i \in 1..n : r.rc[i] = "bad") /\ ~(Len(r.acks) = 1 /\ Perm(r.acks[1])) THEN "UnacceptableAddressNotRefusedPermanently"
  ELSE IF ~(r.over \/ r.hops \/ r.sbad) /\ r.qinv /\ r.qcomplete /\ qc = "perm" /\ \E i \in 1..n : r.rc[i] = "ok" /\ ~Perm(ackfor(i)) THEN "PermanentQueueFailureNotPermanent"
  ELSE IF ~(r.over \/ r.hops \/ r.sbad) /\ r.qinv /\ r.qcomplete /\ qc = "temp" /\ (\E i \in 1..n : r.rc[i] = "ok" /\ ~Temp(ackfor(i)))
          /\ ~(r.proto = "qmqp" /\ \E j \in 1..n : r.rc[j] = "bad") THEN "TemporaryQueueFailureNotTemporary"
  ELSE IF r.qinv /\ qc = "neg" /\ anypos THEN "QueueFailureAcknowledged"
  ELSE ""

(***************************************************************************)
(* P: the flagerr discipline of qmail.c + smtp_data() / qmtpd / qmqpd at   *)
(* the grain the monitor sees.  The queue program is environment: it       *)
(* commits iff it saw the terminator; its exit status is arbitrary.        *)
(***************************************************************************)
\* reply of qmail_close as a class, given whether the daemon had called qmail_fail
CloseClass(flagerr, ex, sig, text) ==
  IF sig THEN "Z"
  ELSE IF ex = 0 THEN (IF flagerr THEN "Z" ELSE "K")
  ELSE IF ex = 115 \/ ex = 11 \/ ex = 31 THEN "D"
  ELSE IF ex = 82 /\ text \in {"D", "Z"} THEN text
  ELSE IF ex \in 11..40 THEN "D" ELSE "Z"
=============================================================================
