SPECIFICATION Spec
CONSTANTS
  WordMod = 0
INVARIANT Conforms
INVARIANT EndsAgree
INVARIANT Witnessed
