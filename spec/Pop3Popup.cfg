SPECIFICATION Spec
CONSTANTS
  WordMod = 0
  ScanWraps = FALSE
INVARIANT Conforms
INVARIANT EndsAgree
INVARIANT Witnessed
