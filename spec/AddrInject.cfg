SPECIFICATION Spec
CONSTANTS
  MaxFields = 2
INVARIANT EnvelopeListed
INVARIANT BccRemoved
INVARIANT OthersKept
