------------------------------ MODULE Pop3Rec ------------------------------
(***************************************************************************)
(* Record validator (T) for C19.  One record = one session with a real     *)
(* binary.                                                                 *)
(*  k = "d": qmail-pop3d <maildir>.  files = the maildir before (sorted by *)
(*    modification time; mt = rank of each file's time, equal for equal    *)
(*    times), cmds = what was sent (verb in upper case, "OTHER"            *)
(*    for a verb this server does not have, "XRM" = the harness removed    *)
(*    file a[1] behind the server's back), reps = class / first-line text /*)
(*    multi-line payload of each reply, after = the maildir afterwards,    *)
(*    root = 1 when the server was started as uid 0, rc = exit status,     *)
(*    tail = number of bytes the server sent that answer no command.       *)
(*  k = "p": qmail-popup host checker.  greet = text of the greeting,      *)
(*    invs[i] = what checker invocations during command i read on          *)
(*    descriptor 3, ex = scripted behaviour of the checker.                *)
(* The verdict is the reference model's (Pop3!SessionVerdict, RootVerdict, *)
(* PopupVerdict): <<clause, index of the failing command>>, printed as     *)
(* <<"BADREC", record, clause, command>>.                                  *)
(***************************************************************************)
EXTENDS Pop3, Json, IOUtils
Recs  == ndJsonDeserialize(IOEnv.RECORDS)
Chunk == atoi(IOEnv.CHUNK)
NR    == Len(Recs)
NCh   == (NR + Chunk - 1) \div Chunk
G     == 16
VARIABLES g, k
Init == g = 0 /\ k = 0
Next == \/ g = 0 /\ g' \in 1..G /\ k' = 0
        \/ g > 0 /\ k = 0 /\ k' \in {c \in 1..NCh : c % G = g - 1} /\ g' = g
Spec == Init /\ [][Next]_<<g, k>>

Verdict(r) ==
  LET v == IF r.k = "p" THEN PopupVerdict(r.cmds, r.reps, r.invs, r.ex, r.host, r.greetc, r.greet)
           ELSE IF r.root = 1 THEN RootVerdict(r.files, r.greet, r.reps, r.after, r.rc)
           ELSE IF r.greet # "ok" THEN <<"NoGreeting", 0>>
           ELSE SessionVerdict(r.files, r.mt, r.cmds, r.reps, r.after)
  IN IF v[1] = "" /\ r.tail # 0 THEN <<"UnsolicitedOutput", 0>> ELSE v       \* tail = bytes sent that answer no command
CheckChunk(c) ==
  LET lo == (c - 1) * Chunk + 1
      hi == IF c * Chunk < NR THEN c * Chunk ELSE NR
  IN /\ \A i \in lo..hi : LET v == Verdict(Recs[i]) IN v[1] = "" \/ PrintT(<<"BADREC", i, v[1], v[2]>>)
     /\ PrintT(<<"CHECKED", lo, hi>>)
Inv == k = 0 \/ CheckChunk(k)
=============================================================================
