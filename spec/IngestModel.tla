------------------------------ MODULE IngestModel ------------------------------
(***************************************************************************)
(* The three daemons' handling of limits, bad addresses, queue exit codes  *)
(* and disconnects (transcribed at the grain of qmail_fail / qmail_close)  *)
(* against IngestVerdict, for every combination of a bounded domain.       *)
(***************************************************************************)
EXTENDS Ingest
Codes == {0, 1, 11, 31, 40, 41, 51, 54, 66, 71, 81, 82, 91, 99, 100, 115, 120, 255}
Texts == {"", "D", "Z", "X"}
RcKinds == {"ok", "deny", "bad"}
VARIABLES rec
vars == <<rec>>
B == <<98, 10>>
Recv == <<82,101,99,101,105,118,101,100,58,32,102,114,111,109,32,120,10,32,98,121,10>>
Mk(proto, over, hops, sbad, rc, cut, ex, sig, text) ==
  LET n == Len(rc)
      okr == {i \in 1..n : rc[i] = "ok"}
      flagerr == CASE proto = "smtp" -> over \/ hops
                   [] proto = "qmtp" -> over \/ sbad \/ okr = {}
                   [] OTHER          -> sbad \/ \E i \in 1..n : rc[i] = "bad"
      complete == ~cut /\ ~flagerr
      cc == CloseClass(flagerr, ex, sig, text)
      xr == [i \in 1..n |-> <<114, 48 + i>>]
      gr == IF proto = "qmtp" THEN Sel(xr, [i \in 1..n |-> rc[i] = "ok"]) ELSE xr
      acks == IF cut THEN <<>>
              ELSE CASE proto = "smtp" -> <<(IF cc = "K" THEN "2" ELSE IF hops \/ over THEN "5" ELSE IF cc = "D" THEN "5" ELSE "4")>>
                     [] proto = "qmtp" -> [i \in 1..n |-> IF rc[i] # "ok" THEN "D" ELSE IF sbad THEN "D" ELSE IF over THEN "D" ELSE cc]
                     [] OTHER          -> <<(IF flagerr THEN "D" ELSE cc)>>
  IN [proto |-> proto, over |-> over, hops |-> hops, sbad |-> sbad, rc |-> rc, cut |-> cut, incomplete |-> FALSE, trouble |-> FALSE, qinv |-> TRUE, qcomplete |-> complete, qexit |-> ex, qsig |-> sig,
      qtext |-> text, pf |-> [known |-> FALSE], acks |-> acks, body |-> B, got |-> B, recv |-> Recv, xs |-> <<115>>, gs |-> <<115>>, xr |-> xr, gr |-> gr]
Init == \E proto \in {"smtp", "qmtp", "qmqp"}, over \in BOOLEAN, hops \in BOOLEAN, sbad \in BOOLEAN, cut \in BOOLEAN, ex \in Codes, sig \in BOOLEAN, text \in Texts :
          \E rc \in UNION {[1..k -> RcKinds] : k \in 1..2} :
             /\ (proto = "smtp" => (~sbad /\ \A i \in 1..Len(rc) : rc[i] = "ok"))          \* SMTP refuses those before DATA (C08)
             /\ (proto # "smtp" => ~hops) /\ (proto = "qmqp" => (~over /\ \A i \in 1..Len(rc) : rc[i] # "deny"))
             /\ rec = Mk(proto, over, hops, sbad, rc, cut, ex, sig, text)
Next == UNCHANGED rec
Spec == Init /\ [][Next]_vars
Sound == IngestVerdict(rec) = ""
=============================================================================
