------------------------------ MODULE AddrRec ------------------------------
(***************************************************************************)
(* Record validator (T) for C17.  One record = one observation of the real *)
(* programs, judged by the monitors of Addr.tla:                           *)
(*   k = "q"   one address a = lp@host through                             *)
(*             qmail-inject -a a                          -> QaVerdict     *)
(*             the real qmail-remote's RCPT TO line fed to the real        *)
(*             qmail-smtpd                                -> QsVerdict     *)
(*             (hh = 1) qmail-inject -n -f a, the printed form fed back in *)
(*             To / Cc / Return-Path                      -> QhVerdict     *)
(*   k = "qm"  the same for a MAIL FROM line              -> QsVerdict     *)
(*   k = "h"   one run of qmail-inject on a generated header (abstract     *)
(*             list known by construction) + the second pass               *)
(*                                        -> ListVerdict                   *)
(* Byte strings are sequences of integers; <<-1>> = not observed.          *)
(***************************************************************************)
EXTENDS Addr, Json, IOUtils, TLC
Recs  == ndJsonDeserialize(IOEnv.RECORDS)
Chunk == atoi(IOEnv.CHUNK)
N     == Len(Recs)
NCh   == (N + Chunk - 1) \div Chunk
G     == 16
VARIABLES g, k
Init == g = 0 /\ k = 0
Next == \/ g = 0 /\ g' \in 1..G /\ k' = 0
        \/ g > 0 /\ k = 0 /\ k' \in {c \in 1..NCh : c % G = g - 1} /\ g' = g
Spec == Init /\ [][Next]_<<g, k>>

Verdict(r) ==
  CASE r.k = "q"  -> LET v1 == QaVerdict(r.lp, r.host, r.aback)
                         v2 == QsVerdict(r.lp, r.host, r.sq, r.sok, r.sback)
                     IN IF v1 # "" THEN v1 ELSE IF v2 # "" THEN v2
                        ELSE IF r.hh = 1 THEN QhVerdict(r.lp, r.host, r.hq, r.b1, r.b2, r.snd) ELSE ""
    [] r.k = "qm" -> QsVerdict(r.lp, r.host, r.sq, r.sok, r.sback)
    [] r.k = "h"  -> ListVerdict(r)
    [] OTHER -> "UnknownRecordKind"
CheckChunk(c) ==
  LET lo == (c - 1) * Chunk + 1
      hi == IF c * Chunk < N THEN c * Chunk ELSE N
  IN /\ \A i \in lo..hi : LET v == Verdict(Recs[i]) IN v = "" \/ PrintT(<<"BADREC", i, v>>)
     /\ PrintT(<<"CHECKED", lo, hi>>)
Inv == k = 0 \/ CheckChunk(k)
=============================================================================
