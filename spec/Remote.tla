-------------------------------- MODULE Remote --------------------------------
(***************************************************************************)
(* C09: the SMTP client (qmail-remote) against an arbitrary server.        *)
(*                                                                         *)
(* A server script assigns to every protocol phase a reply class:          *)
(*   greet helo mail rcpt[1..n] data dot  in                               *)
(*   "ok"   the expected positive reply (220 / 250 / 250 / 250 / 354 / 250)*)
(*   "odd"  another reply below 400 (e.g. 250 as greeting, 354 to RCPT)    *)
(*   "4"    a 4xx reply        "5"  a 5xx reply                            *)
(*   "drop" the server closes (or stalls until the client's time-out)      *)
(*   "junk" a reply line that does not start with three digits (a stray    *)
(*          empty line, a leading blank, "-ERR", "2:0 ok", ...): whatever  *)
(*          it is, it is not an acceptance                                 *)
(* single-line or multi-line makes no difference to the class.             *)
(*                                                                         *)
(* E: Ref(script) - what the statement of C09 demands, as the set of       *)
(*    allowed results (an "odd" reply to MAIL/RCPT/DATA/dot may be taken   *)
(*    as acceptance or as a temporary failure: the statement fixes only    *)
(*    2xx-as-expected, 4xx and 5xx; an odd greeting / HELO reply is        *)
(*    "unexpected" and must give a temporary failure).                     *)
(*    A result is [rr, mr, dup]: recipient report letters in argument      *)
(*    order, message report letter, possible-duplicate flag.               *)
(* P: RemoteP(script) - transcription of qmail-remote.c smtp().            *)
(***************************************************************************)
EXTENDS Integers, Sequences, FiniteSets

Res(rr, mr, dup) == [rr |-> rr, mr |-> mr, dup |-> dup]

\* deterministic reference for a script in which every reply is ok / 4 / 5 / drop
RECURSIVE RcptLetters(_, _)
\* letters for the RCPT replies up to (not including) a drop
RcptLetters(rc, i) ==
  IF i > Len(rc) \/ rc[i] = "drop" THEN <<>>
  ELSE <<(IF rc[i] = "ok" THEN "r" ELSE IF rc[i] = "5" THEN "h" ELSE "s")>> \o RcptLetters(rc, i + 1)
Fail(c) == IF c = "5" THEN "D" ELSE "Z"        \* 5xx permanent; 4xx and lost connection temporary
RefDet(s) ==
  IF s.greet # "ok" THEN {Res(<<>>, "Z", FALSE)}                       \* any unexpected greeting, 4xx, 5xx, loss: temporary
  ELSE IF s.helo # "ok" THEN {Res(<<>>, "Z", FALSE)}
  ELSE IF s.mail # "ok" THEN {Res(<<>>, Fail(s.mail), FALSE)}
  ELSE LET rr == RcptLetters(s.rcpt, 1)
       IN IF Len(rr) < Len(s.rcpt) THEN {Res(rr, "Z", FALSE)}            \* connection lost during RCPT
          ELSE IF \A i \in 1..Len(rr) : rr[i] # "r" THEN {Res(rr, "D", FALSE), Res(rr, "Z", FALSE)}   \* nobody accepted: not success
          ELSE IF s.data # "ok" THEN {Res(rr, Fail(s.data), FALSE)}
          ELSE IF s.dot = "drop" THEN {Res(rr, "Z", TRUE)}              \* lost after the final dot: possible duplicate, retried
          ELSE IF s.dot # "ok" THEN {Res(rr, Fail(s.dot), FALSE)}
          ELSE {Res(rr, "K", FALSE)}

\* every way of reading the "odd" replies of the phases where the statement leaves them open
Readings(c) == IF c = "odd" THEN {"ok", "4"} ELSE IF c = "junk" THEN {"4", "5"} ELSE {c}
Ref(s) ==
  UNION { RefDet([greet |-> s.greet, helo |-> s.helo, mail |-> m, rcpt |-> rc, data |-> d, dot |-> t]) :
          m \in Readings(s.mail), d \in Readings(s.data), t \in Readings(s.dot),
          rc \in {r \in [1..Len(s.rcpt) -> {"ok", "4", "5", "drop"}] : \A i \in 1..Len(s.rcpt) : r[i] \in Readings(s.rcpt[i])} }

\* monitor for one observed run: the observed result is one of the allowed ones
RemoteVerdict(s, rr, mr, dup) ==
  LET allowed == Ref(s)
  IN IF Res(rr, mr, dup) \in allowed THEN ""
     ELSE IF mr = "K" /\ ~\E a \in allowed : a.mr = "K" THEN "SuccessReportedButServerDidNotAcceptMessage"
     ELSE IF \E i \in 1..Len(rr) : rr[i] = "r" /\ \A a \in allowed : (Len(a.rr) < i \/ a.rr[i] # "r") THEN "RecipientReportedAcceptedButServerRefusedIt"
     ELSE IF ~\E a \in allowed : a.rr = rr THEN "RecipientReportsWrongOrOutOfOrder"
     ELSE IF ~\E a \in allowed : a.rr = rr /\ a.mr = mr THEN "WrongFailureClass"
     ELSE "PossibleDuplicateFlagWrong"

\* ---- P: qmail-remote.c smtp(): codes are compared numerically; "odd" is any code below 400 that is not the expected one
\* smtpcode(): a reply without three leading digits is given the value 599
Code(c, expected) == IF c = "ok" THEN expected ELSE IF c = "odd" THEN (IF expected = 354 THEN 250 ELSE 354) ELSE IF c = "4" THEN 451 ELSE IF c = "junk" THEN 599 ELSE 553
RECURSIVE PRcpt(_, _)
PRcpt(rc, i) == IF i > Len(rc) \/ rc[i] = "drop" THEN <<>>
                ELSE LET code == Code(rc[i], 250) IN <<(IF code >= 500 THEN "h" ELSE IF code >= 400 THEN "s" ELSE "r")>> \o PRcpt(rc, i + 1)
RemoteP(s) ==
  IF s.greet = "drop" THEN Res(<<>>, "Z", FALSE)
  ELSE IF Code(s.greet, 220) # 220 THEN Res(<<>>, "Z", FALSE)
  ELSE IF s.helo = "drop" THEN Res(<<>>, "Z", FALSE)
  ELSE IF Code(s.helo, 250) # 250 THEN Res(<<>>, "Z", FALSE)
  ELSE IF s.mail = "drop" THEN Res(<<>>, "Z", FALSE)
  ELSE IF Code(s.mail, 250) >= 500 THEN Res(<<>>, "D", FALSE)
  ELSE IF Code(s.mail, 250) >= 400 THEN Res(<<>>, "Z", FALSE)
  ELSE LET rr == PRcpt(s.rcpt, 1)
       IN IF Len(rr) < Len(s.rcpt) THEN Res(rr, "Z", FALSE)
          ELSE IF \A i \in 1..Len(rr) : rr[i] # "r" THEN Res(rr, "D", FALSE)
          ELSE IF s.data = "drop" THEN Res(rr, "Z", FALSE)
          ELSE IF Code(s.data, 354) >= 500 THEN Res(rr, "D", FALSE)
          ELSE IF Code(s.data, 354) >= 400 THEN Res(rr, "Z", FALSE)
          ELSE IF s.dot = "drop" THEN Res(rr, "Z", TRUE)
          ELSE IF Code(s.dot, 250) >= 500 THEN Res(rr, "D", FALSE)
          ELSE IF Code(s.dot, 250) >= 400 THEN Res(rr, "Z", FALSE)
          ELSE Res(rr, "K", FALSE)
=============================================================================
