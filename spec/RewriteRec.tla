----------------------------- MODULE RewriteRec -----------------------------
(***************************************************************************)
(* Record validator (T) for C10: one record = one message preprocessed by  *)
(* the real qmail-send (or one batch of calls of rewrite() / senderadd()   *)
(* through the function-level seam):                                       *)
(*   hist  what the control files contained when qmail-send started, and   *)
(*         after every later edit / HUP before the message was injected    *)
(*         (see Effective in Rewrite.tla)                                  *)
(*   snd   envelope sender, rc = envelope recipients in order (as handed   *)
(*         to the real qmail-queue)                                        *)
(*   lo,re the addresses of the T records of local/<id> and remote/<id>    *)
(*   dl    delivery commands seen for the message: s = sender field,       *)
(*         r = recipient field                                             *)
(* All text as arrays of character codes.  The verdict is the monitor of   *)
(* Rewrite.tla - the same operators the model is checked against.          *)
(***************************************************************************)
EXTENDS Rewrite, Json, IOUtils
Recs  == ndJsonDeserialize(IOEnv.RECORDS)
Chunk == atoi(IOEnv.CHUNK)
N     == Len(Recs)
NCh   == (N + Chunk - 1) \div Chunk
G     == 16
VARIABLES g, k
Init == g = 0 /\ k = 0
Next == \/ g = 0 /\ g' \in 1..G /\ k' = 0
        \/ g > 0 /\ k = 0 /\ k' \in {c \in 1..NCh : c % G = g - 1} /\ g' = g
Spec == Init /\ [][Next]_<<g, k>>

Verdict(r) ==
  IF \E n \in 1..Len(r.hist) : DupKeys(r.hist[n].c) THEN "OutsideDomain"      \* generator error, not a verdict
  ELSE LET v == MsgVerdict(Effective(r.hist), r.rc, r.lo, r.re)
       IN IF v # "" THEN v
          ELSE LET b == VerpFirstBad(r.snd, r.dl)
               IN IF b # 0 THEN "Verp:" \o ToString(b) ELSE ""
CheckChunk(c) ==
  LET lo == (c - 1) * Chunk + 1
      hi == IF c * Chunk < N THEN c * Chunk ELSE N
  IN /\ \A i \in lo..hi : LET v == Verdict(Recs[i]) IN v = "" \/ PrintT(<<"BADREC", i, v>>)
     /\ PrintT(<<"CHECKED", lo, hi>>)
Inv == k = 0 \/ CheckChunk(k)
=============================================================================
