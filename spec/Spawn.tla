-------------------------------- MODULE Spawn --------------------------------
(***************************************************************************)
(* The spawners (spawn.c + qmail-rspawn.c) at their trust boundary.        *)
(*                                                                         *)
(* E  - delivery commands as the queue manager sends them, what the        *)
(*      statement of C18 demands of the spawner (SpawnVerdict), and what   *)
(*      C09 demands of the verdict relayed for qmail-remote's result       *)
(*      (FoldVerdict), written from qmail-remote(8) RESULTS.               *)
(* P  - FoldP: transcription of qmail-rspawn.c report().                   *)
(***************************************************************************)
EXTENDS Integers, Sequences, FiniteSets, SequencesExt

MinOf(S) == CHOOSE x \in S : \A y \in S : x <= y
Sorted(S) == SetToSortSeq(S, LAMBDA a, b : a < b)

\* ---- qmail-remote's output: reports, each terminated by a 0 byte
Reports(s) == LET e == Sorted({i \in 1..Len(s) : s[i] = 0})
              IN [k \in 1..Len(e) |-> SubSeq(s, (IF k = 1 THEN 1 ELSE e[k - 1] + 1), e[k] - 1)]
LK == 75  LZ == 90  LD == 68  Lr == 114  Lh == 104  Ls == 115
\* letter of the message report = first terminated report that starts with K, Z or D; 0 if none
MsgReport(s) == LET rs == Reports(s)
                    idx == {k \in 1..Len(rs) : Len(rs[k]) > 0 /\ rs[k][1] \in {LK, LZ, LD}}
                IN IF idx = {} THEN 0 ELSE rs[MinOf(idx)][1]

(***************************************************************************)
(* C09 (relay): relayed = first byte of the report text the spawner sends  *)
(* to the queue manager for the delivery.  "Never upgrades a refusal, a    *)
(* crash or an unparseable result to success":                             *)
(***************************************************************************)
FoldVerdict(exitcode, crashed, out, relayed) ==
  IF relayed \notin {LK, LZ, LD} THEN "ReportWithoutVerdictLetter"
  ELSE IF relayed = LK /\ crashed THEN "CrashRelayedAsSuccess"
  ELSE IF relayed = LK /\ exitcode # 0 THEN "FailureExitRelayedAsSuccess"
  ELSE IF relayed = LK /\ MsgReport(out) # LK THEN "NoSuccessReportRelayedAsSuccess"      \* empty, unterminated, Z, D, garbage
  ELSE IF relayed = LK /\ out[1] \in {Lh, Ls} THEN "RecipientRefusalRelayedAsSuccess"
  ELSE IF ~crashed /\ exitcode = 0 /\ Len(out) > 0 /\ out[1] = Lr /\ MsgReport(out) = LK /\ relayed # LK THEN "PlainSuccessNotRelayed"
  \* (a temporary failure reported by qmail-remote - a 4xx reply, a lost connection - stays temporary, however long its text)
  ELSE IF ~crashed /\ exitcode = 0 /\ Len(out) > 0 /\ out[1] \in {Lr, LZ} /\ MsgReport(out) = LZ /\ relayed # LZ THEN "PlainTemporaryFailureNotRelayed"
  ELSE ""

(***************************************************************************)
(* C18 (local spawner, relay): one record = one qmail-lspawn process given *)
(* delivery commands cmds (delivery numbers) whose delivery program ends   *)
(* as exp[i] = [ex, cr] (exit status, killed by a signal) after writing    *)
(* arbitrary bytes; frames = the report frames <<number, letter>> found on *)
(* the channel to the queue manager.  Exactly one report per command,      *)
(* carrying its number, none for any other number - whatever the program   *)
(* printed (a NUL in its output must not become a frame boundary) - and    *)
(* the letter follows the exit status: success for 0 only, a crash is a    *)
(* temporary failure.                                                      *)
(***************************************************************************)
LRunVerdict(cmds, exp, frames) ==
  LET of(dn) == {j \in 1..Len(frames) : frames[j][1] = dn}
      \* qmail-local(8) EXIT CODES: 0 success, 111 temporary, 100 permanent; any other status is a failure of either kind
      want(i) == IF exp[i].cr THEN {LZ} ELSE IF exp[i].ex = 0 THEN {LK} ELSE IF exp[i].ex = 100 THEN {LD} ELSE IF exp[i].ex = 111 THEN {LZ} ELSE {LZ, LD}
  IN IF \E j \in 1..Len(frames) : ~\E i \in 1..Len(cmds) : cmds[i] = frames[j][1] THEN "ReportForDeliveryNumberNobodyAskedFor"
     ELSE IF \E i \in 1..Len(cmds) : Cardinality(of(cmds[i])) # 1 THEN "NotExactlyOneReportPerCommand"
     ELSE IF \E i \in 1..Len(cmds) : frames[CHOOSE j \in of(cmds[i]) : TRUE][2] \notin want(i) THEN "ReportLetterDoesNotFollowExitStatus"
     ELSE ""

\* P: qmail-rspawn.c report()
FoldP(exitcode, crashed, out) ==
  IF crashed THEN LZ
  ELSE IF exitcode = 111 THEN LZ
  ELSE IF exitcode # 0 THEN LD
  ELSE IF Len(out) = 0 THEN LZ
  ELSE LET m == MsgReport(out)
           result == IF m = LK THEN 1 ELSE IF m = LZ THEN 0 ELSE -1
           orr == IF out[1] = Ls THEN 0 ELSE IF out[1] = Lh THEN -1 ELSE result
       IN IF orr = 1 THEN LK ELSE IF orr = 0 THEN LZ ELSE LD

(***************************************************************************)
(* C18 (spawner): one record = one stream of delivery commands.            *)
(*  cmds[i]   = [dn, mid, rcp, kind]: delivery number byte, message id     *)
(*              bytes, recipient bytes, kind of the file the id denotes    *)
(*              ("regq" regular and owned by the queue user, "regother",   *)
(*              "dir", "absent", "none" if the id is not a usable path)    *)
(*  limit     = concurrency byte the spawner announced                     *)
(*  reports   = delivery number of every report received, in order         *)
(*  opens     = message-id paths the spawner passed to open()              *)
(*  ran[i]    = TRUE iff a delivery agent was started for cmds[i]          *)
(***************************************************************************)
NumericId(p) == /\ Len(p) > 0 /\ p[1] \in 48..57
                /\ \A i \in 1..Len(p) : p[i] \in 48..57 \/ p[i] = 47
HasAt(r) == \E i \in 1..Len(r) : r[i] = 64
WellFormedCmd(c, limit) == c.dn < limit /\ NumericId(c.mid) /\ Len(c.mid) < 100 /\ HasAt(c.rcp)
Count(seq, x) == Cardinality({i \in 1..Len(seq) : seq[i] = x})

SpawnVerdict(cmds, limit, reports, opens, ran) ==
  IF \E i \in 1..Len(opens) : ~NumericId(opens[i]) THEN "OpenedNonNumericName"
  ELSE IF \E i \in 1..Len(cmds) : ran[i] /\ cmds[i].kind # "regq" THEN "AgentStartedOnForeignFile"
  ELSE IF \E i \in 1..Len(cmds) : ran[i] /\ ~NumericId(cmds[i].mid) THEN "AgentStartedForNonNumericId"
  ELSE IF \E i \in 1..Len(cmds) : WellFormedCmd(cmds[i], limit) /\ Count(reports, cmds[i].dn) # Count([j \in 1..Len(cmds) |-> cmds[j].dn], cmds[i].dn)
       THEN "NotExactlyOneReportPerCommand"
  ELSE IF \E i \in 1..Len(cmds) : WellFormedCmd(cmds[i], limit) /\ cmds[i].kind = "regq" /\ ~ran[i] THEN "ValidDeliveryNotStarted"
  ELSE ""
=============================================================================
