------------------------------- MODULE M2M -------------------------------
(***************************************************************************)
(* X07 (beyond the listed properties): maildir2mbox(1) "moves mail from a  *)
(* maildir-format directory to an mbox-format file ... is reliable: it     *)
(* will not remove messages from the maildir until the messages have been  *)
(* successfully appended to the mbox".                                     *)
(*                                                                         *)
(* This module is the byte level: what one moved message looks like in the *)
(* mbox file.                                                              *)
(*   E  the reader of mbox(5) (MailStore.tla: MboxRead) gets every moved   *)
(*      file back, line for line (a final partial line counts as a line,   *)
(*      as mbox(5) stipulates for the writer), the messages that were      *)
(*      there before read as before, the From_ line names the sender of    *)
(*      the file's Return-Path line as one word and the time the file was  *)
(*      delivered (its mtime) in the ctime form, and the messages follow   *)
(*      each other in the order of delivery.                               *)
(*   P  the per-file loop of maildir2mbox.c: getln / gfrom / substdio_put. *)
(* The state machine (tmp file, fsync, rename, unlink, crashes) is in      *)
(* M2MRun.tla.                                                             *)
(***************************************************************************)
EXTENDS MailStore, Datetime

DayText == << <<83,117,110>>, <<77,111,110>>, <<84,117,101>>, <<87,101,100>>, <<84,104,117>>, <<70,114,105>>, <<83,97,116>> >>
\* myctime(): "Thu Jan 01 00:00:00 1970" (the LF is not part of this text)
CTimeText(t) ==
  LET s == SplitP(t)
      d == DateP(s.day, s.tod)
  IN DayText[d.wday + 1] \o <<SP>> \o MonText[d.mon + 1] \o <<SP>> \o Dec2(d.mday) \o <<SP>>
       \o Dec2(d.hour) \o <<58>> \o Dec2(d.min) \o <<58>> \o Dec2(d.sec) \o <<SP>> \o Dec(d.year)

MinOf(S) == CHOOSE x \in S : \A y \in S : x <= y

(***************************************************************************)
(* E                                                                       *)
(***************************************************************************)
\* first complete line of a file, with its LF; <<>> if there is none
FirstLine(file) == LET e == {i \in 1..Len(file) : file[i] = LF}
                   IN IF e = {} THEN <<>> ELSE SubSeq(file, 1, MinOf(e))
\* the file starts with the line qmail-local writes: Return-Path: <sender>
HasRP(file) == LET l == FirstLine(file)
               IN /\ Len(l) >= Len(RPPre) + 2 /\ StartsWith(l, RPPre) /\ l[Len(l) - 1] = GT
                  /\ (Len(l) = Len(RPPre) + 2 \/ l[Len(RPPre) + 1] # GT)     \* "<>x>" is not a form qmail-local writes: left open
RPOf(file) == LET l == FirstLine(file) IN SubSeq(l, Len(RPPre) + 1, Len(l) - 2)

\* m: one message as the reader returns it; file, mtime: what was in the maildir
EntryVerdict(m, file, mtime) ==
  LET w == FirstWord(m.from)
  IN IF m.lines # SplitLines(file) THEN "ReaderDoesNotGetTheFileBack"
     ELSE IF HasRP(file) /\ w # FromWord(RPOf(file)) THEN "FromLineDoesNotNameTheSender"
     ELSE IF SubSeq(m.from, 5 + Len(w) + 1, Len(m.from)) # <<SP>> \o CTimeText(mtime) THEN "FromLineDateIsNotTheDeliveryTime"
     ELSE ""

Perms(n) == {f \in [1..n -> 1..n] : \A i, j \in 1..n : i # j => f[i] # f[j]}

\* old / after: the mbox before and after; fs: the moved files [data, mtime], by time of delivery
MoveVerdict(old, after, fs) ==
  IF ~IsPrefix(old, after) THEN "EarlierBytesChanged"
  ELSE LET rb == MboxRead(old)
           ra == MboxRead(after)
           n  == Len(fs)
           V(i, j) == EntryVerdict(ra[Len(rb) + i], fs[j].data, fs[j].mtime)
           bad == {i \in 1..n : V(i, i) # ""}
       IN IF Len(ra) # Len(rb) + n THEN "ReaderSplitsIntoWrongNumberOfMessages"
          ELSE IF SubSeq(ra, 1, Len(rb)) # rb THEN "EarlierMessagesReadDifferently"
          ELSE IF bad = {} THEN ""
          ELSE IF n <= 5 /\ \E f \in Perms(n) : \A i \in 1..n : V(i, f[i]) = "" THEN
                  (IF \E f \in Perms(n) : (\A i \in 1..n : V(i, f[i]) = "") /\ (\A i \in 1..(n - 1) : fs[f[i]].mtime <= fs[f[i + 1]].mtime)
                   THEN "" ELSE "MessagesNotInOrderOfDelivery")
          ELSE V(MinOf(bad), MinOf(bad))

(***************************************************************************)
(* P: what maildir2mbox writes for one file                                *)
(***************************************************************************)
\* getln(): the lines with their LF, a final partial line without
RECURSIVE Chop(_)
Chop(s) == IF s = <<>> THEN <<>>
           ELSE LET e == {i \in 1..Len(s) : s[i] = LF}
                IN IF e = {} THEN <<s>>
                   ELSE LET k == MinOf(e) IN <<SubSeq(s, 1, k)>> \o Chop(SubSeq(s, k + 1, Len(s)))
Match(c) == c # <<>> /\ c[Len(c)] = LF
GFromP(c) == LET k == NumGT(c) IN StartsWith(SubSeq(c, k + 1, Len(c)), FromSp)
XXX == <<88, 88, 88>>
UfWordP(c) ==
  IF Match(c) /\ StartsWith(c, RPPre)
  THEN (IF Len(c) > 14 /\ c[15] = GT THEN MailerDaemon ELSE MapBytes(SubSeq(c, 15, Len(c) - 2), {SP, TAB}, HY))
  ELSE XXX
\* variant "asfound": the loop as it was (while (match && line.len)): a final partial line is not written
\* variant "ok":      the repaired loop (while (match || line.len))
RECURSIVE BodyP(_, _)
BodyP(cs, variant) ==
  IF cs = <<>> THEN <<>>
  ELSE LET c == Head(cs)
       IN IF ~Match(c) THEN (IF variant = "asfound" THEN <<>> ELSE (IF GFromP(c) THEN <<GT>> ELSE <<>>) \o c \o <<LF>>)
          ELSE (IF GFromP(c) THEN <<GT>> ELSE <<>>) \o c \o BodyP(Tail(cs), variant)
EntryP(file, mtime, variant) ==
  LET cs == Chop(file)
  IN FromSp \o UfWordP(IF cs = <<>> THEN <<>> ELSE Head(cs)) \o <<SP>> \o CTimeText(mtime) \o <<LF>> \o BodyP(cs, variant) \o <<LF>>
=============================================================================
