-------------------------------- MODULE Sched --------------------------------
(***************************************************************************)
(* C15, arithmetic and ordering part.                                      *)
(*                                                                         *)
(* E  IsRoot (floor square root, declaratively), RetryOk (the documented   *)
(*    back-off birth + (floor(sqrt(age)) + skip)^2, strictly in the        *)
(*    future), the priority queue as a multiset with a minimum.            *)
(* P  SqrtAlg: the shift-and-subtract loop of qmail-send.c squareroot()    *)
(*    with Bits iterations (16 in the code; TLC runs the same loop with a  *)
(*    smaller Bits over its complete domain 0 .. 4^Bits - 1), and the      *)
(*    array heap of prioq.c (module PrioqModel).                           *)
(* TLC integers are 32 bit: the monitors are applied to recorded results   *)
(* for ages below 2^31; the full 2^32 domain is swept against IsRoot in C. *)
(***************************************************************************)
EXTENDS Integers, Sequences, FiniteSets

IsRoot(y, x) == y >= 0 /\ y * y <= x /\ x < (y + 1) * (y + 1)

Pow2(n) == 2 ^ n
RECURSIVE SqrtLoop(_, _, _, _)
\* one iteration per j = Bits-1 .. 0:  y21 = (y << (j+1)) + (1 << 2j); if (y21 <= x - yy) { y += 1 << j; yy += y21 }
SqrtLoop(x, j, y, yy) ==
  IF j < 0 THEN y
  ELSE LET y21 == y * Pow2(j + 1) + Pow2(2 * j)
       IN IF y21 <= x - yy THEN SqrtLoop(x, j - 1, y + Pow2(j), yy + y21) ELSE SqrtLoop(x, j - 1, y, yy)
SqrtAlg(x, bits) == SqrtLoop(x, bits - 1, 0, 0)

Skip(c) == IF c = 0 THEN 10 ELSE 20          \* local, remote
\* witness form: n is the claimed root-plus-skip; checking it needs no search
RetryOk(birth, now, c, result, n) ==
  IF birth > now THEN result = birth + Skip(c) * Skip(c)
  ELSE /\ result = birth + n * n /\ IsRoot(n - Skip(c), now - birth)
       /\ result > now                                             \* always strictly in the future

\* ---- priority queue, abstractly: a bag of keys (sequence in insertion order)
RemoveOne(s, x) == LET i == CHOOSE k \in 1..Len(s) : s[k] = x IN SubSeq(s, 1, i - 1) \o SubSeq(s, i + 1, Len(s))
MinKey(s) == CHOOSE x \in {s[k] : k \in 1..Len(s)} : \A k \in 1..Len(s) : x <= s[k]
RECURSIVE BagAfter(_, _)
\* ops: k >= 0 insert key k; -1 delete minimum
BagAfter(ops, bag) ==
  IF ops = <<>> THEN bag
  ELSE IF Head(ops) >= 0 THEN BagAfter(Tail(ops), Append(bag, Head(ops)))
  ELSE IF bag = <<>> THEN BagAfter(Tail(ops), bag)
  ELSE BagAfter(Tail(ops), RemoveOne(bag, MinKey(bag)))
RECURSIVE SortedDrain(_)
SortedDrain(bag) == IF bag = <<>> THEN <<>> ELSE <<MinKey(bag)>> \o SortedDrain(RemoveOne(bag, MinKey(bag)))

\* record: ops applied to the real prioq, mins[i] = (has minimum, its key) observed after op i, drain = keys
\* obtained by repeated min/delmin at the end
RECURSIVE MinsOk(_, _, _, _)
MinsOk(ops, mins, i, bag) ==
  IF i > Len(ops) THEN TRUE
  ELSE LET b2 == BagAfter(<<ops[i]>>, bag)
       IN /\ (IF b2 = <<>> THEN mins[i] = -1 ELSE mins[i] = MinKey(b2))
          /\ MinsOk(ops, mins, i + 1, b2)
PqVerdict(ops, mins, drain) ==
  IF ~MinsOk(ops, mins, 1, <<>>) THEN "MinimumIsNotEarliest"
  ELSE IF drain # SortedDrain(BagAfter(ops, <<>>)) THEN "DrainNotEarliestFirstOrElementLost"
  ELSE ""
=============================================================================
