------------------------------- MODULE Qmqpc -------------------------------
(***************************************************************************)
(* X04 (beyond the listed properties): the QMQP client, qmail-qmqpc(8) -   *)
(* "offers the same interface as qmail-queue, but gives the message to a   *)
(* QMQP server"; "will try each address in turn until it establishes a     *)
(* QMQP connection or runs out of addresses".                              *)
(*                                                                         *)
(* The environment: env, the class of the envelope on descriptor 1         *)
(* ("ok", or a malformed one: "nosender" first string does not start with  *)
(* F, "badrcpt" a later string does not start with T, "cut" it ends        *)
(* without the empty string), and srv, the servers of control/qmqpservers  *)
(* in order (the empty list: there is no such control file), each one of   *)
(*   "bad"     not an IP address                                           *)
(*   "refuse"  the connection is refused                                   *)
(*   "K" "Z" "D"  accepts the connection, reads the request, answers so    *)
(*   "drop"    accepts the connection and closes it without an answer      *)
(*   "noiseK"  answers with bytes that are none of K Z D, then K           *)
(* The result: [exit, sentto]: exit status and the positions of the        *)
(* servers that were sent the request.                                     *)
(*                                                                         *)
(* E: Expected(env, srv).   P: QmqpcP(env, srv): getmess() + main() loop + *)
(* doit() of qmail-qmqpc.c.                                                *)
(***************************************************************************)
EXTENDS Integers, Sequences, FiniteSets

Behaviours == {"bad", "refuse", "K", "Z", "D", "drop", "noiseK"}
Connects(b) == b \in {"K", "Z", "D", "drop", "noiseK"}
\* qmail-queue(8) EXIT CODES as far as they apply: 0 success, 31 permanent refusal by the server, 71 temporary refusal,
\* 73 connection refused, 74 connection broken, 55 no usable server (control file trouble), 91 envelope format error
AnswerExit(b) == CASE b = "K" -> 0 [] b = "noiseK" -> 0 [] b = "Z" -> 71 [] b = "D" -> 31 [] b = "drop" -> 74

\* ---- E
FirstConnecting(srv) == LET S == {i \in 1..Len(srv) : Connects(srv[i])} IN IF S = {} THEN 0 ELSE CHOOSE i \in S : \A j \in S : i <= j
Expected(env, srv) ==
  IF srv = <<>> THEN [exit |-> 55, sentto |-> {}]                         \* no list of servers: nothing is read, nothing is sent
  ELSE IF env # "ok" THEN [exit |-> 91, sentto |-> {}]                         \* a malformed envelope never reaches a server
  ELSE LET f == FirstConnecting(srv)
       IN IF f > 0 THEN [exit |-> AnswerExit(srv[f]), sentto |-> {f}]     \* the first connection established decides; nobody else is asked
          ELSE IF \E i \in 1..Len(srv) : srv[i] = "refuse" THEN [exit |-> 73, sentto |-> {}]
          ELSE [exit |-> 55, sentto |-> {}]
\* success is reported only if exactly one server was given the message and it answered K
SuccessSound(env, srv, r) == r.exit = 0 => \E i \in 1..Len(srv) : r.sentto = {i} /\ srv[i] \in {"K", "noiseK"}

\* ---- P
RECURSIVE Loop(_, _, _)
Loop(srv, i, last) ==
  IF i > Len(srv) THEN [exit |-> last, sentto |-> {}]
  ELSE IF srv[i] = "bad" THEN Loop(srv, i + 1, last)                       \* if (!ip_scan(server,&ip)) return;
  ELSE IF srv[i] = "refuse" THEN Loop(srv, i + 1, 73)                      \* lasterror = 73; return;
  ELSE [exit |-> AnswerExit(srv[i]), sentto |-> {i}]                       \* the for (;;) over the answer bytes ends in _exit
\* main(): control_readfile() != 1 -> die_control() comes before getmess()
QmqpcP(env, srv) == IF srv = <<>> THEN [exit |-> 55, sentto |-> {}] ELSE IF env # "ok" THEN [exit |-> 91, sentto |-> {}] ELSE Loop(srv, 1, 55)

\* ---- the request on the wire: netstring of (netstring message, netstring sender, netstring recipient ...)
RECURSIVE Dec(_)
Dec(n) == IF n < 10 THEN <<48 + n>> ELSE Dec(n \div 10) \o <<48 + (n % 10)>>
NS(s) == Dec(Len(s)) \o <<58>> \o s \o <<44>>
RECURSIVE Cat(_)
Cat(ss) == IF ss = <<>> THEN <<>> ELSE Head(ss) \o Cat(Tail(ss))
Request(msg, sender, rcpts) == NS(NS(msg) \o NS(sender) \o Cat([i \in 1..Len(rcpts) |-> NS(rcpts[i])]))
=============================================================================
