----------------------------- MODULE SmtpSession -----------------------------
(***************************************************************************)
(* C08: SMTP transactions and the relaying policy of qmail-smtpd.          *)
(*                                                                         *)
(* Commands carry ABSTRACT addresses (the mailbox a command argument       *)
(* denotes is known by construction of the argument; its rendering -       *)
(* brackets, source routes, quoting, case - is the harness's business and  *)
(* the inverse parse is C17's subject):                                    *)
(*   addr = [loc, dom, noat, long, lit]                                    *)
(*     dom  = sequence of lower-case labels (e.g. <<"sub","dot","test">>)  *)
(*     noat = TRUE for an address without @                                *)
(*     long = TRUE if the address exceeds the server's length limit        *)
(*     edge = TRUE for an IP-literal address one byte under the limit       *)
(*     lit  = TRUE if the domain is an IP literal of one of this host's    *)
(*            interfaces (then dom = <<>>)                                 *)
(* Configuration:                                                          *)
(*   cfg = [rh, exact, suffix, mexact, msuffix, bmfaddr, bmfdom, lip, relay,*)
(*          mrhbad]                                                         *)
(*     rh: control/rcpthosts exists; exact / suffix: its entries (suffix   *)
(*     entries are the ".dom" lines, stored without the dot, as label      *)
(*     sequences); mexact / msuffix: morercpthosts.cdb; bmfaddr / bmfdom:  *)
(*     badmailfrom addresses and @domains; lip: <<>> or the localiphost    *)
(*     domain; relay: "unset" | "empty" | "suffix"                         *)
(*                                                                         *)
(* E: the monitor Mon (state + one step per (command, reply class)).       *)
(* P: SmtpP, the transcription of smtp_helo/ehlo/rset/mail/rcpt/data.      *)
(***************************************************************************)
EXTENDS Integers, Sequences, FiniteSets, TLC

IsSuffix(s, d) == Len(s) <= Len(d) /\ SubSeq(d, Len(d) - Len(s) + 1, Len(d)) = s
\* documented matching of a domain against a recipient-host list: the whole domain, or any dot-suffix
\* of it listed as ".suffix" - at a dot boundary, i.e. a sequence of whole labels; a ".dom" entry does not
\* match "dom" itself
HostListed(d, exact, suffix) == d \in exact \/ \E s \in suffix : IsSuffix(s, d) /\ Len(s) < Len(d)

\* the address after replacing a local IP-literal domain by the configured name
Subst(a, cfg) == IF a.lit /\ cfg.lip # <<>> THEN [a EXCEPT !.dom = cfg.lip, !.lit = FALSE] ELSE a
\* the length limit applies to the address AFTER that replacement: `long` = over the limit as written (and after any
\* replacement); `edge` = an IP-literal address written with exactly LIMIT - 1 bytes, i.e. just under the limit as written
\* and over it as soon as the configured name is longer than the 11 bytes of "[127.0.0.1]"
RECURSIVE NameLen(_)
NameLen(d) == IF d = <<>> THEN 0 ELSE Len(Head(d)) + (IF Len(d) > 1 THEN 1 ELSE 0) + NameLen(Tail(d))
TooLong(a, cfg) == a.long \/ (a.edge /\ a.lit /\ cfg.lip # <<>> /\ NameLen(cfg.lip) > 11)
Allowed(a, cfg) ==
  \/ ~cfg.rh                                         \* no rcpthosts file: everything is accepted
  \/ a.noat                                          \* addresses without @ are allowed
  \/ (~a.lit /\ (HostListed(a.dom, cfg.exact, cfg.suffix) \/ (~cfg.mrhbad /\ HostListed(a.dom, cfg.mexact, cfg.msuffix))))    \* an unreadable compiled list lists nothing
BadSender(s, cfg) == [loc |-> s.loc, dom |-> s.dom] \in cfg.bmfaddr \/ (~s.noat /\ s.dom \in cfg.bmfdom)
\* how an accepted recipient is stored: with the relay suffix appended when relaying is enabled
Stored(a, cfg) == [a |-> Subst(a, cfg), sfx |-> cfg.relay = "suffix"]

(***************************************************************************)
(* Monitor.  st = [open, sender, rcpts, nsub]; a step is (cmd, reply class *)
(* "2" "3" "4" "5", sub) where sub is the envelope the queue program       *)
(* received during this command (<<>> if none; else <<[s, rc]>>).          *)
(***************************************************************************)
MonInit == [open |-> FALSE, sender |-> [loc |-> "", dom |-> <<>>, noat |-> FALSE, long |-> FALSE, lit |-> FALSE, edge |-> FALSE], rcpts |-> <<>>]
MR(st, v) == [st |-> st, v |-> v]
MonStep(st, c, reply, sub, cfg) ==
  IF c.verb # "DATA" /\ sub # <<>> THEN MR(st, "MessageSubmittedWithoutData")
  ELSE CASE c.verb \in {"HELO", "EHLO", "RSET"} ->
              IF reply = "2" THEN MR([st EXCEPT !.open = FALSE, !.rcpts = <<>>], "") ELSE MR(st, "")
         [] c.verb = "MAIL" ->
              IF reply = "2" THEN MR([open |-> TRUE, sender |-> Subst(c.a, cfg), rcpts |-> <<>>], "") ELSE MR(st, "")   \* (the sender's IP literal is replaced too)
         [] c.verb = "RCPT" ->
              IF reply # "2" THEN MR(st, "")
              ELSE IF ~st.open THEN MR(st, "RecipientAcceptedOutsideTransaction")
              ELSE IF BadSender(st.sender, cfg) THEN MR(st, "RecipientAcceptedForBadSender")
              ELSE IF TooLong(c.a, cfg) THEN MR(st, "OverlongRecipientAccepted")
              ELSE IF cfg.relay = "unset" /\ ~Allowed(Subst(c.a, cfg), cfg) THEN MR(st, "RecipientAcceptedAgainstRelayPolicy")
              ELSE MR([st EXCEPT !.rcpts = Append(@, Stored(c.a, cfg))], "")
         [] c.verb = "DATA" ->
              IF reply = "3" \/ sub # <<>>
                THEN IF ~st.open THEN MR(st, "DataAcceptedWithoutMail")
                     ELSE IF st.rcpts = <<>> THEN MR(st, "DataAcceptedWithoutRecipient")
                     ELSE IF sub # <<>> /\ sub[1].s # st.sender THEN MR(st, "SubmittedSenderIsNotMostRecentMail")
                     ELSE IF sub # <<>> /\ sub[1].rc # st.rcpts THEN MR(st, "SubmittedRecipientsAreNotThoseAcceptedSinceMail")
                     ELSE MR([st EXCEPT !.open = FALSE, !.rcpts = <<>>], "")
                ELSE MR(st, "")
         [] OTHER -> MR(st, "")          \* NOOP VRFY HELP unknown QUIT change nothing

(***************************************************************************)
(* P: qmail-smtpd.c.  ps = [seenmail, mailfrom, rcptto, flagbarf]; returns *)
(* the new state, the reply class and the submission (if any).             *)
(***************************************************************************)
PInit == [seenmail |-> FALSE, mailfrom |-> MonInit.sender, rcptto |-> <<>>, flagbarf |-> FALSE]
PR(ps, reply, sub) == [ps |-> ps, reply |-> reply, sub |-> sub]
PStep(ps, c, cfg) ==
  CASE c.verb \in {"HELO", "EHLO", "RSET"} -> PR([ps EXCEPT !.seenmail = FALSE], "2", <<>>)
    [] c.verb = "MAIL" -> IF TooLong(c.a, cfg) THEN PR(ps, "5", <<>>)                       \* err_syntax, nothing else changes
                          ELSE PR([seenmail |-> TRUE, mailfrom |-> Subst(c.a, cfg), rcptto |-> <<>>, flagbarf |-> BadSender(Subst(c.a, cfg), cfg)], "2", <<>>)
    [] c.verb = "RCPT" -> IF ~ps.seenmail THEN PR(ps, "5", <<>>)
                          ELSE IF TooLong(c.a, cfg) THEN PR(ps, "5", <<>>)
                          ELSE IF ps.flagbarf THEN PR(ps, "5", <<>>)
                          ELSE IF cfg.relay # "unset" THEN PR([ps EXCEPT !.rcptto = Append(@, Stored(c.a, cfg))], "2", <<>>)
                          ELSE IF ~Allowed(Subst(c.a, cfg), cfg) THEN PR(ps, "5", <<>>)
                          ELSE PR([ps EXCEPT !.rcptto = Append(@, Stored(c.a, cfg))], "2", <<>>)
    [] c.verb = "DATA" -> IF ~ps.seenmail THEN PR(ps, "5", <<>>)
                          ELSE IF ps.rcptto = <<>> THEN PR(ps, "5", <<>>)
                          ELSE PR([ps EXCEPT !.seenmail = FALSE], "3", <<[s |-> ps.mailfrom, rc |-> ps.rcptto]>>)
    [] OTHER -> PR(ps, "2", <<>>)
=============================================================================
