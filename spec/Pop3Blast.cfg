SPECIFICATION Spec
CONSTANTS
  Alphabet = {10, 46, 120}
  MaxLen = 7
  MaxTop = 3
  WordMod = 0
  ScanWraps = FALSE
INVARIANT BlastAgrees
INVARIANT BlastPrefix
INVARIANT Framed
INVARIANT Witnessed
