SPECIFICATION Spec
INVARIANT Inv
