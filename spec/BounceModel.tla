------------------------------ MODULE BounceModel ------------------------------
(***************************************************************************)
(* addbounce() (Bounce!AddBounceP) against the paragraph monitor for every *)
(* failure text over a hostile alphabet up to MaxLen, for one and for two  *)
(* failed recipients (records are simply appended to bounce/n), embedded   *)
(* in a notice with a preamble and the separator that follows.             *)
(***************************************************************************)
EXTENDS Bounce, TLC
CONSTANTS MaxLen
Alphabet == {NL, 120, LT, GT, COLON, 128, 64}
R1 == <<97, 64, 98>>            \* a@b
R2 == <<99, NL, 64, 100>>       \* c LF @d   (an address with a newline)
Preamble == <<72, 105, 46, NL, 73, 39, 109, NL, NL>>        \* "Hi.\nI'm\n\n"
Separator == <<45, 45, 45, 32, 66, 101, 108, 111, 119, NL, NL>>
VARIABLES t1, t2, two, fin
vars == <<t1, t2, two, fin>>
Init == t1 = <<>> /\ t2 = <<>> /\ two \in BOOLEAN /\ fin = FALSE
Grow1 == ~fin /\ t2 = <<>> /\ Len(t1) < MaxLen /\ \E c \in Alphabet : t1' = Append(t1, c) /\ UNCHANGED <<t2, two, fin>>
Grow2 == ~fin /\ two /\ Len(t2) < 3 /\ \E c \in {NL, LT, 120} : t2' = Append(t2, c) /\ UNCHANGED <<t1, two, fin>>
Finish == ~fin /\ fin' = TRUE /\ UNCHANGED <<t1, t2, two>>
Next == Grow1 \/ Grow2 \/ Finish
Spec == Init /\ [][Next]_vars
Notice == Preamble \o AddBounceP(R1, t1) \o (IF two THEN AddBounceP(R2, t2) ELSE <<>>) \o Separator
OneParagraphEach == fin => NoticeVerdict(Notice, IF two THEN {R1, R2} ELSE {R1}, <<>>, FALSE) = ""
=============================================================================
