------------------------------- MODULE Helpers -------------------------------
(***************************************************************************)
(* C18, part 1: the cleaner (qmail-clean) at its trust boundary.           *)
(*                                                                         *)
(* E: what a request is and what the statement demands of the helper,      *)
(*    over observable things only: the request bytes, the status bytes     *)
(*    written for it, the paths passed to unlink while serving it.         *)
(* P: CleanP, the transcription of qmail-clean.c's request check, so that  *)
(*    TLC can check the design against the monitor for every request of a  *)
(*    bounded domain (module CleanModel).                                  *)
(*                                                                         *)
(* A request is the byte string up to and including its terminating NUL.   *)
(* An unlinked path is observed as [d, s, n]: directory name, split        *)
(* sub-directory digits (mess only) and file-name digits; d = "other" for  *)
(* any path that is not intd/<digits>, todo/<digits>, mess/<digits>/<digits>*)
(***************************************************************************)
EXTENDS Integers, Sequences, FiniteSets

FOOP == <<102, 111, 111, 112, 47>>      \* "foop/"
TODO == <<116, 111, 100, 111, 47>>      \* "todo/"
IsDigit(b) == b \in 48..57
AllDigits(s) == \A i \in 1..Len(s) : IsDigit(s[i])

RECURSIVE StripZeros(_)
StripZeros(s) == IF Len(s) > 1 /\ s[1] = 48 THEN StripZeros(Tail(s)) ELSE s

\* value of a digit string modulo m, without ever forming the (possibly 64-bit) number
RECURSIVE ModOf(_, _, _)
ModOf(s, m, acc) == IF s = <<>> THEN acc ELSE ModOf(Tail(s), m, (acc * 10 + (s[1] - 48)) % m)

RECURSIVE DigitsOfNat(_)
DigitsOfNat(n) == IF n < 10 THEN <<48 + n>> ELSE DigitsOfNat(n \div 10) \o <<48 + (n % 10)>>

\* the digit field of a request: bytes 6 .. before the NUL
Field(req) == SubSeq(req, 6, Len(req) - 1)
\* the decimal number a request names (as a canonical digit string), if it names one
NamesNumber(req) == Len(req) >= 7 /\ req[Len(req)] = 0 /\ AllDigits(Field(req))
Named(req) == StripZeros(Field(req))
\* beyond 19 digits the number does not fit the queue's message numbers (an inode number);
\* which files such a request denotes is not fixed by the documents
Representable(req) == Len(Named(req)) <= 19

WellFormed(req) == /\ Len(req) >= 7 /\ Len(req) <= 100 /\ NamesNumber(req)
                   /\ SubSeq(req, 1, 5) \in {FOOP, TODO}

\* the only paths a request naming number n may touch
PathOk(p, req, split) ==
  /\ p.d \in {"intd", "todo", "mess"}
  /\ Representable(req) => p.n = Named(req)
  /\ p.d = "mess" => (Representable(req) => p.s = DigitsOfNat(ModOf(Named(req), split, 0)))

(***************************************************************************)
(* Monitor.  status = bytes written on the answer descriptor for this      *)
(* request, unl = paths passed to unlink while serving it (in order, with  *)
(* their outcome ok = unlinked or already absent).  "" = property holds.   *)
(***************************************************************************)
CleanVerdict(req, status, unl, split) ==
  IF Len(status) # 1 THEN "NotExactlyOneStatusByte"
  ELSE IF status[1] \notin {43, 33, 120} THEN "UnknownStatusByte"                   \* '+', '!', 'x'
  ELSE IF status[1] = 120 /\ unl # <<>> THEN "RejectedRequestChangedFiles"
  ELSE IF unl # <<>> /\ ~NamesNumber(req) THEN "UnlinkWithoutNamedNumber"
  ELSE IF \E i \in 1..Len(unl) : ~PathOk(unl[i], req, split) THEN "UnlinkOfForeignPath"
  ELSE IF WellFormed(req) /\ status[1] = 120 THEN "WellFormedRequestRejected"
  ELSE IF WellFormed(req) /\ status[1] = 43 /\ Representable(req) /\
          (LET want == IF SubSeq(req, 1, 5) = FOOP THEN {"intd", "mess"} ELSE {"intd", "todo"}
           IN \E d \in want : ~\E i \in 1..Len(unl) : unl[i].d = d /\ unl[i].ok)
       THEN "ServedButFilesNotRemoved"
  ELSE ""

(***************************************************************************)
(* P: qmail-clean.c main loop body for one request (code as repaired by    *)
(* the fix: commit; as found, a request with a non-digit in the field was  *)
(* answered 'x' once per offending byte and then still served).            *)
(***************************************************************************)
CleanP(req, split) ==
  LET n   == Len(req)
      rej == [status |-> <<120>>, unl |-> <<>>]
      pth(d) == [d |-> d, n |-> Named(req), s |-> IF d = "mess" THEN DigitsOfNat(ModOf(Named(req), split, 0)) ELSE <<>>, ok |-> TRUE]
  IN IF n < 7 \/ n > 100 THEN rej
     ELSE IF ~AllDigits(Field(req)) THEN rej
     ELSE IF SubSeq(req, 1, 5) = FOOP THEN [status |-> <<43>>, unl |-> <<pth("intd"), pth("mess")>>]
     ELSE IF SubSeq(req, 1, 4) = SubSeq(TODO, 1, 4) THEN [status |-> <<43>>, unl |-> <<pth("intd"), pth("todo")>>]   \* sic: 4 bytes
     ELSE rej
=============================================================================
