----------------------------- MODULE Pop3Blast -----------------------------
(***************************************************************************)
(* Program layer (P): the loop of blast() in qmail-pop3d.c, one action per *)
(* line read (Pop3Impl!BlastStep), composed with an environment that       *)
(* stores any message over a small alphabet up to MaxLen in the maildir    *)
(* and asks for it with RETR (limit 0) or TOP with 0..MaxTop lines (limit  *)
(* = lines + 1, as pop3_top computes it).                                  *)
(* Invariants = the monitors of Pop3.tla: when the loop has finished the   *)
(* bytes put are exactly RetrBody / TopBody of the reference model, and    *)
(* while it runs they are a prefix of it (nothing sent is ever wrong).     *)
(***************************************************************************)
EXTENDS Pop3Impl
CONSTANTS Alphabet, MaxLen, MaxTop
VARIABLES msg, lines, b
vars == <<msg, lines, b>>

Msgs == UNION {[1..n -> Alphabet] : n \in 0..MaxLen}

\* lines = -1: RETR; lines = k: TOP n k
Init == /\ msg \in Msgs
        /\ lines \in -1..MaxTop
        /\ b = Blast0(IF lines = -1 THEN 0 ELSE lines + 1)
Next == ~b.done /\ b' = BlastStep(msg, b) /\ UNCHANGED <<msg, lines>>
Spec == Init /\ [][Next]_vars

Expected == IF lines = -1 THEN RetrBody(msg) ELSE TopBody(msg, lines)

BlastAgrees == b.done => b.out = Expected
BlastPrefix == ~b.done => StartsWith(Expected, b.out)
\* the payload can be framed: the only line consisting of a lone dot is the last one
Framed == b.done => LET o == <<CR, LF>> \o b.out
                    IN {i \in 1..(Len(o) - 4) : SubSeq(o, i, i + 4) = <<CR, LF, DOT, CR, LF>>} = {Len(o) - 4}
\* always TRUE; witness lines for the check (non-vacuity: the loop terminates, stuffs, cuts)
Witnessed ==
  /\ (b.done /\ lines = -1 /\ msg = <<DOT, LF, 120>> /\ b.out = <<DOT, DOT, CR, LF, 120, CR, LF, CR, LF, DOT, CR, LF>> => PrintT("COV BlastStuffedPartialLast"))
  /\ (b.done /\ lines = 1 /\ msg = <<LF, DOT, LF, 120, LF>> /\ b.out = <<CR, LF, DOT, DOT, CR, LF, CR, LF, DOT, CR, LF>> => PrintT("COV BlastTopCut"))
  /\ (b.done /\ lines = 0 /\ msg = <<120, LF, 120, LF>> /\ b.out = RetrBody(msg) => PrintT("COV BlastNoSeparatorAllHeader"))
=============================================================================
