SPECIFICATION Spec
CONSTANTS
  Alphabet = {120, 46, 64, 32, 34, 92, 13, 9, 40, 60, 62, 44, 233}
  MaxLen = 3
INVARIANT Hdr822RoundTrip
INVARIANT Hdr822IsRfc
INVARIANT Smtp821RoundTrip
INVARIANT Smtp821IsRfc
INVARIANT RfcReadersAgree
