SPECIFICATION Spec
CONSTANT MaxLen = 5
INVARIANT OneParagraphEach
