------------------------------ MODULE Maildir ------------------------------
(***************************************************************************)
(* Program layer (P) of C12, maildir half: qmail-local.c maildir() and     *)
(* maildir_child() over a small file-system model, composed with an        *)
(* environment that kills the writer at any call, crashes the machine in   *)
(* any state (un-synced data optionally lost) and lets one call fail.      *)
(*                                                                         *)
(* The ORDER of the file-system calls of one delivery is data: a behaviour *)
(* first picks prog from the constant Progs.  DocProg is the order of      *)
(* maildir(5) / maildir_child(); the check also lifts the order the        *)
(* current build really performs from a shim trace of clean runs           *)
(* (LiftedProgs) so that TLC explores every crash point and loss choice of *)
(* the code's real step order; MutantProgs are wrong orders that must be   *)
(* rejected (sanity of the monitors).                                      *)
(*                                                                         *)
(* File system: directories are name -> inode maps updated synchronously;  *)
(* a file is [data, dur, cl] (MailStore); Crash keeps of every file a      *)
(* prefix between Floor and the full data.  Inode of the file created by   *)
(* deliverer p is p.                                                       *)
(***************************************************************************)
EXTENDS MailStore, TLC, Json, IOUtils
CONSTANTS Procs,       \* concurrent / successive deliveries into one maildir
          Names,       \* candidate names time.pid.host; deliveries may collide (pid reuse)
          Msgs,        \* messages
          Progs,       \* set of call orders
          MaxFaults,   \* failing calls per behaviour
          FullLoss     \* TRUE: a crash may cut un-synced data at every byte; FALSE: all or nothing

VARIABLES prog, tmp, new, file, pc, wr, nm, msg, ex, nf, crashed
vars == <<prog, tmp, new, file, pc, wr, nm, msg, ex, nf, crashed>>

DocProg == <<"open", "write", "fsync", "close", "link", "unlink", "exit0">>
DocProgs == {DocProg, <<"open", "write", "write", "fsync", "close", "link", "unlink", "exit0">>}
Mutant1 == {<<"open", "write", "close", "link", "unlink", "exit0">>}                                   \* fsync removed
Mutant2 == {<<"open", "write", "link", "fsync", "close", "unlink", "exit0">>}                          \* link before fsync
Mutant3 == {<<"open", "write", "fsync", "link", "close", "unlink", "exit0">>}                          \* link before close
Mutant4 == {<<"open", "write", "write", "fsync", "write", "close", "link", "unlink", "exit0">>}        \* data after the fsync
Mutant5 == {<<"open", "write", "fsync", "close", "unlink", "exit0">>}                                  \* success without link
Mutant6 == {<<"open", "write", "fsync", "close", "rename", "exit0">>}                                  \* rename instead of link (2 deliverers)
LiftedProgs == LET rs == ndJsonDeserialize(IOEnv.PROGS) IN {rs[i].prog : i \in 1..Len(rs)}
SmallMsgs == {<<>>, <<120>>, <<120, 10>>, <<120, 10, 121>>}
TinyMsgs == {<<>>, <<120>>}

Sender == <<115>>
Rcpt   == <<114>>
Full(p) == RefMdFile(Sender, Rcpt, msg[p])
NoFile == [data |-> <<>>, dur |-> 0, cl |-> FALSE]

RUN  == -1           \* ex: still running
KILL == 9            \* ex: killed by a signal
FAIL == 100          \* pc: "fail:" label - unlink tmp, _exit(1)
DONE == 0

Init == /\ prog \in Progs
        /\ tmp = [n \in Names |-> 0] /\ new = [n \in Names |-> 0]
        /\ file = [p \in Procs |-> NoFile]
        /\ pc = [p \in Procs |-> 1] /\ wr = [p \in Procs |-> 0]
        /\ nm \in [Procs -> Names] /\ msg \in [Procs -> Msgs]
        /\ ex = [p \in Procs |-> RUN] /\ nf = 0 /\ crashed = FALSE

Exit(p, code) == pc' = [pc EXCEPT ![p] = DONE] /\ ex' = [ex EXCEPT ![p] = code]
Goto(p, l)    == pc' = [pc EXCEPT ![p] = l] /\ UNCHANGED ex
Fault         == nf < MaxFaults /\ nf' = nf + 1
WritesLeft(p) == Cardinality({i \in pc[p]..Len(prog) : prog[i] = "write"})

\* open_excl(tmp/name): three attempts on EEXIST (abstracted to one), any other error: _exit(1) without unlink
Open(p) ==
  \/ /\ tmp[nm[p]] = 0 /\ tmp' = [tmp EXCEPT ![nm[p]] = p]
     /\ Goto(p, pc[p] + 1) /\ UNCHANGED <<new, file, wr, nf>>
  \/ /\ tmp[nm[p]] # 0 /\ Exit(p, 1) /\ UNCHANGED <<tmp, new, file, wr, nf>>
  \/ /\ Fault /\ Exit(p, 1) /\ UNCHANGED <<tmp, new, file, wr>>

\* one write() call: the bytes not yet written are spread over the remaining write calls of prog
Write(p) ==
  LET rem == Len(Full(p)) - wr[p]
      cs  == IF WritesLeft(p) <= 1 THEN {rem} ELSE {MinI(1, rem), (rem + 1) \div 2, rem}
  IN \/ \E c \in cs :
          /\ file' = [file EXCEPT ![p].data = @ \o SubSeq(Full(p), wr[p] + 1, wr[p] + c), ![p].cl = FALSE]
          /\ wr' = [wr EXCEPT ![p] = @ + c]
          /\ Goto(p, pc[p] + 1) /\ UNCHANGED <<tmp, new, nf>>
     \/ /\ Fault /\ Goto(p, FAIL) /\ UNCHANGED <<tmp, new, file, wr>>                   \* ENOSPC, EIO, ...
     \/ /\ Fault /\ rem >= 2                                                              \* short write: the caller's loop writes the rest
        /\ file' = [file EXCEPT ![p].data = @ \o SubSeq(Full(p), wr[p] + 1, wr[p] + 1), ![p].cl = FALSE]
        /\ wr' = [wr EXCEPT ![p] = @ + 1]
        /\ UNCHANGED <<tmp, new, pc, ex>>

Fsync(p) ==
  \/ /\ file' = [file EXCEPT ![p].dur = Len(file[p].data)] /\ Goto(p, pc[p] + 1) /\ UNCHANGED <<tmp, new, wr, nf>>
  \/ /\ Fault /\ Goto(p, FAIL) /\ UNCHANGED <<tmp, new, file, wr>>
Close(p) ==
  \/ /\ file' = [file EXCEPT ![p].cl = TRUE] /\ Goto(p, pc[p] + 1) /\ UNCHANGED <<tmp, new, wr, nf>>
  \/ /\ Fault /\ Goto(p, FAIL) /\ UNCHANGED <<tmp, new, file, wr>>
\* link(tmp/name, new/name) fails with EEXIST when the name is taken
Link(p) ==
  \/ /\ new[nm[p]] = 0 /\ tmp[nm[p]] # 0 /\ new' = [new EXCEPT ![nm[p]] = tmp[nm[p]]]
     /\ Goto(p, pc[p] + 1) /\ UNCHANGED <<tmp, file, wr, nf>>
  \/ /\ (new[nm[p]] # 0 \/ tmp[nm[p]] = 0) /\ Goto(p, FAIL) /\ UNCHANGED <<tmp, new, file, wr, nf>>
  \/ /\ Fault /\ Goto(p, FAIL) /\ UNCHANGED <<tmp, new, file, wr>>
\* rename(tmp/name, new/name) - not what maildir(5) prescribes: it replaces an existing entry
Rename(p) ==
  \/ /\ tmp[nm[p]] # 0 /\ new' = [new EXCEPT ![nm[p]] = tmp[nm[p]]] /\ tmp' = [tmp EXCEPT ![nm[p]] = 0]
     /\ Goto(p, pc[p] + 1) /\ UNCHANGED <<file, wr, nf>>
  \/ /\ tmp[nm[p]] = 0 /\ Goto(p, FAIL) /\ UNCHANGED <<tmp, new, file, wr, nf>>
  \/ /\ Fault /\ Goto(p, FAIL) /\ UNCHANGED <<tmp, new, file, wr>>
Unlink(p) ==     \* result ignored
  /\ tmp' = [tmp EXCEPT ![nm[p]] = 0] /\ Goto(p, pc[p] + 1) /\ UNCHANGED <<new, file, wr, nf>>
FailPath(p) ==   \* fail: tryunlinktmp(); _exit(1)
  /\ pc[p] = FAIL /\ tmp' = [tmp EXCEPT ![nm[p]] = 0] /\ Exit(p, 1) /\ UNCHANGED <<new, file, wr, nf>>

Step(p) ==
  /\ ~crashed /\ pc[p] \in 1..Len(prog)
  /\ UNCHANGED <<prog, nm, msg, crashed>>
  /\ LET op == prog[pc[p]]
     IN CASE op = "open"   -> Open(p)
          [] op = "write"  -> Write(p)
          [] op = "fsync"  -> Fsync(p)
          [] op = "close"  -> Close(p)
          [] op = "link"   -> Link(p)
          [] op = "rename" -> Rename(p)
          [] op = "unlink" -> Unlink(p)
          [] op = "exit0"  -> Exit(p, 0) /\ UNCHANGED <<tmp, new, file, wr, nf>>
          [] OTHER         -> Goto(p, pc[p] + 1) /\ UNCHANGED <<tmp, new, file, wr, nf>>
Fail(p) == ~crashed /\ FailPath(p) /\ UNCHANGED <<prog, nm, msg, crashed>>
Kill(p) == /\ ~crashed /\ pc[p] # DONE /\ Exit(p, KILL)
           /\ UNCHANGED <<prog, tmp, new, file, wr, nm, msg, nf, crashed>>
\* machine crash: every process is gone; then every file may lose un-synced data (Lose, one file at a time)
Crash ==
  /\ ~crashed /\ crashed' = TRUE
  /\ pc' = [p \in Procs |-> DONE]
  /\ ex' = [p \in Procs |-> IF ex[p] = RUN THEN KILL ELSE ex[p]]
  /\ UNCHANGED <<prog, tmp, new, file, wr, nm, msg, nf>>
Lose(p) ==
  /\ crashed /\ Floor(file[p]) < Len(file[p].data)
  /\ \E k \in (IF FullLoss THEN Floor(file[p])..(Len(file[p].data) - 1) ELSE {Floor(file[p])}) :
       file' = [file EXCEPT ![p].data = SubSeq(@, 1, k)]
  /\ UNCHANGED <<prog, tmp, new, pc, wr, nm, msg, ex, nf, crashed>>

Next == Crash \/ \E p \in Procs : Step(p) \/ Fail(p) \/ Kill(p) \/ Lose(p)
Spec == Init /\ [][Next]_vars

\* what the parent reports (maildir(): 0 only for a child that exited 0, 111 for everything else)
Rc(p) == IF ex[p] = 0 THEN 0 ELSE 111
Linked(p) == \E n \in Names : new[n] = p

(***************************************************************************)
(* Monitors                                                                *)
(***************************************************************************)
\* whatever is visible in new/ is - now and after any crash (the Crash action) - exactly the message
NewIsComplete ==
  \A n \in Names : new[n] # 0 =>
     IF crashed THEN MdFileVerdict(file[new[n]].data, Sender, Rcpt, msg[new[n]]) = ""
     ELSE NewEntryVerdict(file[new[n]], Sender, Rcpt, msg[new[n]]) = ""
\* success is reported only for a delivered message; a delivery that linked and was not killed reports success
SuccessIffNew ==
  \A p \in Procs : /\ (ex[p] # RUN /\ Rc(p) = 0) => Linked(p)
                   /\ (Linked(p) /\ ex[p] \notin {RUN, KILL}) => Rc(p) = 0
\* every delivery has its own entry; an entry is never replaced (NewStable) and nobody else's file is linked
UniqueName == \A p \in Procs : Cardinality({n \in Names : new[n] = p}) <= 1
NewStable == [][\A n \in Names : new[n] # 0 => new'[n] = new[n]]_vars
\* sanity (not a monitor): some behaviour delivers
Delivers == \A p \in Procs : ex[p] # 0
=============================================================================
