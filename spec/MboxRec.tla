------------------------------ MODULE MboxRec ------------------------------
(***************************************************************************)
(* Record validator (T) for C12, mbox half.  One record = one run (t =     *)
(* "s") or one controlled interleaving of 2-3 runs (t = "c") of the real   *)
(* qmail-local with an mbox default delivery.                              *)
(*                                                                         *)
(*  "s": sender, rcpt, msg; before / after: bytes of the mbox file; rc;    *)
(*       inj: what the shim made fail - "none", "short" (a write() wrote   *)
(*       fewer bytes than asked), "close", "wfail" (a write() returned     *)
(*       -1), "fsync".                                                     *)
(*  "c": before / after; dels = [sender, rcpt, msg, rc, inj] per process;  *)
(*       ev = the calls that changed the file in the global order in which *)
(*       the controller let them happen, [p, c]; rb = for every process    *)
(*       with a failed write the file bytes when it got the lock and when  *)
(*       it exited.                                                        *)
(*                                                                         *)
(* A failed fsync() or close() and a short write are not failed writes in  *)
(* the words of the statement: both "rolled back and 111" and "complete    *)
(* and 0" are accepted for them.                                           *)
(***************************************************************************)
EXTENDS MailStore, Json, IOUtils, TLC
Recs  == ndJsonDeserialize(IOEnv.RECORDS)
Chunk == atoi(IOEnv.CHUNK)
N     == Len(Recs)
NCh   == (N + Chunk - 1) \div Chunk
G     == 16
VARIABLES g, k
Init == g = 0 /\ k = 0
Next == \/ g = 0 /\ g' \in 1..G /\ k' = 0
        \/ g > 0 /\ k = 0 /\ k' \in {c \in 1..NCh : c % G = g - 1} /\ g' = g
Spec == Init /\ [][Next]_<<g, k>>

Restored(r) == IF r.after # r.before THEN "NotRestoredToPreviousLength" ELSE ""
SingleVerdict(r) ==
  IF r.inj = "wfail" THEN (IF r.rc # 111 THEN "WriteFailedButNoTemporaryFailureReported" ELSE Restored(r))
  ELSE IF r.inj = "none" THEN (IF r.rc # 0 THEN "UndisturbedDeliveryFailed" ELSE AppendVerdict(r.before, r.after, r.sender, r.rcpt, r.msg))
  ELSE IF r.rc = 111 THEN Restored(r)            \* short write, failed fsync / close: complete or absent
  ELSE IF r.rc = 0 THEN AppendVerdict(r.before, r.after, r.sender, r.rcpt, r.msg)
  ELSE "UnexpectedExitCode"

ConcVerdict(r) ==
  LET n    == Len(r.dels)
      dels == [i \in 1..n |-> [sender |-> r.dels[i].sender, rcpt |-> r.dels[i].rcpt, msg |-> r.dels[i].msg, ok |-> r.dels[i].rc = 0]]
  IN IF \E i \in 1..n : r.dels[i].inj = "wfail" /\ r.dels[i].rc # 111 THEN "WriteFailedButNoTemporaryFailureReported"
     ELSE IF \E i \in 1..n : r.dels[i].inj = "none" /\ r.dels[i].rc # 0 THEN "UndisturbedDeliveryFailed"
     ELSE IF \E i \in 1..n : r.dels[i].rc \notin {0, 111} THEN "UnexpectedExitCode"
     ELSE IF ~NoInterleaveEv(r.ev) THEN "CallsOfDifferentDeliveriesInterleave"
     ELSE IF \E i \in 1..Len(r.rb) : r.rb[i].atend # r.rb[i].atlock THEN "NotRestoredToPreviousLength"
     ELSE ConcurrentVerdict(r.before, r.after, dels)

Verdict(r) == IF r.t = "c" THEN ConcVerdict(r) ELSE SingleVerdict(r)

CheckChunk(c) ==
  LET lo == (c - 1) * Chunk + 1
      hi == IF c * Chunk < N THEN c * Chunk ELSE N
  IN /\ \A i \in lo..hi : LET v == Verdict(Recs[i]) IN v = "" \/ PrintT(<<"BADREC", i, v>>)
     /\ PrintT(<<"CHECKED", lo, hi>>)
Inv == k = 0 \/ CheckChunk(k)
=============================================================================
