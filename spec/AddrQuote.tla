------------------------------ MODULE AddrQuote ------------------------------
(***************************************************************************)
(* Program layer (P) for the quoting half of C17: the transcriptions of    *)
(* quote.c / addrmangle (writers) and token822_parse+unquote / commands()+ *)
(* addrparse (readers) from Addr.tla, composed with an environment that    *)
(* builds every local part over Alphabet up to MaxLen one byte at a time.  *)
(* The invariants are evaluated in every state, i.e. for every local part: *)
(*   Hdr822RoundTrip   reader(writer(a)) = a for the header path           *)
(*   Hdr822IsRfc       the header form is an RFC 822 local-part denoting a *)
(*   Smtp821RoundTrip  reader(writer(a)) = a for MAIL FROM / RCPT TO       *)
(*   Smtp821IsRfc      the SMTP form is an RFC 821 local-part denoting a   *)
(*   RfcReadersAgree   the transcribed readers and the RFC readings agree  *)
(*                     on every encoding the RFC grammar admits (checked   *)
(*                     on the strings over the alphabet themselves, read   *)
(*                     as encodings)                                       *)
(* Host: a fixed host name with a dot (no rewriting applies).              *)
(***************************************************************************)
EXTENDS Addr, TLC
CONSTANTS Alphabet, MaxLen
VARIABLES lp
Host == <<104, 46, 116>>                                   \* "h.t"
Init == lp = <<>>
Next == \E c \in Alphabet : Len(lp) < MaxLen /\ lp' = Append(lp, c)
Spec == Init /\ [][Next]_lp

A == lp \o <<AT>> \o Host
HdrForm  == Quote2(A)
HdrBack  == LET l == Lex822(HdrForm) IN IF l.ok THEN Unquote822(l.toks) ELSE Bad
SmtpBack(verb) == LET r == AddrParse(CmdArg(SmtpLine(verb, A))) IN IF r.ok THEN r.addr ELSE Bad
HostSuffix == <<AT>> \o Host
StripHost(q) == IF Len(q) >= Len(HostSuffix) /\ SubSeq(q, Len(q) - Len(HostSuffix) + 1, Len(q)) = HostSuffix
                  THEN SubSeq(q, 1, Len(q) - Len(HostSuffix)) ELSE Bad

Hdr822RoundTrip  == HdrBack = A
Hdr822IsRfc      == Dec822(StripHost(HdrForm)) = lp
Smtp821RoundTrip == SmtpBack(<<82, 67, 80, 84, 32, 84, 79, 58>>) = A /\ SmtpBack(<<77, 65, 73, 76, 32, 70, 82, 79, 77, 58>>) = A
Smtp821IsRfc     == lp # <<>> => Dec821(StripHost(Mangle(A))) = lp

\* the string lp read as an *encoding*: where RFC 822 gives it a value, token822 gives the same;
\* where RFC 821 gives it a value, addrparse gives the same
RfcReadersAgree ==
  /\ Dec822(lp) # Bad => (LET l == Lex822(lp \o HostSuffix) IN l.ok /\ Unquote822(l.toks) = Dec822(lp) \o HostSuffix)
  /\ Dec821(lp) # Bad => (LET r == AddrParse(<<84, 79, 58, LT>> \o lp \o HostSuffix \o <<GT>>)
                          IN r.ok /\ r.addr = Dec821(lp) \o HostSuffix)

\* sanity (non-vacuity): both branches of the writers are exercised - see the .cfg of the check
SomeQuoted   == QuoteNeed(lp)
SomeUnquoted == ~QuoteNeed(lp)
=============================================================================
