------------------------------ MODULE QueueState ------------------------------
(***************************************************************************)
(* C02, environment layer (E): the documented states of a queue entry      *)
(* (INTERNALS.md section 2) and the documented order in which the files of *)
(* a message disappear, as a monitor over directory events only.           *)
(*                                                                         *)
(* ex = set of <<dir, n>> that exist (dir in mess intd todo info local     *)
(* remote bounce; pid/ files have no number and are not tracked here).     *)
(* ino[<<dir, n>>] = inode of that name (renumbered by first appearance).  *)
(* syn = set of <<dir, n>> whose current content has been fsynced.         *)
(* born[n] = time mess/n was last written (what the 36 hour rule looks at).*)
(*                                                                         *)
(*   S1 nothing   S2 mess   S3 mess intd   S4 mess todo ?intd ?info ?local *)
(*   ?remote (no bounce)   S5 mess info ?local ?remote ?bounce (no intd,   *)
(*   no todo)                                                              *)
(***************************************************************************)
EXTENDS Integers, Sequences, FiniteSets, TLC

Has(ex, d, n) == <<d, n>> \in ex
Class(ex, n) ==
  LET h(d) == Has(ex, d, n) IN
  IF ~h("mess") THEN (IF \E d \in {"intd", "todo", "info", "local", "remote", "bounce"} : h(d) THEN "bad" ELSE "S1")
  ELSE IF h("todo") THEN (IF h("bounce") THEN "bad" ELSE "S4")
  ELSE IF h("info") THEN (IF h("intd") THEN "bad" ELSE "S5")
  ELSE IF h("local") \/ h("remote") \/ h("bounce") THEN "bad"
  ELSE IF h("intd") THEN "S3" ELSE "S2"
Numbers(ex) == {p[2] : p \in ex}
StateTableOk(ex) == \A n \in Numbers(ex) : Class(ex, n) # "bad"

OSSIFIED == 129600

\* verdict of one directory event given the state BEFORE it; who in {"queue", "send", "clean", "other"}
\* e = [op, d, n, d2, n2, ino, who, t]
EventVerdict(ex, ino, syn, born, e) ==
  IF e.op = "unlink" THEN
       LET n == e.n  h(d) == Has(ex, d, n) IN
       CASE e.d = "info" /\ e.who = "send" ->
                 \* the daemon removes info/n either before rebuilding it (todo/n present) or when the message is finished
                 IF h("todo") THEN ""
                 ELSE IF h("local") \/ h("remote") THEN "InfoRemovedBeforeRecipientLists"
                 ELSE IF h("bounce") THEN "InfoRemovedBeforeBounceRecord"
                 ELSE ""
         [] e.d = "mess" /\ e.who \in {"send", "clean"} ->
                 IF h("info") \/ h("todo") THEN "MessageBodyRemovedWhileInfoOrTodoPresent"
                 ELSE IF h("intd") THEN "MessageBodyRemovedBeforeEnvelopeUnderConstruction"
                 ELSE IF h("local") \/ h("remote") \/ h("bounce") THEN "MessageBodyRemovedBeforeRecipientLists"
                 ELSE ""
         [] e.d \in {"intd", "todo"} /\ e.who = "clean" ->
                 \* the cleaner removes the queued envelope only after the preprocessed files exist and are on disk,
                 \* or as part of removing a message that has neither info nor todo (finished, or a stale leftover)
                 IF e.d = "intd" /\ ~h("todo") /\ ~h("info") THEN ""
                 ELSE IF ~h("info") THEN "EnvelopeRemovedBeforeInfoWritten"
                 ELSE IF <<"info", n>> \notin syn \/ (h("local") /\ <<"local", n>> \notin syn) \/ (h("remote") /\ <<"remote", n>> \notin syn)
                      THEN "EnvelopeRemovedBeforePreprocessedFilesSynced"
                 ELSE IF e.d = "todo" /\ h("intd") THEN "TodoRemovedBeforeIntd"
                 ELSE ""
         [] OTHER -> ""
  ELSE IF e.op \in {"link", "rename"} /\ e.d2 = "mess" THEN
       (IF e.n2 # e.ino THEN "MessageNameIsNotItsInode" ELSE IF Has(ex, "mess", e.n2) THEN "MessageNumberSharedByTwoMessages" ELSE "")
  ELSE IF e.op = "create" /\ e.d = "mess" THEN (IF e.n # e.ino THEN "MessageNameIsNotItsInode" ELSE "")
  ELSE ""

\* stale leftovers (a message the daemon never saw complete: S2 / S3) may be collected only after 36 hours
GcVerdict(ex, born, e, prepped) ==
  IF e.op = "unlink" /\ e.d = "mess" /\ e.who = "clean" /\ e.n \notin prepped /\ e.n \in DOMAIN born /\ e.t <= born[e.n] + OSSIFIED
    THEN "LeftoverCollectedBefore36Hours" ELSE ""
=============================================================================
