------------------------------- MODULE Users -------------------------------
(***************************************************************************)
(* Environment layer (E) for property C11: which user controls a local     *)
(* address, and what may be observed when the delivery agent is started.   *)
(* Written from the documents only:                                        *)
(*   qmail-users(5)  the assignment table (simple and wildcard entries)    *)
(*   qmail-newu(8)   a table with a problem leaves users/cdb alone         *)
(*   qmail-getpw(8)  the password-file rules and the alias user            *)
(*   qmail-lspawn(8) table first, else qmail-getpw; runs qmail-local under *)
(*                   the user's uid and gid, no supplementary groups; an   *)
(*                   empty mailbox name is a trash address                 *)
(*   qmail-local(8)  argument order user homedir local dash ext domain     *)
(*                   sender defaultdelivery                                *)
(* Text is a tuple of byte values, so the same operators judge the model   *)
(* (alphabet a, A, b, '-') and records taken from the real programs.       *)
(***************************************************************************)
EXTENDS Integers, Sequences, FiniteSets

MinOf(S) == CHOOSE x \in S : \A y \in S : x <= y
MaxOf(S) == CHOOSE x \in S : \A y \in S : x >= y
Lower(c) == IF c >= 65 /\ c <= 90 THEN c + 32 ELSE c
LowerS(s) == [i \in 1..Len(s) |-> Lower(s[i])]
IsPrefix(p, s) == Len(p) <= Len(s) /\ \A i \in 1..Len(p) : p[i] = s[i]
Drop(s, n) == SubSeq(s, n + 1, Len(s))
Range(s) == {s[i] : i \in 1..Len(s)}
HYPHEN == <<45>>

\* report classes of the spawn protocol (first byte of the report text)
RK == 75   \* 'K' delivered
RZ == 90   \* 'Z' deferred
RD == 68   \* 'D' failed permanently

NoId == [user |-> <<>>, uid |-> -1, gid |-> -1, home |-> <<>>, dash |-> <<>>, ext |-> <<>>]

(***************************************************************************)
(* qmail-users(5).  An entry is [w, loc, user, uid, gid, home, dash, ext]:  *)
(* w = 0 the simple assignment  =loc:user:uid:gid:home:dash:ext:           *)
(* w = 1 the wildcard           +loc:user:uid:gid:home:dash:pre:           *)
(* "local is interpreted without regard to case"; "if there are several    *)
(* assignments for the same local address, the first one"; a wildcard      *)
(* "applies to any address beginning with loc, including loc itself" and   *)
(* "means the same as =locext:...:preext: for every string ext"; "a more   *)
(* specific wildcard overrides a less specific one, and a simple           *)
(* assignment overrides any wildcard".  The ext handed on is cut from the  *)
(* address as given (case kept): only the comparison ignores case.         *)
(***************************************************************************)
Ident(e, rest) == [user |-> e.user, uid |-> e.uid, gid |-> e.gid, home |-> e.home, dash |-> e.dash, ext |-> e.ext \o rest]

Assign(table, local) ==
  LET ll == LowerS(local)
      ex == {i \in 1..Len(table) : table[i].w = 0 /\ LowerS(table[i].loc) = ll}
      wi == {i \in 1..Len(table) : table[i].w = 1 /\ IsPrefix(LowerS(table[i].loc), ll)}
  IN IF ex # {} THEN [found |-> TRUE, id |-> Ident(table[MinOf(ex)], <<>>)]
     ELSE IF wi # {}
       THEN LET m == MaxOf({Len(table[i].loc) : i \in wi})
                i == MinOf({j \in wi : Len(table[j].loc) = m})
            IN [found |-> TRUE, id |-> Ident(table[i], Drop(local, m))]
     ELSE [found |-> FALSE, id |-> NoId]

(***************************************************************************)
(* qmail-getpw(8).  db is a sequence of accounts [name, uid, gid, home,    *)
(* own]: own = uid of the owner of the home directory, -1 if it does not   *)
(* exist.  An account is a user if (1) uid # 0, (2) its home exists,       *)
(* (3) it owns its home; names with upper-case letters are ignored (the    *)
(* name looked up is the lower-cased front of the address) and names are   *)
(* shorter than ulen (32).  The user controls  user  (dash, ext empty) and *)
(* user BREAK anything (dash hyphen, ext anything); the statement of C11   *)
(* fixes the longest match.  Everything else goes to the alias user with   *)
(* dash hyphen and ext = local.                                            *)
(* errs: names whose lookup fails temporarily.  When such a name would     *)
(* take precedence over the answer (it is a longer candidate than the best *)
(* user, or the alias user itself) the delivery must be deferred; when it  *)
(* is a shorter candidate the documents leave open whether it is looked at *)
(* at all: the answer or a deferral are both accepted (mayDefer).          *)
(***************************************************************************)
Acct(db, name) == LET S == {i \in 1..Len(db) : db[i].name = name} IN IF S = {} THEN 0 ELSE MinOf(S)
IsUser(a) == a.uid # 0 /\ a.own = a.uid
Cuts(local, brk, ulen) == {n \in 0..Len(local) : n < ulen /\ (IF n = Len(local) THEN TRUE ELSE local[n + 1] = brk)}
UserCuts(db, local, brk, ulen) ==
  {n \in Cuts(local, brk, ulen) : LET k == Acct(db, LowerS(SubSeq(local, 1, n))) IN k # 0 /\ IsUser(db[k])}
ErrCuts(errs, local, brk, ulen) == {n \in Cuts(local, brk, ulen) : LowerS(SubSeq(local, 1, n)) \in errs}

GetPw(db, errs, alias, local, brk, ulen) ==
  LET uc   == UserCuts(db, local, brk, ulen)
      ec   == ErrCuts(errs, local, brk, ulen)
      best == IF uc = {} THEN -1 ELSE MaxOf(uc)
      ak   == Acct(db, alias)
  IN IF \E n \in ec : n > best THEN [kind |-> "defer", id |-> NoId, mayDefer |-> TRUE]
     ELSE IF best >= 0
       THEN LET u == db[Acct(db, LowerS(SubSeq(local, 1, best)))]
            IN [kind |-> "id", mayDefer |-> ec # {},
                id |-> [user |-> u.name, uid |-> u.uid, gid |-> u.gid, home |-> u.home,
                        dash |-> IF best = Len(local) THEN <<>> ELSE HYPHEN,
                        ext |-> IF best = Len(local) THEN <<>> ELSE Drop(local, best + 1)]]
     ELSE IF alias \in errs \/ ak = 0 THEN [kind |-> "defer", id |-> NoId, mayDefer |-> TRUE]
     ELSE [kind |-> "id", mayDefer |-> ec # {},
           id |-> [user |-> db[ak].name, uid |-> db[ak].uid, gid |-> db[ak].gid, home |-> db[ak].home,
                   dash |-> HYPHEN, ext |-> local]]

(***************************************************************************)
(* A configuration c = [tab, db, errs, alias, brk, ulen, mal, rc, chg]:    *)
(* tab is the table in force (the last one qmail-newu accepted); mal = 1   *)
(* if the table offered to qmail-newu last had a problem, rc its exit      *)
(* status, chg = 1 if users/cdb changed during that run.                   *)
(***************************************************************************)
Resolve(c, local) ==
  LET a == Assign(c.tab, local)
  IN IF a.found THEN [kind |-> "id", id |-> a.id, mayDefer |-> FALSE, src |-> "Assign"]
     ELSE LET g == GetPw(c.db, c.errs, c.alias, local, c.brk, c.ulen)
          IN [kind |-> g.kind, id |-> g.id, mayDefer |-> g.mayDefer, src |-> "GetPw"]

\* qmail-newu(8): "If there is a problem with users/assign, qmail-newu complains and leaves users/cdb alone."
CompileVerdict(c) ==
  IF c.mal = 1 /\ c.chg = 1 THEN "MalformedTableInstalled"
  ELSE IF c.mal = 1 /\ c.rc = 0 THEN "MalformedTableAccepted"
  ELSE IF c.mal = 0 /\ c.rc # 0 THEN "WellFormedTableRejected"
  ELSE ""

(***************************************************************************)
(* Observation of one delivery, r:                                         *)
(*   local dom sender dflt  what qmail-lspawn was asked (recipient =       *)
(*                          local@dom) and its defaultdelivery argument    *)
(*   rep     class of the report (RK, RZ, RD; 0 = none)                    *)
(*   nex     number of times the delivery agent was started for it         *)
(*   argv    the agent's arguments after the program name                  *)
(*   ids     <<ruid, euid, suid, rgid, egid, sgid>> of the agent, grp its   *)
(*           supplementary groups                                          *)
(*   tr, ev  tr = 1: ev is the sequence of identity calls [c, a, ok] the   *)
(*           starting process made before the exec (c = 1 setgroups,       *)
(*           2 setgid, 3 setuid; a = arguments; ok = 1 succeeded)          *)
(*   dmg     0 intact; 1 the database or a lookup was hit by a detectable  *)
(*           error (truncated file, pointer outside the file, read error,  *)
(*           stat error); 2 arbitrary damage of a pointer word, which a    *)
(*           format without check sums cannot always notice                *)
(***************************************************************************)
RootCred == [uid |-> 0, gid |-> 0, groups |-> {0}]

\* effect of a sequence of identity calls; a process that is no longer root cannot change identity
RECURSIVE Replay(_, _)
Replay(ev, cr) ==
  IF ev = <<>> THEN cr
  ELSE LET e == Head(ev)
           nx == IF e.ok = 0 \/ cr.uid # 0 THEN cr
                 ELSE IF e.c = 1 THEN [cr EXCEPT !.groups = Range(e.a)]
                 ELSE IF e.c = 2 THEN [cr EXCEPT !.gid = e.a[1]]
                 ELSE [cr EXCEPT !.uid = e.a[1]]
       IN Replay(Tail(ev), nx)

\* the agent starts only after supplementary groups, gid and uid have all been switched
ExecOnlyAfterDrop(ev, id) == Replay(ev, RootCred) = [uid |-> id.uid, gid |-> id.gid, groups |-> {id.gid}]

NeverRoot(r) == r.nex > 0 => (r.ids[1] # 0 /\ r.ids[2] # 0 /\ r.ids[3] # 0)

\* "--" (end of options) may precede the arguments
ObsArgs(argv) == IF Len(argv) > 0 /\ argv[1] = <<45, 45>> THEN Tail(argv) ELSE argv
WantArgs(id, r) == <<id.user, id.home, r.local, id.dash, id.ext, r.dom, r.sender, r.dflt>>

\* the agent was started once, as exactly id
IdentityIsModel(id, r) ==
  IF r.nex # 1 THEN "NotStartedOnce"
  ELSE IF ObsArgs(r.argv) # WantArgs(id, r) THEN "WrongArguments"
  ELSE IF r.ids # <<id.uid, id.uid, id.uid, id.gid, id.gid, id.gid>> THEN "WrongUidGid"
  ELSE IF ~(Range(r.grp) \subseteq {id.gid}) THEN "WrongGroups"
  ELSE IF r.tr = 1 /\ ~ExecOnlyAfterDrop(r.ev, id) THEN "ExecBeforeDrop"
  ELSE ""

\* what an intact configuration demands
IntactVerdict(c, r) ==
  LET w == Resolve(c, r.local)
  IN IF w.kind = "defer"                              \* ErrorsDefer
       THEN (IF r.nex > 0 THEN "ErrorMisdirected" ELSE IF r.rep # RZ THEN "ErrorNotDeferred" ELSE "")
     ELSE IF w.id.uid = 0                             \* never root: the only compliant outcome is no start at all
       THEN (IF r.nex > 0 THEN "RootEntryStarted" ELSE "")
     ELSE IF r.nex = 0 /\ w.mayDefer /\ r.rep = RZ THEN ""
     ELSE LET v == IdentityIsModel(w.id, r) IN IF v = "" THEN "" ELSE w.src \o ":" \o v

Verdict(c, r) ==
  IF ~NeverRoot(r) THEN "RanAsRoot"
  ELSE IF r.nex > 1 THEN "StartedTwice"
  ELSE IF CompileVerdict(c) # "" THEN CompileVerdict(c)
  ELSE IF r.dmg = 2 THEN (IF r.rep = RD THEN "DamageBounced" ELSE "")
  ELSE IF r.dmg = 1 /\ r.nex = 0 /\ r.rep = RZ THEN ""          \* deferred: always right on damage
  ELSE IF r.dmg = 1 /\ r.nex = 0 /\ r.rep = RD THEN "DamageBounced"
  ELSE IF r.local = <<>> /\ r.nex = 0 /\ r.rep = RK THEN ""     \* trash address (qmail-lspawn(8))
  ELSE LET v == IntactVerdict(c, r)
       IN IF v = "" \/ r.dmg = 0 THEN v ELSE "Damage:" \o v       \* on damage: the intact answer or a deferral
=============================================================================
