------------------------------- MODULE Rewrite -------------------------------
(***************************************************************************)
(* Environment layer (E) for property C10: how qmail-send classifies and   *)
(* rewrites envelope recipients, written from the DOCUMENTS only           *)
(* (qmail-send(8) CONTROL FILES, addresses(5), qmail-control(5),           *)
(* dot-qmail(5) for VERP), over observable things only: the contents of    *)
(* the control files when they were (re)read, the envelope handed to       *)
(* qmail-queue, the recipient lists in local/ and remote/, and the sender  *)
(* and recipient fields of the delivery commands.                          *)
(*                                                                         *)
(* Text is a tuple of character codes, so the same operators judge the     *)
(* model (one-letter labels) and records taken from the real programs.     *)
(*                                                                         *)
(* A configuration is a record                                             *)
(*   me              contents of control/me                                *)
(*   lo, loabs       lines of control/locals; loabs = 1: file absent       *)
(*   vd              lines of control/virtualdomains as [k |-> key, t |->  *)
(*                   prepend] (key = text before the first colon)          *)
(*   ph              lines of control/percenthack                          *)
(*   env, envabs     control/envnoathost; envabs = 1: file absent          *)
(* Configurations in which a key occurs twice (ignoring case) in one file  *)
(* are outside the domain of the property (DupKeys).                       *)
(***************************************************************************)
EXTENDS Integers, Sequences, FiniteSets, TLC

AT   == 64
PCT  == 37
DOT  == 46
DASH == 45
EQ   == 61
VerpTail == <<45, 64, 91, 93>>          \* -@[]

Lower(c) == IF c >= 65 /\ c <= 90 THEN c + 32 ELSE c
Fold(s)  == [n \in 1..Len(s) |-> Lower(s[n])]            \* "all matching ignores case"
Pos(s, c) == {n \in 1..Len(s) : s[n] = c}
Has(s, c) == Pos(s, c) # {}
MaxOf(S) == CHOOSE x \in S : \A y \in S : y <= x
LastN(s, n) == SubSeq(s, Len(s) - n + 1, Len(s))
IsSuffix(x, s) == Len(x) <= Len(s) /\ LastN(s, Len(x)) = x

\* addresses(5): the domain part is everything after the final @, the local part everything before
Loc(a) == SubSeq(a, 1, MaxOf(Pos(a, AT)) - 1)
Dom(a) == SubSeq(a, MaxOf(Pos(a, AT)) + 1, Len(a))

(***************************************************************************)
(* Control files and their defaults (qmail-send(8)): locals defaults to    *)
(* me, envnoathost defaults to me, percenthack and virtualdomains to       *)
(* nothing.                                                                *)
(***************************************************************************)
LocalsOf(c) == IF c.loabs = 1 THEN {Fold(c.me)} ELSE {Fold(c.lo[n]) : n \in 1..Len(c.lo)}
PctOf(c)    == {Fold(c.ph[n]) : n \in 1..Len(c.ph)}
EnvOf(c)    == IF c.envabs = 1 THEN c.me ELSE c.env

DupIn(keys) == Cardinality({Fold(keys[n]) : n \in 1..Len(keys)}) # Len(keys)
DupKeys(c)  == DupIn(c.lo) \/ DupIn(c.ph) \/ DupIn([n \in 1..Len(c.vd) |-> c.vd[n].k])

(***************************************************************************)
(* The rules a configuration stands for: defaults applied, everything that *)
(* is matched folded to lower case (computed once per message).            *)
(***************************************************************************)
Rules(c) == [lo |-> LocalsOf(c), ph |-> PctOf(c), env |-> EnvOf(c),
             vk |-> {Fold(c.vd[e].k) : e \in 1..Len(c.vd)},                                   \* the keys
             vd |-> [e \in 1..Len(c.vd) |-> [k |-> Fold(c.vd[e].k), t |-> c.vd[e].t]]]

(***************************************************************************)
(* "If qmail-send sees an envelope recipient address without an @ sign, it *)
(* appends @envnoathost."                                                  *)
(***************************************************************************)
DefaultHost(R, r) == IF Has(r, AT) THEN r ELSE r \o <<AT>> \o R.env

(***************************************************************************)
(* "If domain is listed in percenthack, any address of the form            *)
(* user%fqdn@domain is rewritten as user@fqdn.  user may contain %, so the *)
(* percent hack may be applied repeatedly.  qmail-send handles percenthack *)
(* before locals."  user may contain %, fqdn not: the split is at the last *)
(* % of the local part.                                                    *)
(*                                                                         *)
(* Open reading: when the text between that % and the final @ itself       *)
(* contains an @ it is not a domain name, and the documents do not say     *)
(* whether the address is "of the form user%fqdn@domain" nor, if it is     *)
(* rewritten, what the domain of the result is for the next round.  Every  *)
(* reading is accepted for such addresses: left alone, rewritten once, or  *)
(* rewritten and continued with the domain part per addresses(5).  For all *)
(* other addresses the result is unique.                                   *)
(***************************************************************************)
RECURSIVE PctResults(_, _)
PctResults(R, a) ==
  LET l == Loc(a)
  IN IF Fold(Dom(a)) \notin R.ph \/ ~Has(l, PCT) THEN {a}
     ELSE LET p    == MaxOf(Pos(l, PCT))
              user == SubSeq(l, 1, p - 1)
              fqdn == SubSeq(l, p + 1, Len(l))
              b    == user \o <<AT>> \o fqdn
          IN IF Has(fqdn, AT) THEN {a, b} \cup PctResults(R, b) ELSE PctResults(R, b)

(***************************************************************************)
(* virtualdomains.  The keys that apply to an address: the whole address   *)
(* (virtual user), the domain part (virtual domain), every tail of the     *)
(* domain part that starts with a dot (wildcards), the empty key           *)
(* (catch-all).  The most specific key that is listed decides; "full       *)
(* address, then domain, then successively shorter wildcards, then         *)
(* catch-all" is, for keys that are all tails of one address, simply "the  *)
(* longest".  An entry with an empty prepend is an exception: the address  *)
(* is not virtual.                                                         *)
(***************************************************************************)
DotTails(d) == {LastN(d, m) : m \in {x \in 1..Len(d) : d[Len(d) - x + 1] = DOT}}
ApplicableKeys(a) == {Fold(a), Fold(Dom(a)), <<>>} \cup DotTails(Fold(Dom(a)))
Longest(K) == CHOOSE x \in K : \A y \in K : Len(y) <= Len(x)
TagOf(R, key) == R.vd[CHOOSE e \in 1..Len(R.vd) : R.vd[e].k = key].t

\* ch = 0: local, ch = 1: remote; a = the address as written to local/ or remote/
\* "percenthack before locals", "virtualdomains after locals: if a domain is listed in locals, virtualdomains does not apply"
RouteFinal(R, a) ==
  IF Fold(Dom(a)) \in R.lo THEN [ch |-> 0, a |-> a]
  ELSE LET K == {x \in ApplicableKeys(a) : x \in R.vk}
       IN IF K = {} THEN [ch |-> 1, a |-> a]
          ELSE LET t == TagOf(R, Longest(K))
               IN IF t = <<>> THEN [ch |-> 1, a |-> a] ELSE [ch |-> 0, a |-> t \o <<DASH>> \o a]

\* the set of acceptable outcomes for recipient r (a singleton except for the open reading above)
RouteR(R, r) == {RouteFinal(R, a) : a \in PctResults(R, DefaultHost(R, r))}
Route(c, r)  == RouteR(Rules(c), r)

(***************************************************************************)
(* Monitor for one preprocessed message: rc = the recipients of the        *)
(* envelope in order, lo / re = the addresses in local/ and remote/ in     *)
(* order.  Every recipient appears exactly once, in exactly one list, in   *)
(* envelope order, routed and rewritten as Route says.  Result "" = holds, *)
(* "RecipientCount" = dropped / duplicated / merged, "Route:k" = the k-th  *)
(* recipient is the first that is not where and what Route says.           *)
(***************************************************************************)
RECURSIVE FirstBad(_, _, _, _, _, _, _)
FirstBad(c, rc, lo, re, n, il, ir) ==          \* c: Rules of the configuration
  IF n > Len(rc) THEN 0
  ELSE LET R   == RouteR(c, rc[n])
           okL == il <= Len(lo) /\ [ch |-> 0, a |-> lo[il]] \in R
           okR == ir <= Len(re) /\ [ch |-> 1, a |-> re[ir]] \in R
       IN IF okL /\ okR
            THEN LET x == FirstBad(c, rc, lo, re, n + 1, il + 1, ir)
                 IN IF x = 0 THEN 0 ELSE FirstBad(c, rc, lo, re, n + 1, il, ir + 1)
          ELSE IF okL THEN FirstBad(c, rc, lo, re, n + 1, il + 1, ir)
          ELSE IF okR THEN FirstBad(c, rc, lo, re, n + 1, il, ir + 1)
          ELSE n

\* Same verdict, evaluated without recursion in the common case that every recipient has exactly one
\* acceptable outcome: the two lists are then simply the local and the remote outcomes in envelope order.
\* (T is the tuple of the Route sets; the one-element sets in the two operators below only make TLC
\* evaluate Rules(c) and T once instead of once per use.)
Judge(R, rc, lo, re, T) ==
  IF SelectSeq(T, LAMBDA S : Cardinality(S) # 1) = <<>>
    THEN LET one == [n \in 1..Len(T) |-> CHOOSE x \in T[n] : TRUE]
             L   == SelectSeq(one, LAMBDA x : x.ch = 0)
             M   == SelectSeq(one, LAMBDA x : x.ch = 1)
         IN IF lo = [n \in 1..Len(L) |-> L[n].a] /\ re = [n \in 1..Len(M) |-> M[n].a] THEN 0
            ELSE FirstBad(R, rc, lo, re, 1, 1, 1)
    ELSE FirstBad(R, rc, lo, re, 1, 1, 1)

JudgeR(R, rc, lo, re) ==
  CHOOSE x \in {Judge(R, rc, lo, re, T) : T \in {SelectSeq([n \in 1..Len(rc) |-> RouteR(R, rc[n])], LAMBDA S : TRUE)}} : TRUE

MsgVerdict(c, rc, lo, re) ==
  IF Len(lo) + Len(re) # Len(rc) THEN "RecipientCount"
  ELSE LET b == CHOOSE x \in {JudgeR(R, rc, lo, re) : R \in {Rules(c)}} : TRUE
       IN IF b = 0 THEN "" ELSE "Route:" \o ToString(b)

(***************************************************************************)
(* VERP (addresses(5)): "envelope sender addresses of the form             *)
(* pre@host-@[] ... qmail-send will rewrite pre@host-@[] as                *)
(* prerecip=domain@host for deliveries to recip@domain."  The delivery is  *)
(* the one named by the delivery command, so recip@domain is the recipient *)
(* field of the same command.  Any other sender is passed unchanged.       *)
(***************************************************************************)
IsVerp(s) == Len(s) >= 4 /\ LastN(s, 4) = VerpTail /\ Has(SubSeq(s, 1, Len(s) - 4), AT)
SenderAdd(s, r) ==
  IF IsVerp(s) /\ Has(r, AT)
    THEN LET x == SubSeq(s, 1, Len(s) - 4)
         IN Loc(x) \o Loc(r) \o <<EQ>> \o Dom(r) \o <<AT>> \o Dom(x)
    ELSE s

\* dl = delivery commands seen for the message, each [s |-> sender field, r |-> recipient field];
\* 0 = all as documented, else the index of the first that is not
VerpFirstBad(snd, dl) ==
  LET B == {n \in 1..Len(dl) : dl[n].s # SenderAdd(snd, dl[n].r)}
  IN IF B = {} THEN 0 ELSE CHOOSE n \in B : \A m \in B : n <= m

(***************************************************************************)
(* History: "qmail-send reads its control files only when it starts ...    *)
(* Exception: if qmail-send receives a HUP signal, it will reread locals   *)
(* and virtualdomains."  hist = what happened to the control files before  *)
(* the message was preprocessed: <<[k |-> "start", c |-> files]>> followed *)
(* by [k |-> "edit", c |-> files] (files changed, no signal) and           *)
(* [k |-> "hup", c |-> files at the time of the signal].  The rules in     *)
(* force: everything as of the start, except locals and virtualdomains as  *)
(* of the last start / hup.  (me is not reread either, so an absent locals *)
(* file still means the me of the start.)                                  *)
(***************************************************************************)
Effective(hist) ==
  LET base == hist[1].c
      L    == {n \in 1..Len(hist) : hist[n].k \in {"start", "hup"}}
      last == hist[MaxOf(L)].c
  IN [me |-> base.me, env |-> base.env, envabs |-> base.envabs, ph |-> base.ph,
      lo |-> last.lo, loabs |-> last.loabs, vd |-> last.vd]
=============================================================================
