----------------------------- MODULE CleanModel -----------------------------
(***************************************************************************)
(* The cleaner's request check (Helpers!CleanP) against the C18 monitor    *)
(* for every request of a bounded domain: the environment (the queue       *)
(* manager side of the pipe, possibly hostile) builds a request byte by    *)
(* byte - a five-byte head from Heads or any short string over HeadAlpha,  *)
(* then a tail over TailAlpha - and terminates it with NUL at any point.   *)
(***************************************************************************)
EXTENDS Helpers, TLC
CONSTANTS MaxLen, Split
HeadAlpha == {102, 111, 112, 116, 100, 47, 46, 120}        \* f o p t d / . x
TailAlpha == {48, 49, 57, 47, 46, 120, 128}                 \* 0 1 9 / . x 0x80
Heads == {FOOP, TODO, <<102,111,111,112,46>>, <<116,111,100,111,46>>, <<116,111,100,111,120>>, <<102,111,111,113,47>>,
          <<70,79,79,80,47>>, <<105,110,102,111,47>>, <<109,101,115,115,47>>, <<46,46,47,46,46>>, <<47,47,47,47,47>>,
          <<102,111,111,112,48>>, <<116,111,100,47,49>>}
VARIABLES req, done
vars == <<req, done>>
Init == req = <<>> /\ done = FALSE
AddHead == ~done /\ req = <<>> /\ \E h \in Heads : req' = h /\ UNCHANGED done
AddByte == /\ ~done /\ Len(req) < MaxLen
           /\ \E b \in (IF Len(req) < 5 THEN HeadAlpha ELSE TailAlpha) : req' = Append(req, b)
           /\ (Len(req) < 5 => Len(req) < 3)          \* free heads only for short requests; full heads come from Heads
           /\ UNCHANGED done
Term == ~done /\ req' = Append(req, 0) /\ done' = TRUE
Next == AddHead \/ AddByte \/ Term
Spec == Init /\ [][Next]_vars

Sound == done => LET r == CleanP(req, Split) IN CleanVerdict(req, r.status, r.unl, Split) = ""
\* sanity (non-vacuity): the domain contains served, rejected and sloppy-keyword requests
\* (checked by the harness via -coverage / the three witnesses below being reachable)
WitnessServed   == ~(done /\ WellFormed(req))
WitnessSloppy   == ~(done /\ ~WellFormed(req) /\ CleanP(req, Split).unl # <<>>)
=============================================================================
