SPECIFICATION Spec
INVARIANT Inv
