SPECIFICATION Spec
INVARIANT Inv
