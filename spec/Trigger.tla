------------------------------- MODULE Trigger -------------------------------
(***************************************************************************)
(* C16, wake-up part: the trigger FIFO queue/lock/trigger between          *)
(* qmail-queue (publish todo/n, then pull) and qmail-send (re-arm, then    *)
(* scan), at system-call granularity.                                      *)
(*                                                                         *)
(* E: the FIFO as this kernel implements it (probed): bytes stay in the    *)
(*    pipe while any descriptor is open and are discarded when the last    *)
(*    one closes; a read descriptor is "readable" iff there are bytes or a *)
(*    writer has come and gone since it was opened; a non-blocking open    *)
(*    for writing fails (ENXIO) when nobody has the FIFO open for reading. *)
(*    readdir is modelled with POSIX's weakest guarantee: an entry linked  *)
(*    after opendir may or may not be returned.                            *)
(* P: injector i: Link, OpenW (may fail), Write, CloseW.   daemon: CloseR,  *)
(*    OpenR, OpenDir, Scan (one step per readdir batch), Select (park or   *)
(*    wake).  The periodic rescan is DISABLED (no timer action): the       *)
(*    property is that it is not needed.                                   *)
(* Order is a parameter so that the two classic wrong orders can be shown  *)
(* to lose a wake-up (sanity of the model): "close-open-opendir" is the    *)
(* code's order.                                                           *)
(***************************************************************************)
EXTENDS Integers, FiniteSets, Sequences, TLC
CONSTANTS Inj,          \* set of injectors
          Order         \* "coo" (code) | "oco" opendir before the close/reopen | "cdo" close, opendir, reopen
VARIABLES ipc, dpc, rfd, bytes, wfds, hup, todo, snap, seen, parked
vars == <<ipc, dpc, rfd, bytes, wfds, hup, todo, snap, seen, parked>>

DSeq == CASE Order = "coo" -> <<"close", "open", "opendir", "scan", "select">>
          [] Order = "oco" -> <<"opendir", "close", "open", "scan", "select">>
          [] Order = "cdo" -> <<"close", "opendir", "open", "scan", "select">>
Readable == rfd /\ (bytes > 0 \/ hup)
AnyOpen == rfd \/ wfds # {}

Init == /\ ipc = [i \in Inj |-> "link"] /\ dpc = 1 /\ rfd = TRUE /\ bytes = 0 /\ wfds = {} /\ hup = FALSE
        /\ todo = {} /\ snap = {} /\ seen = {} /\ parked = FALSE

\* ---- injector
Link(i)  == ipc[i] = "link" /\ todo' = todo \cup {i} /\ ipc' = [ipc EXCEPT ![i] = "openw"] /\ UNCHANGED <<dpc, rfd, bytes, wfds, hup, snap, seen, parked>>
OpenW(i) == /\ ipc[i] = "openw"
            /\ IF rfd THEN wfds' = wfds \cup {i} /\ ipc' = [ipc EXCEPT ![i] = "write"]
                      ELSE wfds' = wfds /\ ipc' = [ipc EXCEPT ![i] = "done"]              \* ENXIO: "if it fails, bummer"
            /\ UNCHANGED <<dpc, rfd, bytes, hup, todo, snap, seen, parked>>
Write(i) == ipc[i] = "write" /\ bytes' = bytes + 1 /\ ipc' = [ipc EXCEPT ![i] = "closew"] /\ UNCHANGED <<dpc, rfd, wfds, hup, todo, snap, seen, parked>>
CloseW(i) == /\ ipc[i] = "closew" /\ wfds' = wfds \ {i} /\ ipc' = [ipc EXCEPT ![i] = "done"]
             /\ hup' = (hup \/ (rfd /\ wfds' = {}))                                         \* the last writer went away: reader sees HUP
             /\ bytes' = (IF ~rfd /\ wfds' = {} THEN 0 ELSE bytes)                         \* last descriptor closed: data discarded
             /\ UNCHANGED <<dpc, rfd, todo, snap, seen, parked>>

\* ---- daemon
Step(name) == dpc <= Len(DSeq) /\ DSeq[dpc] = name
Adv == dpc' = dpc + 1
CloseR == /\ Step("close") /\ rfd' = FALSE /\ hup' = FALSE /\ bytes' = (IF wfds = {} THEN 0 ELSE bytes) /\ Adv
          /\ parked' = FALSE /\ UNCHANGED <<ipc, wfds, todo, snap, seen>>
OpenR  == /\ Step("open") /\ rfd' = TRUE /\ hup' = FALSE /\ Adv /\ UNCHANGED <<ipc, bytes, wfds, todo, snap, seen, parked>>
OpenDir == /\ Step("opendir") /\ snap' = todo /\ Adv /\ UNCHANGED <<ipc, rfd, bytes, wfds, hup, todo, seen, parked>>
\* the scan returns every entry present at opendir and any subset of the later ones; entries returned are processed (leave todo/)
Scan == /\ Step("scan") /\ \E extra \in SUBSET (todo \ snap) : seen' = seen \cup snap \cup extra /\ todo' = todo \ (snap \cup extra)
        /\ Adv /\ UNCHANGED <<ipc, rfd, bytes, wfds, hup, snap, parked>>
Select == /\ Step("select")
          /\ IF Readable THEN dpc' = 1 /\ parked' = FALSE ELSE dpc' = dpc /\ parked' = TRUE
          /\ UNCHANGED <<ipc, rfd, bytes, wfds, hup, todo, snap, seen>>
Next == (\E i \in Inj : Link(i) \/ OpenW(i) \/ Write(i) \/ CloseW(i)) \/ CloseR \/ OpenR \/ OpenDir \/ Scan \/ Select
Spec == Init /\ [][Next]_vars /\ WF_vars(Next)

\* no lost wake-up: never parked for good with an entry in todo/ and every injector finished
NoLostWakeup == ~(parked /\ ~Readable /\ todo # {} /\ \A i \in Inj : ipc[i] = "done")
\* liveness form: every published entry is eventually scanned
EventuallyScanned == \A i \in Inj : (i \in todo) ~> (i \in seen)
=============================================================================
