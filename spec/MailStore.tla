----------------------------- MODULE MailStore -----------------------------
(***************************************************************************)
(* Environment layer (E) of property C12: what maildir(5), mbox(5) and     *)
(* qmail-local(8) say about the two mailbox formats, phrased only over     *)
(* observable things - bytes of files, directory listings, which calls on  *)
(* a file succeeded, exit codes.                                           *)
(*                                                                         *)
(*   maildir  a file of new/ is Return-Path line, Delivered-To line,       *)
(*            message - nothing else; it may be linked into new/ only      *)
(*            after it was "NFS-written" (every write checked, fsync       *)
(*            checked, close checked: maildir(5)), which is modelled by    *)
(*            the set of contents a machine crash may leave (CrashClosure) *)
(*   mbox     the reader of mbox(5) "HOW A MESSAGE IS READ" (MboxRead) and *)
(*            the monitors built on it                                     *)
(*                                                                         *)
(* Bytes are their numeric values so the same operators judge the small    *)
(* models and the records taken from the real qmail-local.                 *)
(***************************************************************************)
EXTENDS Integers, Sequences, FiniteSets, SequencesExt

LF  == 10
TAB == 9
SP  == 32
DQ  == 34
HY  == 45      \* '-'
GT  == 62      \* '>'
BS  == 92      \* backslash
US  == 95      \* '_'

RPPre        == <<82,101,116,117,114,110,45,80,97,116,104,58,32,60>>      \* "Return-Path: <"
DTPre        == <<68,101,108,105,118,101,114,101,100,45,84,111,58,32>>    \* "Delivered-To: "
FromSp       == <<70,114,111,109,32>>                                     \* "From "
MailerDaemon == <<77,65,73,76,69,82,45,68,65,69,77,79,78>>                \* "MAILER-DAEMON"

MinI(a, b) == IF a < b THEN a ELSE b
MapBytes(s, bad, to) == [i \in 1..Len(s) |-> IF s[i] \in bad THEN to ELSE s[i]]
StartsWith(s, p) == Len(s) >= Len(p) /\ SubSeq(s, 1, Len(p)) = p
Sorted(S) == SetToSortSeq(S, LAMBDA a, b : a < b)

(***************************************************************************)
(* Lines of a text, without their LF.  A trailing partial line counts as a *)
(* line, so a text and the same text completed by one LF have the same     *)
(* lines: exactly the identification mbox(5) makes ("if the last line was  *)
(* a partial line, it writes two newlines").                               *)
(***************************************************************************)
SplitLines(s) ==
  LET e    == Sorted({i \in 1..Len(s) : s[i] = LF})
      n    == Len(e)
      full == [k \in 1..n |-> SubSeq(s, (IF k = 1 THEN 1 ELSE e[k - 1] + 1), e[k] - 1)]
      last == IF n = 0 THEN 0 ELSE e[n]
  IN IF last < Len(s) THEN Append(full, SubSeq(s, last + 1, Len(s))) ELSE full

(***************************************************************************)
(* The two lines qmail-local adds (qmail-local(8), qmail-command(8)): each *)
(* is ONE line whatever bytes the envelope addresses contain.              *)
(***************************************************************************)
\* RFC 822 unquoting of "quoted local part"@domain (C17 is about the quoting itself; here both the
\* quoted and the plain spelling of the sender are accepted)
RECURSIVE UnqIn(_, _)
UnqIn(x, i) == IF i > Len(x) THEN <<>>
               ELSE IF x[i] = BS /\ i < Len(x) THEN <<x[i + 1]>> \o UnqIn(x, i + 2)
               ELSE IF x[i] = DQ THEN SubSeq(x, i + 1, Len(x))
               ELSE <<x[i]>> \o UnqIn(x, i + 1)
Unq(x) == IF Len(x) > 0 /\ x[1] = DQ THEN UnqIn(x, 2) ELSE x

DTLineNoLF(rcpt) == DTPre \o MapBytes(rcpt, {LF}, US)
\* l: a line without its LF
RPLineOk(l, sender) ==
  LET want == MapBytes(sender, {LF}, US)
      x    == SubSeq(l, Len(RPPre) + 1, Len(l) - 1)
  IN /\ StartsWith(l, RPPre) /\ Len(l) > Len(RPPre) /\ l[Len(l)] = GT
     /\ \A i \in 1..Len(l) : l[i] # LF
     /\ (x = want \/ Unq(x) = want)

\* the reference file for the small models (their senders need no quoting)
RefMdFile(sender, rcpt, msg) ==
  RPPre \o MapBytes(sender, {LF}, US) \o <<GT, LF>> \o DTLineNoLF(rcpt) \o <<LF>> \o msg

(***************************************************************************)
(* maildir: is data = Return-Path line \o Delivered-To line \o msg ?       *)
(* "" when it is, else the name of the clause that fails.                  *)
(***************************************************************************)
MdFileVerdict(data, sender, rcpt, msg) ==
  LET dt == DTLineNoLF(rcpt) \o <<LF>>
      n1 == Len(data) - Len(dt) - Len(msg)
  IN IF n1 < Len(RPPre) + 2 THEN "FileIsNotTwoLinesPlusMessage"
     ELSE IF SubSeq(data, n1 + Len(dt) + 1, Len(data)) # msg THEN "MessageBytesChanged"
     ELSE IF SubSeq(data, n1 + 1, n1 + Len(dt)) # dt THEN "DeliveredToLineWrong"
     ELSE IF data[n1] # LF \/ ~RPLineOk(SubSeq(data, 1, n1 - 1), sender) THEN "ReturnPathLineWrong"
     ELSE ""

(***************************************************************************)
(* What a machine crash may leave of a file.  f = [data, dur, cl]:         *)
(*   data  what a reader sees now                                          *)
(*   dur   length of data at the last successful fsync                     *)
(*   cl    a close() after the last write succeeded                        *)
(* maildir(5): a file is written reliably when every write was checked,    *)
(* fsync succeeded AND close succeeded ("standard NFS implementations      *)
(* handle fsync() incorrectly but make up for it by abusing close()").  So *)
(* only data synced and closed is guaranteed; anything else may be cut to  *)
(* any shorter prefix.                                                     *)
(***************************************************************************)
Floor(f) == IF f.cl THEN MinI(f.dur, Len(f.data)) ELSE 0
CrashClosure(f) == {SubSeq(f.data, 1, k) : k \in Floor(f)..Len(f.data)}

\* NewIsComplete for one entry of new/: whatever the machine does next, a reader finds exactly the message
NewEntryVerdict(f, sender, rcpt, msg) ==
  LET v == MdFileVerdict(f.data, sender, rcpt, msg)
  IN IF v # "" THEN v
     ELSE IF Floor(f) # Len(f.data) THEN (IF f.dur < Len(f.data) THEN "VisibleInNewBeforeFsync" ELSE "VisibleInNewBeforeClose")
     ELSE ""      \* then CrashClosure(f) = {f.data}

(***************************************************************************)
(* mbox(5), HOW A MESSAGE IS READ: scan for From_ lines; any From_ line    *)
(* begins a message; read until the next From_ line or end of file; strip  *)
(* the final blank line; delete one '>' from >From_, >>From_, ... lines.   *)
(* A message is returned as its From_ line and its sequence of lines.      *)
(***************************************************************************)
IsFromLine(l) == StartsWith(l, FromSp)
NumGT(l) == CHOOSE k \in 0..Len(l) : (\A j \in 1..k : l[j] = GT) /\ (k = Len(l) \/ l[k + 1] # GT)
IsQuotedFrom(l) == LET k == NumGT(l) IN k >= 1 /\ IsFromLine(SubSeq(l, k + 1, Len(l)))
UnquoteLine(l) == IF IsQuotedFrom(l) THEN Tail(l) ELSE l

MboxRead(s) ==
  LET ls == SplitLines(s)
      st == Sorted({k \in 1..Len(ls) : IsFromLine(ls[k])})
  IN [j \in 1..Len(st) |->
        LET a    == st[j]
            b    == IF j < Len(st) THEN st[j + 1] - 1 ELSE Len(ls)
            body == SubSeq(ls, a + 1, b)
            strp == IF body # <<>> /\ body[Len(body)] = <<>> THEN SubSeq(body, 1, Len(body) - 1) ELSE body
        IN [from |-> ls[a], lines |-> [k \in 1..Len(strp) |-> UnquoteLine(strp[k])]]]

\* mbox(5), HOW A MESSAGE IS DELIVERED: the envelope sender as one word
FromWord(sender) == IF sender = <<>> THEN MailerDaemon ELSE MapBytes(sender, {SP, TAB, LF}, HY)
\* the word a reader extracts from a From_ line: up to the first space or tab
FirstWord(l) == LET r == SubSeq(l, 6, Len(l))
                    stop == {i \in 1..Len(r) : r[i] \in {SP, TAB}}
                IN IF stop = {} THEN r ELSE SubSeq(r, 1, (CHOOSE i \in stop : \A j \in stop : i <= j) - 1)
FromLineVerdict(l, sender) ==
  IF ~IsFromLine(l) THEN "NoFromLine"
  ELSE IF FirstWord(l) # FromWord(sender) THEN "FromLineSenderNotOneWord"
  ELSE IF Len(l) <= 5 + Len(FromWord(sender)) + 1 THEN "FromLineWithoutDate"
  ELSE ""

\* the message a reader must get back: the two added lines, then the lines of the message
ReadBackVerdict(m, sender, rcpt, msg) ==
  LET want == SplitLines(msg)
  IN IF Len(m.lines) # Len(want) + 2 THEN "ReaderGetsDifferentNumberOfLines"
     ELSE IF ~RPLineOk(m.lines[1], sender) THEN "ReturnPathLineWrong"
     ELSE IF m.lines[2] # DTLineNoLF(rcpt) THEN "DeliveredToLineWrong"
     ELSE IF SubSeq(m.lines, 3, Len(m.lines)) # want THEN "ReaderDoesNotGetTheMessageBack"
     ELSE FromLineVerdict(m.from, sender)

(***************************************************************************)
(* ReaderInverts + FromLineOneWord for one successful delivery: the file   *)
(* only grew, the messages that were there read as before, and exactly one *)
(* more message is read, which is the delivered one.                       *)
(***************************************************************************)
AppendVerdict(before, after, sender, rcpt, msg) ==
  IF ~IsPrefix(before, after) THEN "EarlierBytesChanged"
  ELSE LET rb == MboxRead(before)
           ra == MboxRead(after)
       IN IF Len(ra) # Len(rb) + 1 THEN "ReaderSplitsIntoWrongNumberOfMessages"
          ELSE IF SubSeq(ra, 1, Len(rb)) # rb THEN "EarlierMessagesReadDifferently"
          ELSE ReadBackVerdict(ra[Len(ra)], sender, rcpt, msg)

(***************************************************************************)
(* Several deliveries d = [sender, rcpt, msg, ok] to one file: the         *)
(* successful ones, and only they, are read back, whole, in some order.    *)
(***************************************************************************)
ConcurrentVerdict(before, after, dels) ==
  IF ~IsPrefix(before, after) THEN "EarlierBytesChanged"
  ELSE LET rb  == MboxRead(before)
           ra  == MboxRead(after)
           okd == SelectSeq(dels, LAMBDA d : d.ok)
           n   == Len(okd)
       IN IF Len(ra) # Len(rb) + n THEN "ReaderSplitsIntoWrongNumberOfMessages"
          ELSE IF SubSeq(ra, 1, Len(rb)) # rb THEN "EarlierMessagesReadDifferently"
          ELSE IF \E f \in [1..n -> 1..n] :
                    /\ \A i, j \in 1..n : i # j => f[i] # f[j]
                    /\ \A i \in 1..n : ReadBackVerdict(ra[Len(rb) + i], okd[f[i]].sender, okd[f[i]].rcpt, okd[f[i]].msg) = ""
               THEN ""
          ELSE "EntriesInterleavedOrDamaged"

(***************************************************************************)
(* NoInterleave at the call level.  ev = the calls that changed the file,  *)
(* in the order they happened, each tagged with the delivery p that made   *)
(* it: once another delivery has touched the file, an earlier one never    *)
(* touches it again.                                                       *)
(***************************************************************************)
NoInterleaveEv(ev) ==
  \A i, j, k \in 1..Len(ev) : (i < j /\ j < k /\ ev[i].p = ev[k].p) => ev[j].p = ev[i].p
=============================================================================
