SPECIFICATION Spec
INVARIANT Inv
