SPECIFICATION Spec
CONSTANTS
  Bits = 6
  MaxOps = 7
  MaxKey = 3
INVARIANTS SqrtCorrect RetryInFuture HeapOrdered MinIsMin BagPreserved
