--------------------------- MODULE DotQmailFaultRec ---------------------------
(* Record validator (T) for the temporary-trouble sweep of C13: one record = one run of the real qmail-local for an address whose
   .qmail-a file says "deliver to mailbox A" (a .qmail-default saying "mailbox D" and default delivery instructions saying
   "mailbox F" exist as well), with ONE call failing with an errno that stands for temporary trouble (descriptor table full, no
   memory, I/O error, ...).  rc, a, d, f: exit status and number of messages in the three mailboxes; brc, ba, bd, bf: the same for
   the run without a failure.
   dot-qmail(5) / qmail-local(8): trouble of that kind defers the delivery (exit 111); it never makes qmail-local follow OTHER
   instructions than the ones the address has, and never bounces the message.  A failure may also not matter at all (the run ends
   as the undisturbed one). *)
EXTENDS Integers, Sequences, Json, IOUtils, TLC
Recs  == ndJsonDeserialize(IOEnv.RECORDS)
Chunk == atoi(IOEnv.CHUNK)
N     == Len(Recs)
NCh   == (N + Chunk - 1) \div Chunk
G     == 16
VARIABLES g, k
Init == g = 0 /\ k = 0
Next == \/ g = 0 /\ g' \in 1..G /\ k' = 0
        \/ g > 0 /\ k = 0 /\ k' \in {c \in 1..NCh : c % G = g - 1} /\ g' = g
Spec == Init /\ [][Next]_<<g, k>>
TroubleVerdict(r) ==
  IF r.d > 0 \/ r.f > 0 THEN "TemporaryTroubleMadeOtherInstructionsApply"
  ELSE IF r.rc = 111 THEN ""
  ELSE IF r.rc = r.brc /\ r.a = r.ba THEN ""
  ELSE IF r.rc = 100 THEN "TemporaryTroubleBouncedTheMessage"
  ELSE "TemporaryTroubleNeitherDeferredNorHarmless"
CheckChunk(c) ==
  LET lo == (c - 1) * Chunk + 1
      hi == IF c * Chunk < N THEN c * Chunk ELSE N
  IN /\ \A i \in lo..hi : LET v == TroubleVerdict(Recs[i]) IN v = "" \/ PrintT(<<"BADREC", i, v>>)
     /\ PrintT(<<"CHECKED", lo, hi>>)
Inv == k = 0 \/ CheckChunk(k)
=============================================================================
