----------------------------- MODULE Pw2uModel -----------------------------
(* X08: every passwd file of up to MaxAccts accounts over the names / uids / home states below (alias among them), every
   address of the list: with the default rules the table qmail-pw2u prints, looked up as qmail-users(5) says, gives exactly what
   qmail-getpw gives (SameRules).  With mailnames: a user whose line does not list its own name is not reachable under it
   (OwnName).  Sanity: without the upper-case rule (-u) the agreement must fail (UpperBlind). *)
EXTENDS Pw2u, TLC
CONSTANTS MaxAccts
Al == <<97, 108>>                       \* "al" stands for the alias user
Names == {<<97>>, <<97, 45, 98>>, <<66>>, <<98>>, Al}                                      \* a, a-b, B, b, al
Locals == {<<>>, <<97>>, <<65>>, <<97, 45>>, <<97, 45, 98>>, <<97, 45, 98, 45, 67>>, <<97, 45, 120>>, <<98>>, <<66>>, <<66, 45, 120>>,
           <<97, 108>>, <<97, 108, 45, 120>>, <<120>>, <<97, 98>>}
Home(n) == <<47>> \o n
Accts == {[name |-> n, uid |-> u, gid |-> 7, home |-> Home(n), own |-> w] : n \in Names, u \in {0, 5, 6}, w \in {-1, 5, 6}}
Dbs == UNION {{d \in [1..k -> Accts] : \A i, j \in 1..k : i # j => d[i].name # d[j].name} : k \in 1..MaxAccts}
AliasOk(d) == \E i \in 1..Len(d) : d[i].name = Al /\ Kept(d[i], Default, NoFiles)
VARIABLES db, done
Init == db \in {d \in Dbs : AliasOk(d)} /\ done = FALSE
Next == ~done /\ done' = TRUE /\ UNCHANGED db
Spec == Init /\ [][Next]_<<db, done>>
SameRules == done => \A l \in Locals : SameAsGetPw(db, Al, l)
ManaC == [NoFiles EXCEPT !.mana = << [user |-> <<97>>, names |-> << <<120>>, <<>>, <<98>> >>] >>]
OwnName == done => (~Fails(db, Al, Default, ManaC) => \A k \in 1..Len(db) : OwnNameDropped(db, Al, Default, ManaC, k))
UpperBlind == done => \A l \in Locals :
                LET t == Table(db, Al, [Default EXCEPT !.noupper = FALSE], NoFiles)
                    a == Assign(t, l)
                    g == GetPw(db, {}, Al, l, 45, 32)
                IN a.found /\ g.kind = "id" /\ a.id = g.id
=============================================================================
