---------------------------- MODULE QmqpcModel ----------------------------
(* every list of up to MaxSrv servers over the behaviours, every envelope class: the program gives the documented result *)
EXTENDS Qmqpc, TLC
CONSTANTS MaxSrv
VARIABLES env, srv, res
RECURSIVE SeqsUpTo(_, _)
SeqsUpTo(S, n) == IF n = 0 THEN {<<>>} ELSE LET R == SeqsUpTo(S, n - 1) IN R \cup {Append(r, x) : r \in {s \in R : Len(s) = n - 1}, x \in S}
Init == env \in {"ok", "nosender", "badrcpt", "cut"} /\ srv \in SeqsUpTo(Behaviours, MaxSrv) /\ res = [st |-> "init"]
Run == res.st = "init" /\ res' = [st |-> "done", r |-> QmqpcP(env, srv)] /\ UNCHANGED <<env, srv>>
Spec == Init /\ [][Run]_<<env, srv, res>>
AsDocumented == res.st = "done" => res.r = Expected(env, srv)
Sound == res.st = "done" => SuccessSound(env, srv, res.r)
\* sanity (must be violated)
NeverSecondServer == res.st = "done" => \A i \in res.r.sentto : i = 1
=============================================================================
