---- MODULE QQ ----
EXTENDS Integers, Sequences, FiniteSets, TLC
CONSTANTS MSG,        \* message units fed on fd 0
          ENVIN,      \* envelope units fed on fd 1, e.g. <<"F","T","T","0">>; "X" = wrong letter, "L" = over-long address
          Inodes,     \* pool of inode numbers
          FsyncMess, FsyncIntd, LinkAfterFsync   \* mutation switches (TRUE = as in the code)
VARIABLES dirs,   \* set of <<dirname, name, ino>>   (name = "pidfile" in pid/, else the message number)
          file,   \* [Inodes -> [data : Seq, dur : Nat, used : BOOLEAN]]
          pc, num, mpos, epos, exit, faulted, crashed
vars == <<dirs, file, pc, num, mpos, epos, exit, faulted, crashed>>

FullMess == <<"R">> \o MSG
Hdr == <<"u","p">>
\* the envelope bytes qmail-queue writes for a fully valid input
FullEnv == Hdr \o ENVIN
ValidEnv == /\ Len(ENVIN) >= 2 /\ ENVIN[1] = "F" /\ ENVIN[Len(ENVIN)] = "0"
            /\ \A i \in 2..(Len(ENVIN)-1) : ENVIN[i] = "T"

Exists(d, n) == \E t \in dirs : t[1] = d /\ t[2] = n
InoOf(d, n) == (CHOOSE t \in dirs : t[1] = d /\ t[2] = n)[3]
Durable(i) == SubSeq(file[i].data, 1, file[i].dur)
FAppend(i, s) == file' = [file EXCEPT ![i].data = @ \o s]
Sync(i) == file' = [file EXCEPT ![i].dur = Len(file[i].data)]
Trunc(i) == file' = [file EXCEPT ![i].data = <<>>, ![i].dur = 0]

Init == /\ dirs = {} /\ file = [i \in Inodes |-> [data |-> <<>>, dur |-> 0, used |-> FALSE]]
        /\ pc = "pidopen" /\ num = 0 /\ mpos = 0 /\ epos = 0 /\ exit = -1 /\ faulted = FALSE /\ crashed = FALSE

Die(code) == pc' = "done" /\ exit' = code
\* cleanup(): truncate+unlink intd (if made), then mess (if made)
Cleanup(code) ==
  /\ dirs' = {t \in dirs : ~(t[1] \in {"intd","mess"} /\ t[2] = num)}
  /\ file' = [i \in Inodes |-> IF \E t \in dirs : t[1] \in {"intd","mess"} /\ t[2] = num /\ t[3] = i
                               THEN [file[i] EXCEPT !.data = <<>>, !.dur = 0] ELSE file[i]]
  /\ Die(code)

\* one injectable failure per run
MayFail == ~faulted
Fail(code, clean) == /\ MayFail /\ faulted' = TRUE
                     /\ IF clean THEN Cleanup(code) ELSE (Die(code) /\ UNCHANGED <<dirs, file>>)

PidOpen == /\ pc = "pidopen"
           /\ \/ \E i \in Inodes : /\ ~file[i].used
                                   /\ file' = [file EXCEPT ![i].used = TRUE]
                                   /\ dirs' = dirs \cup {<<"pid","pidfile",i>>}
                                   /\ num' = i /\ pc' = "linkmess" /\ UNCHANGED <<exit, faulted>>
              \/ (Fail(63, FALSE) /\ UNCHANGED num)
           /\ UNCHANGED <<mpos, epos, crashed>>
LinkMess == /\ pc = "linkmess"
            /\ \/ (dirs' = dirs \cup {<<"mess",num,num>>} /\ pc' = "unlinkpid" /\ UNCHANGED <<file, exit, faulted>>)
               \/ Fail(64, FALSE)
            /\ UNCHANGED <<num, mpos, epos, crashed>>
UnlinkPid == /\ pc = "unlinkpid"
             /\ \/ (dirs' = dirs \ {<<"pid","pidfile",num>>} /\ pc' = "wmess" /\ UNCHANGED <<file, exit, faulted>>)
                \/ Fail(63, FALSE)
             /\ UNCHANGED <<num, mpos, epos, crashed>>
\* write the next 1..2 units of Received+message (buffer of 2 units)
WMess == /\ pc = "wmess"
         /\ \/ /\ mpos < Len(FullMess)
               /\ \E k \in 1..2 : /\ mpos + k <= Len(FullMess)
                                  /\ FAppend(num, SubSeq(FullMess, mpos+1, mpos+k)) /\ mpos' = mpos + k
               /\ UNCHANGED <<dirs, pc, exit, faulted>>
            \/ /\ mpos < Len(FullMess) /\ Fail(53, TRUE) /\ UNCHANGED mpos     \* write error
            \/ /\ mpos < Len(FullMess) /\ Fail(54, TRUE) /\ UNCHANGED mpos     \* read error on fd 0
            \/ /\ mpos = Len(FullMess) /\ pc' = "fsyncmess" /\ UNCHANGED <<dirs, file, mpos, exit, faulted>>
         /\ UNCHANGED <<num, epos, crashed>>
FsyncM == /\ pc = "fsyncmess"
          /\ \/ (IF FsyncMess THEN Sync(num) ELSE UNCHANGED file) /\ pc' = "openintd" /\ UNCHANGED <<dirs, exit, faulted>>
             \/ Fail(53, TRUE)
          /\ UNCHANGED <<num, mpos, epos, crashed>>
IntdIno == InoOf("intd", num)
OpenIntd == /\ pc = "openintd"
            /\ \/ \E i \in Inodes : /\ ~file[i].used /\ file' = [file EXCEPT ![i].used = TRUE]
                                    /\ dirs' = dirs \cup {<<"intd",num,i>>} /\ pc' = "wintd" /\ UNCHANGED <<exit, faulted>>
               \/ Fail(65, FALSE)
            /\ UNCHANGED <<num, mpos, epos, crashed>>
\* envelope: header units first (epos counts over Hdr \o ENVIN), one unit per write; validity checked as read
EnvAll == Hdr \o ENVIN
WIntd == /\ pc = "wintd"
         /\ LET k == epos + 1 IN
            \/ /\ k <= Len(EnvAll)
               /\ LET u == EnvAll[k] IN
                  IF u = "X" THEN Die(91) /\ UNCHANGED <<dirs, file, epos, faulted>>
                  ELSE IF u = "L" THEN Die(11) /\ UNCHANGED <<dirs, file, epos, faulted>>
                  ELSE /\ FAppend(IntdIno, <<u>>) /\ epos' = k
                       /\ (IF u = "0" THEN pc' = "fsyncintd" ELSE pc' = pc) /\ UNCHANGED <<dirs, exit, faulted>>
            \/ /\ k > Len(EnvAll) /\ Cleanup(54) /\ UNCHANGED <<epos, faulted>>      \* EOF before terminator
            \/ /\ k <= Len(EnvAll) /\ Fail(53, TRUE) /\ UNCHANGED epos
         /\ UNCHANGED <<num, mpos, crashed>>
\* mutation: link todo before fsync of intd
FsyncI == /\ pc = "fsyncintd"
          /\ \/ /\ IF LinkAfterFsync
                     THEN (IF FsyncIntd THEN Sync(IntdIno) ELSE UNCHANGED file) /\ UNCHANGED dirs
                     ELSE dirs' = dirs \cup {<<"todo",num,IntdIno>>} /\ UNCHANGED file
                /\ pc' = "linktodo" /\ UNCHANGED <<exit, faulted>>
             \/ Fail(53, TRUE)
          /\ UNCHANGED <<num, mpos, epos, crashed>>
LinkTodo == /\ pc = "linktodo"
            /\ \/ /\ IF LinkAfterFsync
                       THEN dirs' = dirs \cup {<<"todo",num,IntdIno>>} /\ UNCHANGED file
                       ELSE (IF FsyncIntd THEN Sync(IntdIno) ELSE UNCHANGED file) /\ UNCHANGED dirs
                  /\ Die(0) /\ UNCHANGED faulted
               \/ (LinkAfterFsync /\ Fail(66, FALSE))
            /\ UNCHANGED <<num, mpos, epos, crashed>>
\* machine crash at any instant: every file keeps its durable part plus any prefix of the rest
Crash == /\ ~crashed /\ crashed' = TRUE /\ pc' = "done"
         /\ \E keep \in [Inodes -> 0..8] :
              /\ \A i \in Inodes : keep[i] \in file[i].dur..Len(file[i].data)
              /\ file' = [i \in Inodes |-> [file[i] EXCEPT !.data = SubSeq(@, 1, keep[i]), !.dur = keep[i]]]
         /\ UNCHANGED <<dirs, num, mpos, epos, exit, faulted>>
Kill == pc # "done" /\ ~crashed /\ pc' = "done" /\ UNCHANGED <<dirs, file, num, mpos, epos, exit, faulted, crashed>>

Next == PidOpen \/ LinkMess \/ UnlinkPid \/ WMess \/ FsyncM \/ OpenIntd \/ WIntd \/ FsyncI \/ LinkTodo \/ Crash \/ Kill
Spec == Init /\ [][Next]_vars

\* ---------------- monitors
Msgs == {t[2] : t \in {u \in dirs : u[1] \in {"mess","intd","todo"}}}
\* what a reader (the daemon) would see after a crash right now = durable content; after a crash step = data
Seen(i) == IF crashed THEN file[i].data ELSE Durable(i)
Atomic == \A n \in Msgs : Exists("todo", n) =>
             /\ Exists("mess", n) /\ Seen(InoOf("mess", n)) = FullMess
             /\ Seen(InoOf("todo", n)) = FullEnv /\ ValidEnv
SuccessMeansQueued == exit = 0 => Exists("todo", num)
Refusals == /\ (exit = 91 => \E k \in 1..Len(ENVIN) : ENVIN[k] = "X")
            /\ (exit = 11 => \E k \in 1..Len(ENVIN) : ENVIN[k] = "L")
            /\ (exit = 0 => ValidEnv)
\* S1..S4 only (no info/local/remote here); never todo without mess
StateTable == \A n \in Msgs : (Exists("todo", n) \/ Exists("intd", n)) => Exists("mess", n)
====
