SPECIFICATION Spec
CONSTANTS
  Slice = "I"
  Big = FALSE
INVARIANT Conforms
INVARIANT SearchAgrees
