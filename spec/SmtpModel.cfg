SPECIFICATION Spec
CONSTANT MaxCmds = 4
INVARIANT Sound
