---------------------------- MODULE M2MFmtModel ----------------------------
(* X07, byte level: for every pair of maildir files built from the line kinds below (with and without a final LF, with the
   Return-Path line qmail-local writes, with a null sender, with a sender containing a space, without such a line) and every
   previous content of the mbox, what the loop of maildir2mbox.c writes (M2M!EntryP) is read back by the reader of mbox(5) as
   exactly those files (M2M!MoveVerdict).  Variant "asfound" (the loop before the repair) must be rejected: sanity. *)
EXTENDS M2M, TLC
CONSTANTS Variant, MaxLines
Kinds == {<<70,114,111,109,32,120>>, <<62,70,114,111,109,32,120>>, <<62,62,70,114,111,109,32,120>>, <<120>>, <<>>, <<70>>, <<62>>}
JoinNL(ls, fin) == LET J[k \in 0..Len(ls)] == IF k = 0 THEN <<>> ELSE J[k - 1] \o (IF k > 1 THEN <<LF>> ELSE <<>>) \o ls[k]
                   IN J[Len(ls)] \o (IF fin /\ Len(ls) > 0 THEN <<LF>> ELSE <<>>)
Bodies == {JoinNL(ls, fin) : ls \in UNION {[1..k -> Kinds] : k \in 0..MaxLines}, fin \in BOOLEAN}
Heads == {<<>>,
          RPPre \o <<115,64,104>> \o <<GT, LF>>,                 \* Return-Path: <s@h>
          RPPre \o <<GT, LF>>,                                    \* Return-Path: <>
          RPPre \o <<34,97,32,98,34,64,104>> \o <<GT, LF>>,       \* Return-Path: <"a b"@h>
          RPPre \o <<115,64,104>> \o <<GT>>,                      \* the line without its LF (a file cut short)
          <<82,101,116,117,114,110,45,80,97,116,104,58,32,120, LF>>}   \* Return-Path: x
Files == {h \o b : h \in Heads, b \in Bodies}
Olds == {<<>>, FromSp \o <<111,32,100>> \o <<LF>> \o <<120, LF, LF>>,
         FromSp \o <<111,32,100>> \o <<LF>> \o <<62,70,114,111,109,32,LF, LF>>}
Times == {0, 86399, 951782400, 1582934400, 2147483000}     \* 1 Jan 1970, its last second, 29 Feb 2000, 29 Feb 2020, 19 Jan 2038
VARIABLES f1, f2, old, t, done
Init == f1 \in Files /\ f2 \in {<<>>, <<120>>, <<70,114,111,109,32,120, LF>>} /\ old \in Olds /\ t \in Times /\ done = FALSE
Next == ~done /\ done' = TRUE /\ UNCHANGED <<f1, f2, old, t>>
Spec == Init /\ [][Next]_<<f1, f2, old, t, done>>
After == old \o EntryP(f1, t, Variant) \o EntryP(f2, t + 1, Variant)
ReadBack == done => MoveVerdict(old, After, << [data |-> f1, mtime |-> t], [data |-> f2, mtime |-> t + 1] >>) = ""
\* the other order of the same two files must be noticed (sanity: the order clause is not vacuous)
OrderBlind == done /\ f1 # f2 => MoveVerdict(old, After, << [data |-> f2, mtime |-> t], [data |-> f1, mtime |-> t + 1] >>) = ""
=============================================================================
