SPECIFICATION Spec
CONSTANTS
  W1 = 6
  W2 = 1
  MaxItems = 2
  PendingExcluded = TRUE
INVARIANT Rendered
INVARIANT Parses
INVARIANT EnvelopeListed
INVARIANT RewrittenSame
