--------------------------- MODULE SmtpSessionRec ---------------------------
(***************************************************************************)
(* Record validator (T) for C08: one record = one real SMTP session with   *)
(* qmail-smtpd: cfg (index into Cfgs), steps = sequence of [c, reply, sub] *)
(* (command with its abstract address, reply class, envelope received by   *)
(* the queue program during that command).  TLC folds MonStep over it.     *)
(***************************************************************************)
EXTENDS SmtpSession, Json, IOUtils
Recs  == ndJsonDeserialize(IOEnv.RECORDS)
Cfgs  == ndJsonDeserialize(IOEnv.CFGS)
Chunk == atoi(IOEnv.CHUNK)
N     == Len(Recs)
NCh   == (N + Chunk - 1) \div Chunk
G     == 16
VARIABLES g, k
Init == g = 0 /\ k = 0
Next == \/ g = 0 /\ g' \in 1..G /\ k' = 0
        \/ g > 0 /\ k = 0 /\ k' \in {c \in 1..NCh : c % G = g - 1} /\ g' = g
Spec == Init /\ [][Next]_<<g, k>>

SetOf(s) == {s[i] : i \in 1..Len(s)}
Cfg(i) == LET c == Cfgs[i] IN [rh |-> c.rh = 1, exact |-> SetOf(c.exact), suffix |-> SetOf(c.suffix), mexact |-> SetOf(c.mexact), msuffix |-> SetOf(c.msuffix),
                               bmfaddr |-> {[loc |-> x.loc, dom |-> x.dom] : x \in SetOf(c.bmfaddr)}, bmfdom |-> SetOf(c.bmfdom), lip |-> c.lip, relay |-> c.relay, mrhbad |-> c.mrhbad # 0]
Addr(a) == [loc |-> a.loc, dom |-> a.dom, noat |-> a.noat = 1, long |-> a.long = 1, lit |-> a.lit = 1, edge |-> a.edge = 1]
Sub(s) == IF Len(s) = 0 THEN <<>> ELSE <<[s |-> Addr(s[1].s), rc |-> [i \in 1..Len(s[1].rc) |-> [a |-> Addr(s[1].rc[i].a), sfx |-> s[1].rc[i].sfx = 1]]]>>
RECURSIVE Fold(_, _, _, _)
Fold(st, steps, i, cfg) ==
  IF i > Len(steps) THEN ""
  ELSE LET r == MonStep(st, [verb |-> steps[i].verb, a |-> Addr(steps[i].a)], steps[i].reply, Sub(steps[i].sub), cfg)
       IN IF r.v # "" THEN r.v ELSE Fold(r.st, steps, i + 1, cfg)
Verdict(r) == Fold(MonInit, r.steps, 1, Cfg(r.cfg))
CheckChunk(c) ==
  LET lo == (c - 1) * Chunk + 1
      hi == IF c * Chunk < N THEN c * Chunk ELSE N
  IN /\ \A i \in lo..hi : LET v == Verdict(Recs[i]) IN v = "" \/ PrintT(<<"BADREC", i, v>>)
     /\ PrintT(<<"CHECKED", lo, hi>>)
Inv == k = 0 \/ CheckChunk(k)
=============================================================================
