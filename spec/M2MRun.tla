------------------------------- MODULE M2MRun -------------------------------
(***************************************************************************)
(* X07, file level: maildir2mbox as a sequence of file-system calls over a *)
(* file-system model with a failing call, Kill at every call, a machine    *)
(* crash in every state (un-synced file data optionally lost; directory    *)
(* operations synchronous, as conf-qmail stipulates), deliveries into the  *)
(* maildir while the program runs, and a second run after a failed one     *)
(* (which finds the temporary file of the first).                          *)
(*                                                                         *)
(* Messages are numbers (smaller = delivered earlier); token 0 stands for  *)
(* what the mbox held at the start.  The bytes are M2M.tla's business.     *)
(*                                                                         *)
(* E (maildir2mbox(1): "reliable: it will not remove messages from the     *)
(*    maildir until the messages have been successfully appended to the    *)
(*    mbox"):                                                              *)
(*   NoLoss        whatever happens, every message ever delivered is in    *)
(*                 the maildir or in the mbox                              *)
(*   OldKept       what the mbox held stays at its head                    *)
(*   AllOrNothing  a reader of the mbox sees it as it was or with all the  *)
(*                 messages of this run appended - never part of them      *)
(*   ExitOk        exit 0: every message found by the scan is in the mbox  *)
(*                 and gone from the maildir (unless its unlink failed)    *)
(*   ExitFail      exit 111: mbox as before the run, nothing removed       *)
(* P: main() of maildir2mbox.c, one action per call.  Mut selects a wrong  *)
(* variant, each of which must be rejected (sanity).                       *)
(***************************************************************************)
EXTENDS Integers, Sequences, FiniteSets, SequencesExt, TLC
CONSTANTS Msgs, Late, MaxFaults, MaxRuns, Mut
VARIABLES md,        \* messages (complete files) in the maildir
          ino,       \* ino[i] = [data |-> tokens, dur |-> length that survives a crash]
          mboxi, tmpi,   \* inode of $MAIL and of $MAILTMP (0: no such name)
          wr,        \* inode the program writes to
          pc, scanned, k, base, faults, failedul, exit, runs, everin,
          wopen, wdone   \* Mut = "writer" only: the inode a delivering qmail-local has opened and locked-or-waits-for, and whether it has reported success
vars == <<md, ino, mboxi, tmpi, wr, pc, scanned, k, base, faults, failedul, exit, runs, everin, wopen, wdone>>

SortedSeq(S) == SetToSortSeq(S, LAMBDA a, b : a < b)
Mbox == ino[mboxi].data
InMbox(m) == \E i \in 1..Len(Mbox) : Mbox[i] = m

Init == /\ md = Msgs /\ everin = Msgs
        /\ ino = << [data |-> <<0>>, dur |-> 1] >>
        /\ mboxi = 1 /\ tmpi = 0 /\ wr = 0
        /\ pc = "scan" /\ scanned = <<>> /\ k = 1 /\ base = <<0>>
        /\ faults = 0 /\ failedul = {} /\ exit = "none" /\ runs = 1
        /\ wopen = 0 /\ wdone = FALSE

Die(code) == pc' = "dead" /\ exit' = code
CanFail == faults < MaxFaults
Fail == CanFail /\ faults' = faults + 1 /\ Die("111")

\* maildir_scan: files younger than the clock's second are left for the next run, so any subset may be found
Scan == /\ pc = "scan"
        /\ \E S \in SUBSET md :
             /\ scanned' = SortedSeq(S)
             /\ IF S = {} THEN Die("0") ELSE pc' = "lock" /\ exit' = exit
        /\ base' = Mbox /\ k' = 1 /\ failedul' = {}
        /\ UNCHANGED <<md, ino, mboxi, tmpi, wr, faults, runs, everin, wopen, wdone>>
Lock == /\ pc = "lock"          \* open_append + lock_ex
        /\ \/ pc' = "openold" /\ UNCHANGED <<faults, exit>>
           \/ Fail
        /\ UNCHANGED <<md, ino, mboxi, tmpi, wr, scanned, k, base, failedul, runs, everin, wopen, wdone>>
OpenOld == /\ pc = "openold"
           /\ \/ pc' = "trunc" /\ UNCHANGED <<faults, exit>>
              \/ Fail
           /\ UNCHANGED <<md, ino, mboxi, tmpi, wr, scanned, k, base, failedul, runs, everin, wopen, wdone>>
Trunc == /\ pc = "trunc"        \* open_trunc($MAILTMP)
         /\ \/ /\ Mut # "inplace"
               /\ IF tmpi = 0 THEN ino' = Append(ino, [data |-> <<>>, dur |-> 0]) /\ tmpi' = Len(ino) + 1 /\ wr' = Len(ino) + 1
                  ELSE ino' = [ino EXCEPT ![tmpi] = [data |-> <<>>, dur |-> 0]] /\ tmpi' = tmpi /\ wr' = tmpi
               /\ pc' = "copy" /\ UNCHANGED <<faults, exit>>
            \/ /\ Mut = "inplace"      \* wrong: append to the mbox itself
               /\ wr' = mboxi /\ pc' = "entry" /\ UNCHANGED <<ino, tmpi, faults, exit>>
            \/ Fail /\ UNCHANGED <<ino, tmpi, wr>>
         /\ UNCHANGED <<md, mboxi, scanned, k, base, failedul, runs, everin, wopen, wdone>>
Copy == /\ pc = "copy"          \* substdio_copy: the old contents; a failing write leaves part of them in the temporary file
        /\ \/ ino' = [ino EXCEPT ![wr].data = Mbox] /\ pc' = "entry" /\ UNCHANGED <<faults, exit>>
           \/ Fail /\ UNCHANGED ino
        /\ UNCHANGED <<md, mboxi, tmpi, wr, scanned, k, base, failedul, runs, everin, wopen, wdone>>
Entry == /\ pc = "entry"
         /\ IF k > Len(scanned) THEN pc' = "fsync" /\ k' = 1 /\ UNCHANGED <<ino, faults, exit>>
            ELSE \/ ino' = [ino EXCEPT ![wr].data = Append(@, scanned[k])] /\ k' = k + 1 /\ UNCHANGED <<pc, faults, exit>>
                 \/ /\ Mut # "ignorewrite" /\ Fail /\ UNCHANGED <<ino, k>>
                 \/ /\ Mut = "ignorewrite" /\ CanFail /\ faults' = faults + 1       \* wrong: the result of a write is not looked at
                    /\ k' = k + 1 /\ UNCHANGED <<ino, pc, exit>>
         /\ UNCHANGED <<md, mboxi, tmpi, wr, scanned, base, failedul, runs, everin, wopen, wdone>>
Fsync == /\ pc = "fsync"
         /\ \/ /\ ino' = IF Mut = "nofsync" THEN ino ELSE [ino EXCEPT ![wr].dur = Len(ino[wr].data)]
               /\ pc' = "close" /\ UNCHANGED <<faults, exit>>
            \/ Fail /\ UNCHANGED ino
         /\ UNCHANGED <<md, mboxi, tmpi, wr, scanned, k, base, failedul, runs, everin, wopen, wdone>>
Close == /\ pc = "close"
         /\ \/ pc' = (IF Mut = "unlinkfirst" THEN "unlink" ELSE IF Mut = "inplace" THEN "unlink" ELSE "rename") /\ UNCHANGED <<faults, exit>>
            \/ Fail
         /\ UNCHANGED <<md, ino, mboxi, tmpi, wr, scanned, k, base, failedul, runs, everin, wopen, wdone>>
Rename == /\ pc = "rename"
          /\ \/ /\ mboxi' = tmpi /\ tmpi' = 0
                /\ IF Mut = "unlinkfirst" THEN Die("0") /\ UNCHANGED <<k, faults>>
                   ELSE pc' = "unlink" /\ k' = 1 /\ UNCHANGED <<faults, exit>>
             \/ Fail /\ UNCHANGED <<mboxi, tmpi, k>>
          /\ UNCHANGED <<md, ino, wr, scanned, base, failedul, runs, everin, wopen, wdone>>
Unlink == /\ pc = "unlink"
          /\ IF k > Len(scanned)
             THEN /\ IF Mut = "unlinkfirst" THEN pc' = "rename" /\ exit' = exit ELSE Die("0")
                  /\ UNCHANGED <<md, k, faults, failedul>>
             ELSE \/ md' = md \ {scanned[k]} /\ k' = k + 1 /\ UNCHANGED <<pc, exit, faults, failedul>>
                  \/ /\ CanFail /\ faults' = faults + 1           \* "will be delivered twice; unable to unlink": a warning
                     /\ failedul' = failedul \cup {scanned[k]} /\ k' = k + 1 /\ UNCHANGED <<md, pc, exit>>
          /\ UNCHANGED <<ino, mboxi, tmpi, wr, scanned, base, runs, everin, wopen, wdone>>

Kill == /\ pc # "dead" /\ Die("killed")
        /\ UNCHANGED <<md, ino, mboxi, tmpi, wr, scanned, k, base, faults, failedul, runs, everin, wopen, wdone>>
Crash == /\ exit # "crashed"
         /\ \E c \in [1..Len(ino) -> 0..(Cardinality(Msgs \cup Late) * MaxRuns + 1)] :
              /\ \A i \in 1..Len(ino) : c[i] >= ino[i].dur /\ c[i] <= Len(ino[i].data)
              /\ ino' = [i \in 1..Len(ino) |-> [data |-> SubSeq(ino[i].data, 1, c[i]), dur |-> c[i]]]
         /\ Die("crashed")
         /\ UNCHANGED <<md, mboxi, tmpi, wr, scanned, k, base, faults, failedul, runs, everin, wopen, wdone>>
Restart == /\ pc = "dead" /\ runs < MaxRuns
           /\ runs' = runs + 1 /\ pc' = "scan" /\ exit' = "none"
           /\ UNCHANGED <<md, ino, mboxi, tmpi, wr, scanned, k, base, faults, failedul, everin, wopen, wdone>>
Deliver == \E m \in Late \ everin :
             /\ md' = md \cup {m} /\ everin' = everin \cup {m}
             /\ UNCHANGED <<ino, mboxi, tmpi, wr, pc, scanned, k, base, faults, failedul, exit, runs, wopen, wdone>>

\* Mut = "writer" (a limit of the design, not of the code; the manual only promises protection "against simultaneous access by a
\* mail reader"): a delivering qmail-local opens the mbox, waits for the lock maildir2mbox holds on that inode, and appends when
\* maildir2mbox is gone - to the inode it opened, which $MAIL no longer names.  WriterKeeps must fail for this variant.
WOpen == /\ Mut = "writer" /\ wopen = 0 /\ ~wdone /\ wopen' = mboxi
         /\ UNCHANGED <<md, ino, mboxi, tmpi, wr, pc, scanned, k, base, faults, failedul, exit, runs, everin, wdone>>
WAppend == /\ Mut = "writer" /\ wopen # 0 /\ ~wdone
           /\ (pc \in {"scan", "lock", "dead"})                \* the lock on that inode is free
           /\ ino' = [ino EXCEPT ![wopen] = [data |-> Append(@.data, 99), dur |-> Len(@.data) + 1]]
           /\ wdone' = TRUE
           /\ UNCHANGED <<md, mboxi, tmpi, wr, pc, scanned, k, base, faults, failedul, exit, runs, everin, wopen>>
Next == WOpen \/ WAppend \/ Scan \/ Lock \/ OpenOld \/ Trunc \/ Copy \/ Entry \/ Fsync \/ Close \/ Rename \/ Unlink \/ Kill \/ Crash \/ Restart \/ Deliver
Spec == Init /\ [][Next]_vars

NoLoss       == \A m \in everin : m \in md \/ InMbox(m)
OldKept      == Len(Mbox) >= 1 /\ Mbox[1] = 0
AllOrNothing == Mbox = base \/ Mbox = base \o scanned
ExitOk       == exit = "0" => /\ Mbox = base \o scanned
                              /\ \A i \in 1..Len(scanned) : scanned[i] \in md => scanned[i] \in failedul
ExitFail     == exit = "111" => Mbox = base /\ \A i \in 1..Len(scanned) : scanned[i] \in md
\* what a delivery that reported success put into the mbox stays there (fails for Mut = "writer": see WOpen)
WriterKeeps == wdone /\ exit # "crashed" => InMbox(99)
\* coverage (must be violated): a second run completes after a crash that followed the rename of the first
SecondRunNeverCompletes == ~(runs = 2 /\ exit = "0" /\ Len(Mbox) > Cardinality(everin) + 1)
=============================================================================
