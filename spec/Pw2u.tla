------------------------------- MODULE Pw2u -------------------------------
(***************************************************************************)
(* X08 (beyond the listed properties): qmail-pw2u(8) "reads a V7-format    *)
(* passwd file and prints a qmail-users assignment file ... By default,    *)
(* qmail-pw2u follows the same rules as qmail-getpw": it skips a user if   *)
(* (1) the uid is zero, (2) the home does not exist, (3) the user does not *)
(* own the home, (4) the name contains upper-case letters; every other     *)
(* user controls  user  and  user-anything; a catch-all user, alias,       *)
(* controls all other addresses.  users/include, exclude, mailnames,       *)
(* subusers change the rules; options -o -h -H (home), -u -U (upper case), *)
(* -c -C (break character), -/ (dash).                                     *)
(*                                                                         *)
(* Table(db, o, c) is the assignment file as a sequence of entries of      *)
(* Users.tla ([w, loc, user, uid, gid, home, dash, ext]); the theorem that *)
(* matters - checked by Pw2uModel - is that with the default rules looking *)
(* an address up in that table (Users!Assign, which C11 binds to           *)
(* qmail-newu + qmail-lspawn) gives what qmail-getpw gives (Users!GetPw).  *)
(*                                                                         *)
(* db: accounts [name, uid, gid, home, own] in passwd order (own = uid of  *)
(* the owner of the home, -1: no such directory).                          *)
(* o = [hs, noupper, brk, slash]: hs 2 skip / 1 stop / 0 ignore homes;     *)
(* brk = the break byte, 0 for none.                                       *)
(* c = [hasincl, incl, hasexcl, excl, mana, subs]: mana a sequence of      *)
(* [user, names], subs a sequence of [sub, user, pre].                     *)
(* Where the manual is silent the code's reading is taken and said so:     *)
(* names in include / exclude / mailnames / subusers compare without       *)
(* regard to case (constmap).                                              *)
(***************************************************************************)
EXTENDS Users

HasUpper(n) == \E i \in 1..Len(n) : n[i] >= 65 /\ n[i] <= 90
InNames(n, S) == \E x \in S : LowerS(x) = LowerS(n)
\* the filters in the order the program applies them; an account that passes them all but has no home stops the program under -h
Passes(a, o, c) == /\ a.uid # 0
                   /\ (o.noupper => ~HasUpper(a.name))
                   /\ (c.hasincl => InNames(a.name, c.incl))
                   /\ (c.hasexcl => ~InNames(a.name, c.excl))
Kept(a, o, c) == Passes(a, o, c) /\ (o.hs = 0 \/ a.own = a.uid)
StopsAtHome(db, o, c) == o.hs = 1 /\ \E i \in 1..Len(db) : Passes(db[i], o, c) /\ db[i].own = -1

Dash(o) == IF o.slash THEN <<45, 47>> ELSE <<45>>
MailNames(a, c) ==
  LET S == {i \in 1..Len(c.mana) : LowerS(c.mana[i].user) = LowerS(a.name)}
  IN IF S = {} THEN <<a.name>> ELSE SelectSeq(c.mana[MinOf(S)].names, LAMBDA n : n # <<>>)
E0(w, loc, a, dash, ext) == [w |-> w, loc |-> loc, user |-> a.name, uid |-> a.uid, gid |-> a.gid, home |-> a.home, dash |-> dash, ext |-> ext]
\* what one account contributes
AcctEntries(a, alias, o, c) ==
  LET names == MailNames(a, c)
      per(n) == <<E0(0, n, a, <<>>, <<>>)>> \o (IF o.brk # 0 THEN <<E0(1, n \o <<o.brk>>, a, Dash(o), <<>>)>> ELSE <<>>)
      F[k \in 0..Len(names)] == IF k = 0 THEN <<>> ELSE F[k - 1] \o per(names[k])
  IN (IF a.name = alias THEN <<E0(1, <<>>, a, Dash(o), <<>>)>> ELSE <<>>) \o F[Len(names)]
KeptAcct(db, o, c, name) ==           \* the kept account a subuser line names (0: none)
  LET S == {i \in 1..Len(db) : Kept(db[i], o, c) /\ LowerS(db[i].name) = LowerS(name)} IN IF S = {} THEN 0 ELSE MaxOf(S)
SubEntries(s, a, o) ==
  <<E0(0, s.sub, a, Dash(o), s.pre)>> \o (IF o.brk # 0 THEN <<E0(1, s.sub \o <<o.brk>>, a, Dash(o), s.pre \o <<45>>)>> ELSE <<>>)
Table(db, alias, o, c) ==
  LET A[k \in 0..Len(db)] == IF k = 0 THEN <<>> ELSE A[k - 1] \o (IF Kept(db[k], o, c) THEN AcctEntries(db[k], alias, o, c) ELSE <<>>)
      S[k \in 0..Len(c.subs)] == IF k = 0 THEN <<>> ELSE S[k - 1] \o SubEntries(c.subs[k], db[KeptAcct(db, o, c, c.subs[k].user)], o)
  IN A[Len(db)] \o S[Len(c.subs)]
\* exit status: 111 when an account that passes the filters has no home under -h, when the alias user is not among the accounts
\* kept, or when a subuser line names a user that is not; else 0
Fails(db, alias, o, c) ==
  \/ StopsAtHome(db, o, c)
  \/ ~\E i \in 1..Len(db) : Kept(db[i], o, c) /\ db[i].name = alias
  \/ \E k \in 1..Len(c.subs) : KeptAcct(db, o, c, c.subs[k].user) = 0
Default == [hs |-> 2, noupper |-> TRUE, brk |-> 45, slash |-> FALSE]
NoFiles == [hasincl |-> FALSE, incl |-> {}, hasexcl |-> FALSE, excl |-> {}, mana |-> <<>>, subs |-> <<>>]

\* "the same rules as qmail-getpw" for one address (names shorter than qmail-getpw's 32-byte limit, distinct account names)
SameAsGetPw(db, alias, local) ==
  LET t == Table(db, alias, Default, NoFiles)
      a == Assign(t, local)
      g == GetPw(db, {}, alias, local, 45, 32)
  IN a.found /\ g.kind = "id" /\ a.id = g.id

\* who controls an address when the files are in play (E for mailnames / subusers, stated on the lookup, not on the lines):
\*   user is reachable under its own name only if it has no mailnames line or lists itself
OwnNameDropped(db, alias, o, c, k) ==
  LET a == db[k]
      listed == \E n \in Range(MailNames(a, c)) : LowerS(n) = LowerS(a.name)
      r == Assign(Table(db, alias, o, c), a.name)
  IN (Kept(a, o, c) /\ ~listed /\ ~\E j \in 1..Len(db) : j # k /\ Kept(db[j], o, c) /\ \E n \in Range(MailNames(db[j], c)) : LowerS(n) = LowerS(a.name))
       => (r.found => r.id.user # a.name \/ a.name = alias \/ \E s \in Range(c.subs) : LowerS(s.sub) = LowerS(a.name))
=============================================================================
