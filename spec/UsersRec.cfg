SPECIFICATION Spec
INVARIANT Inv
