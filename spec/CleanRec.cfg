SPECIFICATION Spec
INVARIANT Inv
