----------------------------- MODULE DotCmdModel -----------------------------
(* every helper x program behaviour x queue answer x set of environment variables x preline options: P agrees with E *)
EXTENDS DotCmd, TLC
VARIABLES tool, prog, qq, has, fl, res
Vars == {"SENDER", "NEWSENDER", "DTLINE", "UFLINE", "RPLINE"}
Init == tool \in Tools /\ prog \in Progs /\ qq \in {"ok", "temp", "perm"} /\ has \in SUBSET Vars /\ fl \in SUBSET {"f", "r", "d"} /\ res = [st |-> "init"]
Run == res.st = "init" /\ res' = [st |-> "done", r |-> ToolP(tool, prog, qq, has, fl)] /\ UNCHANGED <<tool, prog, qq, has, fl>>
Spec == Init /\ [][Run]_<<tool, prog, qq, has, fl, res>>
AsDocumented == res.st = "done" => Agrees(Expected(tool, prog, qq, has, fl), res.r)
\* sanity (must be violated): some run ends with 99
Never99 == res.st = "done" => res.r.exit # 99
=============================================================================
