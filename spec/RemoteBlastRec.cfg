SPECIFICATION Spec
INVARIANT Inv
