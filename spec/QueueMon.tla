------------------------------ MODULE QueueMon ------------------------------
(***************************************************************************)
(* Monitors of C01 over the file-system state (module FS) and the input    *)
(* handed to the injector.  All of them talk only about what is            *)
(* observable: directory entries, file contents as a reader (the delivery  *)
(* daemon, now or after a crash) would see them, the exit status.          *)
(***************************************************************************)
EXTENDS FS, SequencesExt

\* records of a NUL-separated byte string (no recursion: envelopes can be thousands of bytes long)
NulPos(s) == {i \in 1..Len(s) : s[i] = 0}
SplitNul(s) ==
  LET e == SetToSortSeq(NulPos(s), LAMBDA a, b : a < b)
  IN [recs |-> [k \in 1..Len(e) |-> SubSeq(s, (IF k = 1 THEN 1 ELSE e[k - 1] + 1), e[k] - 1)],
      tail |-> IF Len(e) = 0 THEN s ELSE SubSeq(s, e[Len(e)] + 1, Len(s))]

ReceivedPrefix == <<82,101,99,101,105,118,101,100,58,32,40,113,109,97,105,108,32>>     \* "Received: (qmail "
FirstLF(s) == IF \E k \in 1..Len(s) : s[k] = 10 THEN CHOOSE k \in 1..Len(s) : s[k] = 10 /\ \A j \in 1..(k - 1) : s[j] # 10 ELSE 0

\* "its own Received line followed by exactly the bytes supplied"
MessOk(content, input) ==
  LET k == FirstLF(content)
  IN /\ k > 0 /\ Len(content) >= Len(ReceivedPrefix) /\ SubSeq(content, 1, Len(ReceivedPrefix)) = ReceivedPrefix
     /\ SubSeq(content, k + 1, Len(content)) = input

\* "the complete envelope (sender and every recipient, in order)": the F and T records of the stored
\* envelope are exactly F sender, T rcpt1, ... ; other records (u<uid>, p<pid>, extra) are not constrained
EnvOk(content, sender, rcpts) ==
  LET sp == SplitNul(content)
      ft == SelectSeq(sp.recs, LAMBDA r : Len(r) > 0 /\ r[1] \in {70, 84})
  IN /\ sp.tail = <<>>
     /\ ft = <<<<70>> \o sender>> \o [k \in 1..Len(rcpts) |-> <<84>> \o rcpts[k]]

\* a message number is visible to the daemon once todo/n exists
Visible == InDir("todo")

\* all-or-nothing: whatever is visible is complete.  Evaluated in every state, including the states
\* right after a crash (FS!Crash replaces data by a post-crash image).
Atomic(input, sender, rcpts, valid) ==
  \A n \in Visible :
     /\ valid
     /\ Exists(P("mess", n)) /\ MessOk(Data(P("mess", n)), input)
     /\ EnvOk(Data(P("todo", n)), sender, rcpts)

\* leftovers are only in states the daemon garbage-collects: S2 (mess), S3 (mess+intd), or a complete S4
StateTable == \A n \in InDir("todo") \cup InDir("intd") : Exists(P("mess", n))
NameIsInode == \A t \in names : t[1].d \in {"mess"} => t[1].n = t[2]

\* success means durably queued: nothing of the visible message is still volatile
Durable(p) == files[InoOf(p)].disk = files[InoOf(p)].data
SuccessMeansQueued(exitc) ==
  exitc = 0 => \E n \in Visible : Durable(P("mess", n)) /\ Durable(P("todo", n))
=============================================================================
