SPECIFICATION Spec
INVARIANT Inv
