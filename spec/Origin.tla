------------------------------- MODULE Origin -------------------------------
(***************************************************************************)
(* X05 (beyond the listed properties): what the queue records about where  *)
(* a message came from - qmail-queue(8): "adds a Received line showing the *)
(* invoking uid or the name of the user (alias, the network daemons' user, *)
(* the bounce sender's user), its process id and the time"; the envelope   *)
(* file starts with the invoking uid and the process id (qmail-send logs   *)
(* them as "qp" and "uid", bounces and qmail-qread rely on them).          *)
(*                                                                         *)
(* ReceivedLine / MessFile / EnvelopeFile are the texts as qmail-queue(8)   *)
(* and INTERNALS describe them, over the calendar of Datetime.tla (whose    *)
(* arithmetic DatetimeModel checks against the Gregorian calendar); the     *)
(* class of the invoking uid is decided in the documented order (alias,     *)
(* network, bounce, any other uid by number).  There is no separate         *)
(* program layer: receivedfmt() is a straight concatenation.                *)
(***************************************************************************)
EXTENDS Datetime

RecvHead  == <<82,101,99,101,105,118,101,100,58,32,40,113,109,97,105,108,32>>          \* "Received: (qmail "
Invoked   == <<32,105,110,118,111,107,101,100,32>>                                      \* " invoked "
ByAlias   == <<98,121,32,97,108,105,97,115>>                                            \* "by alias"
FromNet   == <<102,114,111,109,32,110,101,116,119,111,114,107>>                         \* "from network"
ForBounce == <<102,111,114,32,98,111,117,110,99,101>>                                   \* "for bounce"
ByUid     == <<98,121,32,117,105,100,32>>                                               \* "by uid "

\* ---- E: who = the class of the invoking uid; ids = [alias, daemon, send]: the uids of the three special users
Who(uid, ids) == IF uid = ids.alias THEN "alias" ELSE IF uid = ids.daemon THEN "network" ELSE IF uid = ids.send THEN "bounce" ELSE "uid"
ReceivedLine(pid, uid, ids, day, tod) ==
  LET w == Who(uid, ids)
  IN RecvHead \o Dec(pid) \o Invoked
     \o (IF w = "alias" THEN ByAlias ELSE IF w = "network" THEN FromNet ELSE IF w = "bounce" THEN ForBounce ELSE ByUid \o Dec(uid))
     \o <<41, 59, 32>> \o DateText(DateP(day, tod)) \o <<10>>
\* the stored message is that line followed by exactly the bytes given
MessFile(pid, uid, ids, day, tod, msg) == ReceivedLine(pid, uid, ids, day, tod) \o msg
RECURSIVE Cat(_)
Cat(ss) == IF ss = <<>> THEN <<>> ELSE Head(ss) \o Cat(Tail(ss))
\* u<uid> NUL p<pid> NUL F<sender> NUL T<recipient> NUL ...
EnvelopeFile(pid, uid, sender, rcpts) ==
  <<117>> \o Dec(uid) \o <<0>> \o <<112>> \o Dec(pid) \o <<0>> \o <<70>> \o sender \o <<0>> \o Cat([i \in 1..Len(rcpts) |-> <<84>> \o rcpts[i] \o <<0>>])

OriginVerdict(r) ==
  IF r.exit # 0 THEN "ValidRequestRefused"
  ELSE IF r.mess # MessFile(r.pid, r.uid, r.ids, r.day, r.tod, r.msg) THEN
         (IF Len(r.mess) >= Len(r.msg) /\ SubSeq(r.mess, Len(r.mess) - Len(r.msg) + 1, Len(r.mess)) = r.msg THEN "ReceivedLineDoesNotTellWhoWhenOrWhichProcess" ELSE "StoredMessageIsNotTheLinePlusTheMessage")
  ELSE IF r.envf # EnvelopeFile(r.pid, r.uid, r.sender, r.rcpts) THEN "EnvelopeFileDoesNotRecordUidPidSenderRecipients"
  ELSE ""
=============================================================================
