------------------------------ MODULE Datetime ------------------------------
(***************************************************************************)
(* The calendar behind every time stamp the suite writes: the Date and     *)
(* Message-ID fields qmail-inject adds, the Received line of qmail-queue,  *)
(* the Date of a bounce (datetime.c datetime_tai, date822fmt.c,            *)
(* newfield.c).                                                            *)
(*                                                                         *)
(* E: the proleptic Gregorian calendar as an inductive definition: day 0   *)
(*    is Thursday 1 January 1970; NextDay / PrevDay step one day using     *)
(*    only the month lengths and the leap-year rule.                       *)
(* P: DateP(day, tod) - transcription of datetime_tai() after its first    *)
(*    step, SplitP(t) - that first step (C division truncates towards 0).  *)
(* Text: DateText / MsgidText - date822fmt() and newfield.c as byte        *)
(*    sequences.                                                           *)
(***************************************************************************)
EXTENDS Integers, Sequences

\* ---- E
Leap(y) == y % 4 = 0 /\ (y % 100 # 0 \/ y % 400 = 0)
MLen(y, m) == IF m = 1 THEN (IF Leap(y) THEN 29 ELSE 28) ELSE IF m \in {3, 5, 8, 10} THEN 30 ELSE 31      \* m = 0..11
YLen(y) == IF Leap(y) THEN 366 ELSE 365
Epoch == [day |-> 0, year |-> 1970, mon |-> 0, mday |-> 1, yday |-> 0, wday |-> 4]
NextDay(c) ==
  IF c.mday < MLen(c.year, c.mon) THEN [c EXCEPT !.day = @ + 1, !.mday = @ + 1, !.yday = @ + 1, !.wday = (@ + 1) % 7]
  ELSE IF c.mon < 11 THEN [c EXCEPT !.day = @ + 1, !.mon = @ + 1, !.mday = 1, !.yday = @ + 1, !.wday = (@ + 1) % 7]
  ELSE [c EXCEPT !.day = @ + 1, !.year = @ + 1, !.mon = 0, !.mday = 1, !.yday = 0, !.wday = (@ + 1) % 7]
PrevDay(c) ==
  IF c.mday > 1 THEN [c EXCEPT !.day = @ - 1, !.mday = @ - 1, !.yday = @ - 1, !.wday = (@ + 6) % 7]
  ELSE IF c.mon > 0 THEN [c EXCEPT !.day = @ - 1, !.mon = @ - 1, !.mday = MLen(c.year, c.mon - 1), !.yday = @ - 1, !.wday = (@ + 6) % 7]
  ELSE [c EXCEPT !.day = @ - 1, !.year = @ - 1, !.mon = 11, !.mday = 31, !.yday = YLen(c.year - 1) - 1, !.wday = (@ + 6) % 7]

\* ---- P (C arithmetic: / and % truncate towards zero)
CDiv(a, b) == IF a >= 0 THEN a \div b ELSE -((-a) \div b)
CMod(a, b) == a - b * CDiv(a, b)
SplitP(t) == LET tod0 == CMod(t, 86400)
                 day0 == CDiv(t, 86400)
             IN IF tod0 < 0 THEN [tod |-> tod0 + 86400, day |-> day0 - 1] ELSE [tod |-> tod0, day |-> day0]
DateP(day0, tod) ==
  LET hour == tod \div 3600
      min  == (tod % 3600) \div 60
      sec  == (tod % 3600) % 60
      wd0  == CMod(day0 + 4, 7)
      wday == IF wd0 < 0 THEN wd0 + 7 ELSE wd0
      d1   == day0 - 11017                                  \* day 0 is march 1, 2000
      y1   == 5 + CDiv(d1, 146097)
      d2a  == CMod(d1, 146097)
      y2   == IF d2a < 0 THEN y1 - 1 ELSE y1
      d2   == IF d2a < 0 THEN d2a + 146097 ELSE d2a
      y3   == y2 * 4
      y4   == IF d2 = 146096 THEN y3 + 3 ELSE y3 + d2 \div 36524
      d4   == IF d2 = 146096 THEN 36524 ELSE d2 % 36524
      y5   == y4 * 25 + d4 \div 1461
      d5   == d4 % 1461
      y6   == y5 * 4
      yd0  == IF d5 < 306 THEN 1 ELSE 0
      y7   == IF d5 = 1460 THEN y6 + 3 ELSE y6 + d5 \div 365
      d7   == IF d5 = 1460 THEN 365 ELSE d5 % 365
      yd1  == yd0 + d7
      d8   == d7 * 10
      mon0 == (d8 + 5) \div 306
      d9   == (d8 + 5 - 306 * mon0) \div 10
  IN IF mon0 >= 10 THEN [year |-> y7 + 1, mon |-> mon0 - 10, mday |-> d9 + 1, yday |-> yd1 - 306, wday |-> wday, hour |-> hour, min |-> min, sec |-> sec]
     ELSE [year |-> y7, mon |-> mon0 + 2, mday |-> d9 + 1, yday |-> yd1 + 59, wday |-> wday, hour |-> hour, min |-> min, sec |-> sec]
\* what the calendar says for (calendar state, second of the day)
DateE(c, tod) == [year |-> c.year, mon |-> c.mon, mday |-> c.mday, yday |-> c.yday, wday |-> c.wday,
                  hour |-> tod \div 3600, min |-> (tod % 3600) \div 60, sec |-> tod % 60]

\* ---- text forms (bytes)
RECURSIVE Dec(_)
Dec(n) == IF n < 10 THEN <<48 + n>> ELSE Dec(n \div 10) \o <<48 + (n % 10)>>
Dec2(n) == <<48 + ((n \div 10) % 10), 48 + (n % 10)>>          \* fmt_uint0(s, n, 2) for n < 100
MonText == << <<74,97,110>>, <<70,101,98>>, <<77,97,114>>, <<65,112,114>>, <<77,97,121>>, <<74,117,110>>,
              <<74,117,108>>, <<65,117,103>>, <<83,101,112>>, <<79,99,116>>, <<78,111,118>>, <<68,101,99>> >>
\* "26 Sep 1995 04:46:53 -0000"
DateText(d) == Dec(d.mday) \o <<32>> \o MonText[d.mon + 1] \o <<32>> \o Dec(d.year) \o <<32>> \o Dec2(d.hour) \o <<58>> \o Dec2(d.min) \o <<58>> \o Dec2(d.sec)
                 \o <<32, 45, 48, 48, 48, 48>>
\* "<19950926044653.12345.qmail@host>"
MsgidText(d, pid, host) == <<60>> \o Dec(d.year) \o Dec2(d.mon + 1) \o Dec2(d.mday) \o Dec2(d.hour) \o Dec2(d.min) \o Dec2(d.sec) \o <<46>> \o Dec(pid)
                             \o <<46, 113, 109, 97, 105, 108, 64>> \o host \o <<62>>
=============================================================================
