------------------------------ MODULE TcptoRec ------------------------------
(***************************************************************************)
(* Record validator (T): calls of the real tcpto() / tcpto_err() on a      *)
(* table file (kind "l" / "e") and runs of the real qmail-remote against   *)
(* a prepared table under the virtual clock (kind "r"), compared with the  *)
(* transcription in Tcpto.tla.                                             *)
(***************************************************************************)
EXTENDS Tcpto, Json, IOUtils, TLC
Recs  == ndJsonDeserialize(IOEnv.RECORDS)
Chunk == atoi(IOEnv.CHUNK)
N     == Len(Recs)
NCh   == (N + Chunk - 1) \div Chunk
G     == 16
VARIABLES g, k
Init == g = 0 /\ k = 0
Next == \/ g = 0 /\ g' \in 1..G /\ k' = 0
        \/ g > 0 /\ k = 0 /\ k' \in {c \in 1..NCh : c % G = g - 1} /\ g' = g
Spec == Init /\ [][Next]_<<g, k>>

Tab(t) == [i \in 1..Len(t) |-> [ip |-> t[i][1], f |-> t[i][2], w |-> t[i][3]]]
Verdict(r) ==
  CASE r.kind = "l" -> LET x == LookupP(Tab(r.tab), r.ip, r.now, r.pidbits)
                       IN IF x.skip # r.skip THEN (IF r.skip = 1 THEN "HealthyAddressSkipped" ELSE "TimedOutAddressNotSkipped")
                          ELSE IF x.was # r.was THEN "WasThereFlagWrong" ELSE IF Tab(r.after) # Tab(r.tab) THEN "LookupChangedTheTable" ELSE ""
    [] r.kind = "e" -> LET x == ErrP(Tab(r.tab), r.was, r.ip, r.flagerr, r.now)
                       IN IF x = Tab(r.after) THEN ""
                          ELSE IF \E i \in 1..Len(x) : x[i] # Tab(r.after)[i] /\ Tab(r.after)[i] # Tab(r.tab)[i] /\ Tab(r.tab)[i].ip # r.ip /\ x[i] = Tab(r.tab)[i]
                               THEN "ForeignSlotOverwritten" ELSE "TableUpdateWrong"
    [] r.kind = "r" -> \* a run of qmail-remote to one address: outcome = what the (scripted / faulted) connect did
                       LET x == AttemptP(Tab(r.tab), r.ip, r.now, r.pidbits, r.outcome)
                       IN IF r.skipped # -1 /\ x.skipped # r.skipped THEN (IF r.skipped = 1 THEN "HealthyAddressSkipped" ELSE "TimedOutAddressNotSkipped")     \* (-1: not observable, no server)
                          ELSE IF x.tab # Tab(r.after) THEN "TableUpdateWrong"
                          ELSE IF x.skipped = 1 /\ r.mr # "Z" THEN "SkippedAddressNotTemporaryFailure"
                          ELSE IF r.outcome # "ok" /\ r.mr # "Z" THEN "ConnectTroubleNotTemporaryFailure"
                          ELSE ""
    [] OTHER -> "UnknownRecord"
CheckChunk(c) ==
  LET lo == (c - 1) * Chunk + 1
      hi == IF c * Chunk < N THEN c * Chunk ELSE N
  IN /\ \A i \in lo..hi : LET v == Verdict(Recs[i]) IN v = "" \/ PrintT(<<"BADREC", i, v>>)
     /\ PrintT(<<"CHECKED", lo, hi>>)
Inv == k = 0 \/ CheckChunk(k)
=============================================================================
