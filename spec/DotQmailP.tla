----------------------------- MODULE DotQmailP -----------------------------
(***************************************************************************)
(* Program layer (P) for C13: a transcription of qmail-local.c main() -    *)
(* checkhome, the Delivered-To / Return-Path lines (with quote.c), the     *)
(* loop test bouncexf, qmesearch / qmeexists, the -owner test, slurping    *)
(* the file, the instruction loop over the raw bytes (indices i, j, k as   *)
(* in the C text), forwarding - one action per step, composed with an      *)
(* environment that supplies every case of a bounded domain (Cases).       *)
(* Invariant: when the program has exited, the monitor of the documents    *)
(* (Judge of DotQmail) accepts what it did; and the file the search loop   *)
(* settled on is the one the declarative Search names.                     *)
(*                                                                         *)
(* Model world: programs p0..p6 exit 0, 99, 100, 111, 64, 1, crash; files  *)
(* ./m1 .. ./m8 can be appended to, ./d1/ is a maildir, ./x/m has no       *)
(* directory.  Three slices of the input space (constant Slice), each      *)
(* exhaustive in its own dimensions:                                       *)
(*   "S" every home over 6 .qmail names x 4 kinds (Big: 7 x 4 and 6 x 5) x 10 extensions *)
(*   "I" every .qmail body of up to 3 (Big: 4) lines of the grammar, with  *)
(*       and without x bit, with and without -n                            *)
(*   "H" home modes x loop messages x hostile senders / recipients x owner *)
(***************************************************************************)
EXTENDS DotQmail, TLC
CONSTANTS Slice, Big

B_u == <<117>>
B_host == <<104,46,116>>                 \* "h.t"
B_sender == <<115,64,116>>               \* "s@t"
Prog(k) == <<112, 48 + k>>               \* "pk"
MFile(k) == <<46,47,109, 48 + k>>        \* "./mk"
B_d1s == <<46,47,100,49,47>>             \* "./d1/"
B_d1  == <<46,47,100,49>>                \* "./d1"
B_m1s == <<46,47,109,49,47>>             \* "./m1/"
B_xm  == <<46,47,120,47,109>>            \* "./x/m"
ModelProgs == << [cmd |-> Prog(0), id |-> 1, ex |-> 0],   [cmd |-> Prog(1), id |-> 2, ex |-> 99], [cmd |-> Prog(2), id |-> 3, ex |-> 100],
                 [cmd |-> Prog(3), id |-> 4, ex |-> 111], [cmd |-> Prog(4), id |-> 5, ex |-> 64], [cmd |-> Prog(5), id |-> 6, ex |-> 1],
                 [cmd |-> Prog(6), id |-> 7, ex |-> -1] >>
ModelTgts == [k \in 1..8 |-> [path |-> MFile(k), ix |-> k, what |-> "file"]]
             \o << [path |-> B_d1s, ix |-> 9, what |-> "maildir"], [path |-> B_d1, ix |-> 9, what |-> "maildir"],
                   [path |-> B_m1s, ix |-> 1, what |-> "file"], [path |-> B_xm, ix |-> 0, what |-> "nodir"] >>
NT == 9
Msg0 == <<72,58,120,10,10,98,10>>        \* "H:x\n\nb\n"

MkCase(n, hmode, files, dash, ext, local, sender, dflt, msg) ==
  [n |-> n, hmode |-> hmode, files |-> files, dash |-> dash, ext |-> ext, local |-> local, host |-> B_host,
   sender |-> sender, dflt |-> dflt, msg |-> msg, progs |-> ModelProgs, tgts |-> ModelTgts, nt |-> NT]

JoinLF(ls) == FlattenSeq([k \in 1..Len(ls) |-> ls[k] \o <<LF>>])

\* ---- slice S: which file
Q(s) == S_DOTQMAIL \o s
SNames == << Q(<<>>), Q(<<45,97>>), Q(<<45,97,45>> \o S_DEFAULT), Q(<<45>> \o S_DEFAULT), Q(<<45,97,45,98>>), Q(<<45,97,58,98>>) >>
          \o (IF Big THEN << Q(<<45,97,45,98,45>> \o S_DEFAULT) >> ELSE <<>>)
SKinds == {"absent", "r600", "r602", "dir"}
SFile(k, kind) == [nm |-> SNames[k], kind |-> (IF kind = "dir" THEN "dir" ELSE "reg"),
                   mode |-> (CASE kind = "r600" -> 384 [] kind = "r602" -> 386 [] kind = "r700" -> 448 [] OTHER -> 493),
                   body |-> (IF kind = "dir" THEN <<>> ELSE MFile(k) \o <<LF>>)]
SHomesOver(nn, kinds) == { LET P == Asc({k \in 1..nn : ch[k] # "absent"}) IN [j \in 1..Len(P) |-> SFile(P[j], ch[P[j]])]
                           : ch \in [1..nn -> kinds] }
SHomes == IF Big THEN SHomesOver(7, SKinds) \cup SHomesOver(6, SKinds \cup {"r700"}) ELSE SHomesOver(6, SKinds)
D_ == <<45>>
SExts == { << <<>>, <<>> >>, << D_, <<>> >>, << D_, <<97>> >>, << D_, <<97,45,98>> >>, << D_, <<97,45,98,45,99>> >>, << D_, <<65>> >>,
           << D_, <<97,46,98>> >>, << D_, <<97,47,98>> >>, << D_, <<97,45>> >>, << D_, <<45>> >> }
Cases_S == { MkCase(0, 493, h, de[1], de[2], B_u \o de[1] \o de[2], B_sender, MFile(8) \o <<LF>>, Msg0) : h \in SHomes, de \in SExts }

\* ---- slice I: which instructions
ILines == { <<35,99>>, <<>>, <<124>> \o Prog(0), <<124>> \o Prog(1) \o <<32>>, <<124>> \o Prog(2), <<124>> \o Prog(3), <<124>> \o Prog(4),
            <<124>> \o Prog(6), MFile(1), B_d1s \o <<9>>, <<38,102,64,120>>, <<103,64,121>>, S_LIST, B_d1 }
IBodies == LET n == IF Big THEN 4 ELSE 3
           IN UNION { { JoinLF(ls) : ls \in [1..k -> ILines] } : k \in 1..n }
              \cup { MFile(1), <<124>> \o Prog(1) \o <<LF>> \o MFile(2), <<38,102,64,120,32,9>> }          \* last line not terminated
              \cup { <<>> }                                                                                  \* completely empty: defaultdelivery, x bit or not
Cases_I == { MkCase(n, 493, << [nm |-> Q(<<>>), kind |-> "reg", mode |-> m, body |-> b] >>, <<>>, <<>>, B_u, B_sender, MFile(8), Msg0)
             : n \in {0, 1}, m \in {384, 448}, b \in IBodies }

\* ---- slice H: unsafe homes, loops, hostile addresses, owner
HBody == JoinLF(<< MFile(1), <<124>> \o Prog(0), <<38,102,64,120>>, B_d1s, <<103,64,121>> >>)
HFiles == { << [nm |-> Q(<<>>), kind |-> "reg", mode |-> m, body |-> HBody] >> \o ow
            : m \in {384, 400, 386},
              ow \in { <<>>, << [nm |-> Q(S_OWNER), kind |-> "reg", mode |-> 384, body |-> <<>>] >>,
                       << [nm |-> Q(S_OWNER), kind |-> "dir", mode |-> 493, body |-> <<>>], [nm |-> Q(S_OWNERDEF), kind |-> "reg", mode |-> 384, body |-> <<>>] >> } }
HLocals == { B_u, <<117,10,88,58,121>> }                                   \* "u", "u\nX:y"
HSenders == { B_sender, <<>>, S_NULLB, <<97,32,98,64,116>>, <<97,10,88,58,121,64,116>>, <<97,34,98,64,116>>, <<10>>, <<46,97,64,116>> }
DtOf(local) == S_DT \o local \o <<64>> \o B_host \o <<LF>>
HMsgs(local) == { Msg0,
                  <<72,58,120,10>> \o DtOf(local) \o <<10,98,10>>,            \* own line, last of the header
                  DtOf(local) \o <<72,58,120,10,10,98,10>>,                  \* own line, first of the header
                  <<72,58,120,10,10>> \o DtOf(local),                        \* own line in the body only
                  <<72,58,120,10>> \o S_DT \o local \o <<64>> \o B_host \o <<120,LF,LF>>,   \* longer address
                  <<72,58,120,10,10,98>> }                                   \* last line not terminated
Cases_H == { MkCase(n, hm, f, <<>>, <<>>, l, s, MFile(8), m)
             : n \in {0, 1}, hm \in {493, 509, 1005, 495, 448}, f \in HFiles, l \in HLocals, s \in HSenders, m \in HMsgs(B_u) \cup HMsgs(<<117,10,88,58,121>>) }

\* ---- slice T: hand-computed test vectors (unit tests of P and of the monitor itself, see UnitTests / MonitorRejects)
\* want = <<exit status, programs run, queue runs, messages stored>>
TQ(mode, body) == << [nm |-> Q(<<>>), kind |-> "reg", mode |-> mode, body |-> body] >>
TCase(n, hmode, files, dash, ext, local, sender, msg, want) ==
  MkCase(n, hmode, files, dash, ext, local, sender, MFile(8), msg) @@ [want |-> want]
\* (a fifth component 0 in want: the documents ask for "a failure" only, bounce and deferral both pass)
Cases_T == {
  TCase(0, 493, TQ(384, HBody), <<>>, <<>>, B_u, B_sender, Msg0, <<0, 1, 1, 2>>),
  TCase(1, 493, TQ(384, HBody), <<>>, <<>>, B_u, B_sender, Msg0, <<0, 0, 0, 0>>),
  TCase(0, 1005, TQ(384, HBody), <<>>, <<>>, B_u, B_sender, Msg0, <<111, 0, 0, 0>>),                        \* sticky home
  TCase(0, 495, TQ(384, HBody), <<>>, <<>>, B_u, B_sender, Msg0, <<111, 0, 0, 0>>),                         \* home writable by others
  TCase(0, 493, TQ(386, HBody), <<>>, <<>>, B_u, B_sender, Msg0, <<111, 0, 0, 0>>),                         \* .qmail writable by others
  TCase(0, 493, TQ(384, HBody), <<>>, <<>>, B_u, B_sender, DtOf(B_u) \o Msg0, <<100, 0, 0, 0>>),            \* loop
  TCase(0, 493, TQ(384, HBody), <<>>, <<>>, B_u, B_sender, <<72,58,120,10,10>> \o DtOf(B_u), <<0, 1, 1, 2>>),   \* the line in the body is no loop
  TCase(0, 493, << [nm |-> Q(<<45,97,45>> \o S_DEFAULT), kind |-> "reg", mode |-> 384, body |-> MFile(3)] >>, D_, <<65,45,98>>, B_u, B_sender, Msg0, <<0, 0, 0, 1>>),
  TCase(0, 493, << [nm |-> Q(<<45,97,45>> \o S_DEFAULT), kind |-> "reg", mode |-> 384, body |-> MFile(3)] >>, D_, <<120>>, B_u, B_sender, Msg0, <<100, 0, 0, 0>>),
  TCase(0, 493, <<>>, <<>>, <<>>, B_u, B_sender, Msg0, <<0, 0, 0, 1>>),                                      \* no .qmail: defaultdelivery
  TCase(0, 493, TQ(448, <<124>> \o Prog(0)), <<>>, <<>>, B_u, B_sender, Msg0, <<111, 0, 0, 0>>),             \* x bit and a program
  TCase(0, 493, TQ(448, <<>>), <<>>, <<>>, B_u, B_sender, Msg0, <<0, 0, 0, 1>>),                             \* x bit, empty: defaultdelivery
  TCase(0, 493, TQ(384, JoinLF(<< <<38,102,64,120>>, <<124>> \o Prog(1), MFile(1) >>)), <<>>, <<>>, B_u, B_sender, Msg0, <<0, 1, 1, 0>>),   \* 99
  TCase(0, 493, TQ(384, JoinLF(<< <<38,102,64,120>>, <<124>> \o Prog(2), MFile(1) >>)), <<>>, <<>>, B_u, B_sender, Msg0, <<100, 1, 0, 0>>), \* 100
  TCase(0, 493, TQ(384, JoinLF(<< MFile(1), <<124>> \o Prog(4), <<38,102,64,120>> >>)), <<>>, <<>>, B_u, B_sender, Msg0, <<100, 1, 0, 1>>), \* 64
  TCase(0, 493, TQ(384, JoinLF(<< MFile(1), <<124>> \o Prog(5), <<38,102,64,120>> >>)), <<>>, <<>>, B_u, B_sender, Msg0, <<111, 1, 0, 1>>), \* 1
  TCase(0, 493, TQ(384, JoinLF(<< <<>>, MFile(1) >>)), <<>>, <<>>, B_u, B_sender, Msg0, <<111, 0, 0, 0, 0>>),   \* first line blank
  TCase(0, 493, TQ(384, JoinLF(<< MFile(1), S_LIST, B_d1s >>)), <<>>, <<>>, B_u, B_sender, Msg0, <<111, 0, 0, 1>>),
  TCase(0, 493, TQ(384, HBody), <<>>, <<>>, <<117,10,88,58,121>>, <<97,10,88,58,121,64,116>>, Msg0, <<0, 1, 1, 2>>) }   \* line feeds in both addresses

Cases == CASE Slice = "S" -> Cases_S [] Slice = "I" -> Cases_I [] Slice = "H" -> Cases_H [] Slice = "T" -> Cases_T

(***************************************************************************)
(* The program.                                                            *)
(***************************************************************************)
VARIABLES c, pc, i, sel, fo, f99, cmds, ev, cnt, dl, fw, plan, rc, dtline, rpline, ufline, ueo
vars == <<c, pc, i, sel, fo, f99, cmds, ev, cnt, dl, fw, plan, rc, dtline, rpline, ufline, ueo>>

doit == c.n = 0
safeext == SafeExt(c.ext)            \* case_lowerb + '.' -> ':' (the transcription of these two loops *is* SafeExt)

Init == /\ c \in Cases /\ pc = "checkhome" /\ i = 0 /\ sel = 0 /\ fo = FALSE /\ f99 = FALSE /\ cmds = <<>> /\ ev = <<>>
        /\ cnt = [x \in 1..NT |-> 0] /\ dl = <<>> /\ fw = <<>> /\ plan = <<>> /\ rc = -1
        /\ dtline = <<>> /\ rpline = <<>> /\ ufline = <<>> /\ ueo = <<>>

Die(code) == pc' = "exit" /\ rc' = code
Goto(l) == pc' = l /\ rc' = rc

\* checkhome(): auto_patrn = 002
CheckHome ==
  /\ pc = "checkhome"
  /\ IF Bit(c.hmode, 2) THEN Die(111)
     ELSE IF Bit(c.hmode, 512) /\ doit THEN Die(111)
     ELSE Goto("dtline")
  /\ UNCHANGED <<c, i, sel, fo, f99, cmds, ev, cnt, dl, fw, plan, dtline, rpline, ufline, ueo>>

NoLF(s) == [k \in 1..Len(s) |-> IF s[k] = LF THEN 95 ELSE s[k]]
MkDtline ==
  /\ pc = "dtline"
  /\ dtline' = NoLF(S_DT \o c.local \o <<64>> \o c.host) \o <<LF>>
  /\ i' = 0
  /\ Goto(IF doit THEN "bouncexf" ELSE "rpline")
  /\ UNCHANGED <<c, sel, fo, f99, cmds, ev, cnt, dl, fw, plan, rpline, ufline, ueo>>

\* bouncexf(): one getln per step; i = bytes of the message consumed
Bouncexf ==
  /\ pc = "bouncexf"
  /\ LET P == {p \in (i + 1)..Len(c.msg) : c.msg[p] = LF} IN
     IF P = {} THEN Goto("rpline") /\ i' = i                                     \* !match
     ELSE LET p == MinOf(P)
              line == SubSeq(c.msg, i + 1, p)
          IN IF Len(line) <= 1 THEN Goto("rpline") /\ i' = i
             ELSE IF Len(line) = Len(dtline) /\ line = dtline THEN Die(100) /\ i' = i
             ELSE Goto("bouncexf") /\ i' = p
  /\ UNCHANGED <<c, sel, fo, f99, cmds, ev, cnt, dl, fw, plan, dtline, rpline, ufline, ueo>>

\* quote.c
OkBytes == {33} \cup 35..39 \cup {42, 43} \cup 45..57 \cup {61, 63} \cup 65..90 \cup 94..126
QuoteNeed(s) == \/ Len(s) = 0
                \/ \E k \in 1..Len(s) : s[k] \notin OkBytes
                \/ s[1] = 46 \/ s[Len(s)] = 46
                \/ \E k \in 1..(Len(s) - 1) : s[k] = 46 /\ s[k + 1] = 46
QuoteDoit(s) == <<34>> \o FlattenSeq([k \in 1..Len(s) |-> IF s[k] \in {13, 10, 34, 92} THEN <<92, s[k]>> ELSE <<s[k]>>]) \o <<34>>
Quote(s) == IF QuoteNeed(s) THEN QuoteDoit(s) ELSE s
Quote2(s) == IF s = <<>> THEN <<>>
             ELSE LET A == {k \in 1..Len(s) : s[k] = 64} IN
                  IF A = {} THEN Quote(s)
                  ELSE Quote(SubSeq(s, 1, MaxOf(A) - 1)) \o SubSeq(s, MaxOf(A), Len(s))
MkRpline ==
  /\ pc = "rpline"
  /\ rpline' = NoLF(S_RP \o Quote2(c.sender)) \o <<62, LF>>
  /\ ufline' = S_FROM \o (IF c.sender # <<>> THEN [k \in 1..Len(c.sender) |-> IF c.sender[k] \in {32, 9, 10} THEN 45 ELSE c.sender[k]]
                          ELSE <<77,65,73,76,69,82,45,68,65,69,77,79,78>>) \o <<32, 84, LF>>       \* ctime stands as "T"
  /\ Goto("search")
  /\ UNCHANGED <<c, i, sel, fo, f99, cmds, ev, cnt, dl, fw, plan, dtline, ueo>>

\* qmeexists(): "die" (writable), "yes", "no"
QmeExists(nm) ==
  LET f == FileIx(c.files, nm) IN
  IF f = 0 THEN "no"                                            \* open fails, ENOENT
  ELSE IF c.files[f].kind = "reg" THEN (IF Bit(c.files[f].mode, 2) THEN "die" ELSE "yes")
  ELSE "no"
Found(nm) == /\ sel' = FileIx(c.files, nm) /\ fo' = Bit(c.files[FileIx(c.files, nm)].mode, 64) /\ Goto("owner")

\* qmesearch(), first probe
Search0 ==
  /\ pc = "search"
  /\ LET nm == S_DOTQMAIL \o c.dash \o safeext
         r  == QmeExists(nm)
     IN IF r = "die" THEN Die(111) /\ UNCHANGED <<sel, fo, i>>
        ELSE IF r = "yes" THEN Found(nm) /\ i' = i
        ELSE Goto("defaults") /\ i' = Len(safeext) /\ UNCHANGED <<sel, fo>>
  /\ UNCHANGED <<c, f99, cmds, ev, cnt, dl, fw, plan, dtline, rpline, ufline, ueo>>

\* for (i = safeext.len; i >= 0; --i) if (!i || safeext.s[i-1] == '-') ...
Defaults ==
  /\ pc = "defaults"
  /\ IF i < 0 THEN /\ sel' = 0 /\ i' = i /\ fo' = fo
                   /\ IF c.dash # <<>> THEN Die(100) ELSE Goto("owner")
     ELSE IF i = 0 \/ safeext[i] = 45
       THEN LET nm == S_DOTQMAIL \o c.dash \o SubSeq(safeext, 1, i) \o S_DEFAULT
                r  == QmeExists(nm)
            IN IF r = "die" THEN Die(111) /\ UNCHANGED <<sel, fo, i>>
               ELSE IF r = "yes" THEN Found(nm) /\ i' = i
               ELSE Goto("defaults") /\ i' = i - 1 /\ UNCHANGED <<sel, fo>>
     ELSE Goto("defaults") /\ i' = i - 1 /\ UNCHANGED <<sel, fo>>
  /\ UNCHANGED <<c, f99, cmds, ev, cnt, dl, fw, plan, dtline, rpline, ufline, ueo>>

\* qmeox("-owner"), qmeox("-owner-default"): stat() only
Owner ==
  /\ pc = "owner"
  /\ LET base == S_DOTQMAIL \o c.dash \o safeext IN
     ueo' = IF c.sender # <<>> /\ c.sender # S_NULLB /\ FileIx(c.files, base \o S_OWNER) # 0
              THEN (IF FileIx(c.files, base \o S_OWNERDEF) # 0 THEN c.local \o S_OWNERVERP \o c.host \o S_VERPEND
                    ELSE c.local \o S_OWNERAT \o c.host)
            ELSE c.sender
  /\ Goto("slurp")
  /\ UNCHANGED <<c, i, sel, fo, f99, cmds, ev, cnt, dl, fw, plan, dtline, rpline, ufline>>

Slurp ==
  /\ pc = "slurp"
  /\ LET a == IF sel # 0 THEN c.files[sel].body ELSE <<>>
         b == IF a = <<>> THEN c.dflt ELSE a
     IN /\ cmds' = IF b = <<>> \/ b[Len(b)] # LF THEN b \o <<LF>> ELSE b
        /\ fo' = IF a = <<>> THEN FALSE ELSE fo
  /\ i' = 0
  /\ Goto("line")
  /\ UNCHANGED <<c, sel, f99, ev, cnt, dl, fw, plan, dtline, rpline, ufline, ueo>>

\* the instruction loop: i = start of the line (0-based), j = its '\n', k = end after stripping blanks
Deliver(ty, fn) ==      \* maildir() / mailfile(): TRUE if the delivery works out in the model world
  LET t == TgtOf(c, fn) IN t # 0 /\ ((ty = "maildir" /\ c.tgts[t].what = "maildir") \/ (ty = "mbox" /\ c.tgts[t].what = "file"))
Copy(ty, fn) ==
  LET t == c.tgts[TgtOf(c, fn)]
      data == IF ty = "maildir" THEN rpline \o dtline \o c.msg
              ELSE ufline \o rpline \o dtline \o c.msg \o (IF c.msg # <<>> /\ c.msg[Len(c.msg)] # LF THEN <<LF>> ELSE <<>>) \o <<LF>>
  IN /\ dl' = Append(dl, [ix |-> t.ix, kind |-> ty, data |-> data])
     /\ cnt' = IF t.ix = 0 THEN cnt ELSE [cnt EXCEPT ![t.ix] = @ + 1]

Line ==
  /\ pc = "line"
  /\ IF f99 \/ i >= Len(cmds)
       THEN Goto("forward") /\ UNCHANGED <<i, fo, f99, ev, cnt, dl, fw, plan>>
     ELSE
       LET j == MinOf({p \in (i + 1)..Len(cmds) : cmds[p] = LF}) - 1          \* 0-based index of the '\n'
           K == {p \in (i + 1)..j : cmds[p] # 32 /\ cmds[p] # 9}
           kk == IF K = {} THEN i ELSE MaxOf(K)                                \* the C text's k: 0-based end (exclusive)
           l == SubSeq(cmds, i + 1, kk)
           first == IF kk = i THEN 0 ELSE cmds[i + 1]
           Next1 == i' = j + 1
       IN CASE first = 0 -> IF i # 0 THEN Next1 /\ Goto("line") /\ UNCHANGED <<fo, f99, ev, cnt, dl, fw, plan>>
                            ELSE Die(111) /\ UNCHANGED <<i, fo, f99, ev, cnt, dl, fw, plan>>
            [] first = 35 -> Next1 /\ Goto("line") /\ UNCHANGED <<fo, f99, ev, cnt, dl, fw, plan>>
            [] first \in {46, 47} ->
                 IF fo THEN Die(111) /\ UNCHANGED <<i, fo, f99, ev, cnt, dl, fw, plan>>
                 ELSE LET ty == IF cmds[kk] = 47 THEN "maildir" ELSE "mbox" IN
                      IF doit THEN (IF Deliver(ty, l) THEN Copy(ty, l) /\ Next1 /\ Goto("line") /\ UNCHANGED <<fo, f99, ev, fw, plan>>
                                    ELSE Die(111) /\ UNCHANGED <<i, fo, f99, ev, cnt, dl, fw, plan>>)
                      ELSE plan' = Append(plan, [t |-> ty, arg |-> l]) /\ Next1 /\ Goto("line") /\ UNCHANGED <<fo, f99, ev, cnt, dl, fw>>
            [] first = 124 ->
                 IF fo THEN Die(111) /\ UNCHANGED <<i, fo, f99, ev, cnt, dl, fw, plan>>
                 ELSE IF doit THEN
                   LET p == c.progs[ProgOf(c, Tail(l))]
                   IN /\ ev' = Append(ev, [k |-> "P", id |-> p.id, snap |-> cnt, inp |-> c.msg, from |-> <<>>, to |-> <<>>])
                      /\ UNCHANGED <<fo, cnt, dl, fw, plan>>
                      /\ IF p.ex \in {100, 64, 65, 70, 76, 77, 78, 112} THEN Die(100) /\ UNCHANGED <<i, f99>>
                         ELSE IF p.ex = 0 THEN Next1 /\ Goto("line") /\ UNCHANGED f99
                         ELSE IF p.ex = 99 THEN Next1 /\ Goto("line") /\ f99' = TRUE
                         ELSE Die(111) /\ UNCHANGED <<i, f99>>                 \* incl. wait_crashed
                 ELSE plan' = Append(plan, [t |-> "program", arg |-> Tail(l)]) /\ Next1 /\ Goto("line") /\ UNCHANGED <<fo, f99, ev, cnt, dl, fw>>
            [] first = 43 ->
                 /\ fo' = IF Tail(l) = <<108,105,115,116>> THEN TRUE ELSE fo
                 /\ Next1 /\ Goto("line") /\ UNCHANGED <<f99, ev, cnt, dl, fw, plan>>
            [] OTHER ->
                 LET a == IF first = 38 THEN Tail(l) ELSE l IN                 \* case '&': ++i
                 /\ IF doit THEN fw' = Append(fw, a) /\ plan' = plan ELSE plan' = Append(plan, [t |-> "forward", arg |-> a]) /\ fw' = fw
                 /\ Next1 /\ Goto("line") /\ UNCHANGED <<fo, f99, ev, cnt, dl>>
  /\ UNCHANGED <<c, sel, cmds, dtline, rpline, ufline, ueo>>

\* mailforward(): the queue program gets the Delivered-To line and the message; it succeeds in the model
Forward ==
  /\ pc = "forward"
  /\ ev' = IF fw # <<>> /\ doit
             THEN Append(ev, [k |-> "Q", id |-> 0, snap |-> cnt, inp |-> dtline \o c.msg, from |-> ueo, to |-> fw])
           ELSE ev
  /\ Die(0)
  /\ UNCHANGED <<c, i, sel, fo, f99, cmds, cnt, dl, fw, plan, dtline, rpline, ufline, ueo>>

Next == CheckHome \/ MkDtline \/ Bouncexf \/ MkRpline \/ Search0 \/ Defaults \/ Owner \/ Slurp \/ Line \/ Forward
Spec == Init /\ [][Next]_vars

Obs == [rc |-> rc, ev |-> ev, fin |-> cnt, dl |-> dl, pl |-> 1, plan |-> plan, dt |-> dtline, rp |-> rpline, stray |-> 0]

\* the monitors
Conforms == pc = "exit" => Judge(c, Obs) = ""
SearchAgrees == pc = "owner" => sel = Search(c)

\* slice T: the program arrives where the hand computation says, and the monitor is awake: an observation
\* falsified in its exit status, by a dropped event, a stray file, a lost message, or a smuggled header line is rejected
RECURSIVE SumSeq(_)
SumSeq(q) == IF q = <<>> THEN 0 ELSE Head(q) + SumSeq(Tail(q))
UnitTests == (Slice = "T" /\ pc = "exit") => <<rc, Len(PEv(Obs)), Len(QEv(Obs)), SumSeq(cnt)>> = SubSeq(c.want, 1, 4)
Inject(d) == [d EXCEPT !.data = SubSeq(@, 1, Len(@) - Len(c.msg)) \o <<88,58,121,10>> \o c.msg]
Wrong(o) == { [o EXCEPT !.rc = r] : r \in (IF Len(c.want) = 5 THEN {0} ELSE {0, 100, 111}) \ {o.rc} }
            \cup { [o EXCEPT !.stray = 1] }
            \cup (IF o.ev # <<>> THEN { [o EXCEPT !.ev = Tail(@)] } ELSE {})
            \cup (IF Len(o.ev) >= 2 THEN { [o EXCEPT !.ev = <<@[Len(@)]>> \o SubSeq(@, 1, Len(@) - 1)] } ELSE {})    \* forward first
            \cup (IF o.dl # <<>> THEN { [o EXCEPT !.fin = [x \in 1..NT |-> 0], !.dl = <<>>], [o EXCEPT !.dl[1] = Inject(@)] } ELSE {})
            \cup (IF c.n = 1 /\ o.plan # <<>> THEN { [o EXCEPT !.plan = Tail(@)] } ELSE {})
MonitorRejects == (Slice = "T" /\ pc = "exit") => \A o2 \in Wrong(Obs) : Judge(c, o2) # ""

\* sanity (no vacuous run): each of these must be *violated* when given as an invariant
NeverBounce == ~(pc = "exit" /\ rc = 100)
NeverForward == ~(pc = "exit" /\ \E e \in 1..Len(ev) : ev[e].k = "Q")
=============================================================================
