#!/bin/sh
# MANIFEST.setup_cmd: build the parts of the framework that do not depend on /repo (offline, from /verif only)
set -e
cd "$(dirname "$0")"
mkdir -p build evidence
if [ -f harness/shim.c ]; then
  cc -O2 -g -fPIC -shared -o build/shim.so harness/shim.c -ldl -lpthread
fi
for f in harness/standin_*.c; do
  [ -f "$f" ] || continue
  b=$(basename "$f" .c)
  cc -O2 -g -o "build/$b" "$f"
done
# the specifications must at least parse
( cd spec && rm -f *_TTrace_* && for m in *.tla; do
  java -cp /opt/veriftools/tla/tla2tools.jar:/opt/veriftools/tla/CommunityModules-deps.jar tla2sany.SANY "$m" >/dev/null 2>&1 || { echo "SANY failed on $m" >&2; exit 1; }
done )
echo setup ok
