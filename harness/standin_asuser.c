/* Launcher used by the C19 harness: drop from the sandbox's uid 0 to an unprivileged uid, then exec
 * the program under test (qmail-pop3d refuses to run as root; the sandbox has no other users).
 *   standin_asuser <uid> <program> [args...]
 *   standin_asuser e<uid> ...   only the effective uid is lowered (real and saved uid stay 0): "invoked by root" all the same
 *   standin_asuser r<uid> ...   real uid 0, effective and saved uid lowered (setreuid)
 * Exits 120 when the identity cannot be changed, 121 when the program cannot be executed.
 */
#include <stdlib.h>
#include <unistd.h>
#include <grp.h>
#include <sys/types.h>

int main(int argc, char **argv)
{
  uid_t u;
  gid_t g;
  if (argc < 3) _exit(120);
  char mode = 0;
  char *a = argv[1];
  if (*a == 'e' || *a == 'r') mode = *a++;
  u = (uid_t) atol(a);
  g = (gid_t) u;
  if (setgroups(0, (gid_t *) 0) == -1) _exit(120);
  if (setgid(g) == -1) _exit(120);
  if (mode == 'e') {
    if (seteuid(u) == -1) _exit(120);
    if (getuid() != 0 || geteuid() != u) _exit(120);
  } else if (mode == 'r') {
    if (setreuid(0, u) == -1) _exit(120);
    if (getuid() != 0 || geteuid() != u) _exit(120);
  } else {
    if (setuid(u) == -1) _exit(120);
    if (getuid() != u || geteuid() != u) _exit(120);
  }
  execv(argv[2], argv + 2);
  _exit(121);
}
