/* Stand-in delivery program / queue program for C13 (binding B3, documented interfaces only:
 * qmail-command(8) for `|command` lines, qmail-queue(8) through QMAILQUEUE).
 *
 *   c13probe <id> [<exit>]   program mode: called from a .qmail program line (through sh -c).
 *                            Reads the message on descriptor 0 to EOF, appends one event to the log
 *                            and exits with <exit> (default 0; "kill" = die from SIGKILL).
 *   c13probe                 (no argument: that is how qmail.c runs the queue program) queue mode:
 *                            appends a "Q" event (without consuming anything) and then becomes the
 *                            recording queue stand-in VERIF_PROBE_QQ, which reads message + envelope.
 *
 * Event = one line of JSON appended (one write, O_APPEND) to VERIF_PROBE_LOG:
 *   {"k":"P"|"Q","id":n,"snap":[..],"in":"<hex of stdin>","dt":"<hex of $DTLINE>","rp":"<hex of $RPLINE>",
 *    "ns":"<hex of $NEWSENDER>","df":"<hex of $DEFAULT>"|null}
 * snap: for every path of VERIF_PROBE_WATCH (separated by newlines) the number of messages it holds
 *   *now*: a regular file -> number of lines starting with "From ", a directory -> number of
 *   entries of <path>/new, anything else -> 0.  This is what makes the *order* of the instructions
 *   observable: every program sees how many file deliveries have already happened.
 */
#include <dirent.h>
#include <fcntl.h>
#include <signal.h>
#include <stdio.h>
#include <stdlib.h>
#include <string.h>
#include <sys/stat.h>
#include <unistd.h>

static char *out; static size_t on, ocap;
static void put(const char *s, size_t n) { if (on + n + 1 > ocap) { ocap = (on + n + 1) * 2; out = realloc(out, ocap); } memcpy(out + on, s, n); on += n; out[on] = 0; }
static void puts_(const char *s) { put(s, strlen(s)); }
static void puthex(const char *s, size_t n)
{
  static const char hx[] = "0123456789abcdef"; size_t i; char t[2];
  puts_("\"");
  for (i = 0; i < n; i++) { t[0] = hx[(unsigned char) s[i] >> 4]; t[1] = hx[(unsigned char) s[i] & 15]; put(t, 2); }
  puts_("\"");
}
static void putenvhex(const char *key, const char *name)
{
  const char *v = getenv(name);
  puts_(",\""); puts_(key); puts_("\":");
  if (v) puthex(v, strlen(v)); else puts_("null");
}

static long count_from(const char *path)
{
  int fd = open(path, O_RDONLY); char b[8192]; long n = 0; int st = 0; /* st = matched chars of "From " at line start, -1 = inside a line */
  ssize_t r, i;
  if (fd == -1) return 0;
  while ((r = read(fd, b, sizeof b)) > 0)
    for (i = 0; i < r; i++) {
      char ch = b[i];
      if (st >= 0) { if (ch == "From "[st]) { if (++st == 5) { n++; st = -1; } } else st = -1; }
      if (ch == '\n') st = 0;
    }
  close(fd);
  return n;
}
static long count_new(const char *path)
{
  char p[4200]; DIR *d; struct dirent *e; long n = 0;
  snprintf(p, sizeof p, "%s/new", path);
  d = opendir(p);
  if (!d) return 0;
  while ((e = readdir(d))) if (e->d_name[0] != '.') n++;
  closedir(d);
  return n;
}
static void snapshot(void)
{
  const char *w = getenv("VERIF_PROBE_WATCH"); int first = 1;
  puts_(",\"snap\":[");
  while (w && *w) {
    const char *e = strchr(w, '\n'); size_t l = e ? (size_t)(e - w) : strlen(w); char p[4096], t[32]; struct stat st; long n = 0;
    if (l && l < sizeof p) {
      memcpy(p, w, l); p[l] = 0;
      if (stat(p, &st) == 0) { if (S_ISREG(st.st_mode)) n = count_from(p); else if (S_ISDIR(st.st_mode)) n = count_new(p); }
      snprintf(t, sizeof t, "%s%ld", first ? "" : ",", n); puts_(t); first = 0;
    }
    w = e ? e + 1 : w + l;
  }
  puts_("]");
}

int main(int argc, char **argv)
{
  const char *log = getenv("VERIF_PROBE_LOG");
  char hdr[64]; int fd; int qmode = argc < 2;
  char *m = 0; size_t ml = 0, cap = 0;

  if (!log) _exit(111);
  if (!qmode)
    for (;;) { ssize_t r; if (ml == cap) { cap = cap ? cap * 2 : 65536; m = realloc(m, cap); } r = read(0, m + ml, cap - ml); if (r <= 0) break; ml += r; }
  snprintf(hdr, sizeof hdr, "{\"k\":\"%s\",\"id\":%d", qmode ? "Q" : "P", qmode ? 0 : atoi(argv[1]));
  puts_(hdr);
  snapshot();
  puts_(",\"in\":"); puthex(m ? m : "", ml);
  putenvhex("dt", "DTLINE"); putenvhex("rp", "RPLINE"); putenvhex("ns", "NEWSENDER"); putenvhex("df", "DEFAULT");
  puts_("}\n");
  fd = open(log, O_WRONLY | O_APPEND);
  if (fd == -1 || write(fd, out, on) != (ssize_t) on) _exit(111);
  close(fd);
  if (qmode) {
    char *qq = getenv("VERIF_PROBE_QQ"); char *args[2];
    if (!qq) _exit(81);
    args[0] = qq; args[1] = 0;
    execv(qq, args);
    _exit(120);
  }
  if (argc > 2 && !strcmp(argv[2], "kill")) { kill(getpid(), SIGKILL); pause(); }
  _exit(argc > 2 ? atoi(argv[2]) : 0);
}
