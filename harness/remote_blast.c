/* Seam harness (B2) for qmail-remote.c blast(): the repository's own test recipe
 * (tests/unittest_qmail-remote.c) - everything of qmail-remote.c before main(),
 * with the substdio read/write operations replaced - driven over generated
 * messages.  Emits one ndjson record per (message, read chunking):
 *   {"i":[message bytes],"c":chunk,"o":[bytes written to the SMTP stream],"r":"ok|refused|temp|exit"}
 * The records are judged by TLC (spec/RemoteBlastRec.tla), not here.
 *
 * usage: remote_blast OUT enum MAXLEN CHUNK[,CHUNK..]      all strings over {CR,LF,'.','x'}
 *        remote_blast OUT stdin                            lines "chunk hexbytes" on stdin
 */
#include <stdio.h>
#include <stdlib.h>
#include <string.h>
#include <setjmp.h>
#include <unistd.h>
#include <fcntl.h>
#include <sys/types.h>
#include "substdio.h"

extern void blast();
extern char inbuf[1024];
extern substdio ssin;
extern char smtptobuf[1024];
extern substdio smtpto;

static jmp_buf jb;
static int in_case = 0;
void _exit(int code)
{
  if (in_case) longjmp(jb, 1);
  _Exit(code);
}

static const unsigned char *rd; static size_t rdlen, rdoff, rdchunk;
static unsigned char *wr; static size_t wrlen, wrcap;

static ssize_t readstub(int fd, char *buf, size_t len)
{
  size_t n = rdlen - rdoff;
  (void) fd;
  if (n > len) n = len;
  if (n > rdchunk) n = rdchunk;
  memcpy(buf, rd + rdoff, n);
  rdoff += n;
  return n;
}
static ssize_t writestub(int fd, const char *buf, size_t len)
{
  (void) fd;
  if (wrlen + len > wrcap) { wrcap = (wrlen + len) * 2 + 64; wr = realloc(wr, wrcap); }
  memcpy(wr + wrlen, buf, len);
  wrlen += len;
  return len;
}

static FILE *rec;
static int fd1;

static void one(const unsigned char *m, size_t n, size_t chunk)
{
  substdio tmpin = SUBSTDIO_FDBUF(readstub, -1, inbuf, sizeof(inbuf));
  substdio tmpto = SUBSTDIO_FDBUF(writestub, -1, smtptobuf, sizeof(smtptobuf));
  const char *res = "ok";
  char first = 0;
  size_t i;

  ssin = tmpin; smtpto = tmpto;
  rd = m; rdlen = n; rdoff = 0; rdchunk = chunk; wrlen = 0;
  if (ftruncate(fd1, 0) == -1) _Exit(3);
  lseek(fd1, 0, SEEK_SET);
  in_case = 1;
  if (setjmp(jb) == 0) {
    blast();
    substdio_flush(&smtpto);
  } else {
    /* the procedure left through _exit(): what the client had put on the wire so far still counts */
    substdio_flush(&smtpto);
    if (pread(fd1, &first, 1, 0) == 1) res = first == 'D' ? "refused" : first == 'Z' ? "temp" : "exit";
    else res = "exit";
  }
  in_case = 0;
  fputs("{\"i\":[", rec);
  for (i = 0; i < n; i++) fprintf(rec, i ? ",%u" : "%u", m[i]);
  fprintf(rec, "],\"c\":%lu,\"o\":[", (unsigned long) chunk);
  for (i = 0; i < wrlen; i++) fprintf(rec, i ? ",%u" : "%u", wr[i]);
  fprintf(rec, "],\"r\":\"%s\"}\n", res);
}

int main(int argc, char **argv)
{
  static const unsigned char alpha[4] = { 13, 10, '.', 'x' };
  if (argc < 3) return 2;
  rec = fopen(argv[1], "w");
  if (!rec) return 2;
  {
    char tmpl[] = "/var/tmp/notqmail-verif.fd1.XXXXXX";
    fd1 = mkstemp(tmpl);
    if (fd1 == -1) return 2;
    unlink(tmpl);
    if (dup2(fd1, 1) == -1) return 2;
  }
  if (!strcmp(argv[2], "enum") && argc >= 5) {
    int maxlen = atoi(argv[3]);
    size_t chunks[16]; int nch = 0; char *p = argv[4];
    unsigned char m[32];
    int len;
    while (*p && nch < 16) { chunks[nch++] = strtoul(p, &p, 10); if (*p == ',') p++; }
    for (len = 0; len <= maxlen; len++) {
      unsigned long total = 1UL << (2 * len), k;
      for (k = 0; k < total; k++) {
        int j, c;
        for (j = 0; j < len; j++) m[j] = alpha[(k >> (2 * j)) & 3];
        for (c = 0; c < nch; c++) one(m, len, chunks[c]);
      }
    }
  } else if (!strcmp(argv[2], "stdin")) {
    static char line[1 << 20];
    static unsigned char m[1 << 19];
    while (fgets(line, sizeof line, stdin)) {
      char *p; size_t chunk = strtoul(line, &p, 10), n = 0;
      while (*p == ' ') p++;
      while (p[0] && p[1] && p[0] != '\n') {
        unsigned int b; sscanf(p, "%2x", &b); m[n++] = b; p += 2;
      }
      one(m, n, chunk);
    }
  } else return 2;
  fclose(rec);
  _Exit(0);
}
