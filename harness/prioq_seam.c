/* Seam harness (B2) for prioq.c, linked like tests/unittest_prioq.  Reads operation sequences on stdin,
 * one per line: space separated integers, k >= 0 = insert key k (id = position), -1 = delmin.  For each
 * line prints {"kind":"pq","ops":[..],"mins":[..],"drain":[..]}: mins[i] = key of prioq_min after op i
 * (-1 if empty), drain = keys returned by min/delmin until empty.
 */
#include <stdio.h>
#include <stdlib.h>
#include <string.h>
#include "prioq.h"

int main(int argc, char **argv)
{
  static char line[1 << 16];
  FILE *f;
  if (argc < 2) return 2;
  f = fopen(argv[1], "w");
  if (!f) return 2;
  while (fgets(line, sizeof line, stdin)) {
    prioq pq = {0};
    struct prioq_elt pe;
    long ops[4096]; int n = 0, i; char *p = line;
    for (;;) { char *e; long v = strtol(p, &e, 10); if (e == p) break; if (n < 4096) ops[n++] = v; p = e; }
    fputs("{\"kind\":\"pq\",\"ops\":[", f);
    for (i = 0; i < n; i++) fprintf(f, i ? ",%ld" : "%ld", ops[i]);
    fputs("],\"mins\":[", f);
    for (i = 0; i < n; i++) {
      if (ops[i] >= 0) { pe.dt = ops[i]; pe.id = i; if (!prioq_insert(&pq, &pe)) return 3; }
      else prioq_delmin(&pq);
      fprintf(f, i ? ",%ld" : "%ld", prioq_min(&pq, &pe) ? (long) pe.dt : -1L);
    }
    fputs("],\"drain\":[", f);
    for (i = 0; prioq_min(&pq, &pe) && i < 100000; i++) { fprintf(f, i ? ",%ld" : "%ld", (long) pe.dt); prioq_delmin(&pq); }
    fputs("]}\n", f);
    if (pq.p) free(pq.p);
  }
  fclose(f);
  return 0;
}
