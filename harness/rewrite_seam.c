/* Seam harness (B2) for qmail-send.c getcontrols() / regetcontrols() / rewrite() / senderadd(): the
 * repository's own test recipe (tests/Makefile, unittest_qmail-send) - everything of qmail-send.c before
 * main() - driven by a script on stdin.  An optional accelerator for check C10: the verdict comes from the
 * same TLC monitor as for the real qmail-send, and the check works without it when the code is refactored.
 *
 * usage: rewrite_seam <dir>      (dir gets a control/ subdirectory; all text arguments in hex, "-" = empty)
 *   W <name> <hex>   write control/<name>          X <name>   remove control/<name>
 *   G                getcontrols()                 -> "g <return value>"
 *   H                regetcontrols()               -> "h"
 *   A <addr> <sender>  rewrite(addr), then senderadd(sa,sender,<rewritten address>)
 *                                                  -> "a <return value> <rwline between T and NUL> <sa>"
 */
#include <stdio.h>
#include <stdlib.h>
#include <string.h>
#include <unistd.h>
#include <sys/stat.h>
#include "stralloc.h"

extern int rewrite();
extern void senderadd();
extern int getcontrols();
extern void regetcontrols();
extern stralloc rwline;

static char line[1 << 20];
static char a1[1 << 19], a2[1 << 19];

static int unhex(const char *h, char *out)
{
  int n = 0;
  if (!strcmp(h, "-")) { out[0] = 0; return 0; }
  for (; h[0] && h[1]; h += 2) { unsigned v; sscanf(h, "%2x", &v); out[n++] = (char) v; }
  out[n] = 0;
  return n;
}
static void puthex(const char *s, unsigned int n)
{
  unsigned int i;
  if (!n) { fputs("-", stdout); return; }
  for (i = 0; i < n; i++) printf("%02x", (unsigned char) s[i]);
}

int main(int argc, char **argv)
{
  char path[4096];
  if (argc < 2 || chdir(argv[1]) == -1) { perror("chdir"); return 2; }
  mkdir("control", 0755);
  while (fgets(line, sizeof line, stdin)) {
    char *p = line + strlen(line);
    char *x, *y;
    while (p > line && (p[-1] == '\n' || p[-1] == '\r')) *--p = 0;
    x = strchr(line, ' '); if (x) *x++ = 0;
    y = x ? strchr(x, ' ') : 0; if (y) *y++ = 0;
    switch (line[0]) {
      case 'W': {
        int n = unhex(y ? y : "-", a1); FILE *f;
        snprintf(path, sizeof path, "control/%s", x);
        f = fopen(path, "w"); if (!f) { perror(path); return 2; }
        fwrite(a1, 1, n, f); fclose(f);
        break; }
      case 'X':
        snprintf(path, sizeof path, "control/%s", x);
        unlink(path);
        break;
      case 'G': printf("g %d\n", getcontrols()); break;
      case 'H': regetcontrols(); printf("h\n"); break;
      case 'A': {
        static stralloc sa = {0};
        int r;
        unhex(x ? x : "-", a1); unhex(y ? y : "-", a2);
        r = rewrite(a1);
        printf("a %d ", r);
        if (r && rwline.len >= 2) puthex(rwline.s + 1, rwline.len - 2); else fputs("-", stdout);
        if (!stralloc_copys(&sa, "")) return 2;
        if (r && rwline.len >= 2) senderadd(&sa, a2, rwline.s + 1);
        printf(" "); puthex(sa.s, sa.len); printf("\n");
        break; }
      default: fprintf(stderr, "bad command %s\n", line); return 2;
    }
  }
  fflush(stdout);
  return 0;
}
