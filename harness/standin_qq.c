/* Stand-in queue program (B3): installed through the documented QMAILQUEUE
 * interface.  Reads the message on descriptor 0 and the envelope on descriptor 1
 * exactly as qmail-queue does (message to EOF first, then envelope to EOF),
 * records both byte-exactly and exits with a scripted status.
 *
 *   VERIF_QQ_DIR   directory for the records (required)
 *   VERIF_QQ_TAG   prefix of the record file name (session id)
 *   VERIF_QQ_EXIT  exit status (default 0)
 *   VERIF_QQ_ERR   text written to descriptor 6 before exiting (custom error of exit 82)
 *   VERIF_QQ_DIE   "sig": kill self with SIGKILL after reading; "early": exit before reading
 * Record: first line "M <len> E <len> X <exit>\n", then message bytes, then envelope bytes.
 */
#include <stdio.h>
#include <stdlib.h>
#include <string.h>
#include <unistd.h>
#include <fcntl.h>
#include <signal.h>
#include <time.h>

static char *slurp(int fd, size_t *len)
{
  size_t cap = 65536, n = 0;
  char *b = malloc(cap);
  for (;;) {
    ssize_t r;
    if (n == cap) { cap *= 2; b = realloc(b, cap); }
    r = read(fd, b + n, cap - n);
    if (r <= 0) break;
    n += r;
  }
  *len = n;
  return b;
}

int main(void)
{
  const char *dir = getenv("VERIF_QQ_DIR");
  const char *tag = getenv("VERIF_QQ_TAG");
  const char *ex = getenv("VERIF_QQ_EXIT");
  const char *err = getenv("VERIF_QQ_ERR");
  const char *die = getenv("VERIF_QQ_DIE");
  int code = ex ? atoi(ex) : 0;
  char *m, *e, path[4096], hdr[128];
  size_t ml, el;
  struct timespec ts;
  int fd;

  if (!dir) _exit(81);
  if (die && !strcmp(die, "early")) _exit(code);
  m = slurp(0, &ml);
  e = slurp(1, &el);
  clock_gettime(CLOCK_MONOTONIC, &ts);
  snprintf(path, sizeof path, "%s/%s.%012ld%09ld.%d", dir, tag ? tag : "qq", (long) ts.tv_sec, ts.tv_nsec, (int) getpid());
  fd = open(path, O_WRONLY | O_CREAT | O_EXCL, 0644);
  if (fd == -1) _exit(81);
  snprintf(hdr, sizeof hdr, "M %lu E %lu X %d\n", (unsigned long) ml, (unsigned long) el, code);
  if (write(fd, hdr, strlen(hdr)) < 0 || write(fd, m, ml) < 0 || write(fd, e, el) < 0) _exit(81);
  close(fd);
  if (err) { if (write(6, err, strlen(err)) < 0) {} }
  if (die && !strcmp(die, "sig")) kill(getpid(), SIGKILL);
  _exit(code);
}
