/* Function-level seam for tcpto.c (C09, "connect trouble"): the file is compiled into this program unchanged (#include), the
 * clock (time()) and the process id (getpid()) are supplied by the harness, the table is the file queue/lock/tcpto below the
 * current directory.  One command per input line, one ndjson record per command:
 *   L <tabhex> <ipid> <now> <pid>               tcpto(ip)
 *   E <tabhex> <was> <ipid> <flagerr> <now>     flagwasthere = was; tcpto_err(ip, flagerr)
 *   l / e                                       the same on the table left by the previous command (sequences)
 * Addresses: ipid k > 0 is 10.0.0.k, 0 is 0.0.0.0; a record is [ipid, flag, when]. */
#include <stdio.h>
#include <stdlib.h>
#include <string.h>
#include <sys/stat.h>
#include <sys/types.h>
#include <fcntl.h>
#include <unistd.h>
#include <time.h>

static long fake_now = 1000; static int fake_pid = 1;
time_t time(time_t *t) { if (t) *t = fake_now; return fake_now; }
pid_t getpid(void) { return fake_pid; }

#include "tcpto.c"

static unsigned char tab[1024]; static int tablen;
static void put_table(void)
{
  int fd = open("queue/lock/tcpto", O_WRONLY | O_CREAT | O_TRUNC, 0644);
  if (fd == -1 || write(fd, tab, tablen) != tablen) { perror("tcpto file"); exit(3); }
  close(fd);
}
static void get_table(void)
{
  int fd = open("queue/lock/tcpto", O_RDONLY); ssize_t r;
  if (fd == -1) { perror("tcpto file"); exit(3); }
  r = read(fd, tab, sizeof tab); close(fd);
  if (r < 0) exit(3);
  tablen = (int) r;
}
static void hex2tab(const char *h)
{
  int n = 0; unsigned int b;
  if (!strcmp(h, "-")) { tablen = 0; return; }
  while (h[0] && h[1] && n < 1024) { sscanf(h, "%2x", &b); tab[n++] = (unsigned char) b; h += 2; }
  tablen = n;
}
static void print_table(FILE *o)
{
  int i; fputc('[', o);
  for (i = 0; i + 16 <= tablen; i += 16) {
    unsigned char *r = tab + i; int id; unsigned long w;
    if (r[0] == 10 && r[1] == 0 && r[2] == 0) id = r[3]; else if (!r[0] && !r[1] && !r[2] && !r[3]) id = 0; else id = 255;
    w = ((unsigned long) r[11] << 24) | ((unsigned long) r[10] << 16) | ((unsigned long) r[9] << 8) | r[8];
    fprintf(o, "%s[%d,%d,%lu]", i ? "," : "", id, (int) (signed char) r[4], w);
  }
  fputc(']', o);
}
static void ipof(int id, struct ip_address *ip)
{
  if (id) { ip->d[0] = 10; ip->d[1] = 0; ip->d[2] = 0; ip->d[3] = (unsigned char) id; } else memset(ip->d, 0, 4);
}

int main(int argc, char **argv)
{
  static char line[8192]; static char hex[4096]; FILE *o;
  if (argc < 2) return 2;
  o = fopen(argv[1], "w"); if (!o) return 2;
  mkdir("queue", 0755); mkdir("queue/lock", 0755);
  while (fgets(line, sizeof line, stdin)) {
    struct ip_address ip; int id, was, flagerr, pid, r; long nw; char op = line[0];
    if (op == 'L' || op == 'l') {
      if (op == 'L') { if (sscanf(line + 1, "%4095s %d %ld %d", hex, &id, &nw, &pid) != 4) return 4; hex2tab(hex); put_table(); }
      else { if (sscanf(line + 1, "%d %ld %d", &id, &nw, &pid) != 3) return 4; get_table(); }
      fake_now = nw; fake_pid = pid; ipof(id, &ip);
      fprintf(o, "{\"kind\":\"l\",\"tab\":"); print_table(o);
      r = tcpto(&ip);
      get_table();
      fprintf(o, ",\"ip\":%d,\"now\":%ld,\"pidbits\":%d,\"skip\":%d,\"was\":%d,\"flagerr\":0,\"after\":", id, nw, pid & 31, r, flagwasthere); print_table(o);
      fprintf(o, "}\n");
    } else if (op == 'E' || op == 'e') {
      if (op == 'E') { if (sscanf(line + 1, "%4095s %d %d %d %ld", hex, &was, &id, &flagerr, &nw) != 5) return 4; hex2tab(hex); put_table(); }
      else { if (sscanf(line + 1, "%d %d %d %ld", &was, &id, &flagerr, &nw) != 4) return 4; get_table(); }
      if (was >= 0) flagwasthere = was;        /* -1: keep what the previous lookup left (sequences) */
      fake_now = nw; ipof(id, &ip);
      fprintf(o, "{\"kind\":\"e\",\"tab\":"); print_table(o);
      fprintf(o, ",\"was\":%d", flagwasthere);
      tcpto_err(&ip, flagerr);
      get_table();
      fprintf(o, ",\"ip\":%d,\"now\":%ld,\"pidbits\":0,\"skip\":0,\"flagerr\":%d,\"after\":", id, nw, flagerr); print_table(o);
      fprintf(o, "}\n");
    }
  }
  fclose(o);
  return 0;
}
