/* Stand-in for qmail-remote (B3), installed through the documented QMAILREMOTE interface of
 * qmail-rspawn.  argv: host sender recip...   descriptor 0: the message file, 1: report pipe.
 * Behaviour is scripted per recipient: for recipient "<name>@host" the files
 *   $VERIF_QR_DIR/<name>.out   bytes to print on descriptor 1 (optional)
 *   $VERIF_QR_DIR/<name>.exit  "exit N" or "signal N", optionally preceded by "late " (optional, default exit 0)
 * Every invocation is logged to $VERIF_QR_DIR/log.<pid>: recipient, sender, host and what
 * descriptor 0 is (inode, mode, owner).
 */
#include <stdio.h>
#include <stdlib.h>
#include <string.h>
#include <unistd.h>
#include <fcntl.h>
#include <signal.h>
#include <sys/stat.h>

int main(int argc, char **argv)
{
  const char *dir = getenv("VERIF_QR_DIR");
  char path[4096], name[256], buf[65536];
  struct stat st;
  int fd, n, code = 0, sig = 0;
  char *at;
  if (!dir || argc < 4) _exit(111);
  snprintf(name, sizeof name, "%s", argv[3]);
  at = strchr(name, '@'); if (at) *at = 0;
  if (strchr(name, '/') || !name[0]) snprintf(name, sizeof name, "default");
  memset(&st, 0, sizeof st);
  fstat(0, &st);
  snprintf(path, sizeof path, "%s/log.%d", dir, (int) getpid());
  fd = open(path, O_WRONLY | O_CREAT | O_APPEND, 0644);
  if (fd >= 0) {
    n = snprintf(buf, sizeof buf, "%s\t%s\t%s\t%lu\t%o\t%d\n", argv[3], argv[2], argv[1], (unsigned long) st.st_ino, (unsigned) st.st_mode, (int) st.st_uid);
    if (write(fd, buf, n) < 0) {}
    close(fd);
  }
  snprintf(path, sizeof path, "%s/%s.out", dir, name);
  fd = open(path, O_RDONLY);
  if (fd >= 0) {
    while ((n = read(fd, buf, sizeof buf)) > 0) if (write(1, buf, n) < 0) break;
    close(fd);
  }
  snprintf(path, sizeof path, "%s/%s.exit", dir, name);
  fd = open(path, O_RDONLY);
  if (fd >= 0) {
    n = read(fd, buf, sizeof buf - 1);
    close(fd);
    if (n > 0) {
      char *b = buf;
      buf[n] = 0;
      /* "late ...": the output is closed first and the end comes a moment later (a client that dies after it has said everything) */
      if (!strncmp(b, "late ", 5)) { b += 5; close(1); close(2); usleep(150000); }
      if (!strncmp(b, "exit ", 5)) code = atoi(b + 5); else if (!strncmp(b, "signal ", 7)) sig = atoi(b + 7);
    }
  }
  if (sig) { signal(sig, SIG_DFL); kill(getpid(), sig); pause(); }
  _exit(code);
}
