/* Seam harness (B2) for qmail-send.c squareroot()/nextretry(): the repository's own test recipe
 * (tests/unittest_qmail-send.c includes qmail-send.c cut before main()).
 *   sched_seam OUT grid SEED N        records {"kind":"sqrt",...} and {"kind":"retry",...} for TLC (ages < 2^31)
 *   sched_seam OUT sweep LO HI        checks y*y <= x < (y+1)^2 for every x in [LO,HI) (the 2^32 domain), prints failures
 */
#define DEPRECATED_FUNCTIONS_REMOVED
#include "qmail-send-nomain.c"
#include <stdio.h>
#include <stdlib.h>
#include <string.h>
#include <math.h>

static unsigned long long rs;
static unsigned long rnd(void) { rs = rs * 6364136223846793005ULL + 1442695040888963407ULL; return (unsigned long) (rs >> 33); }

static long isqrt_witness(long x)
{
  long y = (long) sqrt((double) x);
  while (y * y > x) --y;
  while ((y + 1) * (y + 1) <= x) ++y;
  return y;
}

int main(int argc, char **argv)
{
  FILE *f;
  if (argc < 3) return 2;
  f = fopen(argv[1], "w");
  if (!f) return 2;
  if (!strcmp(argv[2], "sweep") && argc >= 5) {
    unsigned long lo = strtoul(argv[3], 0, 10), hi = strtoul(argv[4], 0, 10), x, bad = 0, first = 0;
    for (x = lo; x < hi; x++) {
      unsigned long y = (unsigned long) squareroot((datetime_sec) x);
      if (!(y * y <= x && x < (y + 1) * (y + 1))) { if (!bad) first = x; bad++; }
    }
    fprintf(f, "{\"lo\":%lu,\"hi\":%lu,\"bad\":%lu,\"first\":%lu}\n", lo, hi, bad, first);
  } else if (!strcmp(argv[2], "grid") && argc >= 5) {
    long n = atol(argv[4]), i, k;
    rs = strtoull(argv[3], 0, 10) * 2654435761ULL + 12345;
    /* square boundaries k^2-1, k^2, k^2+1 and random ages, all below 2^31 */
    for (k = 0; k < 46000; k += (k < 300 ? 1 : 1 + (long) (rnd() % 37))) {
      long d;
      for (d = -1; d <= 1; d++) { long x = k * k + d; if (x < 0) continue; fprintf(f, "{\"kind\":\"sqrt\",\"x\":%ld,\"y\":%ld}\n", x, (long) squareroot(x)); }
    }
    for (i = 0; i < n; i++) {
      long x = (long) (rnd() % (1UL << (1 + rnd() % 31)));
      fprintf(f, "{\"kind\":\"sqrt\",\"x\":%ld,\"y\":%ld}\n", x, (long) squareroot(x));
    }
    /* back-off: birth, now, channel; results must stay below 2^31 for TLC */
    for (i = 0; i < n; i++) {
      long birth = 100000000L + (long) (rnd() % 1000000), age, res, w;
      int c = (int) (rnd() & 1);
      switch (rnd() % 5) {
        case 0: age = (long) (rnd() % 100); break;
        case 1: { long r = (long) (rnd() % 1400); age = r * r + (long) (rnd() % 3) - 1; if (age < 0) age = 0; break; }
        case 2: age = (long) (rnd() % 700000); break;                 /* up to the default queue lifetime */
        case 3: age = -(long) (rnd() % 1000); break;                  /* clock behind the birth time */
        default: age = (long) (rnd() % 1900000000L); birth = (long) (rnd() % 1000); break;
      }
      recent = birth + age;
      res = nextretry(birth, c);
      w = age >= 0 ? isqrt_witness(res - birth) : 0;
      if (res >= 2147483647L || res < 0) continue;
      fprintf(f, "{\"kind\":\"retry\",\"birth\":%ld,\"now\":%ld,\"c\":%d,\"res\":%ld,\"n\":%ld}\n", birth, (long) recent, c, res, w);
    }
  } else return 2;
  fclose(f);
  return 0;
}
