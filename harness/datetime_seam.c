/* X03 seam: the real datetime_tai() and date822fmt() (datetime.c, date822fmt.c, compiled in unchanged) on a list of times.
 * stdin: one decimal time per line; stdout per line: t year mon mday hour min sec wday yday <date822fmt text, without the newline>
 */
#include <stdio.h>
#include <stdlib.h>
#include "datetime.h"
#include "date822fmt.h"

int main(void)
{
  char line[64];
  char out[DATE822FMT + 8];
  struct datetime dt;
  while (fgets(line, sizeof line, stdin)) {
    long t = atol(line);
    unsigned int n;
    datetime_tai(&dt, (datetime_sec) t);
    n = date822fmt(out, &dt);
    if (n && out[n - 1] == '\n') --n;
    out[n] = 0;
    printf("%ld %d %d %d %d %d %d %d %d %s\n", t, dt.year + 1900, dt.mon, dt.mday, dt.hour, dt.min, dt.sec, dt.wday, dt.yday, out);
  }
  return 0;
}
