/* LD_PRELOAD shim (binding B1): observes and steers the unmodified notqmail
 * binaries at the system-call boundary.  Five functions switched by environment:
 *
 *  trace  VERIF_TRACE=<file>      one ndjson event per intercepted call, appended after the call
 *  gate   VERIF_GATE=<unix sock>  every intercepted call is announced ("W <json>") and performed only
 *                                 when the controller answers; events go to the controller ("E <json>")
 *  fault  VERIF_FAULT=<k>:<errno|short> [VERIF_FAULT_ROLE=<role>]   k-th eligible call fails
 *  kill   VERIF_KILL=<k> [VERIF_KILL_ROLE] [VERIF_KILL_SIG=<n>]      process dies (gets signal n) before k-th eligible call
 *  world  VERIF_CLOCK=<file with decimal seconds> virtual time(), virtual file times
 *         VERIF_IDS=<file>        passwd/group database: "u name uid gid home" / "g name gid"
 *         VERIF_READCAP=<n>       read() on descriptor 0 returns at most n bytes
 *
 * VERIF_ROLE names the process in events (inherited; exec'd children append their program name).
 * VERIF_ROOT restricts file events to paths below it (others pass through silently).
 */
#define _GNU_SOURCE
#include <dlfcn.h>
#include <dirent.h>
#include <errno.h>
#include <fcntl.h>
#include <grp.h>
#include <pwd.h>
#include <signal.h>
#include <stdarg.h>
#include <stdio.h>
#include <stdlib.h>
#include <string.h>
#include <poll.h>
#include <sys/file.h>
#include <sys/select.h>
#include <sys/socket.h>
#include <sys/stat.h>
#include <sys/time.h>
#include <sys/types.h>
#include <sys/un.h>
#include <sys/wait.h>
#include <time.h>
#include <unistd.h>
#include <utime.h>

#define REAL(name) static __typeof__(name) *real_##name; if (!real_##name) real_##name = dlsym(RTLD_NEXT, #name)

static int inited = 0;
static int trace_fd = -1, gate_fd = -1;
static char role[128] = "?";
static const char *root = 0; static size_t rootlen = 0;
static const char *clockfile = 0;
static const char *idsfile = 0;
static long readcap = 0;
static long fault_k = -1; static char fault_what[32]; static long kill_k = -1;
static long ncalls = 0;       /* eligible calls so far in this process */
static long seq = 0;
static volatile int busy = 0; /* re-entrancy guard (volatile: signal handlers of the program run inside the shim, see VERIF_KILL_SIG) */

static int (*r_open)(const char *, int, ...);
static int (*r_close)(int);
static ssize_t (*r_read)(int, void *, size_t);
static ssize_t (*r_write)(int, const void *, size_t);
static void (*r__exit)(int) __attribute__((noreturn));

static void init(void);

/* ---------------------------------------------------------------- small JSON writer */
struct jb { char *b; size_t n, cap; };
static void jb_need(struct jb *j, size_t k) { if (j->n + k + 1 > j->cap) { j->cap = (j->n + k + 1) * 2; j->b = realloc(j->b, j->cap); } }
static void jb_raw(struct jb *j, const char *s) { size_t k = strlen(s); jb_need(j, k); memcpy(j->b + j->n, s, k); j->n += k; j->b[j->n] = 0; }
static void jb_str(struct jb *j, const char *s)
{
  jb_need(j, strlen(s) * 6 + 2);
  j->b[j->n++] = '"';
  for (; *s; s++) {
    unsigned char c = *s;
    if (c == '"' || c == '\\') { j->b[j->n++] = '\\'; j->b[j->n++] = c; }
    else if (c < 0x20 || c >= 0x7f) j->n += sprintf(j->b + j->n, "\\u%04x", c);
    else j->b[j->n++] = c;
  }
  j->b[j->n++] = '"'; j->b[j->n] = 0;
}
static void jb_kv_s(struct jb *j, const char *k, const char *v) { jb_raw(j, ",\""); jb_raw(j, k); jb_raw(j, "\":"); jb_str(j, v ? v : ""); }
static void jb_kv_i(struct jb *j, const char *k, long long v) { char t[64]; snprintf(t, sizeof t, ",\"%s\":%lld", k, v); jb_raw(j, t); }
static void jb_kv_hex(struct jb *j, const char *k, const void *p, size_t n)
{
  static const char hx[] = "0123456789abcdef"; size_t i; const unsigned char *u = p;
  jb_raw(j, ",\""); jb_raw(j, k); jb_raw(j, "\":\"");
  jb_need(j, n * 2 + 2);
  for (i = 0; i < n; i++) { j->b[j->n++] = hx[u[i] >> 4]; j->b[j->n++] = hx[u[i] & 15]; }
  j->b[j->n++] = '"'; j->b[j->n] = 0;
}

static void ev_begin(struct jb *j, const char *call)
{
  char t[256];
  j->n = 0; jb_need(j, 256);
  snprintf(t, sizeof t, "{\"p\":%d,\"r\":\"%s\",\"c\":\"%s\"", (int) getpid(), role, call);
  jb_raw(j, t);
}

/* ---------------------------------------------------------------- output: trace file or gate socket */
static void sendall(int fd, const char *b, size_t n)
{
  while (n) { ssize_t w = r_write(fd, b, n); if (w <= 0) { if (errno == EINTR) continue; return; } b += w; n -= w; }
}
static void gate_send(char kind, struct jb *j)
{
  /* frame: kind, 8 hex digits length, payload */
  char h[16]; snprintf(h, sizeof h, "%c%08lx", kind, (unsigned long) j->n);
  sendall(gate_fd, h, 9); sendall(gate_fd, j->b, j->n);
}
static int gate_intr = 0;   /* set when a wait was interrupted by a signal */
static int gate_recv(char *buf, size_t cap)
{
  /* reply: one line terminated by \n */
  size_t n = 0;
  gate_intr = 0;
  while (n + 1 < cap) {
    ssize_t r = r_read(gate_fd, buf + n, 1);
    if (r == 1) { if (buf[n] == '\n') break; n++; continue; }
    if (r == -1 && errno == EINTR) { if (n == 0) { gate_intr = 1; buf[0] = 0; return -1; } continue; }
    /* controller gone: die quietly */
    r__exit(99);
  }
  buf[n] = 0;
  return (int) n;
}
static void ev_end(struct jb *j)
{
  if (gate_fd >= 0) { jb_kv_i(j, "n", ++seq); jb_kv_i(j, "k", ncalls); jb_raw(j, "}"); gate_send('E', j); }
  else if (trace_fd >= 0) { jb_kv_i(j, "n", ++seq); jb_kv_i(j, "k", ncalls); jb_raw(j, "}\n"); sendall(trace_fd, j->b, j->n); }
}
static int active(void) { return trace_fd >= 0 || gate_fd >= 0; }

/* ---------------------------------------------------------------- helpers */
static long vnow(void)
{
  char b[64]; int fd; ssize_t r; long v = -1;
  if (!clockfile) return -1;
  fd = r_open(clockfile, O_RDONLY);
  if (fd == -1) return -1;
  r = r_read(fd, b, sizeof b - 1);
  r_close(fd);
  if (r > 0) { b[r] = 0; v = atol(b); }
  return v;
}
/* st_ctime cannot be set: translate the kernel's (real) change time into the virtual time that was current then.  The
 * controller appends "<sec> <nsec> <virtual>" to <clockfile>.hist each time it sets the clock (sec/nsec = kernel time stamp
 * of that write, taken one tick after everything else has stopped). */
static void virtual_ctime(struct stat *st)
{
  static char hb[262144]; char hp[4200]; int fd; ssize_t r, n = 0; char *p, *e; long best = -1, first = -1;
  if (!clockfile) return;
  snprintf(hp, sizeof hp, "%s.hist", clockfile);
  fd = r_open(hp, O_RDONLY);
  if (fd == -1) return;
  while (n < (ssize_t) sizeof hb - 1 && (r = r_read(fd, hb + n, sizeof hb - 1 - n)) > 0) n += r;
  r_close(fd);
  hb[n] = 0;
  for (p = hb; *p; p = e ? e + 1 : p + strlen(p)) {
    long sec, nsec, v;
    e = strchr(p, '\n');
    if (sscanf(p, "%ld %ld %ld", &sec, &nsec, &v) != 3) { if (!e) break; continue; }
    if (first < 0) first = v;
    if (sec < st->st_ctim.tv_sec || (sec == st->st_ctim.tv_sec && nsec <= st->st_ctim.tv_nsec)) best = v;
    if (!e) break;
  }
  if (best < 0) best = first;
  if (best >= 0) { st->st_ctim.tv_sec = best; st->st_ctim.tv_nsec = 0; }
}
static void stamp_fd(int fd)
{
  long v; struct timespec ts[2];
  if (!clockfile) return;
  v = vnow(); if (v < 0) return;
  ts[0].tv_sec = v; ts[0].tv_nsec = 0; ts[1] = ts[0];
  futimens(fd, ts);
}
static const char *fdname(int fd, char *buf, size_t cap)
{
  char l[64]; ssize_t r;
  snprintf(l, sizeof l, "/proc/self/fd/%d", fd);
  r = readlink(l, buf, cap - 1);
  if (r < 0) { snprintf(buf, cap, "fd:%d", fd); return buf; }
  buf[r] = 0;
  return buf;
}
static const char *abspath(const char *p, char *buf, size_t cap)
{
  if (p[0] == '/') { snprintf(buf, cap, "%s", p); return buf; }
  if (!getcwd(buf, cap)) { snprintf(buf, cap, "?/%s", p); return buf; }
  { size_t n = strlen(buf); snprintf(buf + n, cap - n, "/%s", p); }
  return buf;
}
static int under_root(const char *abs) { return !root || !strncmp(abs, root, rootlen); }
static int fd_interesting(int fd, char *name, size_t cap)
{
  fdname(fd, name, cap);
  if (name[0] == '/') return under_root(name);
  return 1;   /* pipes, sockets, fifos */
}
static long long fd_ino(int fd) { struct stat st; if (fstat(fd, &st) == -1) return -1; return (long long) st.st_ino; }
static int fd_isreg(int fd) { struct stat st; if (fstat(fd, &st) == -1) return 0; return S_ISREG(st.st_mode); }

/* ---------------------------------------------------------------- gate / fault / kill decision
 * returns 0: perform the call; >0: fail with that errno; -2: short write (n in *shortn) */
static struct jb wj;
static int decide(struct jb *want, long *shortn)
{
  ncalls++;
  if (kill_k >= 0 && ncalls == kill_k) {
    /* VERIF_KILL_SIG: another signal than KILL (e.g. 14: the program's own timer expiring at this instant); its handler runs,
     * and if it returns the program goes on */
    const char *ks = getenv("VERIF_KILL_SIG");
    if (ks && atoi(ks) != SIGKILL) { busy = 0; kill(getpid(), atoi(ks)); busy = 1; }
    else { kill(getpid(), SIGKILL); for (;;) pause(); }
  }
  if (fault_k >= 0 && ncalls == fault_k) {
    if (!strncmp(fault_what, "short", 5)) { *shortn = atol(fault_what + 5); return -2; }
    return atoi(fault_what);
  }
  if (gate_fd >= 0) {
    char rep[128];
    jb_kv_i(want, "k", ncalls); jb_raw(want, "}");
    gate_send('W', want);
    for (;;) {
      if (gate_recv(rep, sizeof rep) < 0) continue;   /* a signal while waiting for the grant: handlers ran, keep waiting */
      break;
    }
    if (!strncmp(rep, "go", 2)) return 0;
    if (!strncmp(rep, "fail ", 5)) return atoi(rep + 5);
    if (!strncmp(rep, "short ", 6)) { *shortn = atol(rep + 6); return -2; }
    if (!strncmp(rep, "kill", 4)) { kill(getpid(), SIGKILL); for (;;) pause(); }
  }
  return 0;
}
/* wait while parked: returns 1 = poll again, 2 = timeout, 3 = interrupted by a signal */
static int parked(struct jb *j)
{
  char rep[128];
  jb_raw(j, "}");
  gate_send('P', j);
  if (gate_recv(rep, sizeof rep) < 0) return 3;
  if (!strncmp(rep, "timeout", 7)) return 2;
  if (!strncmp(rep, "kill", 4)) { kill(getpid(), SIGKILL); for (;;) pause(); }
  return 1;
}

#define ENTER() do { if (!inited) init(); } while (0)

/* ---------------------------------------------------------------- open family */
static int do_open(const char *path, int flags, mode_t mode)
{
  char abs[4096]; static struct jb j; int fd, d; long sn;
  ENTER();
  if (busy || !active()) return r_open(path, flags, mode);
  abspath(path, abs, sizeof abs);
  if (!under_root(abs)) return r_open(path, flags, mode);
  busy = 1;
  if (clockfile && (flags & O_ACCMODE) == O_RDONLY) flags |= O_NOATIME;
  ev_begin(&wj, "open"); jb_kv_s(&wj, "path", abs); jb_kv_i(&wj, "fl", flags);
  d = decide(&wj, &sn);
  if (d > 0) { fd = -1; errno = d; }
  else {
    fd = r_open(path, flags, mode);
    if (fd == -1 && errno == EPERM && (flags & O_NOATIME)) fd = r_open(path, flags & ~O_NOATIME, mode);
  }
  { int e = errno;
    if (fd >= 0 && (flags & (O_CREAT | O_TRUNC)) && fd_isreg(fd)) stamp_fd(fd);
    ev_begin(&j, "open"); jb_kv_s(&j, "path", abs); jb_kv_i(&j, "fl", flags);
    jb_kv_i(&j, "creat", (flags & O_CREAT) ? 1 : 0); jb_kv_i(&j, "excl", (flags & O_EXCL) ? 1 : 0);
    jb_kv_i(&j, "trunc", (flags & O_TRUNC) ? 1 : 0); jb_kv_i(&j, "acc", flags & O_ACCMODE);
    jb_kv_i(&j, "res", fd); jb_kv_i(&j, "e", fd == -1 ? e : 0);
    if (fd >= 0) jb_kv_i(&j, "ino", fd_ino(fd));
    if (d) jb_kv_i(&j, "inj", 1);
    ev_end(&j); errno = e; }
  busy = 0;
  return fd;
}
int open(const char *path, int flags, ...)
{ mode_t m = 0; if (flags & O_CREAT) { va_list ap; va_start(ap, flags); m = va_arg(ap, int); va_end(ap); } return do_open(path, flags, m); }
int open64(const char *path, int flags, ...)
{ mode_t m = 0; if (flags & O_CREAT) { va_list ap; va_start(ap, flags); m = va_arg(ap, int); va_end(ap); } return do_open(path, flags, m); }
int creat(const char *path, mode_t m) { return do_open(path, O_CREAT | O_WRONLY | O_TRUNC, m); }

int close(int fd)
{
  ENTER();
  if (fd == trace_fd || fd == gate_fd) { errno = EBADF; return -1; }   /* keep our channels */
  if (busy || !active()) return r_close(fd);
  {
    char name[4096]; static struct jb j; int r, e, d; long sn;
    busy = 1;
    if (!fd_interesting(fd, name, sizeof name)) { busy = 0; return r_close(fd); }
    ev_begin(&wj, "close"); jb_kv_i(&wj, "fd", fd); jb_kv_s(&wj, "obj", name);
    d = decide(&wj, &sn);
    if (d > 0) { r_close(fd); r = -1; errno = d; } else r = r_close(fd);
    e = errno;
    ev_begin(&j, "close"); jb_kv_i(&j, "fd", fd); jb_kv_s(&j, "obj", name); jb_kv_i(&j, "res", r); jb_kv_i(&j, "e", r == -1 ? e : 0);
    if (d) jb_kv_i(&j, "inj", 1);
    ev_end(&j); errno = e; busy = 0;
    return r;
  }
}

/* ---------------------------------------------------------------- read / write */
ssize_t read(int fd, void *buf, size_t n)
{
  ENTER();
  if (readcap > 0 && fd == 0 && n > (size_t) readcap) n = readcap;
  if (busy || !active() || fd == gate_fd) return r_read(fd, buf, n);
  {
    char name[4096]; static struct jb j; ssize_t r; int e, d; long sn; int reg;
    busy = 1;
    if (!fd_interesting(fd, name, sizeof name)) { busy = 0; return r_read(fd, buf, n); }
    reg = fd_isreg(fd);
    ev_begin(&wj, "read"); jb_kv_i(&wj, "fd", fd); jb_kv_s(&wj, "obj", name); jb_kv_i(&wj, "len", n);
    d = decide(&wj, &sn);
    if (d > 0) { r = -1; errno = d; }
    else {
      if (gate_fd >= 0 && !reg) {
        /* a read that would block parks the process instead */
        for (;;) {
          struct pollfd pf; int pr; int fl = fcntl(fd, F_GETFL);
          pf.fd = fd; pf.events = POLLIN; pf.revents = 0;
          pr = poll(&pf, 1, 0);
          if (pr > 0 || (fl != -1 && (fl & O_NONBLOCK))) break;
          ev_begin(&j, "parked"); jb_kv_s(&j, "in", "read"); jb_kv_i(&j, "fd", fd); jb_kv_s(&j, "obj", name);
          if (parked(&j) == 3) { errno = EINTR; r = -1; goto done; }
        }
      }
      r = r_read(fd, buf, n);
    }
  done:
    e = errno;
    ev_begin(&j, "read"); jb_kv_i(&j, "fd", fd); jb_kv_s(&j, "obj", name); jb_kv_i(&j, "len", n); jb_kv_i(&j, "res", r);
    jb_kv_i(&j, "e", r == -1 ? e : 0); jb_kv_i(&j, "reg", reg);
    if (r > 0 && (!reg || r <= 4096)) jb_kv_hex(&j, "hex", buf, r > 65536 ? 65536 : r);
    if (d) jb_kv_i(&j, "inj", 1);
    ev_end(&j); errno = e; busy = 0;
    return r;
  }
}

ssize_t write(int fd, const void *buf, size_t n)
{
  ENTER();
  if (busy || !active() || fd == gate_fd || fd == trace_fd) return r_write(fd, buf, n);
  {
    char name[4096]; static struct jb j; ssize_t r; int e, d; long sn = 0; int reg; long long off = -1;
    busy = 1;
    if (!fd_interesting(fd, name, sizeof name)) { busy = 0; return r_write(fd, buf, n); }
    reg = fd_isreg(fd);
    if (reg) { off = lseek(fd, 0, SEEK_CUR); { int fl = fcntl(fd, F_GETFL); if (fl != -1 && (fl & O_APPEND)) off = lseek(fd, 0, SEEK_END); } }
    ev_begin(&wj, "write"); jb_kv_i(&wj, "fd", fd); jb_kv_s(&wj, "obj", name); jb_kv_i(&wj, "len", n); jb_kv_i(&wj, "reg", reg);
    if (reg) { jb_kv_i(&wj, "ino", fd_ino(fd)); jb_kv_i(&wj, "off", off); }
    jb_kv_hex(&wj, "hex", buf, n > 65536 ? 65536 : n);
    d = decide(&wj, &sn);
    if (d > 0) { r = -1; errno = d; }
    else if (d == -2) { size_t k = (size_t) sn < n ? (size_t) sn : n; r = k ? r_write(fd, buf, k) : 0; if (k == 0) { r = -1; errno = ENOSPC; } }
    else r = r_write(fd, buf, n);
    e = errno;
    if (r > 0 && reg) stamp_fd(fd);
    ev_begin(&j, "write"); jb_kv_i(&j, "fd", fd); jb_kv_s(&j, "obj", name); jb_kv_i(&j, "len", n); jb_kv_i(&j, "res", r);
    jb_kv_i(&j, "e", r == -1 ? e : 0); jb_kv_i(&j, "reg", reg);
    if (reg) { jb_kv_i(&j, "ino", fd_ino(fd)); jb_kv_i(&j, "off", off); }
    if (r > 0) jb_kv_hex(&j, "hex", buf, r > 65536 ? 65536 : r);
    if (d) jb_kv_i(&j, "inj", 1);
    ev_end(&j); errno = e; busy = 0;
    return r;
  }
}

/* ---------------------------------------------------------------- fd-based mutations */
static int fdcall(const char *call, int fd, long long arg, int (*fn)(int, long long))
{
  char name[4096]; static struct jb j; int r, e, d; long sn;
  busy = 1;
  if (!fd_interesting(fd, name, sizeof name)) { busy = 0; return fn(fd, arg); }
  ev_begin(&wj, call); jb_kv_i(&wj, "fd", fd); jb_kv_s(&wj, "obj", name); jb_kv_i(&wj, "arg", arg);
  d = decide(&wj, &sn);
  if (d > 0) { r = -1; errno = d; } else r = fn(fd, arg);
  e = errno;
  ev_begin(&j, call); jb_kv_i(&j, "fd", fd); jb_kv_s(&j, "obj", name); jb_kv_i(&j, "arg", arg);
  jb_kv_i(&j, "ino", fd_ino(fd)); jb_kv_i(&j, "res", r); jb_kv_i(&j, "e", r == -1 ? e : 0);
  if (d) jb_kv_i(&j, "inj", 1);
  ev_end(&j); errno = e; busy = 0;
  return r;
}
static int fn_fsync(int fd, long long a) { REAL(fsync); (void) a; return real_fsync(fd); }
static int fn_fdatasync(int fd, long long a) { REAL(fdatasync); (void) a; return real_fdatasync(fd); }
static int fn_ftruncate(int fd, long long a) { REAL(ftruncate); int r = real_ftruncate(fd, a); if (r == 0) stamp_fd(fd); return r; }
static int fn_flock_nb(int fd, long long a) { REAL(flock); return real_flock(fd, (int) a | LOCK_NB); }
int fsync(int fd) { ENTER(); if (busy || !active()) return fn_fsync(fd, 0); return fdcall("fsync", fd, 0, fn_fsync); }
int fdatasync(int fd) { ENTER(); if (busy || !active()) return fn_fdatasync(fd, 0); return fdcall("fsync", fd, 0, fn_fdatasync); }
int ftruncate(int fd, off_t len) { ENTER(); if (busy || !active()) return fn_ftruncate(fd, len); return fdcall("ftruncate", fd, len, fn_ftruncate); }
int ftruncate64(int fd, off_t len) { return ftruncate(fd, len); }
static int fn_flock(int fd, long long a) { REAL(flock); return real_flock(fd, (int) a); }
int flock(int fd, int op)
{
  ENTER();
  if (busy || !active()) return fn_flock(fd, op);
  if (gate_fd >= 0 && !(op & LOCK_NB) && (op & (LOCK_EX | LOCK_SH))) {
    /* blocking lock: try; if busy, park and try again when told */
    for (;;) {
      int r = fdcall("flock", fd, op, fn_flock_nb);
      if (r == 0 || errno != EWOULDBLOCK) return r;
      {
        static struct jb j; char name[4096];
        busy = 1; fdname(fd, name, sizeof name);
        ev_begin(&j, "parked"); jb_kv_s(&j, "in", "flock"); jb_kv_i(&j, "fd", fd); jb_kv_s(&j, "obj", name);
        if (parked(&j) == 3) { busy = 0; errno = EINTR; return -1; }
        busy = 0;
      }
    }
  }
  return fdcall("flock", fd, op, fn_flock);
}

/* ---------------------------------------------------------------- path-based calls */
static int pathcall(const char *call, const char *a, const char *b, int kind)
{
  /* kind 0 link, 1 unlink, 2 rename, 3 mkdir(ignored mode), 4 utimes-like (b unused) */
  char aa[4096], bb[4096]; static struct jb j; int r, e, d; long sn; struct stat st; long long ino = -1;
  REAL(link); REAL(unlink); REAL(rename);
  abspath(a, aa, sizeof aa); if (b) abspath(b, bb, sizeof bb);
  if (!under_root(aa) && !(b && under_root(bb))) {
    return kind == 0 ? real_link(a, b) : kind == 1 ? real_unlink(a) : real_rename(a, b);
  }
  busy = 1;
  if (lstat(a, &st) == 0) ino = st.st_ino;
  ev_begin(&wj, call); jb_kv_s(&wj, "path", aa); if (b) jb_kv_s(&wj, "to", bb); jb_kv_i(&wj, "ino", ino);
  d = decide(&wj, &sn);
  if (d > 0) { r = -1; errno = d; }
  else r = kind == 0 ? real_link(a, b) : kind == 1 ? real_unlink(a) : real_rename(a, b);
  e = errno;
  ev_begin(&j, call); jb_kv_s(&j, "path", aa); if (b) jb_kv_s(&j, "to", bb); jb_kv_i(&j, "ino", ino);
  jb_kv_i(&j, "res", r); jb_kv_i(&j, "e", r == -1 ? e : 0);
  if (d) jb_kv_i(&j, "inj", 1);
  ev_end(&j); errno = e; busy = 0;
  return r;
}
int link(const char *a, const char *b) { REAL(link); ENTER(); if (busy || !active()) return real_link(a, b); return pathcall("link", a, b, 0); }
int unlink(const char *a) { REAL(unlink); ENTER(); if (busy || !active()) return real_unlink(a); return pathcall("unlink", a, 0, 1); }
int rename(const char *a, const char *b) { REAL(rename); ENTER(); if (busy || !active()) return real_rename(a, b); return pathcall("rename", a, b, 2); }

static int do_stat(const char *call, const char *path, struct stat *st, int (*fn)(const char *, struct stat *))
{
  char abs[4096]; static struct jb j; int r, e, d; long sn;
  abspath(path, abs, sizeof abs);
  if (!under_root(abs)) return fn(path, st);
  busy = 1;
  ev_begin(&wj, call); jb_kv_s(&wj, "path", abs);
  d = decide(&wj, &sn);
  if (d > 0) { r = -1; errno = d; } else r = fn(path, st);
  e = errno;
  if (r == 0) virtual_ctime(st);
  ev_begin(&j, call); jb_kv_s(&j, "path", abs); jb_kv_i(&j, "res", r); jb_kv_i(&j, "e", r == -1 ? e : 0);
  if (r == 0) { jb_kv_i(&j, "ino", st->st_ino); jb_kv_i(&j, "size", st->st_size); jb_kv_i(&j, "mtime", st->st_mtime);
                jb_kv_i(&j, "atime", st->st_atime); jb_kv_i(&j, "ctime", st->st_ctime); jb_kv_i(&j, "mode", st->st_mode); jb_kv_i(&j, "uid", st->st_uid); }
  if (d) jb_kv_i(&j, "inj", 1);
  ev_end(&j); errno = e; busy = 0;
  return r;
}
static int fn_stat(const char *p, struct stat *st) { REAL(stat); return real_stat(p, st); }
static int fn_lstat(const char *p, struct stat *st) { REAL(lstat); return real_lstat(p, st); }
int stat(const char *p, struct stat *st) { ENTER(); if (busy || !active()) return fn_stat(p, st); return do_stat("stat", p, st, fn_stat); }
int lstat(const char *p, struct stat *st) { ENTER(); if (busy || !active()) return fn_lstat(p, st); return do_stat("lstat", p, st, fn_lstat); }
int stat64(const char *p, struct stat64 *st) { return stat(p, (struct stat *) st); }
int lstat64(const char *p, struct stat64 *st) { return lstat(p, (struct stat *) st); }

int utimes(const char *path, const struct timeval tv[2])
{
  char abs[4096]; static struct jb j; int r, e, d; long sn;
  REAL(utimes);
  ENTER();
  if (busy || !active()) return real_utimes(path, tv);
  abspath(path, abs, sizeof abs);
  if (!under_root(abs)) return real_utimes(path, tv);
  busy = 1;
  ev_begin(&wj, "utimes"); jb_kv_s(&wj, "path", abs); if (tv) jb_kv_i(&wj, "mtime", tv[1].tv_sec);
  d = decide(&wj, &sn);
  if (d > 0) { r = -1; errno = d; } else r = real_utimes(path, tv);
  e = errno;
  ev_begin(&j, "utimes"); jb_kv_s(&j, "path", abs); if (tv) { jb_kv_i(&j, "atime", tv[0].tv_sec); jb_kv_i(&j, "mtime", tv[1].tv_sec); }
  jb_kv_i(&j, "res", r); jb_kv_i(&j, "e", r == -1 ? e : 0);
  if (d) jb_kv_i(&j, "inj", 1);
  ev_end(&j); errno = e; busy = 0;
  return r;
}
int utime(const char *path, const struct utimbuf *ub)
{
  struct timeval tv[2];
  if (!ub) return utimes(path, 0);
  tv[0].tv_sec = ub->actime; tv[0].tv_usec = 0; tv[1].tv_sec = ub->modtime; tv[1].tv_usec = 0;
  return utimes(path, tv);
}

/* ---------------------------------------------------------------- directories */
DIR *opendir(const char *path)
{
  char abs[4096]; static struct jb j; DIR *r; int e, d; long sn;
  REAL(opendir);
  ENTER();
  if (busy || !active()) return real_opendir(path);
  abspath(path, abs, sizeof abs);
  if (!under_root(abs)) return real_opendir(path);
  busy = 1;
  ev_begin(&wj, "opendir"); jb_kv_s(&wj, "path", abs);
  d = decide(&wj, &sn);
  if (d > 0) { r = 0; errno = d; } else r = real_opendir(path);
  e = errno;
  ev_begin(&j, "opendir"); jb_kv_s(&j, "path", abs); jb_kv_i(&j, "res", r ? dirfd(r) : -1); jb_kv_i(&j, "e", r ? 0 : e);
  if (d) jb_kv_i(&j, "inj", 1);
  ev_end(&j); errno = e; busy = 0;
  return r;
}
struct dirent *readdir(DIR *dp)
{
  char name[4096]; static struct jb j; struct dirent *r; int e, d; long sn;
  REAL(readdir);
  ENTER();
  if (busy || !active()) return real_readdir(dp);
  busy = 1;
  if (!fd_interesting(dirfd(dp), name, sizeof name)) { busy = 0; return real_readdir(dp); }
  ev_begin(&wj, "readdir"); jb_kv_s(&wj, "obj", name);
  d = decide(&wj, &sn);
  e = errno;
  if (d > 0) { r = 0; errno = d; } else { errno = e; r = real_readdir(dp); }
  e = errno;
  ev_begin(&j, "readdir"); jb_kv_s(&j, "obj", name);
  if (r) { jb_kv_s(&j, "ent", r->d_name); jb_kv_i(&j, "ino", r->d_ino); } else jb_kv_i(&j, "end", 1);
  if (d) jb_kv_i(&j, "inj", 1);
  ev_end(&j); errno = e; busy = 0;
  return r;
}
struct dirent64 *readdir64(DIR *dp) { return (struct dirent64 *) readdir(dp); }

/* ---------------------------------------------------------------- select */
static void fdset_json(struct jb *j, const char *k, int n, fd_set *s)
{
  int i, first = 1; char t[32];
  jb_raw(j, ",\""); jb_raw(j, k); jb_raw(j, "\":[");
  if (s) for (i = 0; i < n; i++) if (FD_ISSET(i, s)) { snprintf(t, sizeof t, first ? "%d" : ",%d", i); jb_raw(j, t); first = 0; }
  jb_raw(j, "]");
}
int select(int n, fd_set *rd, fd_set *wr, fd_set *ex, struct timeval *tmo)
{
  static struct jb j; int r, e, d; long sn; fd_set r0, w0;
  REAL(select);
  ENTER();
  if (busy || !active()) return real_select(n, rd, wr, ex, tmo);
  busy = 1;
  if (rd) r0 = *rd; else FD_ZERO(&r0);
  if (wr) w0 = *wr; else FD_ZERO(&w0);
  ev_begin(&wj, "select"); jb_kv_i(&wj, "tmo", tmo ? (long long) tmo->tv_sec : -1); fdset_json(&wj, "rd", n, rd); fdset_json(&wj, "wr", n, wr);
  d = decide(&wj, &sn);
  if (d > 0) { r = -1; errno = d; }
  else if (gate_fd >= 0) {
    for (;;) {
      struct timeval z; int pk;
      z.tv_sec = 0; z.tv_usec = 0;
      if (rd) *rd = r0;
      if (wr) *wr = w0;
      r = real_select(n, rd, wr, 0, &z);
      if (r != 0) break;
      if (tmo && tmo->tv_sec == 0 && tmo->tv_usec == 0) break;
      ev_begin(&j, "parked"); jb_kv_s(&j, "in", "select"); jb_kv_i(&j, "tmo", tmo ? (long long) tmo->tv_sec : -1);
      fdset_json(&j, "rd", n, &r0); fdset_json(&j, "wr", n, &w0);
      pk = parked(&j);
      if (pk == 2) { if (rd) FD_ZERO(rd); if (wr) FD_ZERO(wr); r = 0; break; }
      if (pk == 3) { r = -1; errno = EINTR; break; }
    }
  }
  else r = real_select(n, rd, wr, ex, tmo);
  e = errno;
  ev_begin(&j, "select"); jb_kv_i(&j, "tmo", tmo ? (long long) tmo->tv_sec : -1);
  fdset_json(&j, "rd", n, &r0); fdset_json(&j, "wr", n, &w0);
  jb_kv_i(&j, "res", r); jb_kv_i(&j, "e", r == -1 ? e : 0);
  if (r > 0) { fdset_json(&j, "rrd", n, rd); fdset_json(&j, "rwr", n, wr); }
  if (d) jb_kv_i(&j, "inj", 1);
  ev_end(&j); errno = e; busy = 0;
  return r;
}

/* ---------------------------------------------------------------- processes */
pid_t fork(void)
{
  static struct jb j; pid_t r; int e, d; long sn;
  REAL(fork);
  ENTER();
  if (busy || !active()) return real_fork();
  busy = 1;
  ev_begin(&wj, "fork");
  d = decide(&wj, &sn);
  if (d > 0) { r = -1; errno = d; } else r = real_fork();
  e = errno;
  if (r == 0) {
    /* child: its own connection to the controller, its own counters */
    ncalls = 0; seq = 0; fault_k = -1; kill_k = -1;
    if (gate_fd >= 0) { r_close(gate_fd); gate_fd = -1; inited = 0; busy = 0; init(); busy = 1; }
    ev_begin(&j, "forked"); jb_kv_i(&j, "parent", getppid()); ev_end(&j);
  } else {
    ev_begin(&j, "fork"); jb_kv_i(&j, "res", r); jb_kv_i(&j, "e", r == -1 ? e : 0); if (d) jb_kv_i(&j, "inj", 1); ev_end(&j);
  }
  errno = e; busy = 0;
  return r;
}
static void trace_exec(const char *path, char *const argv[])
{
  static struct jb j; int i; long sn;
  if (busy || !active()) return;
  busy = 1;
  ev_begin(&wj, "exec"); jb_kv_s(&wj, "path", path);
  decide(&wj, &sn);
  ev_begin(&j, "exec"); jb_kv_s(&j, "path", path);
  jb_raw(&j, ",\"argv\":[");
  for (i = 0; argv && argv[i]; i++) { if (i) jb_raw(&j, ","); { char hx[8]; (void) hx; } jb_str(&j, argv[i]); }
  jb_raw(&j, "]");
  jb_kv_i(&j, "uid", getuid()); jb_kv_i(&j, "euid", geteuid()); jb_kv_i(&j, "gid", getgid()); jb_kv_i(&j, "egid", getegid());
  { gid_t gs[64]; int ng = getgroups(64, gs), k; char t[32]; jb_raw(&j, ",\"groups\":[");
    for (k = 0; k < ng; k++) { snprintf(t, sizeof t, k ? ",%d" : "%d", (int) gs[k]); jb_raw(&j, t); } jb_raw(&j, "]"); }
  { char cwd[4096]; if (getcwd(cwd, sizeof cwd)) jb_kv_s(&j, "cwd", cwd); }
  ev_end(&j);
  busy = 0;
}
int execve(const char *path, char *const argv[], char *const envp[])
{ REAL(execve); ENTER(); trace_exec(path, argv); return real_execve(path, argv, envp); }
int execv(const char *path, char *const argv[])
{ REAL(execv); ENTER(); trace_exec(path, argv); return real_execv(path, argv); }
int execvp(const char *file, char *const argv[])
{ REAL(execvp); ENTER(); trace_exec(file, argv); return real_execvp(file, argv); }

static void trace_exit(int code)
{
  static struct jb j;
  if (busy || !active()) return;
  busy = 1;
  ev_begin(&j, "exit"); jb_kv_i(&j, "status", code); ev_end(&j);
  busy = 0;
}
void _exit(int code) { ENTER(); trace_exit(code); r__exit(code); }
void _Exit(int code) { ENTER(); trace_exit(code); r__exit(code); }
static void at_exit_hook(void)
{ /* exit() or return from main: the status is not known here (the parent's waitpid has it) */
  static struct jb j;
  if (busy || !active()) return;
  busy = 1; ev_begin(&j, "exit"); jb_kv_i(&j, "status", -1); ev_end(&j); busy = 0;
}

pid_t waitpid(pid_t pid, int *wstat, int opts)
{
  static struct jb j; pid_t r; int e, d, ws = 0; long sn;
  REAL(waitpid);
  ENTER();
  if (busy || !active()) return real_waitpid(pid, wstat, opts);
  busy = 1;
  ev_begin(&wj, "waitpid"); jb_kv_i(&wj, "pid", pid); jb_kv_i(&wj, "opts", opts);
  d = decide(&wj, &sn);
  if (d > 0) { r = -1; errno = d; }
  else if (gate_fd >= 0 && !(opts & WNOHANG)) {
    for (;;) {
      r = real_waitpid(pid, &ws, opts | WNOHANG);
      if (r != 0) break;
      ev_begin(&j, "parked"); jb_kv_s(&j, "in", "waitpid"); jb_kv_i(&j, "pid", pid);
      if (parked(&j) == 3) { r = -1; errno = EINTR; break; }
    }
  }
  else r = real_waitpid(pid, &ws, opts);
  e = errno;
  if (wstat) *wstat = ws;
  ev_begin(&j, "waitpid"); jb_kv_i(&j, "pid", pid); jb_kv_i(&j, "res", r); jb_kv_i(&j, "e", r == -1 ? e : 0); jb_kv_i(&j, "ws", ws);
  if (d) jb_kv_i(&j, "inj", 1);
  ev_end(&j); errno = e; busy = 0;
  return r;
}
pid_t wait(int *wstat) { return waitpid(-1, wstat, 0); }

int pipe(int fds[2])
{
  static struct jb j; int r, e, d; long sn;
  REAL(pipe);
  ENTER();
  if (busy || !active()) return real_pipe(fds);
  busy = 1;
  ev_begin(&wj, "pipe");
  d = decide(&wj, &sn);
  if (d > 0) { r = -1; errno = d; } else r = real_pipe(fds);
  e = errno;
  ev_begin(&j, "pipe"); jb_kv_i(&j, "res", r); jb_kv_i(&j, "e", r == -1 ? e : 0);
  if (r == 0) { jb_kv_i(&j, "rfd", fds[0]); jb_kv_i(&j, "wfd", fds[1]); }
  if (d) jb_kv_i(&j, "inj", 1);
  ev_end(&j); errno = e; busy = 0;
  return r;
}

/* ---------------------------------------------------------------- identity */
static int idcall(const char *call, long long arg, const gid_t *list, size_t nlist, int (*fn)(long long, const gid_t *, size_t))
{
  static struct jb j; int r, e, d; long sn; size_t k; char t[32];
  busy = 1;
  ev_begin(&wj, call); jb_kv_i(&wj, "arg", arg);
  d = decide(&wj, &sn);
  if (d > 0) { r = -1; errno = d; } else r = fn(arg, list, nlist);
  e = errno;
  ev_begin(&j, call); jb_kv_i(&j, "arg", arg);
  if (list) { jb_raw(&j, ",\"list\":["); for (k = 0; k < nlist; k++) { snprintf(t, sizeof t, k ? ",%d" : "%d", (int) list[k]); jb_raw(&j, t); } jb_raw(&j, "]"); }
  jb_kv_i(&j, "res", r); jb_kv_i(&j, "e", r == -1 ? e : 0);
  if (d) jb_kv_i(&j, "inj", 1);
  ev_end(&j); errno = e; busy = 0;
  return r;
}
static int fn_setuid(long long a, const gid_t *l, size_t n) { REAL(setuid); (void) l; (void) n; return real_setuid((uid_t) a); }
static int fn_setgid(long long a, const gid_t *l, size_t n) { REAL(setgid); (void) l; (void) n; return real_setgid((gid_t) a); }
static int fn_setgroups(long long a, const gid_t *l, size_t n) { REAL(setgroups); (void) a; return real_setgroups(n, l); }
int setuid(uid_t u) { ENTER(); if (busy || !active()) return fn_setuid(u, 0, 0); return idcall("setuid", u, 0, 0, fn_setuid); }
int setgid(gid_t g) { ENTER(); if (busy || !active()) return fn_setgid(g, 0, 0); return idcall("setgid", g, 0, 0, fn_setgid); }
int setgroups(size_t n, const gid_t *l) { ENTER(); if (busy || !active()) return fn_setgroups(n, l, n); return idcall("setgroups", n, l, n, fn_setgroups); }

/* passwd / group database */
static struct passwd pwbuf; static struct group grbuf; static char idline[1024]; static char *nomem[1] = { 0 };
static int ids_lookup(char kind, const char *name, long uidkey)
{
  FILE *f; int found = 0;
  busy++;
  f = fopen(idsfile, "r");
  if (f) {
    while (fgets(idline, sizeof idline, f)) {
      char k, nm[256], home[512]; long a = 0, b = 0;
      home[0] = 0;
      if (sscanf(idline, "%c %255s %ld %ld %511s", &k, nm, &a, &b, home) < 3) continue;
      if (k != kind) continue;
      if (name ? strcmp(nm, name) != 0 : a != uidkey) continue;
      if (kind == 'u') {
        static char snm[256], shome[512];
        strcpy(snm, nm); strcpy(shome, home);
        pwbuf.pw_name = snm; pwbuf.pw_passwd = "x"; pwbuf.pw_uid = a; pwbuf.pw_gid = b; pwbuf.pw_gecos = ""; pwbuf.pw_dir = shome; pwbuf.pw_shell = "/bin/sh";
      } else {
        static char gnm[256];
        strcpy(gnm, nm);
        grbuf.gr_name = gnm; grbuf.gr_passwd = "x"; grbuf.gr_gid = a; grbuf.gr_mem = nomem;
      }
      found = 1; break;
    }
    fclose(f);
  }
  busy--;
  return found;
}
struct passwd *getpwnam(const char *name)
{
  REAL(getpwnam);
  ENTER();
  if (!idsfile) return real_getpwnam(name);
  if (ids_lookup('E', name, 0)) { errno = ETXTBSY; return 0; }     /* "E name 0": lookup error for this name */
  errno = 0;
  return ids_lookup('u', name, 0) ? &pwbuf : 0;
}
struct passwd *getpwuid(uid_t uid)
{
  REAL(getpwuid);
  ENTER();
  if (!idsfile) return real_getpwuid(uid);
  errno = 0;
  return ids_lookup('u', 0, uid) ? &pwbuf : 0;
}
struct group *getgrnam(const char *name)
{
  REAL(getgrnam);
  ENTER();
  if (!idsfile) return real_getgrnam(name);
  errno = 0;
  return ids_lookup('g', name, 0) ? &grbuf : 0;
}
int initgroups(const char *user, gid_t g)
{
  REAL(initgroups);
  ENTER();
  if (!idsfile) return real_initgroups(user, g);
  { gid_t l[1]; l[0] = g; (void) user; return setgroups(1, l); }
}

/* ---------------------------------------------------------------- who invoked the program
 * world  VERIF_GETUID=<n>  getuid() answers n (qmail-queue records the invoking uid; the sandbox has only uid 0 and a set-uid
 *        program would not load this library) */
#include <sys/syscall.h>
uid_t getuid(void)
{
  const char *v = getenv("VERIF_GETUID");
  if (v && *v) return (uid_t) strtoul(v, 0, 10);
  return (uid_t) syscall(SYS_getuid);
}

/* ---------------------------------------------------------------- clock */
time_t time(time_t *t)
{
  REAL(time);
  ENTER();
  if (clockfile) { long v; int sb = busy; busy = 1; v = vnow(); busy = sb; if (v >= 0) { if (t) *t = v; return v; } }
  return real_time(t);
}
unsigned int sleep(unsigned int s)
{
  REAL(sleep);
  ENTER();
  if (clockfile || gate_fd >= 0) {
    static struct jb j;
    if (!busy && active()) { busy = 1; ev_begin(&j, "sleep"); jb_kv_i(&j, "arg", s); ev_end(&j); busy = 0; }
    return 0;
  }
  return real_sleep(s);
}
unsigned int alarm(unsigned int s)
{
  REAL(alarm);
  ENTER();
  if (!busy && active()) { static struct jb j; busy = 1; ev_begin(&j, "alarm"); jb_kv_i(&j, "arg", s); ev_end(&j); busy = 0; }
  if (gate_fd >= 0 || getenv("VERIF_NOALARM")) return 0;     /* time-outs are the controller's business */
  return real_alarm(s);
}

/* ---------------------------------------------------------------- init */
static void init(void)
{
  const char *s;
  if (inited) return;
  inited = 1;
  busy = 1;
  r_open = dlsym(RTLD_NEXT, "open");
  r_close = dlsym(RTLD_NEXT, "close");
  r_read = dlsym(RTLD_NEXT, "read");
  r_write = dlsym(RTLD_NEXT, "write");
  r__exit = dlsym(RTLD_NEXT, "_exit");
  root = getenv("VERIF_ROOT"); if (root) rootlen = strlen(root);
  clockfile = getenv("VERIF_CLOCK");
  idsfile = getenv("VERIF_IDS");
  if ((s = getenv("VERIF_READCAP"))) readcap = atol(s);
  {
    const char *base = getenv("VERIF_ROLE");
    extern char *program_invocation_short_name;
    snprintf(role, sizeof role, "%s%s%s", base ? base : "", base ? ":" : "", program_invocation_short_name);
  }
  {
    const char *fr = getenv("VERIF_FAULT_PROG");
    extern char *program_invocation_short_name;
    int mine = !fr || !strcmp(fr, program_invocation_short_name);
    if (mine && (s = getenv("VERIF_FAULT"))) { char *c = strchr(s, ':'); fault_k = atol(s); snprintf(fault_what, sizeof fault_what, "%s", c ? c + 1 : "5"); }
    if (mine && (s = getenv("VERIF_KILL"))) kill_k = atol(s);
  }
  if ((s = getenv("VERIF_GATE"))) {
    struct sockaddr_un sa; int fd = socket(AF_UNIX, SOCK_STREAM, 0);
    memset(&sa, 0, sizeof sa); sa.sun_family = AF_UNIX; snprintf(sa.sun_path, sizeof sa.sun_path, "%s", s);
    if (fd >= 0 && connect(fd, (struct sockaddr *) &sa, sizeof sa) == 0) {
      int hi = fcntl(fd, F_DUPFD_CLOEXEC, 900);
      if (hi >= 0) { r_close(fd); fd = hi; }
      gate_fd = fd;
      { static struct jb j; ev_begin(&j, "hello"); jb_kv_i(&j, "ppid", getppid()); jb_raw(&j, "}"); gate_send('H', &j); }
    } else if (fd >= 0) r_close(fd);
  } else if ((s = getenv("VERIF_TRACE"))) {
    int fd = r_open(s, O_WRONLY | O_APPEND | O_CREAT, 0644);
    if (fd >= 0) { int hi = fcntl(fd, F_DUPFD_CLOEXEC, 901); if (hi >= 0) { r_close(fd); fd = hi; } trace_fd = fd; }
  }
  atexit(at_exit_hook);
  busy = 0;
  if (active()) { static struct jb j; busy = 1; ev_begin(&j, "start"); jb_kv_i(&j, "uid", getuid()); jb_kv_i(&j, "ppid", getppid()); ev_end(&j); busy = 0; }
}
__attribute__((constructor)) static void ctor(void) { init(); }
