/* Launcher for C13: drops to an unprivileged uid/gid and executes the program under test.
 *   c13run <uid> <gid> <program> [args...]
 * (Python's subprocess falls back from vfork to a full fork of the - large - checker process as
 * soon as it has to change ids itself; this keeps the thousands of runs cheap.)
 */
#include <grp.h>
#include <stdlib.h>
#include <unistd.h>

int main(int argc, char **argv)
{
  gid_t g; uid_t u;
  if (argc < 4) _exit(120);
  u = (uid_t) atol(argv[1]); g = (gid_t) atol(argv[2]);
  if (setgroups(0, 0) == -1 || setgid(g) == -1 || setuid(u) == -1) _exit(121);
  if (getuid() != u || geteuid() != u) _exit(121);
  execv(argv[3], argv + 3);
  _exit(122);
}
