/* Stand-in delivery agent (B3): installed as QMAILHOME/bin/qmail-local, the program qmail-lspawn
 * runs for every local delivery.  It records how it was started - the argument vector byte for
 * byte, the real/effective/saved user and group ids, the supplementary groups, the working
 * directory - and exits with a scripted status.  It does not read the message.
 *
 *   VERIF_LOCAL_DIR   directory for the records (required; must be writable by any user)
 *   VERIF_LOCAL_EXIT  exit status (default 0)
 * Record: one JSON object in its own file <dir>/<pid>.<monotonic ns>:
 *   {"argv":[[bytes of argv[0]],...],"ids":[ruid,euid,suid,rgid,egid,sgid],"groups":[...],"cwd":[bytes]}
 * The file is written under a temporary name and renamed, so a reader never sees half a record.
 */
#define _GNU_SOURCE
#include <stdio.h>
#include <stdlib.h>
#include <string.h>
#include <unistd.h>
#include <fcntl.h>
#include <signal.h>
#include <grp.h>
#include <time.h>
#include <sys/types.h>

static char *buf; static size_t n, cap;
/* a failure of the stand-in itself must never look like a verdict of qmail-lspawn: it is announced on
 * descriptor 1 (the report text) so that the check can tell it apart */
static void fail(void) { if (write(1, "VERIF-STANDIN-FAILURE\n", 22) < 0) {} _exit(81); }
static void put(const char *s) { size_t k = strlen(s); if (n + k + 1 > cap) { cap = (n + k + 1) * 2; buf = realloc(buf, cap); if (!buf) fail(); } memcpy(buf + n, s, k); n += k; buf[n] = 0; }
static void putbytes(const char *s)
{
  char t[16]; int first = 1;
  put("[");
  for (; *s; s++) { snprintf(t, sizeof t, first ? "%d" : ",%d", (int) (unsigned char) *s); put(t); first = 0; }
  put("]");
}

int main(int argc, char **argv)
{
  const char *dir = getenv("VERIF_LOCAL_DIR");
  const char *ex = getenv("VERIF_LOCAL_EXIT");
  int code = ex ? atoi(ex) : 0;
  uid_t ru, eu, su; gid_t rg, eg, sg; gid_t gs[256]; int ng, i, fd;
  char t[128], cwd[4096], path[4200], tmp[4200];
  struct timespec ts;

  if (!dir) fail();
  if (getresuid(&ru, &eu, &su) == -1 || getresgid(&rg, &eg, &sg) == -1) fail();
  ng = getgroups(256, gs);
  if (ng < 0) fail();
  put("{\"argv\":[");
  for (i = 0; i < argc; i++) { if (i) put(","); putbytes(argv[i]); }
  snprintf(t, sizeof t, "],\"ids\":[%ld,%ld,%ld,%ld,%ld,%ld],\"groups\":[", (long) ru, (long) eu, (long) su, (long) rg, (long) eg, (long) sg);
  put(t);
  for (i = 0; i < ng; i++) { snprintf(t, sizeof t, i ? ",%ld" : "%ld", (long) gs[i]); put(t); }
  put("],\"cwd\":");
  if (!getcwd(cwd, sizeof cwd)) cwd[0] = 0;
  putbytes(cwd);
  put("}\n");
  clock_gettime(CLOCK_MONOTONIC, &ts);
  snprintf(path, sizeof path, "%s/%d.%ld%09ld", dir, (int) getpid(), (long) ts.tv_sec, ts.tv_nsec);
  snprintf(tmp, sizeof tmp, "%s/.t%d.%ld%09ld", dir, (int) getpid(), (long) ts.tv_sec, ts.tv_nsec);
  fd = open(tmp, O_WRONLY | O_CREAT | O_EXCL, 0644);
  if (fd == -1) fail();
  if (write(fd, buf, n) != (ssize_t) n) fail();
  close(fd);
  if (rename(tmp, path) == -1) fail();
  {
    /* scripted behaviour per recipient (C18: what qmail-lspawn makes of arbitrary program output): the file
     * $VERIF_LOCAL_SCRIPT_DIR/<local part (argv[4])> holds "exit <n>\n" or "signal <n>\n" followed by the raw bytes to write
     * to descriptor 1 */
    const char *sd = getenv("VERIF_LOCAL_SCRIPT_DIR");
    if (sd && argc > 4) {
      static char sb[70000]; char sp[4200]; ssize_t r, k = 0; char *nl; int sfd;
      snprintf(sp, sizeof sp, "%s/%s", sd, argv[4]);
      sfd = open(sp, O_RDONLY);
      if (sfd != -1) {
        while ((r = read(sfd, sb + k, sizeof sb - 1 - k)) > 0) k += r;
        close(sfd);
        sb[k] = 0;
        nl = memchr(sb, '\n', k);
        if (!nl) fail();
        if (k - (nl + 1 - sb) > 0 && write(1, nl + 1, k - (nl + 1 - sb)) < 0) fail();
        if (!strncmp(sb, "signal ", 7)) { kill(getpid(), atoi(sb + 7)); pause(); }
        if (!strncmp(sb, "exit ", 5)) _exit(atoi(sb + 5));
        fail();
      }
    }
  }
  _exit(code);
}
