/* Stand-in password checker for qmail-popup (C19), at the documented interface of
 * qmail-popup(8): "invokes subprogram with the same descriptors 0 and 1, and with descriptor 3
 * reading the username, a 0 byte, the password, another 0 byte, an APOP timestamp, a final 0 byte".
 * Reads descriptor 3 to EOF, appends the bytes to the record file, exits as scripted.
 *
 *   VERIF_CPW_OUT   record file (required); one record per invocation appended:
 *                   "I <len> A <argc>\n" followed by <len> bytes
 *   VERIF_CPW_EXIT  exit status (default 0), or "crash": die by SIGKILL after recording
 * Nothing is written to descriptors 0, 1, 2.
 */
#include <stdio.h>
#include <stdlib.h>
#include <string.h>
#include <unistd.h>
#include <fcntl.h>
#include <signal.h>

int main(int argc, char **argv)
{
  const char *out = getenv("VERIF_CPW_OUT");
  const char *ex = getenv("VERIF_CPW_EXIT");
  static char buf[1 << 17];
  char hdr[64];
  size_t n = 0;
  int fd, hl;
  (void) argv;
  if (!out) _exit(111);
  for (;;) {
    ssize_t r = read(3, buf + n, sizeof buf - n);
    if (r <= 0) break;
    n += (size_t) r;
    if (n == sizeof buf) break;
  }
  fd = open(out, O_WRONLY | O_CREAT | O_APPEND, 0644);
  if (fd == -1) _exit(111);
  hl = snprintf(hdr, sizeof hdr, "I %lu A %d\n", (unsigned long) n, argc);
  /* one write per record so that concurrent appends cannot interleave */
  {
    static char rec[(1 << 17) + 64];
    memcpy(rec, hdr, (size_t) hl);
    memcpy(rec + hl, buf, n);
    if (write(fd, rec, (size_t) hl + n) != (ssize_t) ((size_t) hl + n)) _exit(111);
  }
  close(fd);
  if (ex && !strcmp(ex, "crash")) { kill(getpid(), SIGKILL); pause(); }
  _exit(ex ? atoi(ex) : 0);
}
