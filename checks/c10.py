#!/usr/bin/env python3
"""C10 Recipients are routed and rewritten exactly by the control files.

  model   spec/RewriteSend.tla (P: getcontrols / regetcontrols / the T-record loop of todo_do / rewrite() /
          senderadd() of qmail-send.c, one action per branch) x every configuration, envelope and
          edit-with/without-HUP of a bounded domain; invariants RouteOk, VerpOk = the monitors of
          spec/Rewrite.tla (E: Route, MsgVerdict, SenderAdd, Effective - written from qmail-send(8),
          addresses(5), qmail-control(5))
  impl    the real qmail-send, run without qmail-start (lib/c10_util.py): control files written, messages
          injected with the real qmail-queue, real qmail-clean on descriptors 5/6, the check itself at the far
          end of the lspawn/rspawn pipes answering every delivery command with a deferral; observed: the T
          records of local/<id> and remote/<id> and the sender / recipient fields of the delivery commands;
          history: control files rewritten, with or without HUP, more messages injected
  verdict TLC evaluates MsgVerdict / VerpFirstBad on every message (spec/RewriteRec.tla)
"""
import sys, os, re, json, argparse, subprocess, itertools, threading, time
sys.path.insert(0, os.path.join(os.path.dirname(os.path.abspath(__file__)), "..", "lib"))
from vlib import *
import sandbox, sessions, c10_util

# Violations of the statement found on the unchanged tree and reported, not yet decided (regexes on witness keys).
PENDING_FINDINGS = []

BASE = ["a.test", "b.a.test", "x.b.a.test", "other.test"]
ALPHA = "abcdefghijklm.nopqrstuvwxyz.test"       # every letter once: "matching ignores case" must hold for each of them
SENDERS = ["list-@lists.test-@[]", "s@sender.test", "", "#@[]", "owner-@[]", "-@[]", "@-@[]", "a@b@lists.test-@[]",
           "list-@lists.test-@[]x", "list-@lists.test@[]", "LIST-@Lists.Test-@[]", "list-@lists.test--@[]", "list-@-@[]"]
CHUNK = 48          # recipients per message


def casevar(rng, s):
    return "".join(c.upper() if c.isalpha() and rng.random() < 0.5 else c for c in s)


def near(d):
    first, _, rest = d.partition(".")
    return [d.upper(), d.title(), "z." + d, rest, d + ".", "." + d, "z" + d, d[:-1], d + "x"]


FILLER = re.compile(r"(fill|w)\d+\.test")


def keyset(items):
    return {x.lower() for x in items}


# ---- configurations -------------------------------------------------------------------------------
ENTRY_KINDS = [("u@b.a.test", "vuser"), ("b.a.test", "vdom"), (".a.test", "wild"), (".test", "wide-r"), ("", "catch"),
               ("x.b.a.test", ""), ("U@Other.TEST", "Upper"), (".b.a.test", ""), (".u@a.test", "dotuser")]


def enum_cfgs():
    """The family the model explores, with the real names."""
    out = []
    sets = [()] + [(e,) for e in ENTRY_KINDS] + list(itertools.combinations(ENTRY_KINDS, 2))
    for lo, me in (([], "me.test"), (["a.test"], "me.test"), (["B.A.Test"], "me.test"), (["a.test", "b.a.test"], "me.test"), (None, "a.test")):
        for vd in sets:
            for ph in (None, ["a.test"], ["A.TEST", "other.test"]):
                for env in (None, "b.a.test"):
                    out.append({"me": me, "lo": lo, "vd": [list(e) for e in vd] or None, "ph": ph, "env": env, "noise": 0})
    return out


def rand_cfg(rng, fill=0):
    me = rng.choice(["me.test", "me.test", "a.test", "Me.Test", "other.test"])
    pool = BASE + ["me.test", ALPHA]
    lo = None if rng.random() < 0.12 else [d if rng.random() < 0.7 else casevar(rng, d) for d in rng.sample(pool, rng.randint(0, 3))]
    users = ["u", "v", ".u", "f.u"]
    keys = [u + "@" + d for u in users[:2] for d in BASE] + [".u@a.test", "f.u@b.a.test", ".u@x.b.a.test"] + BASE + \
           [".a.test", ".b.a.test", ".test", ".x.b.a.test", ".other.test", ""] + ["me.test", "remote.test", ".me.test"] + \
           [ALPHA, ".nopqrstuvwxyz.test", "u@" + ALPHA]
    vd = None
    if rng.random() > 0.08:
        vd = []
        for i, k in enumerate(rng.sample(keys, rng.randint(0, 6))):
            tag = "" if rng.random() < 0.25 else rng.choice(["t%d" % i, "alias-v%d" % i, "V%d" % i, "a.b%d" % i])
            vd.append([k if rng.random() < 0.7 else casevar(rng, k), tag])
    ph = None if rng.random() < 0.3 else [d if rng.random() < 0.7 else casevar(rng, d) for d in rng.sample(pool, rng.randint(0, 3))]
    env = None if rng.random() < 0.3 else rng.choice(BASE + ["noat.test", "A.Test", "me.test"])
    cfg = {"me": me, "lo": lo, "vd": vd, "ph": ph, "env": env, "noise": rng.choice([0, 0, 1, 2, 3, 4, 5])}
    if fill:          # large files: the lookup tables grow, chains get longer
        cfg["lo"] = (cfg["lo"] or []) + ["fill%d.test" % i for i in range(fill)]
        cfg["vd"] = (cfg["vd"] or []) + [["fill%d.test" % i, "f%d" % i] for i in range(fill)] + [[".w%d.test" % i, "w%d" % i] for i in range(fill // 2)]
        cfg["ph"] = (cfg["ph"] or []) + ["fill%d.test" % i for i in range(0, fill, 2)]
    return cfg


def cfg_names(cfg):
    n = {cfg["me"].lower()}
    n |= keyset(cfg["lo"] or []) | keyset(cfg["ph"] or [])
    if cfg["env"]:
        n.add(cfg["env"].lower())
    for k, _ in cfg["vd"] or []:
        d = k.lower().rsplit("@", 1)[-1]
        if d:
            n.add(d.lstrip("."))
    # of the filler names two are enough to build addresses from
    return {x for x in n if not FILLER.fullmatch(x) or x in ("fill0.test", "fill7.test")}


# ---- addresses ------------------------------------------------------------------------------------
def gen_addrs(rng, cfgs, nextra):
    names = set(BASE)
    vusers = set()
    for c in cfgs:
        names |= cfg_names(c)
        for k, _ in c["vd"] or []:
            if "@" in k:
                vusers.add(k)
    names = sorted(names)
    doms = list(names)
    for d in names:
        doms += near(d)
    doms += ["", "remote.test", "test", "fill3.test", "FILL7.test", "q.w1.test", "fill999.test"]
    if ALPHA in names:          # each letter alone in the other case
        doms += [ALPHA[:i] + ALPHA[i].upper() + ALPHA[i + 1:] for i in range(len(ALPHA)) if ALPHA[i].isalpha()][:27] + ["q." + ALPHA.upper()]
    doms = list(dict.fromkeys(doms))
    core = []
    for l in ("u", "U", ""):
        core += [l + "@" + d for d in doms]
    for k in sorted(vusers):
        l, d = k.rsplit("@", 1)
        core += [k, k.upper(), k.lower(), casevar(rng, k), "x" + k, l + "@z." + d, l + "x@" + d, l + "@" + d + "@" + d]
    core += [l + "@" + d for l in ("v", ".u", "f.u", "F.U", "g.f.u", "u.") for d in names]
    core += ["u", "U", "v", "f.u", "u%a.test", "u%other.test", "%a.test", "u%", "u%v%a.test", "@", "u@@a.test", "@@", "%@a.test",
             "u%@a.test", "u%%a.test@a.test", "u%a.test%@other.test", "u%a.test@", "u@a.test%b.a.test"]
    pd = names + ["A.TEST", "Other.Test", "remote.test", ""]
    extra = []
    for _ in range(nextra):
        l = rng.choice(["u", "u", "U", "", "v", "f.u"])
        k = rng.random()
        d1, d2, d3 = rng.choice(doms), rng.choice(pd), rng.choice(pd)
        if k < 0.30:
            a = l + "%" + d1 + "@" + d2
        elif k < 0.50:
            a = l + "%" + d1 + "%" + d2 + "@" + d3
        elif k < 0.60:
            a = l + "%" + rng.choice(pd) + "%" + d2 + "%" + d3 + "@" + rng.choice(pd)
        elif k < 0.70:
            a = l + "@" + d1 + "@" + d2
        elif k < 0.78:
            a = l + "%" + d1 + "@" + d2 + "@" + d3
        elif k < 0.86:
            a = l + "@" + d1 + "%" + d2 + "@" + d3
        elif k < 0.92:
            a = l + "%" + d2                 # no @
        else:
            a = casevar(rng, rng.choice(core))
        extra.append(a)
    out = [a for a in dict.fromkeys(core + extra) if a and "\0" not in a]
    return out


def related(addr, names):
    """Non-trivial: something in the address meets the configured names, or its form is unusual."""
    if "@" not in addr or "%" in addr or addr.count("@") > 1:
        return True
    d = addr.rsplit("@", 1)[1].lower().strip(".")
    if d == "":
        return True
    tail = ".".join(d.split(".")[-2:])
    return any(n == d or n.endswith(tail) for n in names)


def make_case(rng, cid, cfg0, nextra, later):
    """later: list of ("edit"|"hup", cfg)."""
    cfgs = [cfg0] + [c for _, c in later]
    addrs = gen_addrs(rng, cfgs, nextra)
    rng.shuffle(addrs)
    s0 = rng.randrange(len(SENDERS))

    def msgs(al, off):
        return [{"snd": SENDERS[(s0 + off + i) % len(SENDERS)], "rc": al[j:j + CHUNK]} for i, j in enumerate(range(0, len(al), CHUNK))]
    phases = [{"k": "start", "cfg": cfg0, "msgs": msgs(addrs, 0)}]
    for n, (k, c) in enumerate(later):
        sub = rng.sample(addrs, min(len(addrs), 2 * CHUNK))
        phases.append({"k": k, "cfg": c, "msgs": msgs(sub, 3 + n)})
    return {"id": cid, "phases": phases}


def short_cfg(c):
    def j(x):
        return "-" if x is None else ",".join(x)
    return "me=%s;lo=%s;vd=%s;ph=%s;env=%s" % (c["me"], j(c["lo"][:8] if c["lo"] else c["lo"]),
                                              "-" if c["vd"] is None else ",".join(k + ":" + t for k, t in c["vd"][:8]),
                                              j(c["ph"][:8] if c["ph"] else c["ph"]), "-" if c["env"] is None else c["env"])


def text(s):
    return s


def midscan_hup(ck, tree, rng, n, first_id):
    """HUP while a scan of todo/ is open: two messages are queued while the daemon is kept from moving, the daemon preprocesses the
    first and is stopped when it hands that todo entry to qmail-clean, the control files are rewritten and HUP is sent, then it goes
    on: the second message is 'subsequently preprocessed' and must follow the new files.  Gated run (lib/daemon.py), real
    qmail-send / qmail-clean / qmail-queue."""
    import daemon, sandbox, signal as _sig
    cases, recs = [], []
    for i in range(n):
        c0, c1 = rand_cfg(rng), rand_cfg(rng)
        addrs = gen_addrs(rng, [c0, c1], 8)
        rng.shuffle(addrs)
        addrs = addrs[:12]
        m = [{"snd": "mid%d-a@sender.test" % i, "rc": addrs}, {"snd": "mid%d-b@sender.test" % i, "rc": list(reversed(addrs))}]
        case = {"id": first_id + i, "phases": [{"k": "start", "cfg": c0, "msgs": [m[0]]}, {"k": "hup", "cfg": c1, "msgs": [m[1]]}]}
        work = ck.scratch.sub("mid")
        import shutil
        shutil.rmtree(work, ignore_errors=True)
        sandbox.clear_queue(tree.root)
        ctl = daemon.Controller(tree, work)
        try:
            c10_util.write_controls(tree.root, c0)
            ctl.start()
            ctl.run()
            d = ctl.send_proc()
            ctl.held.add(d.pid)
            for mm in m:
                ctl.inject(b"Subject: mid\n\nbody\n", mm["snd"].encode("latin-1"), [r.encode("latin-1") for r in mm["rc"]])
                ctl.run()
            q = sandbox.list_queue(tree.root, with_data=True)
            ids = {}
            for (dd, name), v in q.items():
                if dd == "todo":
                    parts = v["data"].split(b"\0")
                    snd = [x[1:] for x in parts if x.startswith(b"F")]
                    if snd:
                        ids[snd[0].decode("latin-1")] = int(name)
            if len(ids) != 2:
                raise Infra("mid-scan HUP: the two messages are not both in todo/ (%s)" % ids)
            ctl.held.clear()
            for pr in ctl.procs.values():
                if pr.state == "parked":
                    pr.dirty = True
            ctl.run(until=lambda e: e.get("c") == "write" and bytes.fromhex(e.get("hex", "")).startswith(b"todo/"))
            ctl.held.add(d.pid)
            gone = [k for k, mid in ids.items() if not os.path.exists(os.path.join(tree.root, "queue", "info", str(mid % 3), str(mid)))]
            c10_util.write_controls(tree.root, c1)
            ctl.signal(_sig.SIGHUP)
            ctl.held.clear()
            ctl.run()
            for _ in range(8):
                if not ctl.delcmds:
                    break
                for cmd in list(ctl.delcmds):
                    ctl.report(cmd["chan"], cmd["delnum"], b"Zdeferred by the test rig\n")
            q = sandbox.list_queue(tree.root, with_data=True)
            # which message was preprocessed before the HUP: the one whose info file existed when the daemon was stopped
            first = [k for k in ids if k not in gone]
            if len(first) != 1:
                raise Infra("mid-scan HUP: the daemon was not stopped between the two messages (%s, %s)" % (ids, gone))
            for k, mid in ids.items():
                ph = 0 if k == first[0] else 1
                mm = m[0] if k == m[0]["snd"] else m[1]
                def chan(dn):
                    v = q.get((dn, str(mid)))
                    if not v:
                        return []
                    rr = v["data"].split(b"\0")
                    return [x[1:].decode("latin-1") for x in rr if x[:1] in (b"T", b"D")]
                # the case lists message a under phase 0 and message b under phase 1: when readdir gave them in the other order, swap
                recs.append({"case": case["id"], "ph": ph, "mi": 0, "snd": mm["snd"], "rc": list(mm["rc"]), "lo": chan("local"), "re": chan("remote"),
                             "dl": [], "ok": 1, "midscan": 1})
            if first[0] != m[0]["snd"]:
                case["phases"][0]["msgs"], case["phases"][1]["msgs"] = [m[1]], [m[0]]
        finally:
            ctl.stop()
        cases.append(case)
    sandbox.clear_queue(tree.root)
    return cases, recs


def control_read_faults(ck, tree, rng, n, first_id):
    """each read of a control file at start-up failing in turn (EIO): the daemon either does not start or works with exactly the
    files as written - a read that fails is not the end of the file.  Gated run with a fault policy; the message queued afterwards
    is judged like any other under the configuration on disk."""
    import daemon, sandbox, shutil
    cases, recs = [], []
    for i in range(n):
        c0 = rand_cfg(rng, fill=1) if i % 2 else rand_cfg(rng)
        addrs = gen_addrs(rng, [c0], 8)
        rng.shuffle(addrs)
        m = {"snd": "crf%d@sender.test" % i, "rc": addrs[:16]}
        case = {"id": first_id + i, "phases": [{"k": "start", "cfg": c0, "msgs": [m]}]}
        work = ck.scratch.sub("crf")
        shutil.rmtree(work, ignore_errors=True)
        sandbox.clear_queue(tree.root)
        state = {"n": 0, "k": 1 + i // 2, "done": False}

        def pol(pr, want, state=state):
            if pr.role.split(":")[-1] == "qmail-send" and want.get("c") == "read" and "/control/" in (want.get("obj") or want.get("path") or "") and not state["done"]:
                state["n"] += 1
                if state["n"] == state["k"]:
                    state["done"] = True
                    return "fail 5"
            return "go"
        ctl = daemon.Controller(tree, work, policy=pol)
        try:
            c10_util.write_controls(tree.root, c0)
            ctl.start()
            ctl.run()
            ctl.inject(b"Subject: crf\n\nbody\n", m["snd"].encode("latin-1"), [r.encode("latin-1") for r in m["rc"]])
            ctl.run()
            for _ in range(6):
                if not ctl.delcmds:
                    break
                for cmd in list(ctl.delcmds):
                    ctl.report(cmd["chan"], cmd["delnum"], b"Zdeferred by the test rig\n")
            q = sandbox.list_queue(tree.root, with_data=True)
            infos = [name for (dd, name) in q if dd == "info"]
            if not state["done"] or len(infos) != 1:
                continue            # fewer reads than k, or the daemon refused to start (the message stays in todo/): nothing to judge
            mid = infos[0]

            def chan(dn):
                v = q.get((dn, mid))
                if not v:
                    return []
                return [x[1:].decode("latin-1") for x in v["data"].split(b"\0") if x[:1] in (b"T", b"D")]
            recs.append({"case": case["id"], "ph": 0, "mi": 0, "snd": m["snd"], "rc": list(m["rc"]), "lo": chan("local"), "re": chan("remote"), "dl": [], "ok": 1, "crf": 1})
            cases.append(case)
        finally:
            ctl.stop()
    sandbox.clear_queue(tree.root)
    return cases, recs


def main():
    ap = argparse.ArgumentParser()
    ap.add_argument("--tier", default=os.environ.get("VERIF_TIER", "quick"))
    ap.add_argument("--replay")
    a = ap.parse_args()
    ck = Check("C10", a.tier)
    thorough = a.tier == "thorough"
    rng = ck.rng
    nworkers = 1 if a.replay else (min(12, NCPU) if thorough else min(8, NCPU))

    # ---- 1. the model (runs while the real programs are being driven) -----------------------------
    cfg = ck.scratch.path("RewriteSend.cfg")
    with open(cfg, "w") as f:
        f.write('SPECIFICATION Spec\nCONSTANT Tier = "%s"\nINVARIANT RouteOk\nINVARIANT VerpOk\nINVARIANT InDomain\n' % ("thorough" if thorough else "quick"))
    model = {}

    def run_model():
        try:
            model["res"] = tlc("RewriteSend", cfg, workers=max(4, NCPU // 2), timeout=3000, heap="8g", coverage=True)
        except Exception as e:           # reported from the main thread
            model["exc"] = e
    mth = threading.Thread(target=run_model)
    mth.start()

    def finish_model():
        mth.join()
        if "exc" in model:
            raise Infra("RewriteSend model: %r" % (model["exc"],))
        res = need_ok(model["res"], "RewriteSend model")
        ck.add_tlc("RewriteSend(%s)" % a.tier, res)
        if res.violated:
            ck.model_violation("RewriteSend", res)
        actions = ["Copy", "NoAt", "PctNotListed", "PctNoPercent", "PctRewrite", "FindAt", "LocHit", "LocMiss", "VdSkip", "VdMiss",
                   "VdEnd", "VdExcept", "VdTag", "Pass", "Edit", "Hup", "NoHup", "Again"]
        dead = [x for x in actions if res.coverage.get(x, (0, 0))[0] == 0]
        if dead:
            raise Infra("model: branches never taken (vacuous run): %s" % dead)
        ck.cov["model_action_coverage"] = {k: v[0] for k, v in sorted(res.coverage.items())}

    # ---- 2. the real programs -------------------------------------------------------------------
    t0 = time.time()
    tree = build_tree(ck.scratch, split=3)
    ids = sandbox.write_ids(ck.scratch.path("ids"), tree.root)
    trees = [tree] + sessions.pmap(lambda i: c10_util.clone_tree(tree, "w%d" % i, ck.scratch), range(1, nworkers))
    try:
        seam = c10_util.build_seam(tree)
    except Infra as e:
        log("C10: function-level seam unavailable (%s); binary level only" % str(e).strip()[-300:])
        seam = None
    log("C10: %d sandboxes built in %.0fs" % (nworkers, time.time() - t0))

    def later_phases(fam, always):
        later = []
        if always or rng.random() < 0.55:
            c1 = rand_cfg(rng) if rng.random() < 0.7 else rng.choice(fam)
            later.append((rng.choice(["hup", "hup", "edit"]), c1))
            if later[0][0] == "edit" or rng.random() < 0.3:
                later.append(("hup", c1 if later[0][0] == "edit" and rng.random() < 0.5 else rand_cfg(rng)))
        return later

    seam_cases = []
    if a.replay:
        cases = [json.load(open(a.replay))["case"]]
    else:
        fam = enum_cfgs()
        nfam = len(fam)
        if not thorough:
            fam = rng.sample(fam, 260)
        nrand = 1200 if thorough else 340
        nextra = 260 if thorough else 150
        allc = [(c, False) for c in fam] + [(rand_cfg(rng, fill=(rng.choice([70, 130, 300]) if i % 9 == 0 else 0)), True) for i in range(nrand)]
        cases = [make_case(rng, cid, c0, nextra, later_phases(fam, israndom)) for cid, (c0, israndom) in enumerate(allc)]
        # more of the same kind through the function-level seam (or, without it, a part of them through the binaries)
        nseam = 3000 if thorough else 200
        seam_cases = [make_case(rng, 100000 + i, rand_cfg(rng, fill=(rng.choice([70, 200, 500]) if i % 7 == 0 else 0)), nextra, later_phases(fam, True))
                      for i in range(nseam)]
        if seam is None:
            cases += seam_cases[:nseam // 4]
            seam_cases = []

    jobs = []
    per = [cases[i::nworkers] for i in range(nworkers)]
    for i, t in enumerate(trees):
        jf = ck.scratch.path("job%d.json" % i)
        with open(jf, "w") as f:
            json.dump({"src": t.src, "root": t.root, "ids": ids, "split": 3, "out": ck.scratch.path("out%d.ndjson" % i), "cases": per[i]}, f)
        jobs.append(jf)
    util = os.path.join(VERIF, "lib", "c10_util.py")
    procs = [subprocess.Popen([sys.executable, util, jf], stdout=subprocess.PIPE, stderr=subprocess.STDOUT) for jf in jobs]

    srecs = []
    if seam_cases:
        def one(ic):
            i, case = ic
            return c10_util.seam_case(seam, ck.scratch.path("seam", "d%d" % (i % 64)), case)
        os.makedirs(ck.scratch.path("seam"), exist_ok=True)
        locks = [threading.Lock() for _ in range(64)]

        def guarded(ic):
            with locks[ic[0] % 64]:
                return one(ic)
        try:
            for rl in sessions.pmap(guarded, list(enumerate(seam_cases)), workers=max(2, NCPU // 4)):
                srecs += rl
        except (RuntimeError, subprocess.TimeoutExpired) as e:
            raise Infra("seam harness: %s" % e)

    for p in procs:
        out, _ = p.communicate()
        if p.returncode != 0:
            raise Infra("worker failed (%s):\n%s" % (p.returncode, out.decode(errors="replace")[-3000:]))
    log("C10: %d cases run with the binaries, %d through the seam, at %.0fs" % (len(cases), len(seam_cases), time.time() - t0))

    recs, errors, skipped = [], [], 0
    for i in range(nworkers):
        with open(ck.scratch.path("out%d.ndjson" % i)) as f:
            for line in f:
                r = json.loads(line)
                if "skipped" in r:
                    skipped += 1
                else:
                    (errors if "error" in r else recs).append(r)
    if errors:
        raise Infra("%d cases could not be run, e.g. case %s: %s" % (len(errors), errors[0]["case"], errors[0]["error"]))
    bycase = {c["id"]: c for c in cases + seam_cases}
    if not skipped and len(recs) != sum(len(ph["msgs"]) for c in cases for ph in c["phases"]):
        raise Infra("records missing: %d" % len(recs))
    recs.sort(key=lambda r: (r["case"], r["ph"], r["mi"]))
    nbin = len(recs)
    recs += srecs
    if not a.replay:
        mcases, mrecs = midscan_hup(ck, tree, rng, 24 if thorough else 8, 9000000)
        for c in mcases:
            bycase[c["id"]] = c
        recs += mrecs
        ck.cov["messages_preprocessed_after_a_hup_that_arrived_during_the_scan"] = sum(1 for r in mrecs if r["ph"] == 1)
        fcases, frecs = control_read_faults(ck, tree, rng, 40 if thorough else 16, 9100000)
        for c in fcases:
            bycase[c["id"]] = c
        recs += frecs
        ck.cov["daemons_started_with_one_failing_read_of_a_control_file_that_went_on_to_route_mail"] = len(frecs)

    # ---- 3. verdict by TLC ----------------------------------------------------------------------
    # (several TLC processes with one worker each: TLC parses the record file once per worker)
    nparts = min(max(8, NCPU - 4) if thorough else 8, max(1, len(recs) // 40))
    order = list(range(len(recs)))
    parts = [order[i::nparts] for i in range(nparts)]          # interleaved: the parts cost about the same

    def validate(i):
        time.sleep(0.05 * i)              # distinct TLC metadirs
        recfile = ck.scratch.path("c10.%d.ndjson" % i)
        with open(recfile, "w") as f:
            for j in parts[i]:
                f.write(json.dumps(c10_util.tlc_record(recs[j], bycase[recs[j]["case"]]), separators=(",", ":")) + "\n")
        b, vres = tlc_validate_records("RewriteRec", "RewriteRec.cfg", recfile, len(parts[i]), chunk=20, workers=1, timeout=2400, heap="3g")
        return [(parts[i][idx - 1] + 1, why) for idx, why in b], vres
    bad = []
    for n, (b, vres) in enumerate(sessions.pmap(validate, range(nparts), workers=nparts)):
        bad += b
        ck.add_tlc("RewriteRec[%d]" % n, vres)
    bad.sort()
    ck.cov["traces_validated_against_impl"] = len(recs)
    log("C10: %d messages validated at %.0fs" % (len(recs), time.time() - t0))
    finish_model()
    log("C10: model finished at %.0fs (TLC wall %.0fs)" % (time.time() - t0, model["res"].wall))

    # ---- 4. evidence ----------------------------------------------------------------------------
    nhup = nedit = ndl = nverp = nloc = nrew = nincomplete = 0
    for r in recs:
        case = bycase[r["case"]]
        names = set()
        for ph in case["phases"][:r["ph"] + 1]:
            names |= cfg_names(ph["cfg"])
        ckey = json.dumps([[ph["k"], short_cfg(ph["cfg"])] for ph in case["phases"][:r["ph"] + 1]])
        for rc in r["rc"]:
            ad = text(rc)
            ck.count((ckey, ad), nontrivial=related(ad, names))
        lastk = case["phases"][r["ph"]]["k"]
        nhup += lastk == "hup"
        nedit += lastk == "edit"
        ndl += len(r["dl"])
        nverp += sum(1 for d in r["dl"] if d[1] != r["snd"])
        nloc += len(r["lo"])
        inset = set(r["rc"])
        nrew += sum(1 for x in r["lo"] + r["re"] if x not in inset)
        nincomplete += not r["ok"]
    for r in recs[:2] + recs[nbin // 2:nbin // 2 + 2] + recs[nbin - 1:nbin] + recs[-1:]:
        c = bycase[r["case"]]
        ck.sample({"level": "seam" if r.get("seam") else "binaries",
                   "history": [[ph["k"], short_cfg(ph["cfg"])] for ph in c["phases"][:r["ph"] + 1]], "sender": text(r["snd"]),
                   "recipients": [text(x) for x in r["rc"][:6]], "local": [text(x) for x in r["lo"][:6]],
                   "remote": [text(x) for x in r["re"][:6]],
                   "deliveries": r["dl"][:4]})
    ck.cov.update({"cases_binary_level": len(cases), "cases_seam": len(seam_cases), "seam_available": seam is not None,
                   "messages": len(recs), "messages_binary_level": nbin, "messages_after_hup": nhup,
                   "messages_after_edit_without_hup": nedit, "delivery_commands": ndl, "verp_expanded_senders": nverp,
                   "recipients_local": nloc, "recipients_rewritten": nrew, "messages_not_completely_observed": nincomplete,
                   "cases_skipped_after_repeated_timeouts": skipped})
    ck.cov["rule"] = ("configurations: %s of the %d-member enumerated family (5 locals/me x 46 sets of <= 2 of 9 virtualdomains entry kinds x 3 percenthack "
                      "x 2 envnoathost) + seeded random ones (some with 70-500 filler lines); per configuration every address u|U|''@d for d in the configured "
                      "names and 9 near misses of each, virtual-user near misses, no-@ / trailing-@ / %% / several-@ forms, + %d random compound forms; "
                      "all recipients of a case go through the real qmail-queue and qmail-send in messages of %d (binary level) or through getcontrols/"
                      "rewrite/senderadd (seam); 1-2 later phases (control files rewritten, with or without HUP) re-inject a sample; an evaluation = one "
                      "recipient preprocessed by the real code; non-trivial = its domain meets a configured name (same last two labels), or it has no @, "
                      "several @, or a %%; distinct by (history of configurations, address)" % ("all" if thorough else "260", 1380, 260 if thorough else 150, CHUNK))
    ck.cov["exhaustive"] = False
    ck.assumptions += ["control files with a key listed twice (ignoring case) are not generated (outside the property's domain)",
                       "the shim serves the qmail account names to qmail-queue only; qmail-send and qmail-clean run unmodified and unshimmed",
                       "a HUP counts as handled when the signal is no longer pending and qmail-send sleeps again (/proc/<pid>/status)",
                       "percent hack on an address whose part between the last % and the final @ contains an @: every reading accepted (Rewrite.tla PctResults)",
                       "VERP: 'deliveries to recip@domain' is read as the recipient field of the same delivery command",
                       "control-file syntax exercised: comment lines, trailing spaces and tabs (qmail-control(5)); nothing else"]

    # ---- 5. violations --------------------------------------------------------------------------
    best = {}
    for idx, why in bad:
        r = recs[idx - 1]
        why = why.strip('"')
        if why == "OutsideDomain":
            raise Infra("generator produced a configuration with duplicate keys (case %s)" % r["case"])
        clause, _, pos = why.partition(":")
        case = bycase[r["case"]]
        phs = case["phases"][:r["ph"] + 1]
        if clause == "Route":
            wit = text(r["rc"][int(pos) - 1])
            what = "recipient #%s %r of the envelope is not in the list / not in the form the control files call for" % (pos, wit)
        elif clause == "Verp":
            d = r["dl"][int(pos) - 1]
            wit = "%s>%s" % (r["snd"], d[2])
            what = "delivery to %r of a message from %r carries the sender %r" % (d[2], r["snd"], d[1])
        else:
            wit = "n=%d" % len(r["rc"])
            what = "%d recipients in the envelope, %d in local/ + %d in remote/" % (len(r["rc"]), len(r["lo"]), len(r["re"]))
        hist = "/".join("%s[%s]" % (ph["k"], short_cfg(ph["cfg"])) for ph in phs)
        key = re.sub(r"\s", "_", "%s:%s:in=%s" % (clause, hist, wit))
        size = (len(phs), sum(len(short_cfg(ph["cfg"])) for ph in phs), len(wit))
        best.setdefault(clause, []).append((size, key, r, wit, what))
    if skipped and not bad:
        raise Infra("%d cases skipped after repeated timeouts, but no violation seen" % skipped)
    for clause, lst in sorted(best.items()):
        lst.sort(key=lambda x: x[0])
        seen = set()
        for size, key, r, wit, what in lst:
            if wit in seen or len(seen) >= 4:
                continue
            seen.add(wit)
            if any(re.fullmatch(p, key) for p in PENDING_FINDINGS):
                print("PENDING-FINDING property=C10 %s" % key)
                continue
            case = bycase[r["case"]]
            rcase = {"id": 0, "phases": [{"k": ph["k"], "cfg": ph["cfg"], "msgs": ([ph["msgs"][r["mi"]]] if n == r["ph"] else [])}
                                         for n, ph in enumerate(case["phases"][:r["ph"] + 1])]}
            desc = "%s; %s; envelope %s -> local %s, remote %s%s%s" % (
                what, "/".join("%s[%s]" % (ph["k"], short_cfg(ph["cfg"])) for ph in case["phases"][:r["ph"] + 1]),
                [text(x) for x in r["rc"]][:6], [text(x) for x in r["lo"]][:6], [text(x) for x in r["re"]][:6],
                " (function-level seam)" if r.get("seam") else "", "" if r["ok"] else " (not completely preprocessed in time)")
            ck.violation(key, desc, rcase)
    ck.finish()


if __name__ == "__main__":
    main_wrapper(main)
