#!/usr/bin/env python3
"""X03 (beyond the listed properties) Local submission: qmail-inject completes the header as documented, picks the documented
envelope sender, and every time stamp the suite writes is the right calendar date.

  model   spec/Datetime.tla + DatetimeModel.tla: the program's calendar arithmetic (datetime_tai, transcribed) against the Gregorian
          calendar walked day by day from 1582 to 2500, both directions; spec/InjectHdr.tla + InjectHdrModel.tla: the field loop
          and end-of-header logic of qmail-inject.c (transcribed) against the documented result for every header of up to 2 / 3
          fields over 23 kinds x letter sets of QMAILINJECT x -f x -n x Mail-Followup-To list
  impl    (a) harness/datetime_seam.c: the real datetime_tai() and date822fmt() on every day of 1969..2040, the first and last
          days of every year and of every February 1582..2500, and random times; (b) the real qmail-inject under a virtual
          clock with the recording qmail-queue stand-in: generated headers (fields in random order and letter case), letter sets,
          -f, -n, QMAILSUSER / QMAILSHOST / QMAILNAME / QMAILMFTFILE / QMAILIDHOST
  verdict spec/InjectHdrRec.tla
This check is not part of MANIFEST.json (the property list is fixed); it is specification coverage beyond the list.
"""
import sys, os, json, argparse, re, subprocess, threading, time
sys.path.insert(0, os.path.join(os.path.dirname(os.path.abspath(__file__)), "..", "lib"))
from vlib import *
import sandbox, sessions

KINDS = ["date", "msgid", "from", "to", "cc", "bcc", "ato", "rp", "sender", "replyto", "clen", "mft", "subject", "rrt", "errorsto",
         "rsender", "rfrom", "rreplyto", "rto", "rcc", "rbcc", "rdate", "rmsgid"]
NAME = {"date": "Date", "msgid": "Message-ID", "from": "From", "to": "To", "cc": "Cc", "bcc": "Bcc", "ato": "Apparently-To", "rp": "Return-Path",
        "sender": "Sender", "replyto": "Reply-To", "clen": "Content-Length", "mft": "Mail-Followup-To", "subject": "Subject",
        "rrt": "Return-Receipt-To", "errorsto": "Errors-To", "rsender": "Resent-Sender", "rfrom": "Resent-From", "rreplyto": "Resent-Reply-To",
        "rto": "Resent-To", "rcc": "Resent-Cc", "rbcc": "Resent-Bcc", "rdate": "Resent-Date", "rmsgid": "Resent-Message-ID"}
KIND_OF_NAME = {v.lower(): k for k, v in NAME.items()}
ADDED_KIND = {"date": "date", "message-id": "msgid", "from": "from", "resent-date": "rdate", "resent-message-id": "rmsgid", "resent-from": "rfrom",
              "mail-followup-to": "mft", "return-path": "rp"}
PLACEHOLDER = b" recipient list not shown: ;"
FLAGSETS = ["", "c", "s", "f", "i", "r", "m", "sr", "fi", "rm", "csfirm", "cf", "sm", "ri"]


def B(x):
    return list(x)


def addr_of(j):
    return b"zq%dzq@h.test" % j


def render_field(rng, k, j):
    name = NAME[k]
    name = rng.choice([name, name, name.lower(), name.upper()])
    sp = " " if rng.random() < 0.1 and k != "from" else ""      # a header line that starts with "From " is taken as an mbox line (MBOX-Line:), not as a From field
    a = addr_of(j).decode()
    if k in ("date", "rdate"):
        v = "1 Jan 2000 00:00:00 -0000 (zq%dzq)" % j
    elif k in ("msgid", "rmsgid"):
        v = "<zq%dzq@id.test>" % j
    elif k == "rp":
        v = "<%s>" % a
    elif k == "clen":
        v = "5 zq%dzq" % j
    elif k == "subject":
        v = "zq%dzq" % j
    else:
        v = a if rng.random() < 0.7 else "Some One <%s>" % a
    return ("%s%s: %s\n" % (name, sp, v)).encode()


def parse_header(msg):
    """[(lower-case name, value bytes without the final newline)] of the header of msg"""
    head = msg.split(b"\n\n", 1)[0] if b"\n\n" in msg else msg
    fields = []
    for line in head.split(b"\n"):
        if not line:
            continue
        if line[:1] in b" \t" and fields:
            fields[-1] = (fields[-1][0], fields[-1][1] + b"\n" + line)
        else:
            n, _, v = line.partition(b":")
            fields.append((n.strip().lower().decode("latin1"), v))
    return fields


def unquote_local(a):
    """inverse of quote2(): "local part"@domain -> local part@domain"""
    if a[:1] != b'"':
        return a
    i = a.rfind(b'"@')
    if i < 1:
        return a
    return re.sub(rb"\\(.)", rb"\1", a[1:i]) + a[i + 1:]


def gen_case(rng, i, thorough):
    nf = rng.choice([0, 1, 2, 3, 4, 6, 9])
    pool = KINDS if rng.random() < 0.6 else rng.choice([["to", "cc", "bcc", "subject", "from", "date"], ["rto", "rcc", "rbcc", "to", "subject", "rdate", "rmsgid", "rfrom"],
                                                        ["rp", "rp", "from", "msgid", "subject", "to"], ["to", "cc", "mft", "subject"]])
    hdr = [rng.choice(pool) for _ in range(nf)]
    fl = rng.choice(FLAGSETS)
    fs = rng.random() < 0.25
    q = rng.random() < 0.8
    tocc = [j + 1 for j, k in enumerate(hdr) if k in ("to", "cc")]
    mfmode = rng.choice(["none", "none", "match", "nomatch", "empty"])
    mfth = []
    if mfmode == "match" and tocc:
        mfth = sorted(rng.sample(tocc, rng.randint(1, len(tocc))))
    env = {"suser": rng.random() < 0.4, "shost": rng.random() < 0.4, "host": rng.random() < 0.6, "name": rng.random() < 0.5, "idhost": rng.random() < 0.3}
    clock = rng.choice([rng.randrange(0, 2 ** 31 - 1), 951782400 + rng.randrange(-86400, 86400), 1790000000 + rng.randrange(0, 10 ** 7)])
    tail = rng.choice([b"\nbody\n", b"\n", b""])
    return {"i": i, "hdr": hdr, "fl": fl, "fs": fs, "q": q, "mfmode": mfmode, "mfth": mfth, "env": env, "clock": clock, "tail": tail, "seed": rng.randrange(1 << 30)}


def run_case(tree, qq, work, c):
    import random
    rng = random.Random(c["seed"])
    i = c["i"]
    msg = b"".join(render_field(rng, k, j + 1) for j, k in enumerate(c["hdr"])) + c["tail"]
    envx = {"USER": "tester", "PATH": os.environ.get("PATH", "/usr/bin:/bin"), "LD_PRELOAD": sandbox.SHIM, "VERIF_ROOT": tree.root}
    clockf = os.path.join(work, "clock%d" % i)
    with open(clockf, "w") as f:
        f.write("%d\n" % c["clock"])
    envx["VERIF_CLOCK"] = clockf
    e = c["env"]
    user, host = b"tester", b"me.test"
    if e["host"]:
        envx["QMAILHOST"] = "mh.test"
        host = b"mh.test"
    suser, shost = user, host
    if e["suser"]:
        envx["QMAILSUSER"] = "senduser"
        suser = b"senduser"
    if e["shost"]:
        envx["QMAILSHOST"] = "sh.test"
        shost = b"sh.test"
    if e["name"]:
        envx["QMAILNAME"] = "Full Name"
    idhost = b"me.test"
    if e["idhost"]:
        envx["QMAILIDHOST"] = "ids.test"
        idhost = b"ids.test"
    if c["fl"]:
        envx["QMAILINJECT"] = c["fl"]
    if c["mfmode"] != "none":
        mf = os.path.join(work, "mft%d" % i)
        with open(mf, "wb") as f:
            if c["mfmode"] == "match":
                f.write(b"other@list.test\n" + b"".join((addr_of(j).upper() if j % 2 else addr_of(j)) + b"\n" for j in c["mfth"]))
            elif c["mfmode"] == "nomatch":
                f.write(b"other@list.test\nzq99zq@h.test\n")
        envx["QMAILMFTFILE"] = mf
    argv = [tree.bin("qmail-inject")]
    fsnd = b"fs%d@f.test" % i
    if c["fs"]:
        argv += ["-f", fsnd.decode()]
    if not c["q"]:
        argv += ["-n"]
    argv += ["-a", "--", "rcpt@r.test"]
    tag = "x%d" % i
    envx.update(qq.env(tag))
    p = subprocess.Popen(argv, stdin=subprocess.PIPE, stdout=subprocess.PIPE, stderr=subprocess.PIPE, env=envx, cwd=tree.root)
    try:
        out, err = p.communicate(msg, timeout=60)
    except subprocess.TimeoutExpired:
        p.kill()
        p.communicate()
        raise Infra("qmail-inject did not finish within 60 s")
    for fn in (clockf, envx.get("QMAILMFTFILE")):
        if fn and os.path.exists(fn):
            os.unlink(fn)
    return {"case": c, "msg": msg, "rc": p.returncode, "pid": p.pid, "stdout": out, "stderr": err, "tag": tag,
            "user": user, "host": host, "suser": suser, "shost": shost, "idhost": idhost, "fsnd": fsnd, "name": b"Full Name" if e["name"] else b""}


def project(r, q):
    """one record for TLC from a run and what the stand-in queue program recorded"""
    c = r["case"]
    if c["q"]:
        got = q[0] if q else None
        outmsg = got["msg"] if got else b""
        snd = sessions.parse_envelope(got["env"])[0] if got else None
        queued = 1 if got else 0
    else:
        outmsg, snd, queued = r["stdout"], None, 1 if q else 0
    fields = parse_header(outmsg)
    out, datetxt, msgidtxt, fromtxt, mftset, phbad = [], [], [], [], [], 0
    for fi, (n, v) in enumerate(fields):
        if fi == 0 and not c["q"] and n == "return-path":
            # -n: the envelope sender is shown as a Return-Path line in front, quoted as for a header
            out.append({"a": "add", "k": "rp", "j": 0})
            mm = re.match(rb"^ <(.*)>$", v)
            snd = unquote_local(mm.group(1)) if mm else b"?unparsed?" + v
            continue
        m = re.search(rb"zq(\d+)zq", v)
        if n == "mail-followup-to" and m and KIND_OF_NAME.get(n) != (c["hdr"][int(m.group(1)) - 1] if int(m.group(1)) <= len(c["hdr"]) else ""):
            # a supplied Mail-Followup-To lists addresses of To/Cc fields: it carries their markers
            out.append({"a": "add", "k": "mft", "j": 0})
            mftset = sorted(int(x) for x in re.findall(rb"zq(\d+)zq", v))
            continue
        if m:
            out.append({"a": "kept", "j": int(m.group(1)), "k": ""})
            continue
        if n in ("cc", "resent-cc"):
            out.append({"a": "add", "k": "ccph" if n == "cc" else "rccph", "j": 0})
            if v != PLACEHOLDER:
                phbad = 1
            continue
        k = ADDED_KIND.get(n, "unknown")
        out.append({"a": "add", "k": k, "j": 0})
        if k in ("date", "rdate"):
            datetxt = B(v.strip())
        elif k in ("msgid", "rmsgid"):
            msgidtxt = B(v.strip())
        elif k in ("from", "rfrom"):
            fromtxt = B(v.strip())
    return {"kind": "inj", "hdr": [{"k": k} for k in c["hdr"]], "fl": list(c["fl"]), "fs": 1 if c["fs"] else 0, "q": 1 if c["q"] else 0,
            "mfth": c["mfth"], "out": out, "rc": r["rc"], "queued": queued,
            "sndb": B(snd) if snd is not None else [63], "fsnd": B(r["fsnd"]), "addr": [B(addr_of(j + 1)) for j in range(len(c["hdr"]))],
            "user": B(r["user"]), "host": B(r["host"]), "suser": B(r["suser"]), "shost": B(r["shost"]), "name": B(r["name"]),
            "day": c["clock"] // 86400, "tod": c["clock"] % 86400, "clock": c["clock"], "pid": r["pid"], "idhost": B(r["idhost"]),
            "datetxt": datetxt, "msgidtxt": msgidtxt, "fromtxt": fromtxt, "mftset": mftset, "phbad": phbad,
            "t": 0, "fits": 0, "f": [], "text": []}


def seam_records(ck, tree, thorough):
    exe = cc(os.path.join(tree.src, "datetime_seam"), [os.path.join(HARNESS, "datetime_seam.c")], cflags=["-I" + tree.src],
             libs=[os.path.join(tree.src, x) for x in ("date822fmt.o", "datetime.a", "fs.a", "str.a")])
    import datetime as D
    rng = ck.rng
    ts = set()
    d0 = D.date(1970, 1, 1)
    for day in range(-366, 25600, 1 if thorough else 3):
        ts.add(day * 86400 + rng.choice([0, 86399, rng.randrange(86400)]))
    for y in range(1582, 2501):
        for (m, d) in ((1, 1), (2, 28), (3, 1), (12, 31)):
            day = (D.date(y, m, d) - d0).days
            ts.add(day * 86400 + rng.choice([0, 86399]))
            if m == 2:
                ts.add((day + 1) * 86400 + rng.randrange(86400))
    for _ in range(4000 if thorough else 1000):
        ts.add(rng.randrange(-12219292800, 16725225600))
    for t in (-1, 0, 1, -86400, -86401, 86399, 86400, 2 ** 31 - 1, 2 ** 31, -2 ** 31, 951782399, 951782400, 4107542399, 4107542400):
        ts.add(t)
    ts = sorted(ts)
    p = subprocess.run([exe], input="".join("%d\n" % t for t in ts).encode(), stdout=subprocess.PIPE, timeout=120)
    lines = p.stdout.decode("latin1").split("\n")
    recs = []
    for t, line in zip(ts, lines):
        f = line.split(" ", 9)
        if len(f) < 10 or int(f[0]) != t:
            raise Infra("datetime seam output out of step at %d: %r" % (t, line))
        fits = 1 if -2 ** 31 < t < 2 ** 31 else 0
        recs.append({"kind": "dt", "day": t // 86400, "tod": t % 86400, "t": t if fits else 0, "fits": fits, "f": [int(x) for x in f[1:9]], "text": B(f[9].encode("latin1")),
                     "hdr": [], "fl": [], "fs": 0, "q": 0, "mfth": [], "out": [], "rc": 0, "queued": 0, "sndb": [], "fsnd": [], "addr": [], "user": [], "host": [],
                     "suser": [], "shost": [], "name": [], "clock": 0, "pid": 0, "idhost": [], "datetxt": [], "msgidtxt": [], "fromtxt": [], "mftset": [], "phbad": 0})
    return recs


def main():
    ap = argparse.ArgumentParser()
    ap.add_argument("--tier", default=os.environ.get("VERIF_TIER", "quick"))
    ap.add_argument("--replay")
    a = ap.parse_args()
    ck = Check("X03", a.tier)
    thorough = a.tier == "thorough"
    rng = ck.rng

    # ---- models
    models = []
    dcfg = ck.scratch.path("DatetimeModel.cfg")
    with open(dcfg, "w") as f:
        f.write("SPECIFICATION Spec\nCONSTANTS\n MinYear = 1582\n MaxYear = 2500\nINVARIANT FieldsAgree\nINVARIANT YdayAsCoded\nINVARIANT SplitAgrees\nCHECK_DEADLOCK FALSE\n")
    mf = 3 if thorough else 2
    icfg = ck.scratch.path("InjectHdrModel.cfg")
    with open(icfg, "w") as f:
        f.write("SPECIFICATION Spec\nCONSTANTS\n MaxFields = %d\n FlagSets = {%s}\nINVARIANT ProgramDoesWhatIsDocumented\nINVARIANT VerdictAgrees\nCHECK_DEADLOCK FALSE\n"
                % (mf, ", ".join("{%s}" % ", ".join('"%s"' % ch for ch in fs) for fs in FLAGSETS[:11])))
    for mod, cfg, name, nw in (("DatetimeModel", dcfg, "DatetimeModel(1582..2500)", 4), ("InjectHdrModel", icfg, "InjectHdrModel(MaxFields=%d)" % mf, 8)):
        box = {}

        def runm(mod=mod, cfg=cfg, nw=nw, box=box):
            try:
                box["res"] = tlc(mod, cfg, workers=nw, timeout=1500, heap="6g", metadir=cfg + ".meta")
            except Exception as e:
                box["exc"] = e
        th = threading.Thread(target=runm)
        th.start()
        models.append((mod, name, th, box))
    # sanity: the strict form of the day-of-year comparison must fail (the code's yday is one too large from March to December of
    # years divisible by 100 and not by 400; nothing in the suite reads that field) and the walk must reach the last day
    for inv in ("YdayAgrees", "ReachesEnd"):
        scfg = ck.scratch.path("DatetimeSanity%s.cfg" % inv)
        with open(scfg, "w") as f:
            f.write("SPECIFICATION Spec\nCONSTANTS\n MinYear = 1890\n MaxYear = 1901\nINVARIANT %s\nCHECK_DEADLOCK FALSE\n" % inv)
        res = need_ok(tlc("DatetimeModel", scfg, workers=2, timeout=600, heap="2g", metadir=scfg + ".meta"), "DatetimeModel sanity")
        if inv not in res.violated:
            raise Infra("sanity: DatetimeModel should violate %s" % inv)

    # ---- the code
    tree = build_tree(ck.scratch, split=3)
    with open(os.path.join(tree.root, "control", "me"), "w") as f:
        f.write("me.test\n")
    for fn in ("defaulthost", "defaultdomain", "plusdomain", "idhost"):
        pth = os.path.join(tree.root, "control", fn)
        if os.path.exists(pth):
            os.unlink(pth)
    recs = seam_records(ck, tree, thorough)
    nseam = len(recs)
    log("X03: %d calendar records %.1fs" % (nseam, time.time() - ck.t0))
    qq = sessions.QQDir(ck.scratch.path("qq"))
    work = ck.scratch.sub("work")
    if a.replay:
        cases = [json.load(open(a.replay))["case"]]
        cases[0]["tail"] = cases[0]["tail"].encode("latin1")
        recs, nseam = [], 0
    else:
        cases = [gen_case(rng, i, thorough) for i in range(6000 if thorough else 1500)]
    runs = sessions.pmap(lambda c: run_case(tree, qq, work, c), cases)
    got = qq.collect()
    for r in runs:
        recs.append(project(r, got.get(r["tag"], [])))
    log("X03: %d qmail-inject runs %.1fs" % (len(runs), time.time() - ck.t0))
    if os.environ.get("VERIF_DEBUG_X03"):
        for r, rec in list(zip(runs, recs[nseam:]))[:int(os.environ["VERIF_DEBUG_X03"])]:
            print(r["case"], r["msg"], r["rc"], r["stdout"][:300], r["stderr"][:200], got.get(r["tag"]), json.dumps(rec)[:1500], sep="\n  ")
    f = ck.scratch.path("x03.ndjson")
    write_ndjson(f, recs)
    bad, res = tlc_validate_records("InjectHdrRec", "InjectHdrRec.cfg", f, len(recs), chunk=300, heap="8g", timeout=2400)
    ck.add_tlc("InjectHdrRec", res)
    for mod, name, th, box in models:
        th.join()
        if "exc" in box:
            raise Infra("%s: %s" % (mod, box["exc"]))
        mres = need_ok(box["res"], mod)
        ck.add_tlc(name, mres)
        if mres.violated:
            ck.model_violation(mod, mres)
    ck.cov["traces_validated_against_impl"] = len(recs)
    ck.cov["calendar_function_calls"] = nseam
    ck.cov["qmail_inject_runs"] = len(runs)
    ck.cov["runs_with_resent_fields"] = sum(1 for r in runs if any(k in ("rsender", "rfrom", "rreplyto", "rto", "rcc", "rbcc", "rdate", "rmsgid") for k in r["case"]["hdr"]))
    ck.cov["runs_with_supplied_mail_followup_to"] = sum(1 for rec in recs[nseam:] if any(o["a"] == "add" and o["k"] == "mft" for o in rec["out"]))
    ck.cov["runs_with_return_path_sender"] = sum(1 for r in runs if "rp" in r["case"]["hdr"] and not r["case"]["fs"] and "s" not in r["case"]["fl"])
    for rec in recs[:nseam]:
        ck.count(("dt", rec["day"], rec["tod"]), nontrivial=True)
    for r in runs:
        c = r["case"]
        ck.count(("inj", tuple(c["hdr"]), c["fl"], c["fs"], c["q"], c["mfmode"], tuple(c["mfth"]), json.dumps(c["env"], sort_keys=True)), nontrivial=len(c["hdr"]) > 0)
    if runs:
        ck.sample({"qmail_inject_run": {"header": runs[7 % len(runs)]["msg"].decode("latin1"), "record": {k: v for k, v in recs[nseam + 7 % len(runs)].items() if v not in ([], 0, "")}}})
    best = {}
    for idx, why in bad:
        why = why.strip('"')
        rec = recs[idx - 1]
        size = len(rec["hdr"])
        if why not in best or size < best[why][0]:
            best[why] = (size, idx)
    for why, (size, idx) in sorted(best.items()):
        rec = recs[idx - 1]
        if rec["kind"] == "dt":
            ck.violation("calendar:%s:t=%d" % (why, rec["day"] * 86400 + rec["tod"]), "datetime_tai / date822fmt at %d -> %s %r" % (rec["day"] * 86400 + rec["tod"], rec["f"], bytes(rec["text"])), rec)
        else:
            r = runs[idx - 1 - nseam]
            c = dict(r["case"])
            c["tail"] = c["tail"].decode("latin1")
            ck.violation("inject:%s:hdr=%s:fl=%s:fs=%d:q=%d:mft=%s" % (why, ",".join(c["hdr"]), c["fl"], c["fs"], c["q"], c["mfmode"]),
                         "message %r with QMAILINJECT=%r -> rc %d, header fields %s, envelope sender %r" % (r["msg"][:200], c["fl"], r["rc"], [(o["a"], o.get("k") or o.get("j")) for o in rec["out"]], bytes(rec["sndb"])), c)
    ck.cov["rule"] = "calendar: distinct (day, second); qmail-inject: distinct (field kinds in order, letters, -f, -n, followup list, environment); non-trivial = at least one field"
    ck.finish()


if __name__ == "__main__":
    main_wrapper(main)
