#!/usr/bin/env python3
"""C11 Local deliveries run as exactly the user the address belongs to, never root.

  model   spec/UsersLspawn.tla (P: qmail-newu line by line, nughde_get()/spawn() of qmail-lspawn.c, userext() of
          qmail-getpw.c, one action per key tried / candidate split / identity call) x an environment that
          supplies every table of <= MaxLines lines over a universe of entries (simple, wildcard, duplicate,
          overlapping, mixed case, uid 0, malformed), every passwd database over accounts x home ownership x
          lookup errors, every local part over {a,A,b,-} up to MaxLocal bytes, and read / stat errors;
          invariants Conforms (= monitor Verdict of spec/Users.tla on every completed run), SearchIsAssign,
          SearchComplete, CompiledEqualsSource, NeverRootAtExec
  impl    users/assign compiled by the real qmail-newu; the real qmail-lspawn (root, under the shim that serves
          the generated passwd database) is given delivery commands on descriptor 0; bin/qmail-getpw is the
          real one (home directories are real, chowned); bin/qmail-local is a stand-in that records argv,
          real/effective/saved ids and groups; the shim records setgroups/setgid/setuid before the exec.
          Damage: users/cdb truncated at every offset, every pointer word redirected outside the file or
          overwritten, users/cdb unreadable, stat error in qmail-getpw, lookup errors ("E name").
  verdict TLC evaluates Verdict (spec/Users.tla) on every delivery record (spec/UsersRec.tla)
"""
import sys, os, json, argparse, shutil, struct, threading, itertools, re, time, subprocess
sys.path.insert(0, os.path.join(os.path.dirname(os.path.abspath(__file__)), "..", "lib"))
from vlib import *
import sandbox, sessions
import c11_util as U

# Witnesses on the unchanged tree that are reported to the maintainer and not yet decided: regexes on witness keys.
PENDING_FINDINGS = []

DOM = b"dom.test"
DFLT = b"./Mailbox"
UID0 = 8000

# ---------------------------------------------------------------------------------------------------------------
# universes for the real code
# ---------------------------------------------------------------------------------------------------------------
# accounts: name -> (uid, gid)
N31 = b"u" * 31       # the longest account name qmail-getpw(8) defines ("shorter than 32 characters")
N32 = b"v" * 32       # only ever a local part: accounts with such names are outside the documents and are not generated
ACCOUNTS = {b"joe": (8001, 9001), b"joe-list": (8002, 9002), b"bob": (8003, 9003), b"j": (8004, 9004), b"toor": (0, 0),
            b"Carl": (8006, 9006), N31: (8007, 9007), b"jo": (0, 9009), b"ann": (8010, 0),
            b"afo": (8011, 9011), b"ad": (8012, 9012), b"info": (8013, 9013)}
STATES = ("own", "oth", "none", "hid")

# identities used in tables: (user, uid, gid, home)
TID = [(b"joe", 503, 78, b"/home/joe"), (b"Lists", 600, 61, b"/var/Lists"), (b"root", 0, 0, b"/root"), (b"zgid", 700, 0, b"/z"),
       (b"vmail", 65534, 65533, b"/var/vmail/Dom"), (b"m.x", 1, 1, b"/"), (b"big", 2147483000, 2147483001, b"/b")]


def ent(w, loc, t, dash=b"", ext=b""):
    u, uid, gid, home = TID[t] if isinstance(t, int) else t
    return U.entry(w, loc, u, uid, gid, home, dash, ext)


# the model's universe of entries, with realistic strings
ENUM_ENTRIES = [ent(0, b"joe", (b"u1", 101, 201, b"/h/1")),
                ent(0, b"JOE", (b"u2", 102, 202, b"/h/2"), b"", b"X"),
                ent(1, b"joe", (b"u3", 103, 203, b"/h/3"), b"-", b"P"),
                ent(1, b"joe-", (b"u4", 104, 204, b"/h/4"), b"-", b""),
                ent(1, b"", (b"u5", 105, 205, b"/h/5"), b"-", b""),
                ent(0, b"joe-list", (b"u6", 0, 206, b"/h/6")),
                ent(1, b"Joe-L", (b"u7", 107, 207, b"/h/7"), b"", b"l"),
                ent(1, b"joe", (b"u8", 0, 208, b"/h/8"), b"-", b"")]
ENUM_LOCALS = [b"joe", b"Joe", b"JOE", b"jo", b"j", b"joex", b"joe-", b"joe-l", b"Joe-List", b"joe-list", b"JOE-LIST-x", b"joe-lisT",
               b"joe-x", b"bob", b"bob-X", b"", b"nobody", b"joe.", b"JOE-", b"Joe-Lx"]
PW_LOCALS = [b"joe", b"JOE", b"joe-list", b"Joe-List-X", b"joe-list-", b"joe-l", b"joe-", b"joe--x", b"joe-x-Y", b"bob", b"bob-x",
             b"carl", b"Carl", b"CARL-x", N31, N31 + b"-x", N31.upper() + b"-Y", N32, N32 + b"-x", N31 + b"u", b"alias", b"alias-x",
             b"Alias-Y", b"nobody", b"-joe", b"-", b"jo", b"jo-x", b"toor", b"ann", b"ann-gid0", b"j", b"J-"]

# full 32-bit collisions of the cdb hash between simple keys "!x\0" (verified at run time)
FULL_COLLISIONS = [(b"ad-", b"afo"), (b"ado", b"af-"), (b"aa-", b"agk"), (b"ah-", b"ajo"), (b"ac-", b"amc")]
VOCAB = [b"joe", b"Joe", b"joe-", b"joe-list", b"JOE-List", b"jo", b"j", b"", b"bob", b"bob-", b"info", b"in", b"inf", b"info-", b"a.b",
         b"x+y", b"=eq", b"\xe9t\xc9", b"ad-", b"afo", b"ado", b"af-", b"ann", b"postmaster", b"PostMaster", b"mailer-daemon", b"a", b"ab",
         b"abc", b"ABCD", b"abcde", b"root", b"alias", b"-", b"--", b"joe-list-owner", b"sp ace", b"@at", b"semi;"]


def derived_locals(strings, rng, extra=()):
    out = []
    for s in strings:
        out += [s, s.swapcase(), s.upper(), s + b"x", s + b"-ext", s + b"-Ext-More", s[:-1], b"x" + s, s + b"-"]
        if len(s) > 1:
            out.append(s[:len(s) // 2].upper() + s[len(s) // 2:])
    out += [b"", b"nobody", b"NoBody-x"]
    out += list(extra)
    seen, res = set(), []
    for l in out:
        if l not in seen and b"\0" not in l and len(l) < 200:
            seen.add(l)
            res.append(l)
    return res


class Job:
    """One configuration (table in force, table offered last if malformed, passwd database) + the local parts
    to deliver to + optionally a list of damage variants of users/cdb (each variant = one round of deliveries)."""
    def __init__(self, kind, tab, accounts=(), errs=(), alias="ok", locals_=(), mal=None, after_dot=(), damage=None, trace=True,
                 statfault=False, part=None, pw2u=False):
        self.kind = kind
        self.pw2u = pw2u                # the table is what the real qmail-pw2u prints for the passwd database
        self.part = part                # (i, n): this job handles every n-th damage variant starting at i
        self.tab = tab                  # list of entries, or None = no users/cdb at all
        self.accounts = list(accounts)  # (name, state)
        self.errs = list(errs)
        self.alias = alias              # ok | absent | err | owned | root
        self.locals = list(locals_)
        self.mal = mal                  # None or (kind, [entries before the bad line], [entries after])
        self.after_dot = list(after_dot)
        self.damage = damage            # None or list of damage specs
        self.trace = trace
        self.statfault = statfault

    def to_json(self):
        def ej(e):
            return dict(e, loc=e["loc"].decode("latin-1"), user=e["user"].decode("latin-1"), home=e["home"].decode("latin-1"),
                        dash=e["dash"].decode("latin-1"), ext=e["ext"].decode("latin-1"))
        return {"kind": self.kind, "tab": None if self.tab is None else [ej(e) for e in self.tab],
                "accounts": [[n.decode("latin-1"), s] for n, s in self.accounts], "errs": [n.decode("latin-1") for n in self.errs],
                "alias": self.alias, "locals": [l.decode("latin-1") for l in self.locals],
                "mal": None if self.mal is None else [self.mal[0], [ej(e) for e in self.mal[1]], [ej(e) for e in self.mal[2]]],
                "after_dot": [ej(e) for e in self.after_dot], "damage": self.damage, "trace": self.trace, "statfault": self.statfault, "part": self.part, "pw2u": self.pw2u}

    @staticmethod
    def from_json(d):
        def je(e):
            return dict(e, loc=U.B(e["loc"]), user=U.B(e["user"]), home=U.B(e["home"]), dash=U.B(e["dash"]), ext=U.B(e["ext"]))
        return Job(d["kind"], None if d["tab"] is None else [je(e) for e in d["tab"]], [(U.B(n), s) for n, s in d["accounts"]],
                   [U.B(n) for n in d["errs"]], d["alias"], [U.B(l) for l in d["locals"]],
                   None if d["mal"] is None else (d["mal"][0], [je(e) for e in d["mal"][1]], [je(e) for e in d["mal"][2]]),
                   [je(e) for e in d["after_dot"]], d["damage"], d["trace"], d["statfault"], None, d.get("pw2u", False))


MAL_KINDS = ("nocolon7", "nodot", "nul", "noloc", "fewfields", "partial", "blank", "nocolon")


def render_malformed(mal):
    kind, before, after = mal
    good = ent(0, b"joe", (b"hijack", 4242, 4243, b"/hijack"))
    bad = {"nocolon7": U.render_line(good)[:-2] + b"\n", "nul": b"=jo\0e:hijack:4242:4243:/hijack:::\n", "noloc": b":hijack:4242:4243:/hijack:::\n",
           "fewfields": b"=joe:hijack:4242:\n", "blank": b"\n", "nocolon": b"=joe\n"}
    body = b"".join(U.render_line(e) for e in before)
    tail = b"".join(U.render_line(e) for e in after)
    if kind == "nodot":
        return body + tail                          # no terminating dot line
    if kind == "partial":
        return body + tail + b"=last:hijack:4242:4243:/hijack:::"    # last line neither complete nor a dot
    return body + bad[kind] + tail + b".\n"


# ---------------------------------------------------------------------------------------------------------------
def gen_jobs(rng, thorough):
    jobs = []
    base_db = [(b"joe", "own"), (b"bob", "own"), (b"joe-list", "oth")]

    # (1) every table of <= 2 (3) lines over the model's universe of entries
    for nl in range(0, (3 if thorough else 2) + 1):
        for idx in itertools.product(range(len(ENUM_ENTRIES)), repeat=nl):
            jobs.append(Job("enum-table", [ENUM_ENTRIES[i] for i in idx], base_db, locals_=ENUM_LOCALS, trace=(nl < 2 or rng.random() < 0.25)))

    # (2) passwd rules: every combination of account states, without users/cdb, with an empty table, with one wildcard
    tabs = [None, [], [ent(1, b"joe-", 1, b"-", b"w")]]
    for sj in ("absent", "own", "oth", "none", "hid", "err"):
        for sl in ("absent", "own", "oth", "err"):
            for sb in ("absent", "own"):
                for al in ("ok", "absent", "err"):
                    acc = [(b"Carl", "own"), (N31, "own"), (b"jo", "own"), (b"ann", "own"), (b"j", "none")]
                    errs = []
                    for name, st in ((b"joe", sj), (b"joe-list", sl)):
                        if st == "err":
                            errs.append(name)
                        elif st != "absent":
                            acc.append((name, st))
                    if sb == "own":
                        acc.append((b"toor", "own"))
                        acc.append((b"bob", "oth"))
                    else:
                        acc.append((b"bob", "own"))
                    for t in (tabs if thorough else [tabs[rng.randrange(3)]]):
                        jobs.append(Job("passwd", t, acc, errs, al, PW_LOCALS, trace=rng.random() < 0.3))
    for al in ("owned", "root"):
        jobs.append(Job("passwd-alias", None, base_db, [], al, PW_LOCALS))

    # (2b) uid fields that are non-zero multiples of 2^32: they fit an unsigned long but narrow to 0 in uid_t, i.e. they denote
    # root; such a delivery must never be started as root (presented to the model as uid-0 entries)
    for utext in ("4294967296", "8589934592", "00000000004294967296", "18446744069414584320"):
        e1 = dict(ent(0, b"joe", (b"wrap", 0, 209, b"/h/9")), uidtext=utext)
        e2 = dict(ent(1, b"bob-", (b"wrapw", 0, 210, b"/h/10"), b"-", b"w"), uidtext=utext)
        jobs.append(Job("enum-table", [e1, e2, ENUM_ENTRIES[0]], base_db, locals_=ENUM_LOCALS + [b"bob-x", b"bob-"], trace=True))

    # (3) seeded random tables and databases
    def rand_entry():
        loc = rng.choice(VOCAB)
        if rng.random() < 0.3:
            loc = bytes(rng.choice([c, c ^ 32 if chr(c).isalpha() and c < 128 else c]) for c in loc)
        t = rng.choice(range(len(TID))) if rng.random() < 0.8 else 2
        return ent(rng.random() < 0.45, loc, t, rng.choice([b"", b"-", b"-", b"+"]), rng.choice([b"", b"", b"pre", b"P-", b"x", b"Ext"]))

    def rand_db():
        acc, errs = [], []
        for name in ACCOUNTS:
            r = rng.random()
            if r < 0.45:
                acc.append((name, rng.choice(["own", "own", "own", "oth", "none", "hid"])))
            elif r < 0.5 and name != N31:
                errs.append(name)
        return acc, errs

    for _ in range(400 if thorough else 70):
        tab = [rand_entry() for _ in range(rng.choice([1, 2, 3, 4, 4, 6, 10]))]
        if rng.random() < 0.3:
            tab.append(dict(rng.choice(tab), user=b"dup", uid=777))         # a later duplicate must lose
        acc, errs = rand_db()
        locs = derived_locals([e["loc"] for e in tab] + [n for n, _ in acc[:4]] + errs[:2], rng)
        rng.shuffle(locs)
        jobs.append(Job("random", tab, acc, errs, rng.choice(["ok", "ok", "ok", "absent", "owned"]), locs[:rng.choice([30, 60, 100])],
                        trace=rng.random() < 0.3))

    # (3b) tables printed by the real qmail-pw2u for random databases (alias owns its home, as pw2u requires)
    for _ in range(40 if thorough else 8):
        acc, _e = rand_db()
        jobs.append(Job("pw2u", None, acc, [], "owned", PW_LOCALS + [b"afo", b"ad-x", b"info-", b"INFO"], trace=False, pw2u=True))

    # (4) keys that collide in the 256-way table, in the slot, and in all 32 bits of the hash
    for a, b in FULL_COLLISIONS:
        if U.cdb_hash(b"!" + a + b"\0") != U.cdb_hash(b"!" + b + b"\0"):
            raise Infra("collision list is wrong")
    bucket = {}
    for i in range(4000):
        s = b"k%d" % i
        bucket.setdefault(U.cdb_hash(b"!" + s + b"\0") & 255, []).append(s)
    same = max(bucket.values(), key=len)[:12]                    # a dozen simple keys in one of the 256 tables
    wsame = [s for s in (b"w%d" % i for i in range(6000)) if U.cdb_hash(b"!" + s) & 255 == U.cdb_hash(b"!" + same[0] + b"\0") & 255][:6]
    for variant in range(4 if thorough else 2):
        tab = []
        for i, (a, b) in enumerate(FULL_COLLISIONS):
            pair = [ent(0, a, (b"ca%d" % i, 1100 + i, 1200 + i, b"/c/a")), ent(0, b, (b"cb%d" % i, 1300 + i, 1400 + i, b"/c/b"))]
            if variant % 2:
                pair.reverse()
            tab += pair if i < 3 else pair[:1]       # for the last two pairs only one key is in the table: the other is a near miss
        for i, s in enumerate(same):
            tab.append(ent(0, s, (b"s%d" % i, 1500 + i, 1600 + i, b"/s/%d" % i)))
        for i, s in enumerate(wsame):
            tab.append(ent(1, s, (b"w%d" % i, 1700 + i, 1800 + i, b"/w/%d" % i), b"-", b"p"))
        if variant >= 2:
            rng.shuffle(tab)
        locs = derived_locals([e["loc"] for e in tab], rng)
        locs = [l for a, b in FULL_COLLISIONS for l in (a, b, a.upper(), b.upper())] + locs
        for k in range(0, min(len(locs), 300), 100):
            jobs.append(Job("collide", tab, [(b"afo", "own"), (b"ad", "own")], locals_=locs[k:k + 100], trace=False))

    # (5) a large table (several allocation blocks of qmail-newu's list; duplicates far apart)
    nbig = 2600 if thorough else 1100
    tab = [ent(rng.random() < 0.2, b"n%d" % rng.randrange(nbig // 2), (b"b%d" % i, 2000 + i, 2000 + i % 7, b"/big/%d" % i), b"-", b"") for i in range(nbig)]
    locs = [e["loc"] for e in rng.sample(tab, 60)] + [b"n%d" % rng.randrange(nbig) for _ in range(20)] + [b"N%d-x" % rng.randrange(nbig // 2) for _ in range(20)]
    jobs.append(Job("big", tab, [(b"joe", "own")], locals_=locs, trace=False))

    # (5b) long keys: users/cdb is read in 32-byte pieces when a key is compared - local parts and wildcard prefixes of 29..34, 45,
    # 63..65 and 100 bytes, look-ups that share the first 32 (64) bytes with a listed key and differ behind them, keys whose tail
    # repeats their head
    tab, locs = [], []
    for j, ln in enumerate((29, 30, 31, 32, 33, 34, 45, 63, 64, 65, 100)):
        base_ = (b"k%02d" % ln + b"abcdefghijklmnopqrstuvwxyz0123456789" * 4)[:ln]
        tab.append(ent(0, base_, (b"lk%d" % j, 3000 + j, 3100 + j, b"/lk/%d" % j)))
        wl = (b"w%02d" % ln + b"zyxwvutsrqponmlkjihgfedcba9876543210" * 4)[:ln - 1] + b"-"
        tab.append(ent(1, wl, (b"lw%d" % j, 3200 + j, 3300 + j, b"/lw/%d" % j), b"-", b"p"))
        locs += [base_, base_.upper(), base_[:-1] + b"X", base_[:32] + b"Y" * max(0, ln - 32), base_ + b"z", wl + b"ext", wl[:-1], (wl[:32] + b"q" * ln)[:ln] + b"tail"]
    rep = b"abcdefghijklmnopqrstuvwxyz012345"            # 32 bytes
    tab.append(ent(0, rep + rep[:8], (b"rep", 3400, 3401, b"/rep")))
    locs += [rep + rep[:8], rep + b"ABCDEFGH", rep + b"abcdefgX"]
    rng.shuffle(tab)
    jobs.append(Job("longkeys", tab, [(b"joe", "own")], locals_=locs, trace=False))

    # (6) lines after the dot are not part of the table
    jobs.append(Job("afterdot", [ent(0, b"joe", 0)], base_db, locals_=[b"joe", b"bob", b"after", b"after-x", b"bo"],
                    after_dot=[ent(0, b"bob", (b"hijack", 4242, 4243, b"/hijack")), ent(1, b"after", (b"hijack", 4242, 4243, b"/hijack"))]))

    # (7) a table with a problem leaves users/cdb alone
    prevs = [None, [ent(0, b"joe", 0), ent(1, b"li-", 1, b"-", b"p")]]
    for kind in MAL_KINDS:
        for pi, prev in enumerate(prevs):
            before = [ent(0, b"bob", (b"hijack", 4242, 4243, b"/hijack"))] if (pi or kind in ("nodot", "partial")) else []
            after = [ent(1, b"", (b"hijack", 4242, 4243, b"/hijack"))] if pi else []
            jobs.append(Job("malformed", prev, base_db, locals_=[b"joe", b"bob", b"li-x", b"nobody", b"last", b"jo"], mal=(kind, before, after)))

    # (8) damage
    dtab = [ent(0, b"joe", 0), ent(1, b"joe-", 1, b"-", b"p"), ent(0, b"JOE", 2), ent(1, b"", 4, b"-", b""), ent(0, b"ad-", 3), ent(0, b"afo", 5),
            ent(1, b"in", 1, b"-", b"q"), ent(0, b"rooty", 2)]
    dlocs = [b"joe", b"Joe-List", b"ad-", b"afo", b"info", b"zed", b"rooty", b"in"]
    NP = 12
    for i in range(NP):
        jobs.append(Job("damage", dtab, base_db, locals_=dlocs, damage="all-catchall", trace=False, part=(i, NP)))
    # without the catch-all entry misses go on to qmail-getpw
    dtab2 = [e for e in dtab if e["loc"] != b""]
    for i in range(NP):
        jobs.append(Job("damage", dtab2, base_db + [(b"info", "own")], locals_=dlocs + [b"bob-x"], damage="all", trace=False, part=(i, NP)))
    for how in ("dir", "loop"):
        jobs.append(Job("damage", dtab2, base_db, locals_=dlocs + [b"bob"], damage=how, trace=False))
    # temporary stat error in qmail-getpw / its answer lost
    jobs.append(Job("statfault", dtab2, base_db + [(b"info", "own")], locals_=dlocs + [b"bob", b"bob-x", b"nobody", b"joe-list-x"], statfault=True))
    jobs.append(Job("statfault", None, base_db, locals_=PW_LOCALS, statfault=True))
    return jobs


# ---------------------------------------------------------------------------------------------------------------
def damage_variants(data, how, thorough, rng):
    """[(class, description, new bytes)] for one compiled database."""
    out = []
    n = len(data)
    if how in ("all", "all-catchall"):
        offs = list(range(2048, n)) + (list(range(0, 2048)) if thorough else list(range(0, 2048, 16)) + [1, 7, 40, 41, 43, 47, 48, 2047])
        for o in sorted(set(offs)):
            out.append((1, "trunc@%d" % o, data[:o]))
        for off, kind in U.cdb_layout(data):
            old = struct.unpack_from("<I", data, off)[0]
            def put(v):
                return data[:off] + struct.pack("<I", v & 0xffffffff) + data[off + 4:]
            if kind in ("hpos", "spos"):
                for v in (n, n + 1, n + 4096, 0x7ffffff0):
                    out.append((1, "%s@%d=%d" % (kind, off, v), put(v)))
            if kind == "dlen":
                for v in (n, n + 4096):
                    out.append((1, "%s@%d=%d" % (kind, off, v), put(v)))
            vals = {0, 2048, 0xffffffff, old ^ 1, old + 8}
            if thorough:
                vals |= {1, 8, 0x80000000, old ^ 0x100, old - 8 if old >= 8 else 3, old * 2}
            for v in sorted(vals - {old}):
                out.append((2, "%s@%d:=%d" % (kind, off, v), put(v)))
    return out


# ---------------------------------------------------------------------------------------------------------------
class Runner:
    def __init__(self, ck, tree, thorough):
        self.ck, self.tree, self.thorough = ck, tree, thorough
        self.brk = open(os.path.join(tree.src, "conf-break"), "rb").read(1)
        self.alias_name = open(os.path.join(tree.src, "conf-users"), "rb").readline().strip()
        self.homes = ck.scratch.sub("homes")
        os.chmod(ck.scratch.dir, 0o755)
        hid = os.path.join(self.homes, "hidden")
        os.makedirs(hid)
        for name, (uid, gid) in list(ACCOUNTS.items()) + [(self.alias_name, (sandbox.USERS["alias"], sandbox.GROUPS["nofiles"]))]:
            n = name.decode("latin-1")
            os.makedirs(os.path.join(self.homes, n + ".own"))
            os.chown(os.path.join(self.homes, n + ".own"), uid, gid)
            os.makedirs(os.path.join(self.homes, n + ".oth"))
            os.chown(os.path.join(self.homes, n + ".oth"), uid + 500, gid)
            os.makedirs(os.path.join(hid, n))
            os.chown(os.path.join(hid, n), uid, gid)
        os.chmod(hid, 0o700)
        shutil.copy(tree.bin("qmail-getpw"), os.path.join(tree.root, "bin", "qmail-getpw"))
        if not os.path.exists(U.STANDIN_LOCAL):
            raise Infra("build/standin_local is missing (run ./setup.sh)")
        shutil.copy(U.STANDIN_LOCAL, os.path.join(tree.root, "bin", "qmail-local"))
        mf = os.path.join(tree.root, "queue", "mess", "0", "1234")
        with open(mf, "w") as f:
            f.write("Subject: x\n\nbody\n")
        os.chown(mf, sandbox.USERS["qmailq"], sandbox.GROUPS["qmail"])
        self.users = os.path.join(tree.root, "users")
        self.ns = self.probe_ns()
        self.lock = threading.Lock()
        self.seqlock = threading.Lock()
        self.seq = 0

    # ---- private users/ directory per worker through a mount name space (accelerator); fallback: serial
    def probe_ns(self):
        if os.environ.get("VERIF_C11_NO_NS"):
            return False
        d = self.ck.scratch.sub("nsprobe")
        with open(os.path.join(d, "mark"), "w") as f:
            f.write("x")
        try:
            r = run(self.wrap(d, ["ls", self.users]), timeout=20)
            ok = r.returncode == 0 and b"mark" in r.stdout and not os.path.exists(os.path.join(self.users, "mark"))
        except Exception:
            ok = False
        if not ok:
            log("C11: mount name spaces unavailable; configurations run one after the other")
        return ok

    def wrap(self, priv, argv):
        return ["unshare", "-m", "--propagation", "private", "sh", "-c", 'mount --bind "$1" "$2" && shift 2 && exec "$@"', "sh", priv, self.users] + list(argv)

    def cmd(self, priv, argv):
        return self.wrap(priv, argv) if self.ns else list(argv)

    def home_of(self, name, state):
        n = name.decode("latin-1")
        if state == "hid":
            return os.path.join(self.homes, "hidden", n).encode(), -1
        p = os.path.join(self.homes, n + "." + state)
        try:
            return p.encode(), os.stat(p).st_uid
        except FileNotFoundError:
            return p.encode(), -1

    def run_job(self, job):
        if self.ns:
            return self._run_job(job)
        with self.lock:
            return self._run_job(job)

    def _run_job(self, job):
        tree = self.tree
        with self.seqlock:
            self.seq += 1
            jid = self.seq
        w = self.ck.scratch.sub("w%d" % jid)
        priv = os.path.join(w, "users") if self.ns else self.users
        if self.ns:
            os.makedirs(priv)
        else:
            for fn in os.listdir(priv):
                p = os.path.join(priv, fn)
                shutil.rmtree(p) if os.path.isdir(p) and not os.path.islink(p) else os.unlink(p)
        rec = os.path.join(w, "rec")
        os.makedirs(rec)
        os.chmod(rec, 0o777)
        # ---- passwd database
        accounts, dbj = [], []
        for name, st in job.accounts:
            uid, gid = ACCOUNTS[name]
            home, own = self.home_of(name, st)
            accounts.append({"name": name, "uid": uid, "gid": gid, "home": home})
            dbj.append({"name": list(name), "uid": uid, "gid": gid, "home": list(home), "own": own})
        a_uid, a_home = sandbox.USERS["alias"], os.path.join(tree.root, "alias").encode()
        if job.alias == "owned":
            a_home = self.home_of(self.alias_name, "own")[0]
        if job.alias == "root":
            a_uid = 0
        if job.alias in ("ok", "owned", "root"):
            dbj.append({"name": list(self.alias_name), "uid": a_uid, "gid": sandbox.GROUPS["nofiles"], "home": list(a_home), "own": os.stat(a_home).st_uid})
        errs = list(job.errs) + ([self.alias_name] if job.alias == "err" else [])
        ids = U.write_ids(os.path.join(w, "ids"), tree.root, accounts, errs, alias=job.alias in ("ok", "owned", "root"), alias_uid=a_uid, alias_home=a_home)
        env0 = sandbox.shim_env(tree, ids=ids)
        # ---- compile
        cdbp = os.path.join(priv, "cdb")
        rc, mal, chg = 0, 0, 0
        raw = None
        if job.pw2u:
            # tables in the shape the package's own generator gives them: qmail-pw2u is used as a source of tables only,
            # what it prints is parsed here and is then "the source table" like any other
            text = b"".join(b"%s:x:%d:%d::%s:/bin/sh\n" % (bytes(x["name"]), x["uid"], x["gid"], bytes(x["home"])) for x in dbj)
            r = run(self.cmd(priv, [tree.bin("qmail-pw2u")]), input=text, env=env0, cwd=tree.root, stderr=subprocess.DEVNULL)
            if r.returncode != 0:
                shutil.rmtree(w, ignore_errors=True)
                return None, []
            raw, tab = r.stdout, []
            for line in raw.split(b"\n"):
                if line == b".":
                    break
                f = line.split(b":")
                if line[:1] not in (b"=", b"+") or len(f) != 8 or f[7] != b"" or not f[2].isdigit() or not f[3].isdigit():
                    raise Infra("cannot parse qmail-pw2u output line %r" % line)
                tab.append(U.entry(line[:1] == b"+", f[0][1:], f[1], int(f[2]), int(f[3]), f[4], f[5], f[6]))
            job.tab = tab
        if job.tab is not None:
            with open(os.path.join(priv, "assign"), "wb") as f:
                f.write(raw if raw is not None else U.render_assign(job.tab) + b"".join(U.render_line(e) for e in job.after_dot))
            r = run(self.cmd(priv, [tree.bin("qmail-newu")]), env=env0, cwd=tree.root)
            rc = r.returncode
        if job.mal is not None and rc == 0:
            before = open(cdbp, "rb").read() if os.path.exists(cdbp) else None
            with open(os.path.join(priv, "assign"), "wb") as f:
                f.write(render_malformed(job.mal))
            r = run(self.cmd(priv, [tree.bin("qmail-newu")]), env=env0, cwd=tree.root)
            rc, mal = r.returncode, 1
            after = open(cdbp, "rb").read() if os.path.exists(cdbp) else None
            chg = 1 if after != before else 0
        cfg = {"tab": [U.entry_json(e) for e in (job.tab or [])], "db": dbj, "errs": [list(n) for n in errs], "alias": list(self.alias_name),
               "brk": self.brk[0], "ulen": 32, "mal": mal, "rc": rc, "chg": chg}
        # ---- rounds of deliveries (one per damage variant)
        rounds = [(0, "", None)]
        only = getattr(job, "only", None)           # --replay: just this variant
        if job.damage in ("all", "all-catchall") and os.path.isfile(cdbp):
            data = open(cdbp, "rb").read()
            rounds = damage_variants(data, job.damage, self.thorough or only is not None, None)
            if only is not None:
                rounds = [v for v in rounds if v[1] == only]
            else:
                if job.damage == "all-catchall" and not self.thorough:
                    rounds = rounds[::3]
                if not self.ns:
                    rounds = rounds[::4]        # serial fall-back: keep the run within its time budget
                if job.part:
                    rounds = rounds[job.part[0]::job.part[1]]
        elif job.damage in ("dir", "loop") and os.path.isfile(cdbp):
            rounds = [(1, job.damage, None)]
        recs = []
        stop = False
        for (dmg, desc, data) in rounds:
            if stop:
                break
            if data is not None:
                with open(cdbp, "wb") as f:
                    f.write(data)
            elif desc == "dir":
                os.unlink(cdbp)
                os.makedirs(cdbp)
            elif desc == "loop":
                os.unlink(cdbp)
                os.symlink("cdb", cdbp)
            extra = {"VERIF_LOCAL_DIR": rec}
            trace = None
            if job.trace or job.statfault:
                trace = os.path.join(w, "trace")
                open(trace, "w").close()
                os.chmod(trace, 0o666)
            if job.statfault:
                extra.update({"VERIF_FAULT_PROG": "qmail-getpw", "VERIF_FAULT": "1:5"})
            env = sandbox.shim_env(tree, ids=ids, trace=trace, root=self.ck.scratch.dir, extra=extra)
            for k in range(0, len(job.locals), 100):
                batch = job.locals[k:k + 100]
                dels = [(b"t%d@s.test" % (k + i), l + b"@" + DOM) for i, l in enumerate(batch)]
                reps, hung = U.run_lspawn(self.cmd(priv, [tree.bin("qmail-lspawn"), DFLT]), tree.root, env, dels)
                if hung:
                    # a busy machine must not look like a hang: confirm with a much longer limit
                    U.collect_standin(rec)
                    if trace:
                        open(trace, "w").close()
                    reps, hung = U.run_lspawn(self.cmd(priv, [tree.bin("qmail-lspawn"), DFLT]), tree.root, env, dels, timeout=150)
                if hung:
                    # a delivery that is never reported is neither the answer nor a deferral: its record (no report, no
                    # start) goes to the monitor like any other; the rest of this job is skipped to bound the run time
                    if dmg == 0 and not job.statfault:
                        raise Infra("qmail-lspawn hung on an intact configuration (%s)" % cfg_key(cfg, job))
                    desc += ",hung"
                    stop = True
                st = U.collect_standin(rec)
                per = {}
                if trace:
                    per, _ = U.id_events(sandbox.read_trace(trace))
                    open(trace, "w").close()
                got = [st.pop(dels[i][0], []) for i in range(len(batch))]
                # an agent whose arguments no longer carry the sender where the documented interface has it cannot be
                # matched by tag: give such records to the deliveries that were reported without a recorded start
                left = [x for v in st.values() for x in v]
                for i in range(len(batch)):
                    if left and not got[i] and reps[i] is not None and reps[i][:1] == b"K" and batch[i] != b"":
                        got[i] = [left.pop(0)]
                if left:
                    raise Infra("stand-in records that belong to no delivery: %r" % left[:2])
                for i, l in enumerate(batch):
                    s = got[i]
                    rep = reps[i]
                    r = {"local": list(l), "dom": list(DOM), "sender": list(dels[i][0]), "dflt": list(DFLT),
                         "dmg": 1 if (job.statfault and dmg == 0) else dmg, "rep": rep[0] if rep else 0, "nex": len(s), "argv": [], "ids": [], "grp": [],
                         "tr": 0, "ev": [], "_desc": desc, "_rep": (rep or b"")[:80].decode("latin-1")}
                    if s:
                        r["argv"], r["ids"], r["grp"] = s[0]["argv"][1:], s[0]["ids"], s[0]["groups"]
                        ev = per.get(s[0]["pid"], [])
                        # the order of the identity calls is judged only when the program makes them through the calls the
                        # shim sees (a setuid was recorded); otherwise the agent's own credentials are the observation
                        if trace and any(e["c"] == 3 for e in ev):
                            r["tr"], r["ev"] = 1, ev
                    recs.append(r)
        shutil.rmtree(w, ignore_errors=True)
        return cfg, recs


def esc(b, cap=40):
    return "".join(chr(c) if 33 <= c < 127 and chr(c) not in "%:|," else "%%%02x" % c for c in bytes(b)[:cap])


def cfg_key(cfg, job):
    t = "|".join(("+" if e["w"] else "=") + esc(e["loc"], 16) for e in cfg["tab"][:6]) + ("|.." if len(cfg["tab"]) > 6 else "")
    d = ",".join("%s.%s" % (esc(n, 10), s) for n, s in job.accounts[:5])
    return "tab=%s:db=%s%s%s" % (t if job.tab is not None else "none", d, (":errs=" + ",".join(esc(n, 10) for n in job.errs)) if job.errs else "",
                                 (":alias=" + job.alias) if job.alias != "ok" else "")


def model_cfg(path, mode, lines, loc, ulen):
    with open(path, "w") as f:
        f.write("SPECIFICATION Spec\nCONSTANTS\n MaxLines = %d\n MaxLocal = %d\n Mode = \"%s\"\n ULen = %d\n Faults = TRUE\n WcAsWritten = FALSE\n"
                "INVARIANT Conforms\nINVARIANT SearchIsAssign\nINVARIANT SearchComplete\nINVARIANT CompiledEqualsSource\nINVARIANT NeverRootAtExec\n"
                % (lines, loc, mode, ulen))
    return path


NEED_ACTIONS = ["NewuLine", "NewuBadLine", "NewuFinish", "LsTrash", "LsOpen", "LsWildchars", "CdbFault", "LsExactHit", "LsWildHit", "LsMiss", "LsSkip",
                "GpStart", "GpNotCandidate", "GpNoAccount", "GpRootAccount", "GpHomeMissing", "GpHomeNotOwned", "GpLookupError", "GpStatFault",
                "GpUser", "GpAlias", "GpNoAlias", "DropGroups", "DropGid", "DropUid", "RootRefused", "Exec"]


def main():
    ap = argparse.ArgumentParser()
    ap.add_argument("--tier", default=os.environ.get("VERIF_TIER", "quick"))
    ap.add_argument("--replay")
    a = ap.parse_args()
    ck = Check("C11", a.tier)
    thorough = a.tier == "thorough"
    workers = max(2, min(12, NCPU - 4))

    # ---- model runs (in the background while the real code is built and run)
    models = [("UsersLspawn(tables,MaxLines=%d,MaxLocal=3)" % (3 if thorough else 2), model_cfg(ck.scratch.path("m1.cfg"), "tables", 3 if thorough else 2, 3, 4)),
              ("UsersLspawn(passwd,MaxLocal=%d)" % (4 if thorough else 3), model_cfg(ck.scratch.path("m2.cfg"), "passwd", 1, 4 if thorough else 3, 4))]
    asfound = model_cfg(ck.scratch.path("m3.cfg"), "tables", 2, 3, 4)
    with open(asfound) as f:
        txt = f.read().replace("WcAsWritten = FALSE", "WcAsWritten = TRUE")
    with open(asfound, "w") as f:
        f.write(txt)
    if thorough:
        models.append(("UsersLspawn(tables,MaxLines=4,MaxLocal=2)", model_cfg(ck.scratch.path("m4.cfg"), "tables", 4, 2, 4)))
    mres = {}

    def run_model(m):
        name, cfg = m
        # explicit metadir: vlib.tlc() derives its default from pid + milliseconds, which collides between threads
        mres[name] = tlc("UsersLspawn", cfg, workers=2 if name == "as-found" else 4, timeout=2400, heap="6g", coverage=(name != "as-found"),
                         extra=("-noGenerateSpecTE",), metadir=ck.scratch.path("tlcmeta-" + os.path.basename(cfg)))
    threads = []
    if not a.replay:
        for m in models + [("as-found", asfound)]:
            t = threading.Thread(target=run_model, args=(m,))
            t.start()
            threads.append(t)

    tree = build_tree(ck.scratch, split=3)
    log("C11: built %.0fs" % (time.time() - ck.t0))
    rn = Runner(ck, tree, thorough)
    if a.replay:
        case = json.load(open(a.replay))["case"]
        job = Job.from_json(case["job"])
        job.locals = [U.B(case["local"])]
        job.only = (case.get("variant") or "").split(",")[0] or None
        jobs = [job]
    else:
        jobs = gen_jobs(ck.rng, thorough)
        # the damage jobs are long: split their variants over several workers
    results = sessions.pmap(rn.run_job, jobs, workers=workers if rn.ns else 1)
    log("C11: %d jobs run %.0fs" % (len(jobs), time.time() - ck.t0))

    cfgs, recs, owner = [], [], []
    for job, (cfg, rs) in zip(jobs, results):
        if cfg is None:
            continue
        cfgs.append(cfg)
        for r in rs:
            r["c"] = len(cfgs)
            recs.append(r)
            owner.append(job)
            ck.count((job.kind, cfg_key(cfg, job), bytes(r["local"]), r["_desc"]), nontrivial=True)
    cfgfile, recfile = ck.scratch.path("c11cfg.ndjson"), ck.scratch.path("c11.ndjson")
    write_ndjson(cfgfile, cfgs)
    write_ndjson(recfile, [{k: v for k, v in r.items() if not k.startswith("_")} for r in recs])
    bad, vres = tlc_validate_records("UsersRec", "UsersRec.cfg", recfile, len(recs), chunk=400, env={"CFGS": cfgfile}, heap="8g")
    ck.add_tlc("UsersRec", vres)
    log("C11: %d records validated %.0fs" % (len(recs), time.time() - ck.t0))
    ck.cov["traces_validated_against_impl"] = len(recs)

    for t in threads:
        t.join()
    log("C11: models done %.0fs" % (time.time() - ck.t0))
    reached = {}
    for name, _ in models:
        if name in mres:
            res = need_ok(mres[name], name)
            ck.add_tlc(name, res)
            if res.violated:
                ck.model_violation(name, res)
            for act, (taken, _) in res.coverage.items():
                reached[act] = reached.get(act, 0) + taken
    if not a.replay:
        # sensitivity of the specification itself: with qmail-newu's wildcard bytes recorded as written (the defect repaired
        # in /repo by "fix: qmail-newu: record the lower-cased last byte of a wildcard entry") TLC must reject the model
        af = need_ok(mres["as-found"], "as-found model")
        if "SearchIsAssign" not in af.violated:
            raise Infra("the as-found variant of the model (WcAsWritten) is no longer rejected: %s" % af.out[-1500:])
        ck.cov["model_rejects_as_found_qmail_newu"] = True
        dead = [x for x in NEED_ACTIONS if not reached.get(x)]
        if dead:
            raise Infra("model actions never taken (vacuous model): %s" % dead)
        ck.cov["model_actions_taken"] = {k: reached[k] for k in NEED_ACTIONS}

    # ---- evidence
    kinds = {}
    for r, job in zip(recs, owner):
        k = kinds.setdefault(job.kind, {"deliveries": 0, "started": 0, "deferred": 0})
        k["deliveries"] += 1
        k["started"] += 1 if r["nex"] else 0
        k["deferred"] += 1 if r["rep"] == 90 else 0
    ck.cov["by_kind"] = kinds
    ck.cov["configurations"] = len(cfgs)
    ck.cov["with_identity_call_trace"] = sum(1 for r in recs if r["tr"])
    ck.cov["parallel_name_spaces"] = bool(rn.ns)
    seen_kind = set()
    for r, job in zip(recs, owner):
        tagk = (job.kind, r["nex"] > 0)
        if tagk in seen_kind or len(r["local"]) < 2:
            continue
        seen_kind.add(tagk)
        ck.sample({"kind": job.kind, "local": bytes(r["local"]).decode("latin-1"), "report": r["_rep"], "argv": [bytes(x).decode("latin-1") for x in r["argv"]],
                   "ids": r["ids"], "groups": r["grp"], "identity_calls": [[e["c"], e["a"], e["ok"]] for e in r["ev"]], "damage": r["_desc"],
                   "table": [("+" if e["w"] else "=") + bytes(e["loc"]).decode("latin-1") for e in cfgs[r["c"] - 1]["tab"][:8]]}, cap=16)
    ck.cov["rule"] = ("every table of <= %d lines over 8 entries (simple/wildcard/duplicate/overlapping/mixed case/uid 0) x 20 local parts; 144 passwd databases "
                      "(account absent/owner/not owner/home missing/home hidden/lookup error, alias present/absent/error) x 33 local parts x {no cdb, empty table, one wildcard}; "
                      "seeded random tables x databases with local parts derived from their keys and account names (case variants, extensions, near misses); "
                      "hash-colliding keys (table, slot, all 32 bits); a %d-line table; malformed tables (8 kinds); users/cdb truncated at every offset, every pointer word "
                      "redirected outside the file or overwritten; unreadable users/cdb; stat error in qmail-getpw. One evaluation = one delivery command given to the real "
                      "qmail-lspawn; distinct by (configuration, local part, damage variant); all are non-trivial (each is a full lookup + start of the agent)"
                      % (3 if thorough else 2, 2600 if thorough else 1100))
    ck.cov["exhaustive"] = True
    ck.assumptions += ["the shim's getpwnam serves the generated passwd database to qmail-lspawn and qmail-getpw (names compared exactly, as getpwnam does)",
                       "the stand-in bin/qmail-local reports its own argv and credentials faithfully",
                       "a wildcard's ext is cut from the address as given (case kept); only the key comparison ignores case",
                       "damage that a format without check sums cannot notice (class 2: overwritten pointer words) is only required not to run as root and not to bounce",
                       "an empty local part is the documented trash address (no agent, success)",
                       "lines of users/assign that start with neither '=' nor '+' nor '.' and fields after the seventh colon are undocumented and not generated"]

    best = {}
    for idx, why in bad:
        r, job = recs[idx - 1], owner[idx - 1]
        why = why.strip('"')
        k = (why, job.kind)
        if k not in best or len(r["local"]) + len(cfgs[r["c"] - 1]["tab"]) < len(best[k][0]["local"]) + len(cfgs[best[k][0]["c"] - 1]["tab"]):
            best[k] = (r, job)
    for (why, kind), (r, job) in sorted(best.items()):
        cfg = cfgs[r["c"] - 1]
        key = "%s:local=%s:%s%s" % (why, esc(r["local"]), cfg_key(cfg, job), (":damage=" + r["_desc"]) if r["_desc"] else "")
        desc = "local part %r (%s) -> report %r, agent started %d time(s), argv %s ids %s groups %s calls %s" % (
            bytes(r["local"]), job.kind, r["_rep"], r["nex"], [bytes(x).decode("latin-1") for x in r["argv"]], r["ids"], r["grp"],
            [(e["c"], e["a"], e["ok"]) for e in r["ev"]])
        if any(re.fullmatch(p, key) for p in PENDING_FINDINGS):
            log("PENDING-FINDING %s: %s" % (key, desc))
            continue
        ck.violation(key, desc, {"job": job.to_json(), "local": bytes(r["local"]).decode("latin-1"), "variant": r["_desc"]})
    ck.finish()


if __name__ == "__main__":
    main_wrapper(main)
