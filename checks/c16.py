#!/usr/bin/env python3
"""C16 New mail wakes the daemon: no lost trigger, no busy loop.

  model   spec/Trigger.tla: the trigger FIFO (kernel semantics as probed), 1-3 injectors {link todo, open/write/close trigger}
          and the daemon {close, reopen, opendir, scan, select}, every interleaving, periodic rescan disabled; invariant
          NoLostWakeup and the liveness property EventuallyScanned; the two wrong orders of re-arm and scan must FAIL (sanity)
  impl    the same interleavings executed on the real qmail-queue and qmail-send under the gate with the clock frozen:
          schedule points are the calls on lock/trigger, the opendir/readdir of todo/, the link into todo/ and select;
          scenario 'running' (an injector's steps against the scan another injector caused) and 'startup' (against the
          start-up scan); plus seeded strict histories for the time-out clauses (positive time-out when idle, never past the
          earliest due event)
  verdict spec/QSendTrace.tla, clauses prefixed C16 of spec/QSendMon.tla (AcceptedMessageNotNoticedWithoutRescan,
          ZeroTimeoutWhileIdle, SleepsPastEarliestDueEvent, DaemonNeverBlocks)
"""
import sys, os, json, argparse, itertools
sys.path.insert(0, os.path.join(os.path.dirname(os.path.abspath(__file__)), "..", "lib"))
from vlib import *
import histories, qsengine, wakeup


def main():
    ap = argparse.ArgumentParser()
    ap.add_argument("--tier", default=os.environ.get("VERIF_TIER", "quick"))
    ap.add_argument("--replay")
    a = ap.parse_args()
    ck = Check("C16", a.tier)
    thorough = a.tier == "thorough"

    for order, inj, expect_ok in [("coo", "{1}", True), ("coo", "{1, 2}", True)] + ([("coo", "{1, 2, 3}", True)] if thorough else []) + \
                                 [("oco", "{1}", False), ("cdo", "{1}", False)]:
        cfg = ck.scratch.path("Trigger.cfg")
        with open(cfg, "w") as f:
            f.write('SPECIFICATION Spec\nCONSTANTS\n Inj = %s\n Order = "%s"\nINVARIANT NoLostWakeup\n%s' % (inj, order, "PROPERTY EventuallyScanned\n" if expect_ok else ""))
        res = tlc("Trigger", cfg, workers=4, timeout=900, heap="4g")
        if res.error:
            raise Infra("Trigger model: " + res.error)
        if expect_ok:
            ck.add_tlc("Trigger(%s,Inj=%s)" % (order, inj), res)
            if res.violated:
                ck.model_violation("Trigger", res)
        elif "NoLostWakeup" not in res.violated:
            raise Infra("model sanity: the wrong order %s does not lose a wake-up" % order)
    ck.cov["wrong_orders_rejected_by_model"] = 2

    tree = build_tree(ck.scratch, split=3)
    rng = ck.rng
    cases = []
    if a.replay:
        c = json.load(open(a.replay))["case"]["history"]
        sc = c["id"].split("-")[1]
        cases = [(sc, list(c["script"][0][1]))]
    else:
        nD = 18
        # running: B's four steps placed in every way among the daemon's points (sampled in quick), startup likewise for A
        allr = list(wakeup.orders(nD, {"B": 4}))
        alls = list(wakeup.orders(nD, {"A": 4}))
        if not thorough:
            blockr = [o for o in allr if "".join(o).count("BBBB") == 1]
            pairs = [o for o in allr if "".join(o).count("BB") == 2 and "BBB" not in "".join(o)]
            allr = blockr + rng.sample(pairs, min(len(pairs), 60)) + rng.sample(allr, 160)
            blocks = [o for o in alls if "".join(o).count("AAAA") == 1]
            alls = blocks + rng.sample(alls, 80)
        cases = [("running", list(o)) for o in allr] + [("startup", list(o)) for o in alls]
    runs = []
    for i, (sc, order) in enumerate(cases):
        try:
            r = wakeup.run_case(tree, ck.scratch.sub("wk"), order, sc, seed=i)
        except Infra as e:
            if "no quiescence" in str(e):
                r = {"ev": [qsengine.dict_blank("busyloop")], "left": -1, "addr": {}, "nraw": 0, "taken": "",
                     "h": {"id": "wake-%s-%s" % (sc, "".join(order)), "seed": i, "script": [("order", "".join(order))], "messages": [], "strict": 1}}
            else:
                raise
        runs.append(r)
    ck.cov["interleavings_executed"] = len(runs)
    ck.cov["distinct_effective_orders"] = len({r["taken"] for r in runs})
    # time-out clauses on general histories
    if not a.replay:
        hs = [histories.gen_history(rng, 7000 + i, thorough) for i in range(120 if thorough else 40)]
        # several messages in back-off on one channel: the wake-up time must be the earliest due time (histories shared with C15)
        sys.path.insert(0, os.path.dirname(os.path.abspath(__file__)))
        import c15
        hs += [h for h in c15.timing_histories(rng, thorough) if h["id"][1] in "MO"]
        # the re-arm itself fails (each of the daemon's opens of lock/trigger in turn, and its opendir of todo): whatever it
        # then does about new mail, it must go on blocking with a positive time-out, not spin (non-strict: only that is judged)
        import errno
        for call, obj, ks in (("open", "trigger", range(1, 6)), ("open", "todo", range(1, 4))):
            for k in ks:
                for err in (errno.ENFILE, errno.ENOENT):
                    h = histories.gen_history(rng, 7500 + k, thorough)
                    h["script"] = [("inject", 0), ("answer", "fifo")] + [("inject", i) for i in range(1, len(h["messages"]))] + [("answer", "fifo"), ("nextdue", 0), ("answer", "fifo")]
                    h["strict"] = 0
                    h["fault"] = {"role": "qmail-send", "call": call, "k": k, "what": "fail %d" % err, "obj": obj}
                    h["id"] = "rearm-fails-%s-%d-%d" % (obj, k, err)
                    hs.append(h)
        # new mail while the daemon is on its way out: after TERM, with a delivery still in flight, it no longer scans todo/ - and
        # must then not go on watching the trigger it will never re-arm (it would spin until the last report comes in)
        for v in range(3):
            chan = [b"local.test", b"remote.test", b"local.test"][v]
            ms = [{"body": b"Subject: t\n\nterm %d\n" % k, "sender": b"tt%d@origin.test" % v, "rcpts": [b"tt%d-%d@%s" % (v, k, chan)]} for k in range(3)]
            oc = {m["rcpts"][0].decode(): "K" for m in ms}
            oc["tt%d@origin.test" % v] = "K"
            sc = [("inject", 0), ("signal", "TERM"), ("inject", 1)] + ([("inject", 2)] if v == 2 else []) + [("answer", "fifo"), ("start",), ("answer", "fifo"), ("answer", "fifo")]
            hs.append({"id": "term-inflight-inject-%d" % v, "seed": 7800 + v, "strict": 0, "drain_rounds": 10, "messages": ms, "outcomes": oc, "script": sc})
        runs += qsengine.run_histories(ck, tree, hs)
    bad, vres = qsengine.judge(ck, runs)
    ck.add_tlc("QSendTrace", vres)
    ck.cov["traces_validated_against_impl"] = len(runs)
    ck.cov["quiescent_points_checked"] = sum(1 for r in runs for e in r["ev"] if e["op"] == "quiet")
    for r in runs:
        ck.count(str(r["h"]["id"]) + r.get("taken", ""), nontrivial=True)
    for r in runs[:: max(1, len(runs) // 4)][:4]:
        ck.sample({"case": r["h"]["id"], "effective_order_of_schedule_points": r.get("taken", ""), "events": [e["op"] for e in r["ev"]][:24]})
    qsengine.report(ck, "C16", runs, bad)
    ck.cov["rule"] = ("scenario running: the 4 steps of injector B {link todo, open, write, close trigger} placed among 18 daemon schedule points (all 17+ block placements, "
                      "sampled pair/random placements in quick, all C(22,4) in thorough) after injector A's pull; scenario startup: A's steps against the start-up scan; clock frozen; "
                      "+ seeded strict histories for time-outs; distinct by (scenario, effective order of schedule points)")
    ck.assumptions += ["readdir behaviour is whatever the kernel does in the recorded runs; the model uses POSIX's weakest guarantee",
                       "one process moves at a time (gate)"]
    ck.finish()


if __name__ == "__main__":
    main_wrapper(main)
