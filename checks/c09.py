#!/usr/bin/env python3
"""C09 Remote delivery verdicts are sound for every server behaviour.

  model   spec/RemoteModel.tla: qmail-remote's smtp() (transcribed, spec/Remote.tla RemoteP) against the monitor
          RemoteVerdict for EVERY server script over the reply classes (1..n recipients); spec/FoldModel.tla:
          qmail-rspawn's report() against FoldVerdict for every exit status / output combination
  impl    the real qmail-remote against a scripted SMTP server on 127.0.0.1 (control/smtproutes) for every script
          over {expected, other <400, 4xx, 5xx, disconnect} per phase with boundary codes (399/400/499/500/599),
          single- and multi-line replies, stalls (client time-out), no listener; the real qmail-rspawn with a
          scripted QMAILREMOTE stand-in for every exit status / signal / output combination
  verdict spec/RemoteRec.tla and spec/SpawnRec.tla: TLC judges every record
"""
import sys, os, json, argparse, threading, queue, itertools, re
sys.path.insert(0, os.path.join(os.path.dirname(os.path.abspath(__file__)), "..", "lib"))
from vlib import *
import smtpsrv, sandbox, spawnrun

CLASSES = ["ok", "odd", "4", "5", "drop", "junk"]
# reply lines that do not start with three digits: never an acceptance, whatever the arithmetic on their bytes gives
JUNK = ["2:0 ok", "25O ok", "0/: ok", "1A0 ok", " 250 ok", "\r\n250 ok", "-ERR no", "+OK", "ERR", "\xff\xff\xff ok", "25", "2 50 ok", "\t250 ok", "/50 ok", "250"[:2] + "\x00 ok"]
EXPECTED = {"greet": 220, "helo": 250, "mail": 250, "rcpt": 250, "data": 354, "dot": 250}


def code_for(rng, phase, cls):
    base = "rcpt" if phase.startswith("rcpt") else phase
    if cls == "ok":
        return EXPECTED[base]
    if cls == "odd":
        opts = [c for c in (200, 220, 250, 251, 299, 354, 399) if c != EXPECTED[base]]
        return rng.choice(opts)
    if cls == "4":
        return rng.choice([400, 421, 451, 499])
    return rng.choice([500, 550, 553, 599])


def scripts(maxrcpt):
    """every script, pruned where later phases cannot matter"""
    out = []
    for g in CLASSES:
        if g != "ok":
            out.append({"greet": g, "helo": "ok", "mail": "ok", "rcpt": ["ok"], "data": "ok", "dot": "ok"})
            continue
        for h in CLASSES:
            if h != "ok":
                out.append({"greet": g, "helo": h, "mail": "ok", "rcpt": ["ok"], "data": "ok", "dot": "ok"})
                continue
            for m in CLASSES:
                if m != "ok":
                    for n in range(1, maxrcpt + 1):
                        out.append({"greet": g, "helo": h, "mail": m, "rcpt": ["ok"] * n, "data": "ok", "dot": "ok"})
                    continue
                for n in range(1, maxrcpt + 1):
                    for rc in itertools.product(CLASSES, repeat=n):
                        if "drop" in rc[:-1]:
                            continue
                        if "drop" in rc or not any(c in ("ok", "odd") for c in rc):
                            out.append({"greet": g, "helo": h, "mail": m, "rcpt": list(rc), "data": "ok", "dot": "ok"})
                            continue
                        for d in CLASSES:
                            if d not in ("ok", "odd"):
                                out.append({"greet": g, "helo": h, "mail": m, "rcpt": list(rc), "data": d, "dot": "ok"})
                                continue
                            for t in CLASSES:
                                out.append({"greet": g, "helo": h, "mail": m, "rcpt": list(rc), "data": d, "dot": t})
    return out


def run_scripts(ck, tree, jobs, nworkers=16):
    eps = [smtpsrv.Endpoint(i) for i in range(nworkers)]
    with open(os.path.join(tree.root, "control", "smtproutes"), "w") as f:
        f.write("".join(ep.route() + "\n" for ep in eps) + "closed.test:127.0.0.1:1\n")
    with open(os.path.join(tree.root, "control", "timeoutremote"), "w") as f:
        f.write("2\n")
    with open(os.path.join(tree.root, "control", "timeoutconnect"), "w") as f:
        f.write("2\n")
    q = queue.Queue()
    for i, j in enumerate(jobs):
        q.put((i, j))
    recs = [None] * len(jobs)

    def work(ep):
        while True:
            try:
                i, (cls, script, nr) = q.get_nowait()
            except queue.Empty:
                return
            rcpts = ["r%d@%s" % (k + 1, ep.host) for k in range(nr)]
            obs, out, rc = smtpsrv.run_remote(tree, ep, b"Subject: t\n\nbody\n", "s@sender.test", rcpts, script, timeout=12.0)
            recs[i] = observe(cls, obs, out, rc)
            recs[i]["junk"] = sorted(set(v["raw"] for v in script.values() if isinstance(v, dict) and "raw" in v))

    ths = [threading.Thread(target=work, args=(ep,)) for ep in eps]
    for t in ths:
        t.start()
    for t in ths:
        t.join()
    for ep in eps:
        ep.close()
    return recs


def observe(cls, obs, out, rc):
    reports = out.split(b"\0")
    if reports and reports[-1] == b"":
        reports = reports[:-1]
    rr = [chr(r[0]) for r in reports if r[:1] in (b"r", b"h", b"s")]
    mrs = [r for r in reports if r[:1] in (b"K", b"Z", b"D")]
    other = [r for r in reports if r[:1] not in (b"r", b"h", b"s", b"K", b"Z", b"D")]
    mr = chr(mrs[0][0]) if mrs else "?"
    dup = 1 if mrs and b"ossible duplicate" in mrs[0] else 0
    seen = []
    for c in obs.get("cmds", []):
        m = re.match(r"RCPT TO:<r(\d+)@", c, re.I)
        if m:
            seen.append(int(m.group(1)))
    # message report must come last, recipient reports before it
    order_ok = not mrs or reports.index(mrs[0]) == len(reports) - 1
    return {"s": cls, "rr": rr, "mr": mr, "dup": dup, "exit": rc if rc is not None else -1, "nmsgreports": len(mrs) + len(other) + (0 if order_ok else 1),
            "seen": seen, "out": out.decode("latin1")[:200], "end": obs.get("phase_end")}


def to_server_script(rng, cls, multi_p=0.3, junk=None):
    sc = {}

    def one(ph, c):
        if c == "drop":
            return {"drop": True}
        if c == "junk":
            return {"raw": junk if junk is not None else rng.choice(JUNK), "code": 599}
        return {"code": code_for(rng, ph, c), "multi": rng.random() < multi_p}
    for ph in ("greet", "helo", "mail", "data", "dot"):
        c = cls[ph]
        sc[ph] = one(ph, c)
    for i, c in enumerate(cls["rcpt"]):
        sc["rcpt%d" % i] = one("rcpt", c)
    return sc


def fold_records(ck, tree, thorough):
    """qmail-rspawn relaying qmail-remote's result: every exit status / signal x outputs of <= 3 pieces"""
    pieces = [b"r\0", b"h\0", b"s\0", b"K\0", b"Z\0", b"D\0", b"x\0", b"\0", b"r", b"K", b"x", b"rx\0", b"Kx\0", b"hK\0",
              b"raccepted\0", b"Kmessage accepted\0", b"ZConnected but died\0", b"Dfailed\0", b"hdoes not like recipient\0", b"sdoes not like recipient\0"]
    combos = [()] + [(p,) for p in pieces] + list(itertools.product(pieces[:14], repeat=2))
    if thorough:
        combos += list(itertools.product(pieces[:11], repeat=3))
    else:
        combos += ck.rng.sample(list(itertools.product(pieces[:11], repeat=3)), 300)
    cases = []
    for cb in combos:
        out = b"".join(cb)
        cases.append((out, "exit 0"))
    for out in [b"", b"r\0K\0", b"K\0", b"r\0", b"h\0D\0", b"s\0Z\0", b"x"]:
        for ex in ("exit 1", "exit 100", "exit 111", "exit 99", "exit 255", "signal 9", "signal 11", "signal 15", "signal 6"):
            cases.append((out, ex))
    ids = sandbox.write_ids(ck.scratch.path("ids"), tree.root)
    # a message file owned by the queue user
    q = os.path.join(tree.root, "queue", "mess", "1")
    os.makedirs(q, exist_ok=True)
    with open(os.path.join(q, "4"), "wb") as f:
        f.write(b"Subject: x\n\nbody\n")
    os.chown(os.path.join(q, "4"), sandbox.USERS["qmailq"], 0)
    recs = []
    B = 100
    for b0 in range(0, len(cases), B):
        batch = cases[b0:b0 + B]
        scripts_, stream = {}, b""
        for i, (out, ex) in enumerate(batch):
            name = "c%d" % i
            scripts_[name] = (out, ex)
            stream += spawnrun.mkcmd(i, b"1/4", b"s@x.test", (name + "@h.test").encode())
        r = spawnrun.run_rspawn(tree, ck.scratch.sub("fold"), stream, scripts_, ids)
        if r["hung"]:
            raise Infra("qmail-rspawn hung")
        byd = {}
        for dn, text, term in r["reports"]:
            byd.setdefault(dn, []).append(text)
        for i, (out, ex) in enumerate(batch):
            texts = byd.get(i, [])
            relayed = texts[0][0] if len(texts) == 1 and texts[0] else 0
            excode = int(ex.split()[1]) if ex.startswith("exit") else 0
            recs.append({"kind": "fold", "ex": excode, "cr": 1 if ex.startswith("signal") else 0, "out": list(out), "relayed": relayed,
                         "nreports": len(texts), "exspec": ex})
    return recs


def main():
    ap = argparse.ArgumentParser()
    ap.add_argument("--tier", default=os.environ.get("VERIF_TIER", "quick"))
    ap.add_argument("--replay")
    a = ap.parse_args()
    ck = Check("C09", a.tier)
    thorough = a.tier == "thorough"
    maxr = 3 if thorough else 2

    cfg = ck.scratch.path("RemoteModel.cfg")
    with open(cfg, "w") as f:
        f.write("SPECIFICATION Spec\nCONSTANT MaxRcpt = %d\nINVARIANT Sound\n" % (3 if thorough else 2))
    res = need_ok(tlc("RemoteModel", cfg, workers=NCPU, timeout=1500, heap="8g"), "RemoteModel")
    ck.add_tlc("RemoteModel", res)
    if res.violated:
        ck.model_violation("RemoteModel", res)
    cfg = ck.scratch.path("FoldModel.cfg")
    with open(cfg, "w") as f:
        f.write("SPECIFICATION Spec\nCONSTANT MaxPieces = %d\nINVARIANT Sound\n" % (4 if thorough else 3))
    res = need_ok(tlc("FoldModel", cfg, workers=NCPU, timeout=1500, heap="8g"), "FoldModel")
    ck.add_tlc("FoldModel", res)
    if res.violated:
        ck.model_violation("FoldModel", res)

    tree = build_tree(ck.scratch, split=3)
    rng = ck.rng
    if a.replay:
        case = json.load(open(a.replay))["case"]
        allcls = [case["s"]] if "s" in case else []
    else:
        allcls = scripts(maxr)
        if not thorough:
            # all single-recipient scripts, a seeded sample of the two-recipient ones
            one = [c for c in allcls if len(c["rcpt"]) == 1]
            two = [c for c in allcls if len(c["rcpt"]) == 2]
            allcls = one + rng.sample(two, min(len(two), 1500))
    jobs = []
    for cls in allcls:
        for rep in range(2 if len(cls["rcpt"]) == 1 else 1):
            jobs.append((cls, to_server_script(rng, cls, multi_p=0.0 if rep == 0 else 0.6), len(cls["rcpt"])))
    if not a.replay:
        # every malformed reply line at every phase of an otherwise accepting session
        for ph in ("greet", "helo", "mail", "rcpt", "data", "dot"):
            for j in JUNK:
                cls = {"greet": "ok", "helo": "ok", "mail": "ok", "rcpt": ["ok"], "data": "ok", "dot": "ok"}
                if ph == "rcpt":
                    for rc in (["junk"], ["ok", "junk"], ["junk", "ok"]):
                        c2 = dict(cls, rcpt=rc)
                        jobs.append((c2, to_server_script(rng, c2, 0.0, junk=j), len(rc)))
                else:
                    cls[ph] = "junk"
                    jobs.append((cls, to_server_script(rng, cls, 0.0, junk=j), 1))
    # stalls (client time-out) at each phase, and no listener at all
    for ph in ("greet", "helo", "mail", "rcpt0", "data", "dot"):
        cls = {"greet": "ok", "helo": "ok", "mail": "ok", "rcpt": ["ok"], "data": "ok", "dot": "ok"}
        sc = to_server_script(rng, cls, 0.0)
        sc[ph] = {"stall": 3.5}
        if ph == "rcpt0":
            cls["rcpt"] = ["drop"]
        else:
            cls[ph] = "drop"
        jobs.append((cls, sc, 1))
    recs = run_scripts(ck, tree, jobs)
    # connect trouble: nothing listens
    import subprocess
    p = subprocess.run([tree.bin("qmail-remote"), "closed.test", "s@sender.test", "r1@closed.test"], input=b"Subject: x\n\nb\n", stdout=subprocess.PIPE, stderr=subprocess.PIPE, timeout=30)
    cls = {"greet": "drop", "helo": "ok", "mail": "ok", "rcpt": ["ok"], "data": "ok", "dot": "ok"}
    recs.append(observe(cls, {"cmds": []}, p.stdout, p.returncode))
    for r in recs:
        ck.count(json.dumps(r["s"], sort_keys=True) + r["out"][:1], nontrivial=r["s"]["greet"] == "ok")
    recfile = ck.scratch.path("c09.ndjson")
    write_ndjson(recfile, [{k: v for k, v in r.items() if k not in ("out", "end", "junk")} for r in recs])
    bad, vres = tlc_validate_records("RemoteRec", "RemoteRec.cfg", recfile, len(recs), chunk=200)
    ck.add_tlc("RemoteRec", vres)
    ck.cov["traces_validated_against_impl"] = len(recs)
    ck.cov["remote_sessions"] = len(recs)
    for r in recs[:: max(1, len(recs) // 4)][:4]:
        ck.sample({"script": r["s"], "recipient_reports": r["rr"], "message_report": r["mr"], "possible_duplicate": r["dup"], "stdout": r["out"][:120]})
    best = {}
    for idx, why in bad:
        r = recs[idx - 1]
        why = why.strip('"') + ("(malformed reply)" if r.get("junk") else "")
        if why not in best or len(json.dumps(r["s"])) < len(json.dumps(best[why]["s"])):
            best[why] = r
    for why, r in sorted(best.items()):
        s = r["s"]
        key = "remote:%s:script=%s/%s/%s/%s/%s/%s" % (why, s["greet"], s["helo"], s["mail"], ",".join(s["rcpt"]), s["data"], s["dot"])
        if r.get("junk"):
            key += ":reply=" + ",".join(j.encode("latin1").hex() for j in r["junk"])
        ck.violation(key, "server script %s%s -> reports %s %s dup=%s exit=%s (%r)" % (s, (" with malformed reply %r" % r["junk"]) if r.get("junk") else "", r["rr"], r["mr"], r["dup"], r["exit"], r["out"][:100]), r)

    # ---- relay by qmail-rspawn
    if not a.replay or "s" not in json.load(open(a.replay))["case"]:
        frecs = fold_records(ck, tree, thorough)
        ffile = ck.scratch.path("fold.ndjson")
        full = {"kind": "fold", "cmds": [], "limit": 0, "reports": [], "opens": [], "ran": [], "ex": 0, "cr": 0, "out": [], "relayed": 0}
        write_ndjson(ffile, [dict(full, **{k: v for k, v in r.items() if k not in ("nreports", "exspec")}) for r in frecs])
        fbad, fres = tlc_validate_records("SpawnRec", "SpawnRec.cfg", ffile, len(frecs), chunk=200)
        ck.add_tlc("SpawnRec(fold)", fres)
        ck.cov["traces_validated_against_impl"] += len(frecs)
        ck.cov["relay_cases"] = len(frecs)
        for r in frecs:
            ck.count(("fold", bytes(r["out"]), r["exspec"]), nontrivial=True)
            if r["nreports"] != 1:
                ck.violation("relay:NotExactlyOneReport:%s:%s" % (r["exspec"].replace(" ", ""), bytes(r["out"]).hex()[:40]),
                             "qmail-rspawn sent %d reports for one delivery" % r["nreports"], r)
        ck.sample({"qmail_remote_output": bytes(frecs[40]["out"]).decode("latin1"), "exit": frecs[40]["exspec"], "relayed_letter": chr(frecs[40]["relayed"]) if frecs[40]["relayed"] else ""})
        fbest = {}
        for idx, why in fbad:
            r = frecs[idx - 1]
            why = why.strip('"')
            if why not in fbest or len(r["out"]) < len(fbest[why]["out"]):
                fbest[why] = r
        for why, r in sorted(fbest.items()):
            ck.violation("relay:%s:%s:out=%s" % (why, r["exspec"].replace(" ", ""), bytes(r["out"]).hex()[:40]),
                         "qmail-remote output %r (%s) relayed as %r" % (bytes(r["out"]), r["exspec"], chr(r["relayed"]) if r["relayed"] else ""), r)
    ck.cov["rule"] = ("every server script over {expected, other<400, 4xx, 5xx, disconnect, malformed} per phase for 1 recipient (single- and multi-line replies, boundary codes), "
                      "%s for 2%s recipients, stalls at each phase, no listener; relay: every output of <=2 pieces (sampled 3) x exit 0 and 7 outputs x 9 exit/signal kinds; "
                      "non-trivial = the greeting was positive; distinct by (script, first output byte)" % ("all" if thorough else "a seeded sample of 1500", " and 3" if thorough else ""))
    ck.assumptions += ["reply classes are represented by boundary codes and 15 malformed reply lines; 0xx/1xx/6xx+ codes and per-line differing codes are not generated",
                       "the possible-duplicate flag is observed as the text 'Possible duplicate' in the message report"]
    ck.finish()


if __name__ == "__main__":
    main_wrapper(main)
