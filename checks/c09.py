#!/usr/bin/env python3
"""C09 Remote delivery verdicts are sound for every server behaviour.

  model   spec/RemoteModel.tla: qmail-remote's smtp() (transcribed, spec/Remote.tla RemoteP) against the monitor
          RemoteVerdict for EVERY server script over the reply classes (1..n recipients); spec/FoldModel.tla:
          qmail-rspawn's report() against FoldVerdict for every exit status / output combination
  impl    the real qmail-remote against a scripted SMTP server on 127.0.0.1 (control/smtproutes) for every script
          over {expected, other <400, 4xx, 5xx, disconnect} per phase with boundary codes (399/400/499/500/599),
          single- and multi-line replies, stalls (client time-out), no listener; the real qmail-rspawn with a
          scripted QMAILREMOTE stand-in for every exit status / signal / output combination
  verdict spec/RemoteRec.tla and spec/SpawnRec.tla: TLC judges every record
"""
import sys, os, json, argparse, threading, queue, itertools, re
sys.path.insert(0, os.path.join(os.path.dirname(os.path.abspath(__file__)), "..", "lib"))
from vlib import *
import smtpsrv, sandbox, spawnrun

CLASSES = ["ok", "odd", "4", "5", "drop", "junk"]
# reply lines that do not start with three digits: never an acceptance, whatever the arithmetic on their bytes gives
JUNK = ["2:0 ok", "25O ok", "0/: ok", "1A0 ok", " 250 ok", "\r\n250 ok", "-ERR no", "+OK", "ERR", "\xff\xff\xff ok", "25", "2 50 ok", "\t250 ok", "/50 ok", "250"[:2] + "\x00 ok"]
EXPECTED = {"greet": 220, "helo": 250, "mail": 250, "rcpt": 250, "data": 354, "dot": 250}


def code_for(rng, phase, cls):
    base = "rcpt" if phase.startswith("rcpt") else phase
    if cls == "ok":
        return EXPECTED[base]
    if cls == "odd":
        opts = [c for c in (200, 220, 250, 251, 299, 354, 399) if c != EXPECTED[base]]
        return rng.choice(opts)
    if cls == "4":
        return rng.choice([400, 421, 451, 499])
    return rng.choice([500, 550, 553, 599])


def scripts(maxrcpt):
    """every script, pruned where later phases cannot matter"""
    out = []
    for g in CLASSES:
        if g != "ok":
            out.append({"greet": g, "helo": "ok", "mail": "ok", "rcpt": ["ok"], "data": "ok", "dot": "ok"})
            continue
        for h in CLASSES:
            if h != "ok":
                out.append({"greet": g, "helo": h, "mail": "ok", "rcpt": ["ok"], "data": "ok", "dot": "ok"})
                continue
            for m in CLASSES:
                if m != "ok":
                    for n in range(1, maxrcpt + 1):
                        out.append({"greet": g, "helo": h, "mail": m, "rcpt": ["ok"] * n, "data": "ok", "dot": "ok"})
                    continue
                for n in range(1, maxrcpt + 1):
                    for rc in itertools.product(CLASSES, repeat=n):
                        if "drop" in rc[:-1]:
                            continue
                        if "drop" in rc or not any(c in ("ok", "odd") for c in rc):
                            out.append({"greet": g, "helo": h, "mail": m, "rcpt": list(rc), "data": "ok", "dot": "ok"})
                            continue
                        for d in CLASSES:
                            if d not in ("ok", "odd"):
                                out.append({"greet": g, "helo": h, "mail": m, "rcpt": list(rc), "data": d, "dot": "ok"})
                                continue
                            for t in CLASSES:
                                out.append({"greet": g, "helo": h, "mail": m, "rcpt": list(rc), "data": d, "dot": t})
    return out


def run_scripts(ck, tree, jobs, nworkers=16):
    eps = [smtpsrv.Endpoint(i) for i in range(nworkers)]
    with open(os.path.join(tree.root, "control", "smtproutes"), "w") as f:
        f.write("".join(ep.route() + "\n" for ep in eps) + "closed.test:127.0.0.1:1\n")
    with open(os.path.join(tree.root, "control", "timeoutremote"), "w") as f:
        f.write("2\n")
    with open(os.path.join(tree.root, "control", "timeoutconnect"), "w") as f:
        f.write("2\n")
    q = queue.Queue()
    for i, j in enumerate(jobs):
        q.put((i, j))
    recs = [None] * len(jobs)

    def work(ep):
        while True:
            try:
                i, (cls, script, nr) = q.get_nowait()
            except queue.Empty:
                return
            rcpts = ["r%d@%s" % (k + 1, ep.host) for k in range(nr)]
            obs, out, rc = smtpsrv.run_remote(tree, ep, b"Subject: t\n\nbody\n", "s@sender.test", rcpts, script, timeout=12.0)
            recs[i] = observe(cls, obs, out, rc)
            recs[i]["junk"] = sorted(set(v["raw"] for v in script.values() if isinstance(v, dict) and "raw" in v))

    ths = [threading.Thread(target=work, args=(ep,)) for ep in eps]
    for t in ths:
        t.start()
    for t in ths:
        t.join()
    for ep in eps:
        ep.close()
    return recs


def observe(cls, obs, out, rc):
    reports = out.split(b"\0")
    if reports and reports[-1] == b"":
        reports = reports[:-1]
    rr = [chr(r[0]) for r in reports if r[:1] in (b"r", b"h", b"s")]
    mrs = [r for r in reports if r[:1] in (b"K", b"Z", b"D")]
    other = [r for r in reports if r[:1] not in (b"r", b"h", b"s", b"K", b"Z", b"D")]
    mr = chr(mrs[0][0]) if mrs else "?"
    dup = 1 if mrs and b"ossible duplicate" in mrs[0] else 0
    seen = []
    for c in obs.get("cmds", []):
        m = re.match(r"RCPT TO:<r(\d+)@", c, re.I)
        if m:
            seen.append(int(m.group(1)))
    # message report must come last, recipient reports before it
    order_ok = not mrs or reports.index(mrs[0]) == len(reports) - 1
    return {"s": cls, "rr": rr, "mr": mr, "dup": dup, "exit": rc if rc is not None else -1, "nmsgreports": len(mrs) + len(other) + (0 if order_ok else 1),
            "seen": seen, "out": out.decode("latin1")[:200], "end": obs.get("phase_end")}


def to_server_script(rng, cls, multi_p=0.3, junk=None):
    sc = {}

    def one(ph, c):
        if c == "drop":
            return {"drop": True}
        if c == "junk":
            return {"raw": junk if junk is not None else rng.choice(JUNK), "code": 599}
        return {"code": code_for(rng, ph, c), "multi": rng.random() < multi_p}
    for ph in ("greet", "helo", "mail", "data", "dot"):
        c = cls[ph]
        sc[ph] = one(ph, c)
    for i, c in enumerate(cls["rcpt"]):
        sc["rcpt%d" % i] = one("rcpt", c)
    return sc


def fold_records(ck, tree, thorough):
    """qmail-rspawn relaying qmail-remote's result: every exit status / signal x outputs of <= 3 pieces"""
    pieces = [b"r\0", b"h\0", b"s\0", b"K\0", b"Z\0", b"D\0", b"x\0", b"\0", b"r", b"K", b"x", b"rx\0", b"Kx\0", b"hK\0",
              b"raccepted\0", b"Kmessage accepted\0", b"ZConnected but died\0", b"Dfailed\0", b"hdoes not like recipient\0", b"sdoes not like recipient\0"]
    combos = [()] + [(p,) for p in pieces] + list(itertools.product(pieces[:14], repeat=2))
    if thorough:
        combos += list(itertools.product(pieces[:11], repeat=3))
    else:
        combos += ck.rng.sample(list(itertools.product(pieces[:11], repeat=3)), 300)
    cases = []
    for cb in combos:
        out = b"".join(cb)
        cases.append((out, "exit 0"))
    # long texts (a server may say a lot: qmail-remote quotes up to 5000 bytes of it): the verdict letter must survive
    for n in (2900, 2960, 2999, 3000, 3001, 3100, 5200, 9000):
        for letter in (b"K", b"Z", b"D"):
            cases.append((b"r\0" + letter + b"Remote host said: " + b"2" * n + b"\n\0", "exit 0"))
            cases.append((letter + b"x" * n + b"\0", "exit 0"))
    for out in [b"", b"r\0K\0", b"K\0", b"r\0", b"h\0D\0", b"s\0Z\0", b"x"]:
        for ex in ("exit 1", "exit 100", "exit 111", "exit 99", "exit 255", "signal 9", "signal 11", "signal 15", "signal 6"):
            cases.append((out, ex))
    # a client that closes its output and dies a moment later: the end of its report must not be taken for the end of the client
    # (the relay waits for the exit status that belongs to THIS client; a slot's previous occupant exited 0)
    for rep in range(2):
        for out in [b"K\0", b"r\0K\0", b"Kmessage accepted\0", b"r\0"]:
            for ex in ("late signal 11", "late exit 100", "late exit 111", "late signal 9", "late exit 0"):
                cases.append((out, ex))
    ids = sandbox.write_ids(ck.scratch.path("ids"), tree.root)
    # a message file owned by the queue user
    q = os.path.join(tree.root, "queue", "mess", "1")
    os.makedirs(q, exist_ok=True)
    with open(os.path.join(q, "4"), "wb") as f:
        f.write(b"Subject: x\n\nbody\n")
    os.chown(os.path.join(q, "4"), sandbox.USERS["qmailq"], 0)
    recs = []
    B = 100
    for b0 in range(0, len(cases), B):
        batch = cases[b0:b0 + B]
        scripts_, stream = {}, b""
        for i, (out, ex) in enumerate(batch):
            name = "c%d" % i
            scripts_[name] = (out, ex)
            stream += spawnrun.mkcmd(i, b"1/4", b"s@x.test", (name + "@h.test").encode())
        r = spawnrun.run_rspawn(tree, ck.scratch.sub("fold"), stream, scripts_, ids)
        if r["hung"]:
            raise Infra("qmail-rspawn hung")
        byd = {}
        for dn, text, term in r["reports"]:
            byd.setdefault(dn, []).append(text)
        for i, (out, ex) in enumerate(batch):
            texts = byd.get(i, [])
            relayed = texts[0][0] if len(texts) == 1 and texts[0] else 0
            ex = ex[5:] if ex.startswith("late ") else ex
            excode = int(ex.split()[1]) if ex.startswith("exit") else 0
            recs.append({"kind": "fold", "ex": excode, "cr": 1 if ex.startswith("signal") else 0, "out": list(out), "relayed": relayed,
                         "nreports": len(texts), "exspec": ex})
    return recs


# ---------------------------------------------------------------------------- the time-out table (tcpto.c)
def tab_hex(tab, real=False):
    out = b""
    for ipid, f, w in tab:
        ip = (bytes([127, 0, 0, 1]) if real and ipid == 1 else bytes([10, 0, 0, ipid])) if ipid else bytes(4)
        out += ip + bytes([f & 255]) + bytes(3) + int(w).to_bytes(4, "little") + bytes(4)
    return out.hex() or "-"


def tcpto_seam_records(ck, tree, thorough):
    """every (table, call) of a bounded domain, and long random call sequences on the real 64-slot table, through the real
    tcpto() / tcpto_err() (harness/tcpto_seam.c); None if tcpto.c no longer has this shape"""
    try:
        exe = cc(os.path.join(tree.src, "tcpto_seam"), [os.path.join(HARNESS, "tcpto_seam.c")], cflags=["-I" + tree.src],
                 libs=[os.path.join(tree.src, l) for l in ("open.a", "lock.a", "str.a", "error.a", "substdio.a")])
    except Infra as e:
        log("C09: tcpto seam unavailable (%s)" % str(e)[:200])
        return None
    rng = ck.rng
    slot = [(0, 0, 0)] + [(a, f, w) for a in (1, 2) for f in (0, 1, 2, 3, 10) for w in (1000, 1060)]
    lines = []
    for t in itertools.product(slot, repeat=2):
        if t[0][0] and t[0][0] == t[1][0]:
            continue
        h = tab_hex(t)
        for ip in (1, 2, 3):
            for nw in (999, 1000, 1060 + 3839, 1060 + 3840, 1000 + 5823, 1000 + 5824, 1060 + 6207, 1060 + 6208):
                for pid in (0, 31, 7 + 32):
                    lines.append("L %s %d %d %d" % (h, ip, nw, pid))
            for was in (0, 1):
                for fe in (0, 1):
                    for nw in (1119, 1120, 1179, 1180, 500, 9000):
                        lines.append("E %s %d %d %d %d" % (h, was, ip, fe, nw))
    # three slots, seeded
    for _ in range(4000 if thorough else 800):
        t = [rng.choice(slot + [(3, rng.choice([1, 2, 5]), rng.choice([900, 1000, 2000]))]) for _ in range(3)]
        if len(set(x[0] for x in t if x[0])) != len([x for x in t if x[0]]):
            continue
        h = tab_hex(t)
        if rng.random() < 0.4:
            lines.append("L %s %d %d %d" % (h, rng.choice([1, 2, 3, 4]), rng.choice([1000, 2000, 5000, 7000, 8000]), rng.randrange(1, 70)))
        else:
            lines.append("E %s %d %d %d %d" % (h, rng.choice([0, 1]), rng.choice([1, 2, 3, 4]), rng.choice([0, 1]), rng.choice([1000, 1100, 1119, 1120, 1300, 3000])))
    # the real table size (64 slots): long sequences of attempts (lookup, then report) with an advancing clock and 70 addresses
    for s_ in range(5 if thorough else 3):
        lines.append("E %s 0 1 0 1000" % tab_hex([(0, 0, 0)] * 64))
        nw = 1000
        for _ in range(1500):
            nw += rng.choice([0, 1, 30, 119, 120, 121, 600, 4000])
            ip = rng.randrange(1, 71) if rng.random() < 0.7 else rng.randrange(1, 6)
            lines.append("l %d %d %d" % (ip, nw, rng.randrange(1, 64)))
            lines.append("e -1 %d %d %d" % (ip, 1 if rng.random() < 0.6 else 0, nw + rng.choice([0, 0, 2, 60])))
    work = ck.scratch.sub("tcpto")
    outf = os.path.join(work, "out.ndjson")
    r = run([exe, outf], input=("\n".join(lines) + "\n").encode(), cwd=work, timeout=600)
    if r.returncode != 0:
        raise Infra("tcpto seam harness failed (%d): %s" % (r.returncode, r.stdout.decode(errors="replace")[-300:]))
    recs = [json.loads(l) for l in open(outf)]
    if len(recs) != len(lines):
        raise Infra("tcpto seam: %d records for %d calls" % (len(recs), len(lines)))
    return recs


def tcpto_binary_records(ck, tree, thorough):
    """the real qmail-remote against a prepared table under the virtual clock: skipped / connects / is refused / times out"""
    import socket, subprocess, time
    recs = []
    tfile = os.path.join(tree.root, "queue", "lock", "tcpto")
    clock = ck.scratch.path("tcpto.clock")
    ep = smtpsrv.Endpoint(50)
    # a listener whose accept queue is full: connection attempts to it time out (control/timeoutconnect = 2 s)
    full = socket.socket()
    full.bind(("127.0.0.1", 0))
    full.listen(0)
    fill = []
    for _ in range(3):
        c = socket.socket()
        c.setblocking(False)
        try:
            c.connect(full.getsockname())
        except BlockingIOError:
            pass
        fill.append(c)
    with open(os.path.join(tree.root, "control", "smtproutes"), "w") as f:
        f.write(ep.route() + "\nclosed.test:127.0.0.1:1\nfull.test:127.0.0.1:%d\n" % full.getsockname()[1])
    for fn, v in (("timeoutconnect", "2"), ("timeoutremote", "5")):
        with open(os.path.join(tree.root, "control", fn), "w") as f:
            f.write(v + "\n")
    base = 1000000
    cases = []
    for f in (0, 1, 2, 5, 10):
        for age in (0, 100, 119, 120, 3839, 3840, 5000, 6207, 6208, 20000):
            for outcome in ("ok", "refused", "timeout"):
                if outcome == "timeout" and not thorough and (f, age) not in ((0, 0), (1, 119), (1, 120), (2, 6208), (2, 3840), (10, 20000), (5, 5000)):
                    continue          # (each costs the 2 s connect time-out)
                cases.append(([(1, f, base)], age, outcome))
    cases += [([(0, 0, 0)], 0, "timeout"), ([(0, 0, 0)], 0, "ok"), ([], 0, "timeout"), ([(2, 2, base), (1, 0, base)], 50, "timeout")]

    def one(case):
        tab, age, outcome = case
        with open(tfile, "wb") as f:
            f.write(bytes.fromhex(tab_hex(tab, real=True)) if tab else b"")
        os.chmod(tfile, 0o666)
        with open(clock, "w") as f:
            f.write("%d\n" % (base + age))
        host = {"ok": ep.host, "refused": "closed.test", "timeout": "full.test"}[outcome]
        env = sandbox.shim_env(tree, trace=ck.scratch.path("tcpto.trace"), role="remote", clock=clock)
        res = {}
        th = None
        if outcome == "ok":
            th = threading.Thread(target=lambda: res.update(obs=smtpsrv.serve(ep, {}, timeout=1.2)))
            th.start()
        p = subprocess.Popen([tree.bin("qmail-remote"), host, "s@sender.test", "r1@" + host], stdin=subprocess.PIPE, stdout=subprocess.PIPE, stderr=subprocess.PIPE, env=env, cwd=tree.root)
        pid = p.pid
        try:
            out, _ = p.communicate(b"Subject: t\n\nbody\n", timeout=30)
        except subprocess.TimeoutExpired:
            p.kill()
            out, _ = p.communicate()
        if th:
            th.join()
        connected = bool(res.get("obs", {}).get("cmds")) or (res.get("obs", {}).get("phase_end") not in (None, "noconnect")) if outcome == "ok" else None
        os.unlink(ck.scratch.path("tcpto.trace")) if os.path.exists(ck.scratch.path("tcpto.trace")) else None
        data = open(tfile, "rb").read()
        after = []
        for i in range(0, len(data) - 15, 16):
            r_ = data[i:i + 16]
            after.append([1 if r_[:4] == bytes([127, 0, 0, 1]) else (0 if r_[:4] == bytes(4) else (r_[3] if r_[:3] == bytes([10, 0, 0]) else 255)), r_[4] if r_[4] < 128 else r_[4] - 256, int.from_bytes(r_[8:12], "little")])
        mrs = [x for x in out.split(b"\0") if x[:1] in (b"K", b"Z", b"D")]
        noconn = bool(mrs) and b"wasn't able to establish an SMTP connection" in mrs[0]
        skipped = 1 if (outcome == "ok" and not connected) else (0 if outcome == "ok" else -1)
        return {"kind": "r", "tab": [list(x) for x in tab], "ip": 1, "now": base + age, "pidbits": pid & 31, "outcome": outcome, "skipped": skipped,
                "after": after, "mr": chr(mrs[0][0]) if mrs else "?", "noconn": 1 if noconn else 0, "out": out.decode("latin1")[:120]}
    for c in cases:
        recs.append(one(c))
    ep.close()
    full.close()
    for c in fill:
        c.close()
    return recs


def main():
    ap = argparse.ArgumentParser()
    ap.add_argument("--tier", default=os.environ.get("VERIF_TIER", "quick"))
    ap.add_argument("--replay")
    a = ap.parse_args()
    ck = Check("C09", a.tier)
    thorough = a.tier == "thorough"
    maxr = 3 if thorough else 2

    cfg = ck.scratch.path("RemoteModel.cfg")
    with open(cfg, "w") as f:
        f.write("SPECIFICATION Spec\nCONSTANT MaxRcpt = %d\nINVARIANT Sound\n" % (3 if thorough else 2))
    res = need_ok(tlc("RemoteModel", cfg, workers=NCPU, timeout=1500, heap="8g"), "RemoteModel")
    ck.add_tlc("RemoteModel", res)
    if res.violated:
        ck.model_violation("RemoteModel", res)
    cfg = ck.scratch.path("FoldModel.cfg")
    with open(cfg, "w") as f:
        f.write("SPECIFICATION Spec\nCONSTANT MaxPieces = %d\nINVARIANT Sound\n" % (4 if thorough else 3))
    res = need_ok(tlc("FoldModel", cfg, workers=NCPU, timeout=1500, heap="8g"), "FoldModel")
    ck.add_tlc("FoldModel", res)
    if res.violated:
        ck.model_violation("FoldModel", res)

    tree = build_tree(ck.scratch, split=3)
    rng = ck.rng
    if a.replay:
        case = json.load(open(a.replay))["case"]
        allcls = [case["s"]] if "s" in case else []
    else:
        allcls = scripts(maxr)
        if not thorough:
            # all single-recipient scripts, a seeded sample of the two-recipient ones
            one = [c for c in allcls if len(c["rcpt"]) == 1]
            two = [c for c in allcls if len(c["rcpt"]) == 2]
            allcls = one + rng.sample(two, min(len(two), 1500))
    jobs = []
    for cls in allcls:
        for rep in range(2 if len(cls["rcpt"]) == 1 else 1):
            jobs.append((cls, to_server_script(rng, cls, multi_p=0.0 if rep == 0 else 0.6), len(cls["rcpt"])))
    if not a.replay:
        # every malformed reply line at every phase of an otherwise accepting session
        for ph in ("greet", "helo", "mail", "rcpt", "data", "dot"):
            for j in JUNK:
                cls = {"greet": "ok", "helo": "ok", "mail": "ok", "rcpt": ["ok"], "data": "ok", "dot": "ok"}
                if ph == "rcpt":
                    for rc in (["junk"], ["ok", "junk"], ["junk", "ok"]):
                        c2 = dict(cls, rcpt=rc)
                        jobs.append((c2, to_server_script(rng, c2, 0.0, junk=j), len(rc)))
                else:
                    cls[ph] = "junk"
                    jobs.append((cls, to_server_script(rng, cls, 0.0, junk=j), 1))
    # reply texts with NUL bytes (single, separated, adjacent, shaped like report fields): the reports stay well framed
    if not a.replay:
        nul_texts = ["a\0b", "a\0b\0c", "a\0\0r\0\0Kforged acceptance", "\0\0", "x\0\0\0y", "\0r\0K\0"]
        for txt in nul_texts:
            for ph, code, c_ in (("mail", 250, "ok"), ("mail", 550, "5"), ("data", 354, "ok"), ("dot", 250, "ok"), ("dot", 451, "4"), ("dot", 554, "5")):
                cls = {"greet": "ok", "helo": "ok", "mail": "ok", "rcpt": ["ok"], "data": "ok", "dot": "ok"}
                cls[ph] = c_
                sc = to_server_script(rng, cls, 0.0)
                sc[ph] = {"code": code, "text": txt}
                jobs.append((cls, sc, 1))
            for rc_, codes_ in ((["5", "5"], (550, 550)), (["ok", "5"], (250, 550)), (["5", "ok"], (550, 250)), (["4", "ok", "5"], (451, 250, 550))):
                cls = {"greet": "ok", "helo": "ok", "mail": "ok", "rcpt": list(rc_), "data": "ok", "dot": "ok"}
                sc = to_server_script(rng, cls, 0.0)
                for i_, cd in enumerate(codes_):
                    sc["rcpt%d" % i_] = {"code": cd, "text": txt if i_ == 0 else "plain"}
                jobs.append((cls, sc, len(rc_)))
    # stalls (client time-out) at each phase, and no listener at all
    for ph in ("greet", "helo", "mail", "rcpt0", "data", "dot"):
        cls = {"greet": "ok", "helo": "ok", "mail": "ok", "rcpt": ["ok"], "data": "ok", "dot": "ok"}
        sc = to_server_script(rng, cls, 0.0)
        sc[ph] = {"stall": 3.5}
        if ph == "rcpt0":
            cls["rcpt"] = ["drop"]
        else:
            cls[ph] = "drop"
        jobs.append((cls, sc, 1))
    recs = run_scripts(ck, tree, jobs)
    # connect trouble: nothing listens
    import subprocess
    p = subprocess.run([tree.bin("qmail-remote"), "closed.test", "s@sender.test", "r1@closed.test"], input=b"Subject: x\n\nb\n", stdout=subprocess.PIPE, stderr=subprocess.PIPE, timeout=30)
    cls = {"greet": "drop", "helo": "ok", "mail": "ok", "rcpt": ["ok"], "data": "ok", "dot": "ok"}
    recs.append(observe(cls, {"cmds": []}, p.stdout, p.returncode))
    for r in recs:
        r.setdefault("fault", 0)
        r.setdefault("srvok", 0)
    # ---- one failing or short system call of qmail-remote itself per run, against a server that accepts everything
    if not a.replay:
        okcls = {"greet": "ok", "helo": "ok", "mail": "ok", "rcpt": ["ok"], "data": "ok", "dot": "ok"}
        ep = smtpsrv.Endpoint(70)
        with open(os.path.join(tree.root, "control", "smtproutes"), "a") as f:
            f.write(ep.route() + "\n")
        body = b"Subject: f\n\n" + b"".join(b"line %03d of the body\n" % i for i in range(120))
        tr = ck.scratch.path("rfault.trace")
        env0 = sandbox.shim_env(tree, trace=tr, role="remote")
        smtpsrv.run_remote(tree, ep, body, "s@sender.test", ["r1@" + ep.host], to_server_script(rng, okcls, 0.0), env=env0)
        ncalls = len([e for e in sandbox.read_trace(tr) if e.get("c") not in ("exit", "start", "hello")])
        if ncalls < 5:
            raise Infra("the traced qmail-remote made only %d intercepted calls" % ncalls)
        ep.close()
        feps = [smtpsrv.Endpoint(71 + i) for i in range(12)]
        with open(os.path.join(tree.root, "control", "smtproutes"), "a") as f:
            f.write("".join(e_.route() + "\n" for e_ in feps))
        fq = queue.Queue()
        for k in range(1, ncalls + 3):
            for what in (("5", "short1", "short300") if thorough or k % 3 == 0 else ("5",)):
                fq.put((k, what))
        frecs = []
        flock = threading.Lock()

        def fwork(e_):
            while True:
                try:
                    k, what = fq.get_nowait()
                except queue.Empty:
                    return
                t_ = ck.scratch.path("rfault.%d.%s.trace" % (k, what))
                env = sandbox.shim_env(tree, trace=t_, role="remote", extra={"VERIF_FAULT": "%d:%s" % (k, what)})
                obs, out, rc = smtpsrv.run_remote(tree, e_, body, "s@sender.test", ["r1@" + e_.host], to_server_script(rng, okcls, 0.0), env=env, timeout=3.0)
                hit = [x for x in sandbox.read_trace(t_) if x.get("inj") or (x.get("res") == -1 and x.get("e") == 5)]
                os.unlink(t_) if os.path.exists(t_) else None
                if hit and hit[0].get("c") == "write" and hit[0].get("fd") == 1:
                    continue          # the failing call was the write of the report itself: there is nothing left to judge
                rec = observe(okcls, obs, out, rc)
                pl = obs.get("payload")
                rec.update({"fault": 1, "srvok": 1 if (pl is not None and pl.endswith(b"\r\n.\r\n") and obs.get("phase_end") in ("quit", "clienteof", "none")) else 0, "junk": [], "note": "fault%d/%s" % (k, what)})
                with flock:
                    frecs.append(rec)
        fths = [threading.Thread(target=fwork, args=(e_,)) for e_ in feps]
        for t_ in fths:
            t_.start()
        for t_ in fths:
            t_.join()
        for e_ in feps:
            e_.close()
        recs += frecs
        nf = len(frecs)
        ck.cov["runs_with_one_failing_call_of_the_client"] = nf
    for r in recs:
        ck.count(json.dumps(r["s"], sort_keys=True) + r["out"][:1] + r.get("note", ""), nontrivial=r["s"]["greet"] == "ok")
    recfile = ck.scratch.path("c09.ndjson")
    write_ndjson(recfile, [{k: v for k, v in r.items() if k not in ("out", "end", "junk", "note")} for r in recs])
    bad, vres = tlc_validate_records("RemoteRec", "RemoteRec.cfg", recfile, len(recs), chunk=200)
    ck.add_tlc("RemoteRec", vres)
    ck.cov["traces_validated_against_impl"] = len(recs)
    ck.cov["remote_sessions"] = len(recs)
    for r in recs[:: max(1, len(recs) // 4)][:4]:
        ck.sample({"script": r["s"], "recipient_reports": r["rr"], "message_report": r["mr"], "possible_duplicate": r["dup"], "stdout": r["out"][:120]})
    best = {}
    for idx, why in bad:
        r = recs[idx - 1]
        why = why.strip('"') + ("(malformed reply)" if r.get("junk") else "")
        if why not in best or len(json.dumps(r["s"])) < len(json.dumps(best[why]["s"])):
            best[why] = r
    for why, r in sorted(best.items()):
        s = r["s"]
        key = "remote:%s:script=%s/%s/%s/%s/%s/%s" % (why, s["greet"], s["helo"], s["mail"], ",".join(s["rcpt"]), s["data"], s["dot"])
        if r.get("note"):
            key += ":" + r["note"]
        if r.get("junk"):
            key += ":reply=" + ",".join(j.encode("latin1").hex() for j in r["junk"])
        ck.violation(key, "server script %s%s -> reports %s %s dup=%s exit=%s (%r)" % (s, (" with malformed reply %r" % r["junk"]) if r.get("junk") else "", r["rr"], r["mr"], r["dup"], r["exit"], r["out"][:100]), r)

    # ---- the table of hosts that time out (tcpto.c): design, functions, binary
    if not a.replay:
        for name, consts in [("TcptoModel-1slot", " NProc = 2\n Ips = {1, 2}\n NSlots = 1\n Steps = {120, 3900}\n MaxTicks = 3\n Atomic = TRUE\n")] + \
                            ([("TcptoModel-1slot-4ticks", " NProc = 2\n Ips = {1, 2}\n NSlots = 1\n Steps = {119, 120, 3900, 6208}\n MaxTicks = 4\n Atomic = TRUE\n"),
                              ("TcptoModel-2slots", " NProc = 2\n Ips = {1, 2, 3}\n NSlots = 2\n Steps = {120, 3900}\n MaxTicks = 3\n Atomic = TRUE\n")] if thorough else []):
            cfg = ck.scratch.path(name + ".cfg")
            with open(cfg, "w") as f:
                f.write("SPECIFICATION Spec\nCONSTANTS\n" + consts + "INVARIANT SkipSound\nINVARIANT UniqueAddress\nINVARIANT FlagRange\n")
            res = need_ok(tlc("TcptoModel", cfg, workers=NCPU, timeout=2400, heap="12g"), name)
            ck.add_tlc(name, res)
            if res.violated:
                ck.model_violation(name, res)
        # sanity of the model: without the lock an address can get two slots; skipping does occur
        for name, consts, inv in (("TcptoModel-nolock", " NProc = 2\n Ips = {1, 2}\n NSlots = 2\n Steps = {120}\n MaxTicks = 1\n Atomic = FALSE\n", "UniqueAddress"),
                                  ("TcptoModel-skips", " NProc = 2\n Ips = {1, 2}\n NSlots = 1\n Steps = {120, 3900}\n MaxTicks = 3\n Atomic = TRUE\n", "NeverSkips")):
            cfg = ck.scratch.path(name + ".cfg")
            with open(cfg, "w") as f:
                f.write("SPECIFICATION Spec\nCONSTANTS\n" + consts + "INVARIANT " + inv + "\n")
            res = need_ok(tlc("TcptoModel", cfg, workers=NCPU, timeout=900, heap="8g"), name)
            if inv not in res.violated:
                raise Infra("sanity: %s should violate %s" % (name, inv))
        trecs = tcpto_seam_records(ck, tree, thorough) or []
        ck.cov["tcpto_seam_available"] = bool(trecs)
        ck.cov["tcpto_function_calls"] = len(trecs)
        brecs = tcpto_binary_records(ck, tree, thorough)
        ck.cov["tcpto_binary_runs"] = len(brecs)
        ck.cov["tcpto_binary_skips_observed"] = sum(1 for r in brecs if r["skipped"] == 1)
        allt = trecs + [{k: v for k, v in r.items() if k != "out"} for r in brecs]
        tfile = ck.scratch.path("tcpto.ndjson")
        write_ndjson(tfile, allt)
        tbad, tres = tlc_validate_records("TcptoRec", "TcptoRec.cfg", tfile, len(allt), chunk=500, timeout=3000, heap="12g")
        ck.add_tlc("TcptoRec", tres)
        ck.cov["traces_validated_against_impl"] += len(allt)
        for r in allt:
            ck.count(("tcpto", r["kind"], json.dumps(r["tab"]), r["ip"], r["now"], r.get("was", 0), r.get("flagerr", 0), r.get("outcome", "")), nontrivial=True)
        ck.sample({"tcpto_call": trecs[5] if trecs else None, "qmail_remote_run": brecs[7]})
        tbest = {}
        for idx, why in tbad:
            r = allt[idx - 1]
            why = why.strip('"')
            if why not in tbest or len(json.dumps(r["tab"])) < len(json.dumps(tbest[why]["tab"])):
                tbest[why] = r
        for why, r in sorted(tbest.items()):
            key = "tcpto:%s:%s:tab=%s:ip=%s:now=%s" % (why, r["kind"], json.dumps(r["tab"]).replace(" ", ""), r["ip"], r["now"])
            ck.violation(key, "table %s, %s -> %s" % (r["tab"], {k: v for k, v in r.items() if k not in ("tab", "after", "kind")}, r["after"]), r)

    # ---- relay by qmail-rspawn
    if not a.replay or "s" not in json.load(open(a.replay))["case"]:
        frecs = fold_records(ck, tree, thorough)
        ffile = ck.scratch.path("fold.ndjson")
        full = {"kind": "fold", "cmds": [], "limit": 0, "reports": [], "opens": [], "ran": [], "ex": 0, "cr": 0, "out": [], "relayed": 0}
        write_ndjson(ffile, [dict(full, **{k: v for k, v in r.items() if k not in ("nreports", "exspec")}) for r in frecs])
        fbad, fres = tlc_validate_records("SpawnRec", "SpawnRec.cfg", ffile, len(frecs), chunk=200)
        ck.add_tlc("SpawnRec(fold)", fres)
        ck.cov["traces_validated_against_impl"] += len(frecs)
        ck.cov["relay_cases"] = len(frecs)
        for r in frecs:
            ck.count(("fold", bytes(r["out"]), r["exspec"]), nontrivial=True)
            if r["nreports"] != 1:
                ck.violation("relay:NotExactlyOneReport:%s:%s" % (r["exspec"].replace(" ", ""), bytes(r["out"]).hex()[:40]),
                             "qmail-rspawn sent %d reports for one delivery" % r["nreports"], r)
        ck.sample({"qmail_remote_output": bytes(frecs[40]["out"]).decode("latin1"), "exit": frecs[40]["exspec"], "relayed_letter": chr(frecs[40]["relayed"]) if frecs[40]["relayed"] else ""})
        fbest = {}
        for idx, why in fbad:
            r = frecs[idx - 1]
            why = why.strip('"')
            if why not in fbest or len(r["out"]) < len(fbest[why]["out"]):
                fbest[why] = r
        for why, r in sorted(fbest.items()):
            ck.violation("relay:%s:%s:out=%s" % (why, r["exspec"].replace(" ", ""), bytes(r["out"]).hex()[:40]),
                         "qmail-remote output %r (%s) relayed as %r" % (bytes(r["out"]), r["exspec"], chr(r["relayed"]) if r["relayed"] else ""), r)
    ck.cov["rule"] = ("every server script over {expected, other<400, 4xx, 5xx, disconnect, malformed} per phase for 1 recipient (single- and multi-line replies, boundary codes), "
                      "%s for 2%s recipients, stalls at each phase, no listener; relay: every output of <=2 pieces (sampled 3) x exit 0 and 7 outputs x 9 exit/signal kinds; "
                      "non-trivial = the greeting was positive; distinct by (script, first output byte)" % ("all" if thorough else "a seeded sample of 1500", " and 3" if thorough else ""))
    ck.assumptions += ["the time-out table is exercised with the clock and the process id supplied by the harness (functions) and under the shim's virtual clock (binary); a connection attempt 'times out' against a listener whose accept queue is full",
                       "reply classes are represented by boundary codes and 15 malformed reply lines; 0xx/1xx/6xx+ codes and per-line differing codes are not generated",
                       "the possible-duplicate flag is observed as the text 'Possible duplicate' in the message report"]
    ck.finish()


if __name__ == "__main__":
    main_wrapper(main)
